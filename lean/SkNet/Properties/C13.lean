/-
C13 — Semi-supervised predictions respect the seeds and the local evidence.

Property theorems about the models of SkNet/Model/Vote.lean, Classify.lean, ClassMetrics.lean against the
specification of SkNet/Spec/Classify.lean.  Lemmas live in SkNet/Lemmas/Vote*.lean, Classify*.lean.
-/
import SkNet.Lemmas.VoteFit
import SkNet.Lemmas.VoteChecked
import SkNet.Lemmas.VoteTerminates
import SkNet.Lemmas.VoteTie
import SkNet.Lemmas.ClassifyDiffusionFit
import SkNet.Lemmas.ClassifyReach
import SkNet.Lemmas.ClassifyKnn
import SkNet.Lemmas.ClassifyRank
import SkNet.Lemmas.ClassMetrics
import SkNet.Lemmas.ClassifySelect
import SkNet.Lemmas.ClassifyKnnSpec
import SkNet.Lemmas.ClassifyStrong
import SkNet.Lemmas.ClassifyEquiv

namespace SkNet.C13
open SkNet SkNet.Classify

attribute [-simp] List.getD_eq_getElem?_getD

/-! ## Label propagation -/

/-- the 5-node witness of DESIGN §6 (F2): node 0 has neighbours 1 (label 0, weight 10), 2 and 3 (label 1,
    weight 1 each); node 4 hangs on node 3 with weight 4 -/
def witnessGraph : Csr Rat :=
  { nRow := 5, nCol := 5, indptr := #[0,3,4,5,7,8], indices := #[1,2,3,0,0,0,4,3], data := #[10,1,1,10,1,1,4,4] }

/-- ★ **vote_fixed_point** (kernel; about the nodes of the `index` argument — that these are all the nodes
    without a given label is `propagation_fixed_point`).  If a sweep of `vote_update` over distinct in-range nodes returns the
    labels it was given (non-negative weights), then every node of `index` with a labelled neighbour holds a
    non-negative label, carried by one of its neighbours, whose total vote among its neighbours is maximal. -/
theorem vote_fixed_point (c : Csr Rat) (labels : List Int) (index : List Nat)
    (hw : ∀ p, 0 ≤ c.data.getD p 0) (hnd : index.Nodup) (hi : ∀ i ∈ index, i < labels.length)
    (hfix : Vote.voteUpdate c labels index = labels) :
    Spec.fixedPointOK c labels index = true :=
  Vote.fixedPointOK_of_nodeOK c labels index (Vote.voteUpdate_fixed c hw labels index hnd hi hfix)

/-- non-vacuity: on the witness graph the labels `[0,0,1,1,1]` are a fixed point of the sweep over the two
    unlabelled nodes, reached from `[-1,0,1,1,-1]` in one sweep (weight 10 beats 1+1 at node 0) -/
example : Vote.voteUpdate witnessGraph [-1,0,1,1,-1] [0,4] = [0,0,1,1,1] ∧
    Vote.voteUpdate witnessGraph [0,0,1,1,1] [0,4] = [0,0,1,1,1] ∧
    (∀ p, 0 ≤ witnessGraph.data.getD p 0) := by
  exact ⟨by decide +kernel, by decide +kernel,
    Vote.getD_nonneg_of_forall _ (by decide +kernel)⟩

/-- The kernel as pinned (before the repair of F2) did **not** have the property: on the witness graph the
    sweep over nodes 0 and 4 leaves `[1,0,1,1,1]` unchanged, although label 0 has total vote 10 at node 0 and
    label 1 only 2.  (Replayed on the implementation: corpus/C13.jsonl, first line.) -/
theorem pinned_vote_not_fixed_point :
    Vote.Pinned.voteUpdate? witnessGraph [-1,0,1,1,-1] [0,4] = some [1,0,1,1,1] ∧
    Vote.Pinned.voteUpdate? witnessGraph [1,0,1,1,1] [0,4] = some [1,0,1,1,1] ∧
    Spec.fixedPointOK witnessGraph [1,0,1,1,1] [0,4] = false := by
  refine ⟨by decide +kernel, by decide +kernel, by decide +kernel⟩

/-- The pinned kernel also left its buffers: with fewer stored entries than nodes the read `data[jj]` is out
    of bounds, and a label `≥ n` is written past `votes` (the segfault of F2). -/
theorem pinned_vote_out_of_bounds :
    Vote.Pinned.voteUpdate? { nRow := 4, nCol := 4, indptr := #[0,1,1,1,1], indices := #[3], data := #[1] }
      [-1,0,1,2] [0] = none ∧
    Vote.Pinned.voteUpdate? { nRow := 2, nCol := 2, indptr := #[0,1,2], indices := #[1,0], data := #[1,1] }
      [7,9] [0] = none := by
  refine ⟨by decide +kernel, by decide +kernel⟩

/-- ★ **vote_fixed_point** (`Propagation.fit`).  When `fit` returns labels that a further sweep leaves unchanged
    — in particular when the loop stopped *because* a sweep changed nothing, see `propagation_stop_reason` and
    `sweep_changes_nothing` —, **every** node without a given label (every node at all when no label or a single
    class is given) that has a labelled neighbour holds a non-negative label, carried by a neighbour, whose total
    vote among its neighbours is maximal: edge weights when `weighted`, counts otherwise (`withWeights` replaces
    the data by ones).  The node order is any permutation of the nodes to update (`SigmaOK`: `k` distinct positions
    below `k`), so no node is left out (`reorder_complete`). -/
theorem propagation_fixed_point (c : Csr Rat) (hw : ∀ p, 0 ≤ c.data.getD p 0) (values : List Int)
    (a : Vote.PropArgs) (fuel : Nat) (hsig : Vote.SigmaOK a.sigma (Vote.instantiateVars values).2.length)
    (l : List Int) (t : Nat) (h : Vote.fit c values a fuel = some (l, t))
    (hstable : Vote.voteUpdate (Vote.withWeights c a.weighted) l (Vote.start values a.sigma).2 = l) :
    ∀ i, i < values.length → (Vote.singleClass values = true ∨ values.getD i (-1) < 0) →
      Spec.hasLabelledNeighbour (Vote.withWeights c a.weighted) l i = true →
      Spec.localMax (Vote.withWeights c a.weighted) l i = true := by
  have hinv := Vote.fitInv_result c hw values a fuel hsig l t h
  have hfp : Spec.fixedPointOK (Vote.withWeights c a.weighted) l (Vote.start values a.sigma).2 = true := by
    apply vote_fixed_point _ l _ (Vote.withWeights_nonneg c a.weighted hw)
    · exact Vote.reorder_nodup _ _ (Vote.instantiateVars_index_nodup values) hsig
    · intro i hi
      rw [hinv.len]
      exact Vote.instantiateVars_index_lt values i (Vote.mem_reorder _ _ hsig i hi)
    · exact hstable
  intro i hi hns hlab
  have hmem : i ∈ (Vote.start values a.sigma).2 :=
    Vote.reorder_complete _ _ hsig i ((Vote.mem_instantiateVars_index values i).mpr ⟨hi, hns⟩)
  unfold Spec.fixedPointOK at hfp
  have := List.all_eq_true.mp hfp i hmem
  rw [hlab] at this
  simpa using this

/-- **why the loop stopped** (`Propagation.fit`): the result is the `t`-th iterate of the sweep, and either the
    allowed number of sweeps is exhausted (`n_iter = t`) or the configuration `labels[index_remain]` of the result
    already occurred after an earlier sweep (`d < t`); `d = t - 1` is "the last sweep changed nothing". -/
theorem propagation_stop_reason (c : Csr Rat) (values : List Int) (a : Vote.PropArgs) (fuel : Nat)
    (l : List Int) (t : Nat) (h : Vote.fit c values a fuel = some (l, t)) :
    l = (fun l => Vote.voteUpdate (Vote.withWeights c a.weighted) l (Vote.start values a.sigma).2)^[t]
        (Vote.start values a.sigma).1 ∧
    (a.nIter = some t ∨ ∃ d, d < t ∧
      Vote.config ((fun l => Vote.voteUpdate (Vote.withWeights c a.weighted) l (Vote.start values a.sigma).2)^[d]
        (Vote.start values a.sigma).1) (Vote.start values a.sigma).2 = Vote.config l (Vote.start values a.sigma).2) := by
  rw [Vote.fit_eq] at h
  obtain ⟨_, h2, h3⟩ := Vote.propLoop_stop _ _ fuel a.nIter 0 [] _ l t h
  simp only [Nat.sub_zero] at h2 h3
  refine ⟨h2, ?_⟩
  rcases h3 with ⟨m, hm, ht⟩ | hk | hd
  · left
    rw [hm, ht]
    simp
  · cases hk
  · exact Or.inr hd

/-- a sweep that leaves `labels[index_remain]` unchanged leaves all labels unchanged, and so does every further
    sweep: this is the hypothesis `hstable` of `propagation_fixed_point` when the loop stops on that test. -/
theorem sweep_changes_nothing (c : Csr Rat) (l' : List Int) (index : List Nat)
    (h : Vote.config (Vote.voteUpdate c l' index) index = Vote.config l' index) :
    Vote.voteUpdate c (Vote.voteUpdate c l' index) index = Vote.voteUpdate c l' index := by
  have := (Vote.voteUpdate_config_iff c l' index).mp h
  rw [this, this]

/-- ★ **vote_fixed_point, the clause as the property states it**: when label propagation stops *because a sweep
    changes nothing* — `fit` made `t + 1` sweeps and the last one left `labels[index_remain]` as the `t`-th iterate had
    it —, every node without a given label (every node, with no label or a single class) that has a labelled neighbour
    holds a label whose total vote among its neighbours is maximal.  No stability hypothesis is left to discharge:
    it follows from `propagation_stop_reason` and `sweep_changes_nothing`. -/
theorem propagation_fixed_point_of_last_sweep (c : Csr Rat) (hw : ∀ p, 0 ≤ c.data.getD p 0) (values : List Int)
    (a : Vote.PropArgs) (fuel : Nat) (hsig : Vote.SigmaOK a.sigma (Vote.instantiateVars values).2.length)
    (l : List Int) (t : Nat) (h : Vote.fit c values a fuel = some (l, t + 1))
    (hlast : Vote.config
        ((fun l => Vote.voteUpdate (Vote.withWeights c a.weighted) l (Vote.start values a.sigma).2)^[t]
          (Vote.start values a.sigma).1) (Vote.start values a.sigma).2 = Vote.config l (Vote.start values a.sigma).2) :
    ∀ i, i < values.length → (Vote.singleClass values = true ∨ values.getD i (-1) < 0) →
      Spec.hasLabelledNeighbour (Vote.withWeights c a.weighted) l i = true →
      Spec.localMax (Vote.withWeights c a.weighted) l i = true := by
  obtain ⟨hl, _⟩ := propagation_stop_reason c values a fuel l (t + 1) h
  rw [Function.iterate_succ_apply'] at hl
  have hst : Vote.voteUpdate (Vote.withWeights c a.weighted) l (Vote.start values a.sigma).2 = l := by
    have h1 := sweep_changes_nothing (Vote.withWeights c a.weighted) _ (Vote.start values a.sigma).2
      (by rw [← hl]; exact hlast.symm)
    rw [← hl] at h1
    exact h1
  exact propagation_fixed_point c hw values a fuel hsig l (t + 1) h hst

/-- ★ **seeds_kept** (Propagation).  With at least two classes among the given labels, every seed keeps its
    label, whatever the number of sweeps, the node order and the weighting. -/
theorem propagation_seeds_kept (c : Csr Rat) (hw : ∀ p, 0 ≤ c.data.getD p 0) (values : List Int)
    (a : Vote.PropArgs) (fuel : Nat) (hsig : Vote.SigmaOK a.sigma (Vote.instantiateVars values).2.length)
    (hs : Vote.singleClass values = false)
    (l : List Int) (t : Nat) (h : Vote.fit c values a fuel = some (l, t)) :
    ∀ i, 0 ≤ values.getD i (-1) → l.getD i (-1) = values.getD i (-1) := by
  intro i hseed
  have hinv := Vote.fitInv_result c hw values a fuel hsig l t h
  obtain ⟨hnot, hval⟩ := Vote.instantiateVars_seed values hs i hseed
  rw [hinv.out i (-1) (fun hm => hnot (Vote.mem_reorder _ _ hsig i hm))]
  exact hval

/-- ★ **labels_in_seed_set** (Propagation).  Every predicted label is one of the labels the loop started
    from: a seed label or `-1` (with no label or a single class: the node indices). -/
theorem propagation_labels_in_seed_set (c : Csr Rat) (hw : ∀ p, 0 ≤ c.data.getD p 0) (values : List Int)
    (a : Vote.PropArgs) (fuel : Nat) (hsig : Vote.SigmaOK a.sigma (Vote.instantiateVars values).2.length)
    (l : List Int) (t : Nat) (h : Vote.fit c values a fuel = some (l, t)) :
    l.length = values.length ∧ ∀ x ∈ l, x ∈ (Vote.instantiateVars values).1 := by
  have hinv := Vote.fitInv_result c hw values a fuel hsig l t h
  exact ⟨hinv.len, hinv.sub⟩

/-- non-vacuity of the three theorems above: `fit` on the witness graph with seeds `{1:0, 2:1, 3:1}` in the
    order `[4, 0]` (a permutation of the two positions) stops after two sweeps on a stable configuration. -/
example : Vote.fit witnessGraph [-1,0,1,1,-1] { sigma := some [1,0] } 10 = some ([0,0,1,1,1], 2) ∧
    Vote.SigmaOK (some [1,0]) (Vote.instantiateVars [-1,0,1,1,-1]).2.length ∧
    Vote.singleClass [-1,0,1,1,-1] = false ∧
    Vote.voteUpdate (Vote.withWeights witnessGraph true) [0,0,1,1,1] (Vote.start [-1,0,1,1,-1] (some [1,0])).2
      = [0,0,1,1,1] := by
  refine ⟨by decide +kernel, ?_, by decide +kernel, by decide +kernel⟩
  intro s hs
  cases hs
  exact ⟨by decide, by decide +kernel, by decide +kernel⟩

/-- ★ **Propagation from the raw input** (square or biadjacency matrix, seeds as array / list / dict in `labels`,
    `labels_row`, `labels_col`).  `get_adjacency_values` hands on non-negative weights (block adjacency for a
    bipartite input), so for whatever `fit` returns: with at least two classes every seed keeps its label; every
    label is one of the starting labels; and if a further sweep changes nothing, every node without a given label
    that has a labelled neighbour holds a label of maximal total vote. -/
theorem propagation_from_input (c : Csr Rat) (hw : ∀ p, 0 ≤ c.data.getD p 0) (v r cc : Seeds) (rt : Routed)
    (hrt : adjacencyValues c false v r cc = .ok rt) (a : Vote.PropArgs) (fuel : Nat)
    (hsig : Vote.SigmaOK a.sigma (Vote.instantiateVars rt.values).2.length)
    (l : List Int) (t : Nat) (h : Vote.fit rt.adj rt.values a fuel = some (l, t)) :
    (Vote.singleClass rt.values = false → ∀ i, 0 ≤ rt.values.getD i (-1) → l.getD i (-1) = rt.values.getD i (-1)) ∧
    (l.length = rt.values.length ∧ ∀ x ∈ l, x ∈ (Vote.instantiateVars rt.values).1) ∧
    (Vote.voteUpdate (Vote.withWeights rt.adj a.weighted) l (Vote.start rt.values a.sigma).2 = l →
      ∀ i, i < rt.values.length → (Vote.singleClass rt.values = true ∨ rt.values.getD i (-1) < 0) →
        Spec.hasLabelledNeighbour (Vote.withWeights rt.adj a.weighted) l i = true →
        Spec.localMax (Vote.withWeights rt.adj a.weighted) l i = true) := by
  have hw' := routed_nonneg c hw false v r cc rt hrt
  exact ⟨fun hs => propagation_seeds_kept rt.adj hw' rt.values a fuel hsig hs l t h,
    propagation_labels_in_seed_set rt.adj hw' rt.values a fuel hsig l t h,
    fun hst => propagation_fixed_point rt.adj hw' rt.values a fuel hsig l t h hst⟩

/-- non-vacuity: a 2 × 3 biadjacency matrix with `labels_row = {0: 4}` (dict) and `labels_col = [-1, 9, -1]` -/
example : ((adjacencyValues { nRow := 2, nCol := 3, indptr := #[0,2,3], indices := #[0,1,2], data := #[1,2,3] } false
      .none (.dict [(0, 4)]) (.arr [-1, 9, -1])).map fun rt => (rt.values, Vote.fit rt.adj rt.values {} 10))
    = .ok ([4,-1,-1,9,-1], some ([4,-1,4,9,-1], 2)) := by decide +kernel

/-- ★ **vote_update, exactly** (one node).  The update of node `i` leaves every other label alone and writes:
    the old label if `i` has no labelled neighbour; otherwise a non-negative label carried by a neighbour whose
    total vote is maximal and — the tie rule — strictly larger than the vote of every smaller neighbour
    label.  This determines the written label uniquely (the smallest label of maximal vote), so the kernel
    model is a function of the specification `score` alone. -/
theorem vote_update_node_exact (c : Csr Rat) (hw : ∀ p, 0 ≤ c.data.getD p 0) (labels : List Int) (i : Nat) :
    ∃ r : Int, Vote.voteUpdate c labels [i] = labels.set i r ∧
      (Spec.hasLabelledNeighbour c labels i = false → r = labels.getD i (-1)) ∧
      (Spec.hasLabelledNeighbour c labels i = true →
        0 ≤ r ∧ (∃ e ∈ c.row i, labels.getD e.1 (-1) = r) ∧
        ∀ e ∈ c.row i, 0 ≤ labels.getD e.1 (-1) →
          Spec.score c labels i (labels.getD e.1 (-1)) ≤ Spec.score c labels i r ∧
          (labels.getD e.1 (-1) < r →
            Spec.score c labels i (labels.getD e.1 (-1)) < Spec.score c labels i r)) :=
  Vote.voteUpdate_single c hw labels i

/-- non-vacuity: a tie (label 1 and label 3 both have total vote 1 at node 1 of an unweighted path): the
    smaller label is written -/
example : Vote.voteUpdate { nRow := 3, nCol := 3, indptr := #[0,1,3,4], indices := #[1,0,2,1], data := #[1,1,1,1] }
    [3,-1,1] [1] = [3,1,1] := by decide +kernel

/-- ★ **vote_update stays within its buffers** (the out-of-bounds half of F2, repaired kernel).  On a CSR
    matrix as scipy builds it (`Csr.WF`), square over the nodes, with non-negative weights and an update index
    below the number of nodes, the kernel with *every* array access checked never fails — `votes` sized by the
    largest label + 1 has a cell for every label it is asked for, whatever the label values — and it computes
    exactly `voteUpdate`.  Contrast `pinned_vote_out_of_bounds`. -/
theorem vote_update_in_bounds (c : Csr Rat) (hwf : c.WF = true) (hw : ∀ p, 0 ≤ c.data.getD p 0)
    (labels : List Int) (hrow : c.nRow = labels.length) (hcol : c.nCol = labels.length) (index : List Nat)
    (hi : ∀ i ∈ index, i < labels.length) :
    Vote.Checked.voteUpdate? c labels index = some (Vote.voteUpdate c labels index) :=
  Vote.voteUpdate?_eq c hwf hw labels hrow hcol index hi

/-- non-vacuity: the witness graph is well formed; labels far beyond the number of nodes are in bounds -/
example : witnessGraph.WF = true ∧
    Vote.Checked.voteUpdate? witnessGraph [-1,1000,7,7,-1] [0,4] = some [1000,1000,7,7,7] :=
  ⟨by decide +kernel, by decide +kernel⟩

/-- the directed 3-cycle 0 → 1 → 2 → 0 (F18) -/
def dicycle3 : Csr Rat :=
  { nRow := 3, nCol := 3, indptr := #[0,1,2,3], indices := #[1,2,0], data := #[1,1,1] }

/-- ○ **vote_oscillates** (F18).  On the directed 3-cycle, with every node updated, the sweep never reaches a
    fixed point: `[1,2,1] ↦ [2,1,2] ↦ [1,2,1]`.  The pinned loop (stop only when a sweep changes nothing) did not
    terminate with the default `n_iter = -1`; the repaired loop also stops when a configuration comes back: from
    the own-label start `[0,1,2]` it returns after 3 sweeps.  (Replayed on the implementation: corpus/C13.jsonl.) -/
theorem vote_oscillates :
    Vote.voteUpdate dicycle3 [1,2,1] [0,1,2] = [2,1,2] ∧ Vote.voteUpdate dicycle3 [2,1,2] [0,1,2] = [1,2,1] ∧
    Vote.fit dicycle3 [1,1,1] {} 100 = some ([1,2,1], 3) := by
  refine ⟨by decide +kernel, by decide +kernel, by decide +kernel⟩

/-- ★ **propagation_terminates** (F18, the loop with the seen-set test and *no* bound on the number of sweeps; the code
    additionally caps a negative `n_iter` at `n + 1` sweeps, see `propagation_default_terminates`).  Without any bound
    `Propagation.fit` terminates on every graph, directed or not: the configurations `labels[index_remain]` are
    lists of a fixed length over the initial labels, finitely many, and the loop stops as soon as one comes
    back.  The stated fuel is that number plus one; `vote_oscillates` shows that stopping only on "a sweep
    changes nothing" (the pinned loop) is not enough. -/
theorem propagation_terminates (c : Csr Rat) (hw : ∀ p, 0 ≤ c.data.getD p 0) (values : List Int)
    (a : Vote.PropArgs) (hsig : Vote.SigmaOK a.sigma (Vote.instantiateVars values).2.length)
    (hn : a.nIter = none) :
    Vote.fit c values a
      ((Vote.allLists (Vote.start values a.sigma).1 (Vote.start values a.sigma).2.length).length + 1) ≠ none :=
  Vote.fit_terminates c hw values a hsig hn

/-- ★ **propagation_default_terminates** (the loop as the code runs it since be74e3a8): a negative `n_iter` allows
    `n + 1` sweeps, `n` the number of nodes, so `fit` returns with fuel `n + 2` on every input, after at most `n + 1`
    sweeps (`propLoop_sweeps`); the test on configurations already seen is unchanged (`propagation_stop_reason`).
    `propagation_terminates` above is the statement about the loop without that cap. -/
theorem propagation_default_terminates (c : Csr Rat) (values : List Int) (a : Vote.PropArgs) (nIterArg : Option Nat)
    (ha : a.nIter = some (Vote.sweepLimit nIterArg values.length)) :
    Vote.fit c values a (Vote.sweepLimit nIterArg values.length + 1) ≠ none :=
  Vote.fit_default_terminates c values a nIterArg ha

example : Vote.fit dicycle3 [1,1,1] { nIter := some (Vote.sweepLimit none 3) } 5 = some ([1,2,1], 3) := by
  decide +kernel

/-- the loop of `fit` makes at most `n_iter` sweeps, and at most `fuel` -/
theorem propLoop_sweeps (step key : List Int → List Int) :
    ∀ (fuel : Nat) (nIter : Option Nat) (t : Nat) (seen : List (List Int)) (labels l : List Int) (t' : Nat),
      Vote.propLoop step key fuel nIter t seen labels = some (l, t') →
      t ≤ t' ∧ t' < t + fuel ∧ ∀ m, nIter = some m → t' ≤ t + m := by
  intro fuel
  induction fuel with
  | zero => intro nIter t seen labels l t' h; simp [Vote.propLoop] at h
  | succ fuel ih =>
    intro nIter t seen labels l t' h
    unfold Vote.propLoop at h
    split at h
    · simp only [Option.some.injEq, Prod.mk.injEq] at h
      refine ⟨by omega, by omega, fun m _ => by omega⟩
    · rename_i hc
      obtain ⟨h1, h2, h3⟩ := ih _ _ _ _ _ _ h
      refine ⟨by omega, by omega, ?_⟩
      intro m hm
      subst hm
      cases m with
      | zero => simp at hc
      | succ m =>
        have := h3 m (by simp)
        omega

/-! ## DiffusionClassifier -/

/-- a path 0–1–2–3 with unequal weights and an isolated node 4 -/
def pathGraph : Csr Rat :=
  { nRow := 5, nCol := 5, indptr := #[0,1,3,5,6,6], indices := #[1,0,2,1,3,2], data := #[2,2,1,1,3,3] }

/-- ★ **seeds_kept** (DiffusionClassifier).  With non-negative weights every seed keeps its label, with or
    without centring: the clamped temperatures stay in [0,1] (maximum principle), the row of a seed stays
    one-hot, every class has a positive column mean and no column mean exceeds 1, so centring leaves the
    arg-max of a seed row on its own class; seeds are at distance 0 and are never reset. -/
theorem diffusion_seeds_kept (c : Csr Rat) (hw : ∀ p, 0 ≤ c.data.getD p 0) (labels : List Int) (nIter : Nat)
    (centering : Bool) (o : Diffusion.Out) (h : Diffusion.fit c labels nIter centering = .ok o) :
    Spec.seedsKept labels o.labels = true := by
  have hp := Diffusion.fit_parts c labels nIter centering o h
  unfold Spec.seedsKept
  simp only [Bool.and_eq_true, beq_iff_eq, List.all_eq_true, List.mem_range, Bool.or_eq_true,
    decide_eq_true_eq]
  refine ⟨Diffusion.labels_length c labels nIter centering o hp, ?_⟩
  intro i _
  by_cases hs : labels.getD i (-1) < 0
  · exact Or.inl hs
  · exact Or.inr (Diffusion.seeds_kept c hw labels nIter centering o h i (by omega))

/-- ★ **maximum principle** (the fact `seeds_kept` rests on; C14 states it for the regression variant): without
    centring every temperature of the result lies in [0, 1], for any number of iterations. -/
theorem diffusion_temperatures_unit (c : Csr Rat) (hw : ∀ p, 0 ≤ c.data.getD p 0) (labels : List Int) (nIter : Nat)
    (o : Diffusion.Out) (h : Diffusion.fit c labels nIter false = .ok o) :
    ∀ i q, 0 ≤ getCell o.temps i q ∧ getCell o.temps i q ≤ 1 := by
  have hp := Diffusion.fit_parts c labels nIter false o h
  intro i q
  rw [hp.temps]
  simp only [Bool.false_eq_true, if_false]
  exact Diffusion.unit01_final c hw labels nIter i q

/-- ★ **labels_in_seed_set** (DiffusionClassifier): every predicted label is a seed label or `-1`. -/
theorem diffusion_labels_in_seed_set (c : Csr Rat) (labels : List Int) (nIter : Nat)
    (centering : Bool) (o : Diffusion.Out) (h : Diffusion.fit c labels nIter centering = .ok o) :
    Spec.labelsOK labels o.labels = true := by
  have hp := Diffusion.fit_parts c labels nIter centering o h
  have hlen := Diffusion.labels_length c labels nIter centering o hp
  unfold Spec.labelsOK
  simp only [List.all_eq_true, Bool.or_eq_true, beq_iff_eq, Bool.and_eq_true, decide_eq_true_eq,
    List.contains_iff_mem]
  intro x hx
  obtain ⟨i, hi, rfl⟩ := List.mem_iff_getElem.mp hx
  have hi' : i < labels.length := by omega
  have hget : o.labels[i] = o.labels.getD i (-1) := by
    rw [List.getD_eq_getElem?_getD, List.getElem?_eq_getElem hi]
    rfl
  rw [hget]
  rcases Diffusion.label_cases c labels nIter centering o hp i hi' with ⟨_, h1⟩ | ⟨_, h1, h2⟩
  · exact Or.inl h1
  · exact Or.inr ⟨h2, h1⟩

/-- ★ **diffusion_minus_one_iff**.  A node gets `-1` exactly when no walk from a seed reaches it; on an
    undirected graph (symmetric `hasEdge`) these are exactly the nodes of the components without a seed.
    (`reached` is the sign of `get_distances(adjacency, source=seeds)`; `reached_iff` ties it to walks.) -/
theorem diffusion_minus_one_iff (c : Csr Rat) (labels : List Int) (nIter : Nat)
    (centering : Bool) (o : Diffusion.Out) (h : Diffusion.fit c labels nIter centering = .ok o)
    (i : Nat) (hi : i < labels.length) :
    o.labels.getD i (-1) = -1 ↔
      ¬ Spec.Reach labels.length (hasEdge c) (fun v => decide (0 ≤ labels.getD v (-1))) i := by
  have hp := Diffusion.fit_parts c labels nIter centering o h
  rw [← reached_iff, ← hp.reach]
  rcases Diffusion.label_cases c labels nIter centering o hp i hi with ⟨h0, h1⟩ | ⟨h0, _, h2⟩
  · rw [h0, h1]
    simp
  · constructor
    · intro hm
      omega
    · intro hn
      exact absurd h0 hn

/-- ★ **diffusion_minus_one_iff, components**.  On an undirected graph (the stored pattern is symmetric)
    DiffusionClassifier gives `-1` exactly to the nodes of the components without a seed. -/
theorem diffusion_minus_one_iff_component (c : Csr Rat) (labels : List Int) (nIter : Nat)
    (centering : Bool) (o : Diffusion.Out) (h : Diffusion.fit c labels nIter centering = .ok o)
    (hsym : ∀ u v, u < labels.length → v < labels.length → hasEdge c u v = hasEdge c v u)
    (i : Nat) (hi : i < labels.length) :
    o.labels.getD i (-1) = -1 ↔
      ¬ ∃ s, 0 ≤ labels.getD s (-1) ∧ Spec.Conn labels.length (hasEdge c) s i := by
  rw [diffusion_minus_one_iff c labels nIter centering o h i hi, reach_iff_component _ hsym]
  simp

/-- ★ **probability rows** (DiffusionClassifier with centring): whatever positive function stands for `np.exp`,
    every row of `normalize(exp(scale · temperatures))` is non-negative and sums to 1; rows of unreached nodes are
    null. -/
theorem diffusion_soft_rows (o : Diffusion.Out) (scale : Rat) (expf : Rat → Rat) (hexp : ∀ x, 0 < expf x) :
    ∀ row ∈ Diffusion.probsSoft o scale expf, Spec.rowOK 0 row = true := by
  intro row hrow
  unfold Diffusion.probsSoft at hrow
  obtain ⟨i, _, rfl⟩ := (mem_tab _ _ _).mp hrow
  split
  · apply normalizeRow_rowOK
    intro x hx
    obtain ⟨y, _, rfl⟩ := List.mem_map.mp hx
    exact le_of_lt (hexp _)
  · unfold Spec.rowOK
    simp only [Bool.and_eq_true, List.all_eq_true, decide_eq_true_eq, Bool.or_eq_true]
    refine ⟨?_, Or.inr ?_⟩
    · intro x hx
      obtain ⟨_, _, rfl⟩ := List.mem_map.mp hx
      exact le_refl 0
    · rw [Diffusion.rsum_map_zero, rabs_zero]

/-- the executable form used by the `spec` lines: `-1` iff not reached, for all nodes at once -/
theorem diffusion_minusOneIff_spec (c : Csr Rat) (labels : List Int) (nIter : Nat)
    (centering : Bool) (o : Diffusion.Out) (h : Diffusion.fit c labels nIter centering = .ok o) :
    Spec.minusOneIff o.labels o.reached = true := by
  have hp := Diffusion.fit_parts c labels nIter centering o h
  have hlen := Diffusion.labels_length c labels nIter centering o hp
  unfold Spec.minusOneIff
  simp only [List.all_eq_true, List.mem_range, beq_iff_eq]
  intro i hi
  have hi' : i < labels.length := by omega
  have h0 : o.labels.getD i 0 = o.labels.getD i (-1) := by
    rw [List.getD_eq_getElem?_getD, List.getD_eq_getElem?_getD, List.getElem?_eq_getElem hi]
    rfl
  rw [h0]
  rcases Diffusion.label_cases c labels nIter centering o hp i hi' with ⟨hr, h1⟩ | ⟨hr, _, h2⟩
  · rw [hr, h1]
    rfl
  · have : o.labels.getD i (-1) ≠ -1 := by omega
    rw [hr]
    simpa using this

/-- ★ **probability rows** (DiffusionClassifier without centring): every row of `normalize(temperatures)` is
    non-negative and sums to 1, or to 0 (rows of unreached nodes are null). With centring the rows go
    through `np.exp`, outside the model: they are checked on the implementation by the row specification. -/
theorem diffusion_plain_rows (c : Csr Rat) (hw : ∀ p, 0 ≤ c.data.getD p 0) (labels : List Int) (nIter : Nat)
    (o : Diffusion.Out) (h : Diffusion.fit c labels nIter false = .ok o) :
    ∀ row ∈ Diffusion.probsPlain o, Spec.rowOK 0 row = true := by
  have hp := Diffusion.fit_parts c labels nIter false o h
  intro row hrow
  unfold Diffusion.probsPlain at hrow
  obtain ⟨i, _, rfl⟩ := (mem_tab _ _ _).mp hrow
  split
  · apply normalizeRow_rowOK
    intro x hx
    obtain ⟨q, hq, rfl⟩ := List.mem_iff_getElem.mp hx
    have := Diffusion.getElem_getRow o.temps i q hq
    rw [this, hp.temps]
    simp only [Bool.false_eq_true, if_false]
    exact (Diffusion.unit01_final c hw labels nIter i q).1
  · unfold Spec.rowOK
    simp only [Bool.and_eq_true, List.all_eq_true, decide_eq_true_eq, Bool.or_eq_true]
    refine ⟨?_, Or.inr ?_⟩
    · intro x hx
      obtain ⟨_, _, rfl⟩ := List.mem_map.mp hx
      exact le_refl 0
    · rw [Diffusion.rsum_map_zero, rabs_zero]

/-- non-vacuity: seeds `{0: 3, 3: 5}` on the weighted path with an isolated node, two iterations, centring -/
example : (∀ p, 0 ≤ pathGraph.data.getD p 0) ∧
    (Diffusion.fit pathGraph [3,-1,-1,5,-1] 2 true).map (·.labels) = .ok [3,3,5,5,-1] ∧
    (Diffusion.fit pathGraph [3,-1,-1,5,-1] 2 false).map (·.labels) = .ok [3,3,5,5,-1] :=
  ⟨Vote.getD_nonneg_of_forall _ (by decide +kernel), by decide +kernel, by decide +kernel⟩

/-- ★ **probability rows** (Propagation): every row of `normalize(adjacency.dot(membership))` is non-negative
    and sums to 1, or to 0 when the node has no labelled neighbour (non-negative weights). -/
theorem propagation_rows (c : Csr Rat) (hw : ∀ p, 0 ≤ c.data.getD p 0) (labels : List Int) (i : Nat) :
    Spec.rowOK 0 (Propagation.probsRow c labels i) = true :=
  propagation_probsRow_ok c hw labels i

/-- ★ **probability rows, as the property states them** (Propagation): the row of node `i` sums to 1 when a
    label reaches it — a neighbour with a non-negative label through an entry of positive weight — and to 0
    exactly when none does. -/
theorem propagation_rows_strong (c : Csr Rat) (hw : ∀ p, 0 ≤ c.data.getD p 0) (labels : List Int) (i : Nat) :
    Spec.rowStrong 0 (Spec.propReaches c labels i) (Propagation.probsRow c labels i) = true :=
  propagation_row_strong c hw labels i

example : Spec.propReaches witnessGraph [0,0,1,1,1] 0 = true ∧
    Propagation.probsRow witnessGraph [0,0,1,1,1] 0 = [5/6, 1/6] ∧
    Spec.propReaches pathGraph [3,-1,-1,5,-1] 4 = false := by
  refine ⟨by decide +kernel, by decide +kernel, by decide +kernel⟩

/-- ★ **probability rows, as the property states them** (DiffusionClassifier, default `centering=True`, any positive
    function for `np.exp`): 1 on every node reached from the seeds, 0 on every other node. -/
theorem diffusion_soft_rows_strong (c : Csr Rat) (labels : List Int) (nIter : Nat) (o : Diffusion.Out)
    (h : Diffusion.fit c labels nIter true = .ok o) (scale : Rat) (expf : Rat → Rat) (hexp : ∀ x, 0 < expf x)
    (i : Nat) (hi : i < labels.length) :
    Spec.rowStrong 0 (o.reached.getD i false) (getRow (Diffusion.probsSoft o scale expf) i) = true :=
  Diffusion.soft_row_strong c labels nIter o h scale expf hexp i hi

/-- ★ (DiffusionClassifier, `centering=False`, any graph): 0 on the unreached nodes; on a reached node 1, unless all
    its temperatures are null (a node of a directed graph that the distances reach but no heat does). -/
theorem diffusion_plain_rows_strong (c : Csr Rat) (hw : ∀ p, 0 ≤ c.data.getD p 0) (labels : List Int) (nIter : Nat)
    (o : Diffusion.Out) (h : Diffusion.fit c labels nIter false = .ok o) (i : Nat) (hi : i < labels.length) :
    Spec.rowStrong 0 (o.reached.getD i false && !(getRow o.temps i).all (· == 0))
      (getRow (Diffusion.probsPlain o) i) = true :=
  Diffusion.plain_row_strong c hw labels nIter o h i hi

/-- ★ (DiffusionClassifier, `centering=False`, undirected graph): 1 on every node of a component with a seed, 0 on
    every other node — every reached node keeps a positive temperature through the clamped iterations. -/
theorem diffusion_plain_rows_strong_undirected (c : Csr Rat) (hw : ∀ p, 0 ≤ c.data.getD p 0) (labels : List Int)
    (nIter : Nat) (o : Diffusion.Out) (h : Diffusion.fit c labels nIter false = .ok o)
    (hsym : ∀ u v, u < labels.length → v < labels.length → hasEdge c u v = hasEdge c v u)
    (i : Nat) (hi : i < labels.length) :
    Spec.rowStrong 0 (o.reached.getD i false) (getRow (Diffusion.probsPlain o) i) = true :=
  Diffusion.plain_row_strong_sym c hw labels nIter o h hsym i hi

/-- non-vacuity of the hypotheses `hsym` (used here and by `diffusion_minus_one_iff_component`): the stored pattern of
    the weighted path is symmetric -/
example : ∀ u v, u < 5 → v < 5 → hasEdge pathGraph u v = hasEdge pathGraph v u :=
  fun u v hu hv =>
    (by decide +kernel : ∀ a, a < 5 → ∀ b, b < 5 → hasEdge pathGraph a b = hasEdge pathGraph b a) u hu v hv

/-! ## NNClassifier -/

/-- the selection contract of `np.argpartition(distances, k)[:k]` as far as the classifier needs it: `k`
    positions of labelled nodes -/
def SelOK (sel : Nat → List Rat → Nat → List Nat) : Prop :=
  ∀ i ds k, k < ds.length → IsSmallestK ds k (sel i ds k) = true

/-- ★ the selection used by the `run` lines (`smallestK`: the `k` smallest keys, ties by position) satisfies the
    contract of `np.argpartition`: the theorems below apply to the executable model as it is run. -/
theorem smallestK_contract : SelOK (fun _ ds k => smallestK ds k) :=
  fun _ ds k hk => smallestK_spec ds k (Nat.le_of_lt hk)

/-- ★ **seeds_kept** (NNClassifier): a labelled node gets a one-hot row and keeps its label, for any
    selection of neighbours. -/
theorem knn_seeds_kept (emb : List (List Rat)) (labels : List Int) (kArg : Nat)
    (sel : Nat → List Rat → Nat → List Nat) (o : Knn.Out) (h : Knn.fitCore emb labels kArg sel = some o) :
    ∀ i, 0 ≤ labels.getD i (-1) → o.labels.getD i (-1) = labels.getD i (-1) :=
  fun i hseed => Knn.seeds_kept emb labels kArg sel o h i hseed

/-- ★ **probability rows** (NNClassifier): every row of `probs_` is non-negative and sums to 1 (or to 0 when
    no neighbour is selected). -/
theorem knn_rows (emb : List (List Rat)) (labels : List Int) (kArg : Nat)
    (sel : Nat → List Rat → Nat → List Nat) (o : Knn.Out) (h : Knn.fitCore emb labels kArg sel = some o) :
    ∀ r ∈ o.probs, Spec.rowOK 0 r = true :=
  Knn.rows_ok emb labels kArg sel o h

/-- ★ **labels_in_seed_set** (NNClassifier): with at least two labelled nodes and `n_neighbors ≥ 1`, for any
    selection satisfying the contract of `np.argpartition`, the label predicted for an unlabelled node is the
    label of one of its selected labelled neighbours — in particular a seed label, never `-1`. -/
theorem knn_labels_in_seed_set (emb : List (List Rat)) (labels : List Int) (kArg : Nat)
    (sel : Nat → List Rat → Nat → List Nat) (hsel : SelOK sel) (o : Knn.Out)
    (h : Knn.fitCore emb labels kArg sel = some o) (hk : 1 ≤ kArg) (h2 : 2 ≤ (Knn.trainIdx labels).length)
    (i : Nat) (hi : i < labels.length) (htest : labels.getD i (-1) < 0) :
    o.labels.getD i (-1) ∈ labels ∧ 0 ≤ o.labels.getD i (-1) := by
  set k := (checkNeighbors kArg (Knn.trainIdx labels).length).toNat with hkd
  have hk1 : 1 ≤ k := by
    rw [hkd]
    unfold checkNeighbors
    split <;> omega
  have hklt : k < (Knn.distances emb (Knn.trainIdx labels) (getRow emb i)).length := by
    unfold Knn.distances
    rw [List.length_map, hkd]
    exact checkNeighbors_lt _ _ (by omega)
  have hc := hsel i (Knn.distances emb (Knn.trainIdx labels) (getRow emb i)) k hklt
  unfold IsSmallestK at hc
  simp only [Bool.and_eq_true, beq_iff_eq, List.all_eq_true, decide_eq_true_eq] at hc
  obtain ⟨⟨⟨hlen, _⟩, hrange⟩, _⟩ := hc
  have hdl : (Knn.distances emb (Knn.trainIdx labels) (getRow emb i)).length = (Knn.trainIdx labels).length := by
    unfold Knn.distances
    simp
  have hin : ∀ p ∈ sel i (Knn.distances emb (Knn.trainIdx labels) (getRow emb i)) k,
      p < (Knn.trainIdx labels).length := by
    intro p hp
    rw [← hdl]
    exact hrange p hp
  have hne : Knn.neighbourLabels emb labels k sel i ≠ [] := by
    unfold Knn.neighbourLabels
    intro h0
    have := congrArg List.length h0
    simp only [List.length_map, List.length_nil] at this
    omega
  have hmem := Knn.test_label emb labels kArg sel o h i hi htest hne hin
  unfold Knn.neighbourLabels at hmem
  obtain ⟨p, hp, hpe⟩ := List.mem_map.mp hmem
  have hlt := hin p hp
  have hm : (Knn.trainIdx labels).getD p 0 ∈ Knn.trainIdx labels := by
    rw [List.getD_eq_getElem?_getD, List.getElem?_eq_getElem hlt]
    exact List.getElem_mem hlt
  obtain ⟨h1, h0⟩ := (Knn.mem_trainIdx labels _).mp hm
  rw [← hpe]
  exact ⟨Diffusion.getD_mem h1 _, h0⟩

/-- ★ **probability rows, as the property states them** (NNClassifier): with at least two labelled nodes and
    `n_neighbors ≥ 1` a label reaches every node, and every row of `probs_` sums to 1 (never to 0). -/
theorem knn_rows_strong (emb : List (List Rat)) (labels : List Int) (kArg : Nat)
    (sel : Nat → List Rat → Nat → List Nat) (hsel : SelOK sel) (o : Knn.Out)
    (h : Knn.fitCore emb labels kArg sel = some o) (hk : 1 ≤ kArg) (h2 : 2 ≤ (Knn.trainIdx labels).length)
    (i : Nat) (hi : i < labels.length) :
    Spec.rowStrong 0 true (getRow o.probs i) = true := by
  have hp := Knn.fit_parts emb labels kArg sel o h
  set k := (checkNeighbors kArg (Knn.trainIdx labels).length).toNat with hkd
  have hrow : getRow o.probs i = Knn.row emb labels k sel i := by
    rw [hp.probs, getRow_tab, if_pos hi]
  have hnn : ∀ x ∈ getRow o.probs i, 0 ≤ x := by
    have hm : getRow o.probs i ∈ o.probs := by
      rw [hrow, hp.probs]
      exact (mem_tab _ _ _).mpr ⟨i, hi, rfl⟩
    have := Knn.rows_ok emb labels kArg sel o h _ hm
    unfold Spec.rowOK at this
    simp only [Bool.and_eq_true, List.all_eq_true, decide_eq_true_eq] at this
    exact this.1
  apply rowStrong_of hnn true _ (fun hf => by cases hf)
  intro _
  rw [hrow]
  apply Knn.row_sum_one emb labels k sel i hi
  by_cases hseed : 0 ≤ labels.getD i (-1)
  · exact Or.inl hseed
  · right
    have hk1 : 1 ≤ k := by
      rw [hkd]
      unfold checkNeighbors
      split <;> omega
    have hdl : (Knn.distances emb (Knn.trainIdx labels) (getRow emb i)).length = (Knn.trainIdx labels).length := by
      unfold Knn.distances
      simp
    have hklt : k < (Knn.distances emb (Knn.trainIdx labels) (getRow emb i)).length := by
      rw [hdl, hkd]
      exact checkNeighbors_lt _ _ (by omega)
    have hc := hsel i (Knn.distances emb (Knn.trainIdx labels) (getRow emb i)) k hklt
    unfold IsSmallestK at hc
    simp only [Bool.and_eq_true, beq_iff_eq, List.all_eq_true, decide_eq_true_eq] at hc
    obtain ⟨⟨⟨hlen, _⟩, hrange⟩, _⟩ := hc
    constructor
    · unfold Knn.neighbourLabels
      intro h0
      have := congrArg List.length h0
      simp only [List.length_map, List.length_nil] at this
      omega
    · intro x hx
      unfold Knn.neighbourLabels at hx
      obtain ⟨p, hp', rfl⟩ := List.mem_map.mp hx
      have hlt : p < (Knn.trainIdx labels).length := by
        rw [← hdl]
        exact hrange p hp'
      have hm : (Knn.trainIdx labels).getD p 0 ∈ Knn.trainIdx labels := by
        rw [List.getD_eq_getElem?_getD, List.getElem?_eq_getElem hlt]
        exact List.getElem_mem hlt
      obtain ⟨h1, h0⟩ := (Knn.mem_trainIdx labels _).mp hm
      exact ⟨h0, Knn.nCols_gt labels _ (Diffusion.getD_mem h1 _) h0⟩

/-- ★ **k nearest labelled nodes** (NNClassifier).  For any selection satisfying the contract of
    `np.argpartition`, the row of an unlabelled node satisfies the nearest-neighbour specification that the `spec`
    lines evaluate on the implementation's rows: its label counts sum to `k`; with `τ` the `k`-th smallest distance to
    a labelled node, every labelled node strictly closer than `τ` is counted and no counted node is farther than `τ`. -/
theorem knn_row_spec (emb : List (List Rat)) (labels : List Int) (k : Nat)
    (sel : Nat → List Rat → Nat → List Nat) (hsel : SelOK sel) (i : Nat) (htest : labels.getD i (-1) < 0)
    (hk : 0 < k) (hklt : k < (Knn.trainIdx labels).length) :
    Spec.knnRowOK (Knn.distances emb (Knn.trainIdx labels) (getRow emb i))
      ((Knn.trainIdx labels).map fun j => labels.getD j (-1)) k 0 (Knn.row emb labels k sel i)
      (tab (Knn.nCols labels) fun q =>
        ((Knn.neighbourLabels emb labels k sel i).filter (· == (q : Int))).length) = true := by
  set ds := Knn.distances emb (Knn.trainIdx labels) (getRow emb i) with hds
  have hdl : ds.length = (Knn.trainIdx labels).length := by
    rw [hds]
    unfold Knn.distances
    simp
  have hc := hsel i ds k (by rw [hdl]; exact hklt)
  have hrange : ∀ p ∈ sel i ds k, p < (Knn.trainIdx labels).length := by
    have h := hc
    unfold IsSmallestK at h
    simp only [Bool.and_eq_true, beq_iff_eq, List.all_eq_true, decide_eq_true_eq] at h
    intro p hp
    rw [← hdl]
    exact h.1.2 p hp
  have hlabs : ∀ p ∈ sel i ds k,
      ((Knn.trainIdx labels).map fun j => labels.getD j (-1)).getD p (-1) =
        labels.getD ((Knn.trainIdx labels).getD p 0) (-1) := by
    intro p hp
    have hlt := hrange p hp
    simp only [List.getD_eq_getElem?_getD, List.getElem?_map, List.getElem?_eq_getElem hlt, Option.map_some,
      Option.getD_some]
  have hnb : Knn.neighbourLabels emb labels k sel i =
      (sel i ds k).map fun p => ((Knn.trainIdx labels).map fun j => labels.getD j (-1)).getD p (-1) := by
    unfold Knn.neighbourLabels
    exact (List.map_congr_left hlabs).symm
  have hrow : Knn.row emb labels k sel i = normalizeRow (tab (Knn.nCols labels) fun q =>
      ((((Knn.neighbourLabels emb labels k sel i).filter (· == (q : Int))).length : Nat) : Rat)) := by
    unfold Knn.row
    have : ¬ (0 ≤ labels.getD i (-1)) := by omega
    simp only [this, if_false]
  rw [hrow, hnb]
  apply Knn.row_spec ds _ k (sel i ds k) (Knn.nCols labels) hk hc
  intro p hp
  rw [hlabs p hp]
  have hlt := hrange p hp
  have hm : (Knn.trainIdx labels).getD p 0 ∈ Knn.trainIdx labels := by
    rw [List.getD_eq_getElem?_getD, List.getElem?_eq_getElem hlt]
    exact List.getElem_mem hlt
  obtain ⟨h1, h0⟩ := (Knn.mem_trainIdx labels _).mp hm
  exact ⟨h0, Knn.nCols_gt labels _ (Diffusion.getD_mem h1 _) h0⟩

/-- non-vacuity: a 2-dimensional integer embedding with ties, three seeds of two classes, `n_neighbors = 2`;
    `smallestK` (the selection used by the `run` lines) satisfies the contract on this input -/
example : (Knn.fitCore [[0,0],[1,0],[0,2],[3,3],[1,1]] [7,-1,7,2,-1] 2 (fun _ ds k => smallestK ds k)).map (·.labels)
      = some [7,7,7,2,7] ∧
    IsSmallestK (Knn.distances [[0,0],[1,0],[0,2],[3,3],[1,1]] [0,2,3] [1,1]) 2
      (smallestK (Knn.distances [[0,0],[1,0],[0,2],[3,3],[1,1]] [0,2,3] [1,1]) 2) = true :=
  ⟨by decide +kernel, by decide +kernel⟩

/-! ## RankClassifier (PageRankClassifier) -/

/-- ★ **labels_in_seed_set** (RankClassifier): whatever scores the ranking algorithm returns (one column per
    class), every predicted label is one of the seed labels; with non-negative scores the normalised rows are
    probability rows and the rows of `probs_` are non-negative. -/
theorem rank_labels_in_seed_set (values : List Int) (scores : List (List Rat)) (o : Rank.Out)
    (h : Rank.fitCore values scores = .ok o)
    (hlen : ∀ r ∈ scores, r.length = (uniqueLabels values).length) :
    Spec.labelsOK values o.labels = true ∧ ∀ x ∈ o.labels, x ≠ -1 := by
  have := Rank.labels_in_seed_set values scores o h hlen
  constructor
  · unfold Spec.labelsOK
    simp only [List.all_eq_true, Bool.or_eq_true, beq_iff_eq, Bool.and_eq_true, decide_eq_true_eq,
      List.contains_iff_mem]
    intro x hx
    exact Or.inr ⟨(this x hx).2, (this x hx).1⟩
  · intro x hx
    have := (this x hx).2
    omega

/-- ★ **probability rows** (RankClassifier): with non-negative scores, one column per class, every row of
    `probs_` — the normalised scores with their columns moved to the label values — is non-negative and sums to
    1, or to 0 when all scores of the node are null. -/
theorem rank_rows (values : List Int) (scores : List (List Rat)) (o : Rank.Out)
    (h : Rank.fitCore values scores = .ok o) (hnn : ∀ r ∈ scores, ∀ x ∈ r, 0 ≤ x)
    (hlen : ∀ r ∈ scores, r.length = (uniqueLabels values).length) :
    ∀ row ∈ o.probs, Spec.rowOK 0 row = true :=
  Rank.probs_rows_ok values scores o h hnn hlen

/-- ★ **probability rows, as the property states them** (RankClassifier): the row of a node sums to 1 unless all
    its scores are null (no class reaches it), and then to 0. -/
theorem rank_rows_strong (values : List Int) (scores : List (List Rat)) (o : Rank.Out)
    (h : Rank.fitCore values scores = .ok o) (hnn : ∀ r ∈ scores, ∀ x ∈ r, 0 ≤ x)
    (hlen : ∀ r ∈ scores, r.length = (uniqueLabels values).length) (j : Nat) (hj : j < scores.length) :
    Spec.rowStrong 0 (!(getRow scores j).all (· == 0)) (getRow o.probs j) = true :=
  Rank.probs_row_strong values scores o h hnn hlen j hj

/-- non-vacuity of `rank_labels_in_seed_set`, `rank_rows`, `rank_rows_strong`: labels {2, 5}, four nodes, the last one
    with null scores (row of `probs_` null, label = first class) -/
example : (Rank.fitCore [5,-1,2,-1] [[1/2,0],[1/4,1/4],[0,1],[0,0]]).map (fun o => (o.labels, o.probs)) =
      .ok ([2,2,5,2], [[0,0,1,0,0,0],[0,0,1/2,0,0,1/2],[0,0,0,0,0,1],[0,0,0,0,0,0]]) ∧
    (∀ r ∈ [[1/2,0],[1/4,1/4],[0,1],[(0:Rat),0]], ∀ x ∈ r, (0:Rat) ≤ x) ∧
    (∀ r ∈ [[1/2,0],[1/4,1/4],[0,1],[(0:Rat),0]], r.length = (uniqueLabels [5,-1,2,-1]).length) := by
  refine ⟨by decide +kernel, by decide +kernel, by decide +kernel⟩

/-! ## NNLinker -/

/-- ★ **nnlinker_spec**.  For every row and any selection `np.argpartition(-similarities, k)[:k]` may return,
    the links kept by `_fit_core` are at most `k ≤ n_neighbors`, on distinct candidates, all at or above the
    threshold, stored with their similarity, and none of them is weaker than a discarded candidate. -/
theorem nnlinker_spec (sims : List Rat) (kArg : Nat) (thr : Rat) (top : List Nat) (hne : 0 < sims.length)
    (htop : IsSmallestK (sims.map fun s => -s) (checkNeighbors kArg sims.length).toNat top = true) :
    Spec.linkerRowOK sims (checkNeighbors kArg sims.length).toNat thr 0 (Linker.keepRow sims thr top) = true ∧
    (checkNeighbors kArg sims.length).toNat ≤ kArg ∧ (checkNeighbors kArg sims.length).toNat < sims.length :=
  ⟨Linker.keepRow_spec sims _ thr top htop, checkNeighbors_le _ _, checkNeighbors_lt _ _ hne⟩

/-- the rows of `links_` are exactly `keepRow` of the similarities to the candidate columns -/
theorem nnlinker_rows (emb : List (List Rat)) (mask : List Bool) (kArg : Nat) (thr : Rat)
    (sel : Nat → List Rat → Nat → List Nat) (i : Nat) (hi : i < mask.length) (hm : mask.getD i false = true) :
    (Linker.fitCore emb mask kArg thr sel).getD i [] =
      let cols := if mask.length < emb.length then (List.range (emb.length - mask.length)).map (· + mask.length)
        else List.range emb.length
      let sims := cols.map fun j => dot (getRow emb j) (getRow emb i)
      Linker.keepRow sims thr (sel i (sims.map fun s => -s) (checkNeighbors kArg cols.length).toNat) := by
  unfold Linker.fitCore
  simp only
  rw [tab_getD]
  simp [hi, hm]

/-- non-vacuity of `nnlinker_rows`: three nodes, all rows asked for, `n_neighbors = 1` -/
example : Linker.fitCore [[1,0],[1,1],[0,1]] [true,false,true] 1 (1/2) (fun _ ks k => smallestK ks k) =
    [[(0, 1)], [], [(1, 1)]] := by decide +kernel

/-- non-vacuity: similarities with a tie at the boundary, `n_neighbors = 2`, threshold 1/2 -/
example : IsSmallestK ([3/4, 1/4, 3/4, 1, 0].map fun s => -s) 2 [3, 0] = true ∧
    Linker.keepRow [3/4, 1/4, 3/4, 1, 0] (1/2) [3, 0] = [(0, 3/4), (3, 1)] :=
  ⟨by decide +kernel, by decide +kernel⟩

/-! ## Classification metrics -/

/-- ★ **metrics_eq_confusion** (accuracy, micro-averaged F1): the proportion of correct samples among those
    with both labels non-negative is trace / total of the confusion matrix. -/
theorem accuracy_eq_confusion (t p : List Int) (x : Rat) (h : ClassMetrics.accuracy t p = .ok x) :
    x = Spec.accuracyDef (Spec.conf t p) (ClassMetrics.nLabels t p) ∧
    ClassMetrics.averageF1 t p .micro = .ok x :=
  ⟨ClassMetrics.accuracy_eq t p x h, h⟩

/-- ★ **metrics_eq_confusion** (confusion matrix): `get_confusion_matrix` counts, for `i, j` below
    `max(labels) + 1`, the samples with true label `i` and predicted label `j`. -/
theorem confusion_eq (t p : List Int) (C : List (List Nat)) (h : ClassMetrics.confusion t p = .ok C) :
    C.length = ClassMetrics.nLabels t p ∧
    ∀ i j, i < ClassMetrics.nLabels t p → j < ClassMetrics.nLabels t p →
      ClassMetrics.cell C i j = Spec.conf t p i j :=
  ⟨ClassMetrics.confusion_length t p C h, fun i j hi hj => ClassMetrics.confusion_cell t p C h i j hi hj⟩

/-- ★ **metrics_eq_confusion** (per-label scores): recall = TP / row sum, precision = TP / column sum,
    F1 = 2·TP / (row sum + column sum), each 0 when its denominator (for F1: TP) is 0. -/
theorem f1_scores_eq_confusion (t p : List Int) (s : ClassMetrics.Scores) (h : ClassMetrics.f1Scores t p = .ok s)
    (l : Nat) (hl : l < ClassMetrics.nLabels t p) :
    s.recall.getD l 0 = Spec.recallDef (Spec.conf t p) (ClassMetrics.nLabels t p) l ∧
    s.precision.getD l 0 = Spec.precisionDef (Spec.conf t p) (ClassMetrics.nLabels t p) l ∧
    s.f1.getD l 0 = Spec.f1Def (Spec.conf t p) (ClassMetrics.nLabels t p) l :=
  ClassMetrics.scores_eq t p s h l hl

/-- ★ **metrics_eq_confusion** (`get_f1_score`, binary labels): F1, precision and recall of label 1. -/
theorem f1_binary_eq_confusion (t p : List Int) (a b c : Rat) (h : ClassMetrics.f1Binary t p = .ok (a, b, c)) :
    a = Spec.f1Def (Spec.conf t p) (ClassMetrics.nLabels t p) 1 ∧
    b = Spec.precisionDef (Spec.conf t p) (ClassMetrics.nLabels t p) 1 ∧
    c = Spec.recallDef (Spec.conf t p) (ClassMetrics.nLabels t p) 1 :=
  ClassMetrics.f1Binary_eq t p a b c h

example : ClassMetrics.f1Binary [0,0,1,1,-1] [0,1,1,1,0] = .ok (4/5, 2/3, 1) := by decide +kernel

/-- ★ **metrics_eq_confusion** (macro average): the mean of the per-label F1 over the labels
    `0 … max(labels)` of the confusion matrix. -/
theorem macro_f1_eq_confusion (t p : List Int) (x : Rat) (h : ClassMetrics.averageF1 t p .macro = .ok x) :
    x = Spec.macroDef (Spec.conf t p) (ClassMetrics.nLabels t p) :=
  ClassMetrics.macro_eq t p x h

/-- **weighted average, what holds**: when every sample with a non-negative true label also has a
    non-negative prediction, the weighted average equals its confusion-matrix definition (weights = row sums).
    The hypothesis is exactly the negation of the predicate recorded in known finding F-C13-weighted-f1. -/
theorem weighted_f1_partial (t p : List Int) (x : Rat) (hlen : t.length = p.length)
    (hall : ∀ y ∈ t.zip p, 0 ≤ y.1 → 0 ≤ y.2) (h : ClassMetrics.averageF1 t p .weighted = .ok x) :
    x = Spec.weightedDef (Spec.conf t p) (ClassMetrics.nLabels t p) :=
  ClassMetrics.weighted_eq_of_all_predicted t p x hlen hall h

example : ClassMetrics.averageF1 [0,0,1,1,2] [0,1,1,1,-1] .weighted = .ok (44/75) ∧
    ClassMetrics.averageF1 [0,0,1,1] [0,1,1,1] .weighted = .ok (11/15) ∧
    (∀ y ∈ [0,0,1,1].zip [0,1,1,1], (0 : Int) ≤ y.1 → (0 : Int) ≤ y.2) := by
  refine ⟨by decide +kernel, by decide +kernel, by decide⟩

/-- The weighted average F1 as the code computes it is **not** the confusion-matrix value when a sample has a
    true label but a negative prediction: the code weights label `l` by the number of samples of true label `l`
    among all samples with a non-negative true label (here 3 and 2), the confusion matrix has row sums 3 and 1.
    (Known finding F-C13-weighted-f1: the repository's own test pins the code's value.) -/
theorem weighted_f1_ne_confusion :
    ClassMetrics.averageF1 [0,0,0,1,1] [0,0,1,1,-1] .weighted = .ok (56/75) ∧
    Spec.weightedDef (Spec.conf [0,0,0,1,1] [0,0,1,1,-1]) (ClassMetrics.nLabels [0,0,0,1,1] [0,0,1,1,-1]) = 23/30 := by
  exact ⟨by decide +kernel, by decide +kernel⟩

/-- Full statement for the weighted average: equal to the confusion-matrix definition.  False as the code
    stands (`weighted_f1_ne_confusion`, `weighted_f1_full_false`); what holds is `weighted_f1_partial`. -/
def weighted_f1_full : Prop :=
  ∀ (t p : List Int) (x : Rat), ClassMetrics.averageF1 t p .weighted = .ok x →
    x = Spec.weightedDef (Spec.conf t p) (ClassMetrics.nLabels t p)

theorem weighted_f1_full_false : ¬ weighted_f1_full := by
  intro h
  have h1 := h [0,0,0,1,1] [0,0,1,1,-1] (56/75) weighted_f1_ne_confusion.1
  rw [weighted_f1_ne_confusion.2] at h1
  exact absurd h1 (by decide +kernel)

/-- non-vacuity of the metric theorems -/
example : ClassMetrics.accuracy [0,0,1,1,-1] [0,1,1,1,0] = .ok (3/4) ∧
    (ClassMetrics.f1Scores [0,0,1,1,-1] [0,1,1,1,0]).map (·.f1) = .ok [2/3, 4/5] :=
  ⟨by decide +kernel, by decide +kernel⟩

/-! ## Renumbering the nodes (the C02 clause for the classifiers modelled here)

`SkNet.WL.IsPerm n π πinv`: `π`, `πinv` inverse bijections of `{0..n-1}`.  `RelabelOf n π c c'`: `c'` stores the graph of
`c` with node `i` renumbered `π i` (row `π i` of `c'` is row `i` of `c` with columns renumbered, entries in any order).
`relabelVals n πinv l`: the vector `l` moved along (`(relabelVals …)[π i] = l[i]`). Ties of the arg-max are broken by the
class index, which renumbering the nodes does not touch. -/

/-- ★ **diffusion_relabel_equivariant**.  For every permutation of the nodes, every graph, every seeds vector, every
    `n_iter` and both settings of `centering`: DiffusionClassifier on the renumbered graph with the renumbered seeds
    succeeds and returns the renumbered result: `labels'[π i] = labels[i]`, the same temperatures row (hence the same
    row of `probs_`, with or without centring, for any function standing for `np.exp`) and the same reached flag. -/
theorem diffusion_relabel_equivariant {n : Nat} {π πinv : Nat → Nat} (hp : WL.IsPerm n π πinv) (c c' : Csr Rat)
    (hrel : RelabelOf n π c c') (labels : List Int) (hl : labels.length = n) (nIter : Nat) (centering : Bool)
    (o : Diffusion.Out) (h : Diffusion.fit c labels nIter centering = .ok o) :
    ∃ o', Diffusion.fit c' (relabelVals n πinv labels) nIter centering = .ok o' ∧
      ∀ i, i < n → o'.labels.getD (π i) (-1) = o.labels.getD i (-1) ∧
        getRow (Diffusion.probsPlain o') (π i) = getRow (Diffusion.probsPlain o) i ∧
        ∀ (scale : Rat) (expf : Rat → Rat),
          getRow (Diffusion.probsSoft o' scale expf) (π i) = getRow (Diffusion.probsSoft o scale expf) i := by
  obtain ⟨o', ho', hlen', hall⟩ := Diffusion.relabel_equivariant hp c c' hrel labels hl nIter centering o h
  have hlen : o.labels.length = n := by
    rw [Diffusion.labels_length c labels nIter centering o (Diffusion.fit_parts c labels nIter centering o h), hl]
  refine ⟨o', ho', ?_⟩
  intro i hi
  obtain ⟨h1, h2, h3⟩ := hall i hi
  refine ⟨h1, ?_, ?_⟩
  · unfold Diffusion.probsPlain
    rw [getRow_tab, getRow_tab, hlen', hlen, if_pos (hp.lt i hi), if_pos hi, h2, h3]
  · intro scale expf
    unfold Diffusion.probsSoft
    rw [getRow_tab, getRow_tab, hlen', hlen, if_pos (hp.lt i hi), if_pos hi, h2, h3]

/-- ★ **rank_relabel_equivariant**.  For the rank-based classifier (PageRankClassifier) after the scores — the scores of
    the renumbered graph being the renumbered scores, which is the equivariance of the ranking itself (C04) —:
    renumbering the nodes renumbers `labels_` and the rows of `probs_`. -/
theorem rank_relabel_equivariant {n : Nat} {π πinv : Nat → Nat} (hp : WL.IsPerm n π πinv) (values : List Int)
    (scores : List (List Rat)) (hv : values.length = n) (hs : scores.length = n) (o : Rank.Out)
    (h : Rank.fitCore values scores = .ok o) :
    ∃ o', Rank.fitCore (relabelVals n πinv values) (relabelRows n πinv scores) = .ok o' ∧
      ∀ i, i < n → o'.labels.getD (π i) (-1) = o.labels.getD i (-1) ∧ getRow o'.probs (π i) = getRow o.probs i :=
  Rank.relabel_equivariant hp values scores hv hs o h

/-- ★ **propagation_probs_relabel_equivariant**.  The probability rows of Propagation are a function of the graph and
    of the final labels, and that function is equivariant: with renumbered labels the row of node `π i` is the row of
    node `i`.  The *labels* of Propagation are **not** equivariant in general: the sweep updates the nodes in place, in
    index order (or in an order derived from the node weights with ties broken by index), so the numbering decides who
    is updated first — see `propagation_labels_depend_on_numbering`. -/
theorem propagation_probs_relabel_equivariant {n : Nat} {π πinv : Nat → Nat} (hp : WL.IsPerm n π πinv) (c c' : Csr Rat)
    (hrel : RelabelOf n π c c') (labels : List Int) (hl : labels.length = n) (i : Nat) (hi : i < n) :
    Propagation.probsRow c' (relabelVals n πinv labels) (π i) = Propagation.probsRow c labels i :=
  propagation_probsRow_relabel hp c c' hrel labels hl i hi

/-- the path `s₁ — a — b — s₂` with weights 1, 2, 1, nodes numbered 0,1,2,3 -/
def chainGraph : Csr Rat :=
  { nRow := 4, nCol := 4, indptr := #[0,1,3,5,6], indices := #[1,0,2,1,3,2], data := #[1,1,2,2,1,1] }

/-- the same path with `a` and `b` exchanged (`π = (1 2)`): `s₁ — 2 — 1 — s₂` -/
def chainGraphSwapped : Csr Rat :=
  { nRow := 4, nCol := 4, indptr := #[0,1,3,5,6], indices := #[2,2,3,0,1,1], data := #[1,2,1,1,2,1] }

/-- the transposition of nodes 1 and 2 -/
def swap12 (i : Nat) : Nat := if i = 1 then 2 else if i = 2 then 1 else i

/-- non-vacuity of the hypotheses of the equivariance theorems: a concrete permutation and a concrete renumbered graph -/
example : WL.IsPerm 4 swap12 swap12 ∧ RelabelOf 4 swap12 chainGraph chainGraphSwapped ∧
    (Diffusion.fit chainGraph [5,-1,-1,7] 3 true).map (·.labels) = .ok [5,5,7,7] ∧
    (Diffusion.fit chainGraphSwapped (relabelVals 4 swap12 [5,-1,-1,7]) 3 true).map (·.labels) = .ok [5,7,5,7] := by
  refine ⟨⟨by decide, by decide, by decide, by decide⟩, ⟨?_, ?_⟩, by decide +kernel, by decide +kernel⟩
  · exact fun i hi => (by decide +kernel : ∀ i, i < 4 →
      (chainGraphSwapped.row (swap12 i)).Perm ((chainGraph.row i).map fun e => (swap12 e.1, e.2))) i hi
  · exact fun i hi => (by decide +kernel : ∀ i, i < 4 → ∀ e ∈ chainGraph.row i, e.1 < 4) i hi

/-- **Propagation's labels depend on the numbering** (why there is no `propagation_labels_relabel_equivariant`): on
    the path `s₁ — a — b — s₂` with seeds 5 and 7 at the ends, the node visited first takes the label of its seed and
    hands it to the other one through the heavier middle edge.  Numbered `a = 1, b = 2` both take 5; numbered
    `a = 2, b = 1` both take 7. -/
theorem propagation_labels_depend_on_numbering :
    Vote.fit chainGraph [5,-1,-1,7] {} 10 = some ([5,5,5,7], 2) ∧
    Vote.fit chainGraphSwapped (relabelVals 4 swap12 [5,-1,-1,7]) {} 10 = some ([5,7,7,7], 2) := by
  exact ⟨by decide +kernel, by decide +kernel⟩

end SkNet.C13
