/- C13 — property theorems (filled below). -/
import SkNet.Model.Vote
import SkNet.Model.Classify
import SkNet.Model.ClassMetrics
import SkNet.Spec.Classify

namespace SkNet.C13
open SkNet

theorem placeholder_nLabels_nil : Vote.nLabels [] = 0 := rfl

end SkNet.C13
