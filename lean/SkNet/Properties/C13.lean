/-
C13 — Semi-supervised predictions respect the seeds and the local evidence.

Property theorems about the models of SkNet/Model/Vote.lean, Classify.lean, ClassMetrics.lean against the
specification of SkNet/Spec/Classify.lean.  Lemmas live in SkNet/Lemmas/Vote*.lean, Classify*.lean.
-/
import SkNet.Lemmas.VoteFit
import SkNet.Lemmas.ClassifyDiffusionFit
import SkNet.Lemmas.ClassifyReach

namespace SkNet.C13
open SkNet SkNet.Classify

attribute [-simp] List.getD_eq_getElem?_getD

/-! ## Label propagation -/

/-- the 5-node witness of DESIGN §6 (F2): node 0 has neighbours 1 (label 0, weight 10), 2 and 3 (label 1,
    weight 1 each); node 4 hangs on node 3 with weight 4 -/
def witnessGraph : Csr Rat :=
  { nRow := 5, nCol := 5, indptr := #[0,3,4,5,7,8], indices := #[1,2,3,0,0,0,4,3], data := #[10,1,1,10,1,1,4,4] }

/-- ★ **vote_fixed_point** (kernel).  If a sweep of `vote_update` over distinct in-range nodes returns the
    labels it was given (non-negative weights), then every updated node with a labelled neighbour holds a
    non-negative label, carried by one of its neighbours, whose total vote among its neighbours is maximal. -/
theorem vote_fixed_point (c : Csr Rat) (labels : List Int) (index : List Nat)
    (hw : ∀ p, 0 ≤ c.data.getD p 0) (hnd : index.Nodup) (hi : ∀ i ∈ index, i < labels.length)
    (hfix : Vote.voteUpdate c labels index = labels) :
    Spec.fixedPointOK c labels index = true :=
  Vote.fixedPointOK_of_nodeOK c labels index (Vote.voteUpdate_fixed c hw labels index hnd hi hfix)

/-- non-vacuity: on the witness graph the labels `[0,0,1,1,1]` are a fixed point of the sweep over the two
    unlabelled nodes, reached from `[-1,0,1,1,-1]` in one sweep (weight 10 beats 1+1 at node 0) -/
example : Vote.voteUpdate witnessGraph [-1,0,1,1,-1] [0,4] = [0,0,1,1,1] ∧
    Vote.voteUpdate witnessGraph [0,0,1,1,1] [0,4] = [0,0,1,1,1] ∧
    (∀ p, 0 ≤ witnessGraph.data.getD p 0) := by
  exact ⟨by decide +kernel, by decide +kernel,
    Vote.getD_nonneg_of_forall _ (by decide +kernel)⟩

/-- The kernel as pinned (before the repair of F2) did **not** have the property: on the witness graph the
    sweep over nodes 0 and 4 leaves `[1,0,1,1,1]` unchanged, although label 0 has total vote 10 at node 0 and
    label 1 only 2.  (Replayed on the implementation: corpus/C13.jsonl, first line.) -/
theorem pinned_vote_not_fixed_point :
    Vote.Pinned.voteUpdate? witnessGraph [-1,0,1,1,-1] [0,4] = some [1,0,1,1,1] ∧
    Vote.Pinned.voteUpdate? witnessGraph [1,0,1,1,1] [0,4] = some [1,0,1,1,1] ∧
    Spec.fixedPointOK witnessGraph [1,0,1,1,1] [0,4] = false := by
  refine ⟨by decide +kernel, by decide +kernel, by decide +kernel⟩

/-- The pinned kernel also left its buffers: with fewer stored entries than nodes the read `data[jj]` is out
    of bounds, and a label `≥ n` is written past `votes` (the segfault of F2). -/
theorem pinned_vote_out_of_bounds :
    Vote.Pinned.voteUpdate? { nRow := 4, nCol := 4, indptr := #[0,1,1,1,1], indices := #[3], data := #[1] }
      [-1,0,1,2] [0] = none ∧
    Vote.Pinned.voteUpdate? { nRow := 2, nCol := 2, indptr := #[0,1,2], indices := #[1,0], data := #[1,1] }
      [7,9] [0] = none := by
  refine ⟨by decide +kernel, by decide +kernel⟩

/-- ★ **vote_fixed_point** (`Propagation.fit`).  When the loop of `fit` stops on labels that a further sweep
    leaves unchanged — in particular when it stops *because* a sweep changed nothing —, every non-seed node
    with a labelled neighbour holds a label of maximal total vote among its neighbours: edge weights when
    `weighted`, counts otherwise (`withWeights` replaces the data by ones). -/
theorem propagation_fixed_point (c : Csr Rat) (hw : ∀ p, 0 ≤ c.data.getD p 0) (values : List Int)
    (a : Vote.PropArgs) (fuel : Nat) (hsig : Vote.SigmaOK a.sigma (Vote.instantiateVars values).2.length)
    (l : List Int) (t : Nat) (h : Vote.fit c values a fuel = some (l, t))
    (hstable : Vote.voteUpdate (Vote.withWeights c a.weighted) l (Vote.start values a.sigma).2 = l) :
    Spec.fixedPointOK (Vote.withWeights c a.weighted) l (Vote.start values a.sigma).2 = true := by
  have hinv := Vote.fitInv_result c hw values a fuel hsig l t h
  apply vote_fixed_point _ l _ (Vote.withWeights_nonneg c a.weighted hw)
  · exact Vote.reorder_nodup _ _ (Vote.instantiateVars_index_nodup values) hsig
  · intro i hi
    rw [hinv.len]
    exact Vote.instantiateVars_index_lt values i (Vote.mem_reorder _ _ hsig i hi)
  · exact hstable

/-- ★ **seeds_kept** (Propagation).  With at least two classes among the given labels, every seed keeps its
    label, whatever the number of sweeps, the node order and the weighting. -/
theorem propagation_seeds_kept (c : Csr Rat) (hw : ∀ p, 0 ≤ c.data.getD p 0) (values : List Int)
    (a : Vote.PropArgs) (fuel : Nat) (hsig : Vote.SigmaOK a.sigma (Vote.instantiateVars values).2.length)
    (hs : Vote.singleClass values = false)
    (l : List Int) (t : Nat) (h : Vote.fit c values a fuel = some (l, t)) :
    ∀ i, 0 ≤ values.getD i (-1) → l.getD i (-1) = values.getD i (-1) := by
  intro i hseed
  have hinv := Vote.fitInv_result c hw values a fuel hsig l t h
  obtain ⟨hnot, hval⟩ := Vote.instantiateVars_seed values hs i hseed
  rw [hinv.out i (-1) (fun hm => hnot (Vote.mem_reorder _ _ hsig i hm))]
  exact hval

/-- ★ **labels_in_seed_set** (Propagation).  Every predicted label is one of the labels the loop started
    from: a seed label or `-1` (with no label or a single class: the node indices). -/
theorem propagation_labels_in_seed_set (c : Csr Rat) (hw : ∀ p, 0 ≤ c.data.getD p 0) (values : List Int)
    (a : Vote.PropArgs) (fuel : Nat) (hsig : Vote.SigmaOK a.sigma (Vote.instantiateVars values).2.length)
    (l : List Int) (t : Nat) (h : Vote.fit c values a fuel = some (l, t)) :
    l.length = values.length ∧ ∀ x ∈ l, x ∈ (Vote.instantiateVars values).1 := by
  have hinv := Vote.fitInv_result c hw values a fuel hsig l t h
  exact ⟨hinv.len, hinv.sub⟩

/-- non-vacuity of the three theorems above: `fit` on the witness graph with seeds `{1:0, 2:1, 3:1}` in the
    order `[4, 0]` (a permutation of the two positions) stops after two sweeps on a stable configuration. -/
example : Vote.fit witnessGraph [-1,0,1,1,-1] { sigma := some [1,0] } 10 = some ([0,0,1,1,1], 2) ∧
    Vote.SigmaOK (some [1,0]) (Vote.instantiateVars [-1,0,1,1,-1]).2.length ∧
    Vote.singleClass [-1,0,1,1,-1] = false ∧
    Vote.voteUpdate (Vote.withWeights witnessGraph true) [0,0,1,1,1] (Vote.start [-1,0,1,1,-1] (some [1,0])).2
      = [0,0,1,1,1] := by
  refine ⟨by decide +kernel, ?_, by decide +kernel, by decide +kernel⟩
  intro s hs
  cases hs
  exact ⟨by decide, by decide +kernel⟩

/-! ## DiffusionClassifier -/

/-- a path 0–1–2–3 with unequal weights and an isolated node 4 -/
def pathGraph : Csr Rat :=
  { nRow := 5, nCol := 5, indptr := #[0,1,3,5,6,6], indices := #[1,0,2,1,3,2], data := #[2,2,1,1,3,3] }

/-- ★ **seeds_kept** (DiffusionClassifier).  With non-negative weights every seed keeps its label, with or
    without centring: the clamped temperatures stay in [0,1] (maximum principle), the row of a seed stays
    one-hot, every class has a positive column mean and no column mean exceeds 1, so centring leaves the
    arg-max of a seed row on its own class; seeds are at distance 0 and are never reset. -/
theorem diffusion_seeds_kept (c : Csr Rat) (hw : ∀ p, 0 ≤ c.data.getD p 0) (labels : List Int) (nIter : Nat)
    (centering : Bool) (o : Diffusion.Out) (h : Diffusion.fit c labels nIter centering = .ok o) :
    Spec.seedsKept labels o.labels = true := by
  have hp := Diffusion.fit_parts c labels nIter centering o h
  unfold Spec.seedsKept
  simp only [Bool.and_eq_true, beq_iff_eq, List.all_eq_true, List.mem_range, Bool.or_eq_true,
    decide_eq_true_eq]
  refine ⟨Diffusion.labels_length c labels nIter centering o hp, ?_⟩
  intro i _
  by_cases hs : labels.getD i (-1) < 0
  · exact Or.inl hs
  · exact Or.inr (Diffusion.seeds_kept c hw labels nIter centering o h i (by omega))

/-- ★ **labels_in_seed_set** (DiffusionClassifier): every predicted label is a seed label or `-1`. -/
theorem diffusion_labels_in_seed_set (c : Csr Rat) (labels : List Int) (nIter : Nat)
    (centering : Bool) (o : Diffusion.Out) (h : Diffusion.fit c labels nIter centering = .ok o) :
    Spec.labelsOK labels o.labels = true := by
  have hp := Diffusion.fit_parts c labels nIter centering o h
  have hlen := Diffusion.labels_length c labels nIter centering o hp
  unfold Spec.labelsOK
  simp only [List.all_eq_true, Bool.or_eq_true, beq_iff_eq, Bool.and_eq_true, decide_eq_true_eq,
    List.contains_iff_mem]
  intro x hx
  obtain ⟨i, hi, rfl⟩ := List.mem_iff_getElem.mp hx
  have hi' : i < labels.length := by omega
  have hget : o.labels[i] = o.labels.getD i (-1) := by
    rw [List.getD_eq_getElem?_getD, List.getElem?_eq_getElem hi]
    rfl
  rw [hget]
  rcases Diffusion.label_cases c labels nIter centering o hp i hi' with ⟨_, h1⟩ | ⟨_, h1, h2⟩
  · exact Or.inl h1
  · exact Or.inr ⟨h2, h1⟩

/-- ★ **diffusion_minus_one_iff**.  A node gets `-1` exactly when no walk from a seed reaches it; on an
    undirected graph (symmetric `hasEdge`) these are exactly the nodes of the components without a seed.
    (`reached` is the sign of `get_distances(adjacency, source=seeds)`; `reached_iff` ties it to walks.) -/
theorem diffusion_minus_one_iff (c : Csr Rat) (labels : List Int) (nIter : Nat)
    (centering : Bool) (o : Diffusion.Out) (h : Diffusion.fit c labels nIter centering = .ok o)
    (i : Nat) (hi : i < labels.length) :
    o.labels.getD i (-1) = -1 ↔
      ¬ Spec.Reach labels.length (hasEdge c) (fun v => decide (0 ≤ labels.getD v (-1))) i := by
  have hp := Diffusion.fit_parts c labels nIter centering o h
  rw [← reached_iff, ← hp.reach]
  rcases Diffusion.label_cases c labels nIter centering o hp i hi with ⟨h0, h1⟩ | ⟨h0, _, h2⟩
  · rw [h0, h1]
    simp
  · constructor
    · intro hm
      omega
    · intro hn
      exact absurd h0 hn

/-- the executable form used by the `spec` lines: `-1` iff not reached, for all nodes at once -/
theorem diffusion_minusOneIff_spec (c : Csr Rat) (labels : List Int) (nIter : Nat)
    (centering : Bool) (o : Diffusion.Out) (h : Diffusion.fit c labels nIter centering = .ok o) :
    Spec.minusOneIff o.labels o.reached = true := by
  have hp := Diffusion.fit_parts c labels nIter centering o h
  have hlen := Diffusion.labels_length c labels nIter centering o hp
  unfold Spec.minusOneIff
  simp only [List.all_eq_true, List.mem_range, beq_iff_eq]
  intro i hi
  have hi' : i < labels.length := by omega
  have h0 : o.labels.getD i 0 = o.labels.getD i (-1) := by
    rw [List.getD_eq_getElem?_getD, List.getD_eq_getElem?_getD, List.getElem?_eq_getElem hi]
    rfl
  rw [h0]
  rcases Diffusion.label_cases c labels nIter centering o hp i hi' with ⟨hr, h1⟩ | ⟨hr, _, h2⟩
  · rw [hr, h1]
    rfl
  · have : o.labels.getD i (-1) ≠ -1 := by omega
    rw [hr]
    simpa using this

/-- ★ **probability rows** (DiffusionClassifier without centring): every row of `normalize(temperatures)` is
    non-negative and sums to 1, or to 0 (rows of unreached nodes are null). With centring the rows go
    through `np.exp`, outside the model: they are checked on the implementation by the row specification. -/
theorem diffusion_plain_rows (c : Csr Rat) (hw : ∀ p, 0 ≤ c.data.getD p 0) (labels : List Int) (nIter : Nat)
    (o : Diffusion.Out) (h : Diffusion.fit c labels nIter false = .ok o) :
    ∀ row ∈ Diffusion.probsPlain o, Spec.rowOK 0 row = true := by
  have hp := Diffusion.fit_parts c labels nIter false o h
  intro row hrow
  unfold Diffusion.probsPlain at hrow
  obtain ⟨i, _, rfl⟩ := (mem_tab _ _ _).mp hrow
  split
  · apply normalizeRow_rowOK
    intro x hx
    obtain ⟨q, hq, rfl⟩ := List.mem_iff_getElem.mp hx
    have := Diffusion.getElem_getRow o.temps i q hq
    rw [this, hp.temps]
    simp only [Bool.false_eq_true, if_false]
    exact (Diffusion.unit01_final c hw labels nIter i q).1
  · unfold Spec.rowOK
    simp only [Bool.and_eq_true, List.all_eq_true, decide_eq_true_eq, Bool.or_eq_true]
    refine ⟨?_, Or.inr ?_⟩
    · intro x hx
      obtain ⟨_, _, rfl⟩ := List.mem_map.mp hx
      exact le_refl 0
    · rw [Diffusion.rsum_map_zero, rabs_zero]

/-- non-vacuity: seeds `{0: 3, 3: 5}` on the weighted path with an isolated node, two iterations, centring -/
example : (∀ p, 0 ≤ pathGraph.data.getD p 0) ∧
    (Diffusion.fit pathGraph [3,-1,-1,5,-1] 2 true).map (·.labels) = .ok [3,3,5,5,-1] ∧
    (Diffusion.fit pathGraph [3,-1,-1,5,-1] 2 false).map (·.labels) = .ok [3,3,5,5,-1] :=
  ⟨Vote.getD_nonneg_of_forall _ (by decide +kernel), by decide +kernel, by decide +kernel⟩

end SkNet.C13
