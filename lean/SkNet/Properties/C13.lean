/-
C13 — Semi-supervised predictions respect the seeds and the local evidence.

Property theorems about the models of SkNet/Model/Vote.lean, Classify.lean, ClassMetrics.lean against the
specification of SkNet/Spec/Classify.lean.  Lemmas live in SkNet/Lemmas/Vote*.lean, Classify*.lean.
-/
import SkNet.Lemmas.VoteFit

namespace SkNet.C13
open SkNet SkNet.Classify

/-! ## Label propagation -/

/-- the 5-node witness of DESIGN §6 (F2): node 0 has neighbours 1 (label 0, weight 10), 2 and 3 (label 1,
    weight 1 each); node 4 hangs on node 3 with weight 4 -/
def witnessGraph : Csr Rat :=
  { nRow := 5, nCol := 5, indptr := #[0,3,4,5,7,8], indices := #[1,2,3,0,0,0,4,3], data := #[10,1,1,10,1,1,4,4] }

/-- ★ **vote_fixed_point** (kernel).  If a sweep of `vote_update` over distinct in-range nodes returns the
    labels it was given (non-negative weights), then every updated node with a labelled neighbour holds a
    non-negative label, carried by one of its neighbours, whose total vote among its neighbours is maximal. -/
theorem vote_fixed_point (c : Csr Rat) (labels : List Int) (index : List Nat)
    (hw : ∀ p, 0 ≤ c.data.getD p 0) (hnd : index.Nodup) (hi : ∀ i ∈ index, i < labels.length)
    (hfix : Vote.voteUpdate c labels index = labels) :
    Spec.fixedPointOK c labels index = true :=
  Vote.fixedPointOK_of_nodeOK c labels index (Vote.voteUpdate_fixed c hw labels index hnd hi hfix)

/-- non-vacuity: on the witness graph the labels `[0,0,1,1,1]` are a fixed point of the sweep over the two
    unlabelled nodes, reached from `[-1,0,1,1,-1]` in one sweep (weight 10 beats 1+1 at node 0) -/
example : Vote.voteUpdate witnessGraph [-1,0,1,1,-1] [0,4] = [0,0,1,1,1] ∧
    Vote.voteUpdate witnessGraph [0,0,1,1,1] [0,4] = [0,0,1,1,1] ∧
    (∀ p, 0 ≤ witnessGraph.data.getD p 0) := by
  exact ⟨by decide +kernel, by decide +kernel,
    Vote.getD_nonneg_of_forall _ (by decide +kernel)⟩

/-- The kernel as pinned (before the repair of F2) did **not** have the property: on the witness graph the
    sweep over nodes 0 and 4 leaves `[1,0,1,1,1]` unchanged, although label 0 has total vote 10 at node 0 and
    label 1 only 2.  (Replayed on the implementation: corpus/C13.jsonl, first line.) -/
theorem pinned_vote_not_fixed_point :
    Vote.Pinned.voteUpdate? witnessGraph [-1,0,1,1,-1] [0,4] = some [1,0,1,1,1] ∧
    Vote.Pinned.voteUpdate? witnessGraph [1,0,1,1,1] [0,4] = some [1,0,1,1,1] ∧
    Spec.fixedPointOK witnessGraph [1,0,1,1,1] [0,4] = false := by
  refine ⟨by decide +kernel, by decide +kernel, by decide +kernel⟩

/-- The pinned kernel also left its buffers: with fewer stored entries than nodes the read `data[jj]` is out
    of bounds, and a label `≥ n` is written past `votes` (the segfault of F2). -/
theorem pinned_vote_out_of_bounds :
    Vote.Pinned.voteUpdate? { nRow := 4, nCol := 4, indptr := #[0,1,1,1,1], indices := #[3], data := #[1] }
      [-1,0,1,2] [0] = none ∧
    Vote.Pinned.voteUpdate? { nRow := 2, nCol := 2, indptr := #[0,1,2], indices := #[1,0], data := #[1,1] }
      [7,9] [0] = none := by
  refine ⟨by decide +kernel, by decide +kernel⟩

/-- ★ **vote_fixed_point** (`Propagation.fit`).  When the loop of `fit` stops on labels that a further sweep
    leaves unchanged — in particular when it stops *because* a sweep changed nothing —, every non-seed node
    with a labelled neighbour holds a label of maximal total vote among its neighbours: edge weights when
    `weighted`, counts otherwise (`withWeights` replaces the data by ones). -/
theorem propagation_fixed_point (c : Csr Rat) (hw : ∀ p, 0 ≤ c.data.getD p 0) (values : List Int)
    (a : Vote.PropArgs) (fuel : Nat) (hsig : Vote.SigmaOK a.sigma (Vote.instantiateVars values).2.length)
    (l : List Int) (t : Nat) (h : Vote.fit c values a fuel = some (l, t))
    (hstable : Vote.voteUpdate (Vote.withWeights c a.weighted) l (Vote.start values a.sigma).2 = l) :
    Spec.fixedPointOK (Vote.withWeights c a.weighted) l (Vote.start values a.sigma).2 = true := by
  have hinv := Vote.fitInv_result c hw values a fuel hsig l t h
  apply vote_fixed_point _ l _ (Vote.withWeights_nonneg c a.weighted hw)
  · exact Vote.reorder_nodup _ _ (Vote.instantiateVars_index_nodup values) hsig
  · intro i hi
    rw [hinv.len]
    exact Vote.instantiateVars_index_lt values i (Vote.mem_reorder _ _ hsig i hi)
  · exact hstable

/-- ★ **seeds_kept** (Propagation).  With at least two classes among the given labels, every seed keeps its
    label, whatever the number of sweeps, the node order and the weighting. -/
theorem propagation_seeds_kept (c : Csr Rat) (hw : ∀ p, 0 ≤ c.data.getD p 0) (values : List Int)
    (a : Vote.PropArgs) (fuel : Nat) (hsig : Vote.SigmaOK a.sigma (Vote.instantiateVars values).2.length)
    (hs : Vote.singleClass values = false)
    (l : List Int) (t : Nat) (h : Vote.fit c values a fuel = some (l, t)) :
    ∀ i, 0 ≤ values.getD i (-1) → l.getD i (-1) = values.getD i (-1) := by
  intro i hseed
  have hinv := Vote.fitInv_result c hw values a fuel hsig l t h
  obtain ⟨hnot, hval⟩ := Vote.instantiateVars_seed values hs i hseed
  rw [hinv.out i (-1) (fun hm => hnot (Vote.mem_reorder _ _ hsig i hm))]
  exact hval

/-- ★ **labels_in_seed_set** (Propagation).  Every predicted label is one of the labels the loop started
    from: a seed label or `-1` (with no label or a single class: the node indices). -/
theorem propagation_labels_in_seed_set (c : Csr Rat) (hw : ∀ p, 0 ≤ c.data.getD p 0) (values : List Int)
    (a : Vote.PropArgs) (fuel : Nat) (hsig : Vote.SigmaOK a.sigma (Vote.instantiateVars values).2.length)
    (l : List Int) (t : Nat) (h : Vote.fit c values a fuel = some (l, t)) :
    l.length = values.length ∧ ∀ x ∈ l, x ∈ (Vote.instantiateVars values).1 := by
  have hinv := Vote.fitInv_result c hw values a fuel hsig l t h
  exact ⟨hinv.len, hinv.sub⟩

/-- non-vacuity of the three theorems above: `fit` on the witness graph with seeds `{1:0, 2:1, 3:1}` in the
    order `[4, 0]` (a permutation of the two positions) stops after two sweeps on a stable configuration. -/
example : Vote.fit witnessGraph [-1,0,1,1,-1] { sigma := some [1,0] } 10 = some ([0,0,1,1,1], 2) ∧
    Vote.SigmaOK (some [1,0]) (Vote.instantiateVars [-1,0,1,1,-1]).2.length ∧
    Vote.singleClass [-1,0,1,1,-1] = false ∧
    Vote.voteUpdate (Vote.withWeights witnessGraph true) [0,0,1,1,1] (Vote.start [-1,0,1,1,-1] (some [1,0])).2
      = [0,0,1,1,1] := by
  refine ⟨by decide +kernel, ?_, by decide +kernel, by decide +kernel⟩
  intro s hs
  cases hs
  exact ⟨by decide, by decide +kernel⟩

end SkNet.C13
