/- C18 — graphs are ingested and persisted faithfully: property theorems.

Model: SkNet/Model/Ingest.lean (from_edge_array, from_edge_list, from_adjacency_list), Csv.lean (scan_header,
from_csv), Persist.lean (save / load, is_within_directory, safe_extract). Specification: SkNet/Spec/Ingest.lean.
-/
import SkNet.Lemmas.Ingest
import SkNet.Lemmas.Persist
import SkNet.Lemmas.Csv
import SkNet.Lemmas.GraphML
import SkNet.Model.Csv
import SkNet.Model.Persist

namespace SkNet.C18
open SkNet SkNet.Ingest SkNet.Persist

/-! ## ★ edge_array_entry, names_roundtrip -/

/-- **edge_array_entry (named graphs).** When the identifiers are not integers, or `reindex` is on, the graph
    returned by `from_edge_array` carries names for its rows and columns, the shape is the number of names, and
    entry (i, j) is the value the specification reads off the edge list for the identifiers `names_row[i]`,
    `names_col[j]`: the sum of the listed weights of that edge (the first one if `sum_duplicates` is off, a
    binary value if `weighted` is off), plus the transposed contribution when the graph is undirected; for all
    edge lists, weights and the 2⁵ flag combinations (`shape`, `matrix_only` do not matter here). -/
theorem edge_array_entry_named [DecidableEq α] (lt : α → α → Bool) (asInt : Option (α → Int))
    (rows : List (α × α)) (weights : Option (List Rat)) (f : Flags) (g : Graph α)
    (hn : asInt = none ∨ f.reindex = true)
    (h : fromEdgeArray lt asInt rows weights f = .ok g) :
    ∃ rn cn, g.rowNames = some rn ∧ g.colNames = some cn ∧
      g.matrix.nRow = rn.length ∧ g.matrix.nCol = cn.length ∧
      ∀ i j a b, rn[i]? = some a → cn[j]? = some b →
        g.matrix.entry i j = specEntry f (rows.zip (weightsOf rows weights)) a b := by
  unfold fromEdgeArray fromEdgeArrayWith at h
  unfold weightsOf
  simp only at h
  split at h
  · cases h
  · by_cases hb : f.bipartite = true
    · simp only [hb, if_true] at h
      split at h
      · cases h
      · rename_i ar har
        split at h
        · cases h
        · rename_i ac hac
          cases h
          obtain ⟨hrn, hrl, hri⟩ := axisOf_named _ _ _ _ _ _ hn har
          obtain ⟨hcn, hcl, hci⟩ := axisOf_named _ _ _ _ _ _ hn hac
          refine ⟨uniq lt ((typedEdges lt rows (weights.getD (List.replicate rows.length 1)) f).map (·.1.1)),
            uniq lt ((typedEdges lt rows (weights.getD (List.replicate rows.length 1)) f).map (·.1.2)),
            by simp [Graph.rowNames, hrn], by simp [Graph.colNames, hcn], ?_, ?_, ?_⟩
          · simpa [bipMatrix] using hrl
          · simpa [bipMatrix] using hcl
          · intro i j a b ha hb'
            apply entry_bipMatrix lt rows _ f hb ar ac i j a b
            · intro e he
              rw [hri]
              exact pos_eq_iff _ (nodup_uniq _ _) i a _ ha
                ((mem_uniq _ _ _).mpr (List.mem_map.mpr ⟨e, he, rfl⟩))
            · intro e he
              rw [hci]
              exact pos_eq_iff _ (nodup_uniq _ _) j b _ hb'
                ((mem_uniq _ _ _).mpr (List.mem_map.mpr ⟨e, he, rfl⟩))
    · have hb' : f.bipartite = false := by simpa using hb
      simp only [hb', Bool.false_eq_true, if_false] at h
      split at h
      · cases h
      · rename_i ax hax
        cases h
        obtain ⟨hnn, hnl, hni⟩ := axisOf_named _ _ _ _ _ _ hn hax
        refine ⟨uniq lt ((typedEdges lt rows (weights.getD (List.replicate rows.length 1)) f).flatMap
              fun e => [e.1.1, e.1.2]),
            uniq lt ((typedEdges lt rows (weights.getD (List.replicate rows.length 1)) f).flatMap
              fun e => [e.1.1, e.1.2]),
            by simp [Graph.rowNames, hnn], by simp [Graph.colNames, hnn], ?_, ?_, ?_⟩
        · simp only [sqMatrix]; split <;> simpa [directed2undirected, apply_ite] using hnl
        · simp only [sqMatrix]; split <;> simpa [directed2undirected, apply_ite] using hnl
        · intro i j a b ha hbj
          have hm1 : ∀ e ∈ typedEdges lt rows (weights.getD (List.replicate rows.length 1)) f, e.1.1 ∈
              uniq lt ((typedEdges lt rows (weights.getD (List.replicate rows.length 1)) f).flatMap
                fun e => [e.1.1, e.1.2]) := by
            intro e he
            exact (mem_uniq _ _ _).mpr (List.mem_flatMap.mpr ⟨e, he, by simp⟩)
          have hm2 : ∀ e ∈ typedEdges lt rows (weights.getD (List.replicate rows.length 1)) f, e.1.2 ∈
              uniq lt ((typedEdges lt rows (weights.getD (List.replicate rows.length 1)) f).flatMap
                fun e => [e.1.1, e.1.2]) := by
            intro e he
            exact (mem_uniq _ _ _).mpr (List.mem_flatMap.mpr ⟨e, he, by simp⟩)
          apply entry_sqMatrix lt rows _ f hb' ax i j a b
          · intro e he; rw [hni]; exact pos_eq_iff _ (nodup_uniq _ _) i a _ ha (hm1 e he)
          · intro e he; rw [hni]; exact pos_eq_iff _ (nodup_uniq _ _) j b _ hbj (hm2 e he)
          · intro e he; rw [hni]; exact pos_eq_iff _ (nodup_uniq _ _) j b _ hbj (hm1 e he)
          · intro e he; rw [hni]; exact pos_eq_iff _ (nodup_uniq _ _) i a _ ha (hm2 e he)

example : ∃ g, fromEdgeArray ltStr none [("b", "a"), ("a", "b"), ("b", "a")] (some [2, 3, 1/2]) {} = .ok g ∧
    g.rowNames = some ["a", "b"] ∧ g.matrix.entry 0 1 = 2 + 3 + 1/2 := by
  refine ⟨_, rfl, ?_, ?_⟩ <;> decide +kernel

/-- **edge_array_entry (integer identifiers, no reindexing).** The graph carries no names: index `i` *is* the
    identifier `i`. Every listed identifier is non-negative and below the dimension, the dimensions are at
    least the requested `shape`, and entry (i, j) is the value the specification reads off the edge list for
    the integers (i, j) — in particular 0 for the padding rows / columns. -/
theorem edge_array_entry_int (rows : List (Int × Int)) (weights : Option (List Rat)) (f : Flags) (g : Graph Int)
    (hr : f.reindex = false)
    (h : fromEdgeArray ltInt (some id) rows weights f = .ok g) :
    g.names = none ∧ g.namesRow = none ∧ g.namesCol = none ∧
    (∀ e ∈ rows, 0 ≤ e.1 ∧ 0 ≤ e.2 ∧ e.1.toNat < g.matrix.nRow ∧ e.2.toNat < g.matrix.nCol) ∧
    (∀ s, f.shape = some s → s.1 ≤ g.matrix.nRow ∧ (f.bipartite = true → s.2 ≤ g.matrix.nCol)) ∧
    ∀ i j : Nat, g.matrix.entry i j = specEntry f (rows.zip (weightsOf rows weights)) (i : Int) (j : Int) := by
  unfold fromEdgeArray fromEdgeArrayWith at h
  unfold weightsOf
  simp only at h
  split at h
  · cases h
  · rename_i hlen
    have hlen' : (weights.getD (List.replicate rows.length 1)).length = rows.length := by
      simpa using hlen
    have hkeys := keys_typedEdges ltInt rows _ f hlen'
    have toNat_iff : ∀ (x : Int) (i : Nat), 0 ≤ x → ((id x).toNat = i ↔ x = (i : Int)) := by
      intro x i hx; simp only [id]; omega
    have hdim : ∀ (sd : Option Nat) (ids : List Int) (s : Nat), sd = some s → s ≤ specDim sd (ids.map id) := by
      intro sd ids s hs
      subst hs
      exact Nat.le_max_left _ _
    by_cases hb : f.bipartite = true
    · simp only [hb, if_true, hr] at h
      split at h
      · cases h
      · rename_i ar har
        split at h
        · cases h
        · rename_i ac hac
          cases h
          obtain ⟨hrn, hri, hrpos, _, hrdim, hrlt⟩ := axisOf_int _ _ _ _ _ har
          obtain ⟨hcn, hci, hcpos, _, hcdim, hclt⟩ := axisOf_int _ _ _ _ _ hac
          refine ⟨hrn, hrn, hcn, ?_, ?_, ?_⟩
          · intro e he
            obtain ⟨e', he', hee⟩ := List.mem_map.mp ((hkeys e).mpr he)
            have h1 := hrpos e'.1.1 (List.mem_map.mpr ⟨e', he', rfl⟩)
            have h2 := hcpos e'.1.2 (List.mem_map.mpr ⟨e', he', rfl⟩)
            have h3 := hrlt e'.1.1 (List.mem_map.mpr ⟨e', he', rfl⟩)
            have h4 := hclt e'.1.2 (List.mem_map.mpr ⟨e', he', rfl⟩)
            subst hee
            exact ⟨h1, h2, h3, h4⟩
          · intro s hs
            simp only [bipMatrix, csrOf_nRow, csrOf_nCol]
            constructor
            · rw [hrdim]; exact hdim _ _ _ (by simp [hs])
            · intro _; rw [hcdim]; exact hdim _ _ _ (by simp [hs])
          · intro i j
            apply entry_bipMatrix ltInt rows _ f hb ar ac i j
            · intro e he
              rw [hri]
              exact toNat_iff _ _ (hrpos _ (List.mem_map.mpr ⟨e, he, rfl⟩))
            · intro e he
              rw [hci]
              exact toNat_iff _ _ (hcpos _ (List.mem_map.mpr ⟨e, he, rfl⟩))
    · have hb' : f.bipartite = false := by simpa using hb
      simp only [hb', Bool.false_eq_true, if_false, hr] at h
      split at h
      · cases h
      · rename_i ax hax
        cases h
        obtain ⟨hnn, hni, hpos, _, hdim', hlt⟩ := axisOf_int _ _ _ _ _ hax
        have hn : ∀ M : Coo, (sqMatrix f.weighted f.directed (weightKind f.weighted
            (weights.getD (List.replicate rows.length 1))) (typedEdges ltInt rows
            (weights.getD (List.replicate rows.length 1)) f) ax).nRow = ax.n ∧
            (sqMatrix f.weighted f.directed (weightKind f.weighted
            (weights.getD (List.replicate rows.length 1))) (typedEdges ltInt rows
            (weights.getD (List.replicate rows.length 1)) f) ax).nCol = ax.n := by
          intro _
          simp only [sqMatrix]
          constructor <;> (split <;> simp [directed2undirected, apply_ite])
        have hm1 : ∀ e ∈ typedEdges ltInt rows (weights.getD (List.replicate rows.length 1)) f, e.1.1 ∈
            (typedEdges ltInt rows (weights.getD (List.replicate rows.length 1)) f).flatMap
              fun e => [e.1.1, e.1.2] := by
          intro e he
          exact List.mem_flatMap.mpr ⟨e, he, by simp⟩
        have hm2 : ∀ e ∈ typedEdges ltInt rows (weights.getD (List.replicate rows.length 1)) f, e.1.2 ∈
            (typedEdges ltInt rows (weights.getD (List.replicate rows.length 1)) f).flatMap
              fun e => [e.1.1, e.1.2] := by
          intro e he
          exact List.mem_flatMap.mpr ⟨e, he, by simp⟩
        refine ⟨hnn, rfl, rfl, ?_, ?_, ?_⟩
        · intro e he
          obtain ⟨e', he', hee⟩ := List.mem_map.mp ((hkeys e).mpr he)
          subst hee
          rw [(hn ⟨0, 0, .int, []⟩).1, (hn ⟨0, 0, .int, []⟩).2]
          exact ⟨hpos _ (hm1 e' he'), hpos _ (hm2 e' he'), hlt _ (hm1 e' he'), hlt _ (hm2 e' he')⟩
        · intro s hs
          rw [(hn ⟨0, 0, .int, []⟩).1]
          constructor
          · rw [hdim']; exact hdim _ _ _ (by simp [hs])
          · intro hbt; rw [hb'] at hbt; cases hbt
        · intro i j
          apply entry_sqMatrix ltInt rows _ f hb' ax i j
          · intro e he; rw [hni]; exact toNat_iff _ _ (hpos _ (hm1 e he))
          · intro e he; rw [hni]; exact toNat_iff _ _ (hpos _ (hm2 e he))
          · intro e he; rw [hni]; exact toNat_iff _ _ (hpos _ (hm1 e he))
          · intro e he; rw [hni]; exact toNat_iff _ _ (hpos _ (hm2 e he))

example : ∃ g, fromEdgeArray ltInt (some id) [(0, 3), (3, 0), (0, 3)] none { shape := some (2, 7) } = .ok g ∧
    g.matrix.nRow = 4 ∧ g.matrix.entry 0 3 = 3 ∧ g.matrix.entry 1 2 = 0 := by
  refine ⟨_, rfl, ?_, ?_, ?_⟩ <;> decide +kernel

/-- **no refusal of a valid edge array.** `from_edge_array` returns a graph whenever the edge array is not empty,
    the weights (if given) match it in length, and — unless names are built (non-integer identifiers or
    `reindex`) — the integer identifiers are non-negative. -/
theorem edge_array_ok [DecidableEq α] (lt : α → α → Bool) (asInt : Option (α → Int))
    (rows : List (α × α)) (weights : Option (List Rat)) (f : Flags)
    (hne : rows ≠ []) (hw : ∀ w, weights = some w → w.length = rows.length)
    (hids : asInt = none ∨ f.reindex = true ∨ ∀ v, asInt = some v → ∀ e ∈ rows, 0 ≤ v e.1 ∧ 0 ≤ v e.2) :
    ∃ g, fromEdgeArray lt asInt rows weights f = .ok g := by
  have hlen : (weights.getD (List.replicate rows.length 1)).length = rows.length := by
    cases weights with
    | none => simp
    | some w => simpa using hw w rfl
  have hkeys := keys_typedEdges lt rows _ f hlen
  have hne' := typedEdges_ne_nil lt rows _ f hlen hne
  unfold fromEdgeArray fromEdgeArrayWith
  simp only
  have h0 : ((weights.getD (List.replicate rows.length 1)).length != rows.length) = false := by
    simp [hlen]
  rw [h0]
  simp only [Bool.false_eq_true, if_false]
  -- the three identifier lists are non-empty with non-negative members
  have hax : ∀ (sd : Option Nat) (ids : List α), ids ≠ [] →
      (∀ x ∈ ids, ∃ e ∈ rows, x = e.1 ∨ x = e.2) → ∃ ax, axisOf lt asInt f.reindex sd ids = .ok ax := by
    intro sd ids hidne hmem
    apply axisOf_ok
    rcases hids with h | h | h
    · exact Or.inl h
    · exact Or.inr (Or.inl h)
    · refine Or.inr (Or.inr ⟨hidne, ?_⟩)
      intro v hv x hx
      obtain ⟨e, he, hxe | hxe⟩ := hmem x hx
      · rw [hxe]; exact (h v hv e he).1
      · rw [hxe]; exact (h v hv e he).2
  by_cases hb : f.bipartite = true
  · simp only [hb, if_true]
    obtain ⟨ar, har⟩ := hax (f.shape.map (·.1))
      ((typedEdges lt rows (weights.getD (List.replicate rows.length 1)) f).map (·.1.1))
      (by intro h1; exact hne' (List.map_eq_nil_iff.mp h1))
      (by intro x hx
          obtain ⟨e, he, rfl⟩ := List.mem_map.mp hx
          exact ⟨e.1, (hkeys _).mp (List.mem_map.mpr ⟨e, he, rfl⟩), Or.inl rfl⟩)
    obtain ⟨ac, hac⟩ := hax (f.shape.map (·.2))
      ((typedEdges lt rows (weights.getD (List.replicate rows.length 1)) f).map (·.1.2))
      (by intro h1; exact hne' (List.map_eq_nil_iff.mp h1))
      (by intro x hx
          obtain ⟨e, he, rfl⟩ := List.mem_map.mp hx
          exact ⟨e.1, (hkeys _).mp (List.mem_map.mpr ⟨e, he, rfl⟩), Or.inr rfl⟩)
    rw [har]
    simp only
    rw [hac]
    exact ⟨_, rfl⟩
  · have hb' : f.bipartite = false := by simpa using hb
    simp only [hb', Bool.false_eq_true, if_false]
    obtain ⟨ax, hax'⟩ := hax (f.shape.map (·.1))
      ((typedEdges lt rows (weights.getD (List.replicate rows.length 1)) f).flatMap fun e => [e.1.1, e.1.2])
      (by
        intro h1
        cases hte : typedEdges lt rows (weights.getD (List.replicate rows.length 1)) f with
        | nil => exact hne' hte
        | cons e es => rw [hte] at h1; simp at h1)
      (by intro x hx
          obtain ⟨e, he, hxe⟩ := List.mem_flatMap.mp hx
          simp only [List.mem_cons, List.not_mem_nil, or_false] at hxe
          exact ⟨e.1, (hkeys _).mp (List.mem_map.mpr ⟨e, he, rfl⟩), hxe⟩)
    rw [hax']
    exact ⟨_, rfl⟩

example : ([((0 : Int), (3 : Int)), (3, 0)] : List (Int × Int)) ≠ [] ∧
    ∀ e ∈ ([((0 : Int), (3 : Int)), (3, 0)] : List (Int × Int)), 0 ≤ id e.1 ∧ 0 ≤ id e.2 := by decide

/-- a graph that is not bipartite gets a square matrix — whatever `shape`, `reindex` and the identifier type -/
theorem edge_array_square [DecidableEq α] (lt : α → α → Bool) (asInt : Option (α → Int))
    (rows : List (α × α)) (weights : Option (List Rat)) (f : Flags) (g : Graph α)
    (hb : f.bipartite = false) (h : fromEdgeArray lt asInt rows weights f = .ok g) :
    g.matrix.nCol = g.matrix.nRow := by
  unfold fromEdgeArray fromEdgeArrayWith at h
  simp only at h
  split at h
  · cases h
  · simp only [hb, Bool.false_eq_true, if_false] at h
    split at h
    · cases h
    · cases h
      simp only [sqMatrix]
      split <;> simp [directed2undirected, apply_ite]

/-- **smallest compatible shape.** Without `shape` and without reindexing the dimensions are the largest listed
    identifier plus one (rows: sources, columns: targets when bipartite; all nodes otherwise). -/
theorem edge_array_shape_minimal (rows : List (Int × Int)) (weights : Option (List Rat)) (f : Flags) (g : Graph Int)
    (hr : f.reindex = false) (hs : f.shape = none)
    (h : fromEdgeArray ltInt (some id) rows weights f = .ok g) :
    (f.bipartite = true → (∃ e ∈ rows, e.1.toNat + 1 = g.matrix.nRow) ∧ (∃ e ∈ rows, e.2.toNat + 1 = g.matrix.nCol)) ∧
    (f.bipartite = false → g.matrix.nCol = g.matrix.nRow ∧
      ∃ e ∈ rows, e.1.toNat + 1 = g.matrix.nRow ∨ e.2.toNat + 1 = g.matrix.nRow) := by
  unfold fromEdgeArray fromEdgeArrayWith at h
  simp only at h
  split at h
  · cases h
  · rename_i hlen
    have hlen' : (weights.getD (List.replicate rows.length 1)).length = rows.length := by
      simpa using hlen
    have hkeys := keys_typedEdges ltInt rows _ f hlen'
    by_cases hb : f.bipartite = true
    · simp only [hb, if_true, hr, hs, Option.map_none] at h
      split at h
      · cases h
      · rename_i ar har
        split at h
        · cases h
        · rename_i ac hac
          cases h
          refine ⟨fun _ => ?_, fun hbf => by rw [hb] at hbf; cases hbf⟩
          obtain ⟨x, hx, hxn⟩ := axisOf_int_minimal _ _ _ _ har
          obtain ⟨y, hy, hyn⟩ := axisOf_int_minimal _ _ _ _ hac
          obtain ⟨e1, he1, rfl⟩ := List.mem_map.mp hx
          obtain ⟨e2, he2, rfl⟩ := List.mem_map.mp hy
          exact ⟨⟨e1.1, (hkeys _).mp (List.mem_map.mpr ⟨e1, he1, rfl⟩), by simpa [bipMatrix] using hxn⟩,
                 ⟨e2.1, (hkeys _).mp (List.mem_map.mpr ⟨e2, he2, rfl⟩), by simpa [bipMatrix] using hyn⟩⟩
    · have hb' : f.bipartite = false := by simpa using hb
      simp only [hb', Bool.false_eq_true, if_false, hr, hs, Option.map_none] at h
      split at h
      · cases h
      · rename_i ax hax
        cases h
        refine ⟨fun hbt => (by rw [hb'] at hbt; cases hbt), fun _ => ?_⟩
        have hN : (sqMatrix f.weighted f.directed (weightKind f.weighted
            (weights.getD (List.replicate rows.length 1))) (typedEdges ltInt rows
            (weights.getD (List.replicate rows.length 1)) f) ax).nRow = ax.n ∧
            (sqMatrix f.weighted f.directed (weightKind f.weighted
            (weights.getD (List.replicate rows.length 1))) (typedEdges ltInt rows
            (weights.getD (List.replicate rows.length 1)) f) ax).nCol = ax.n := by
          simp only [sqMatrix]
          constructor <;> (split <;> simp [directed2undirected, apply_ite])
        obtain ⟨x, hx, hxn⟩ := axisOf_int_minimal _ _ _ _ hax
        obtain ⟨e, he, hxe⟩ := List.mem_flatMap.mp hx
        refine ⟨(by rw [hN.1, hN.2]), e.1, (hkeys _).mp (List.mem_map.mpr ⟨e, he, rfl⟩), ?_⟩
        rw [hN.1]
        simp only [List.mem_cons, List.not_mem_nil, or_false] at hxe
        rcases hxe with rfl | rfl
        · exact Or.inl (by simpa using hxn)
        · exact Or.inr (by simpa using hxn)

/-- **names_roundtrip.** For a named graph the names number the identifiers one-to-one: no identifier is listed
    twice, every identifier of the edge list has an index inside the matrix whose name is that identifier
    (rows: sources, columns: targets; all nodes when not bipartite), and every name is an identifier of the list. -/
theorem names_roundtrip [DecidableEq α] (lt : α → α → Bool) (asInt : Option (α → Int))
    (rows : List (α × α)) (weights : Option (List Rat)) (f : Flags) (g : Graph α)
    (hn : asInt = none ∨ f.reindex = true)
    (h : fromEdgeArray lt asInt rows weights f = .ok g) :
    ∃ rn cn, g.rowNames = some rn ∧ g.colNames = some cn ∧ rn.Nodup ∧ cn.Nodup ∧
      (∀ e ∈ rows, (∃ i, i < g.matrix.nRow ∧ rn[i]? = some e.1) ∧ (∃ j, j < g.matrix.nCol ∧ cn[j]? = some e.2)) ∧
      (∀ a ∈ rn, ∃ e ∈ rows, e.1 = a ∨ (f.bipartite = false ∧ e.2 = a)) ∧
      (∀ b ∈ cn, ∃ e ∈ rows, e.2 = b ∨ (f.bipartite = false ∧ e.1 = b)) := by
  unfold fromEdgeArray fromEdgeArrayWith at h
  simp only at h
  split at h
  · cases h
  · rename_i hlen
    have hlen' : (weights.getD (List.replicate rows.length 1)).length = rows.length := by
      simpa using hlen
    have hkeys := keys_typedEdges lt rows _ f hlen'
    by_cases hb : f.bipartite = true
    · simp only [hb, if_true] at h
      split at h
      · cases h
      · rename_i ar har
        split at h
        · cases h
        · rename_i ac hac
          cases h
          obtain ⟨hrn, hrl, _⟩ := axisOf_named _ _ _ _ _ _ hn har
          obtain ⟨hcn, hcl, _⟩ := axisOf_named _ _ _ _ _ _ hn hac
          refine ⟨uniq lt ((typedEdges lt rows (weights.getD (List.replicate rows.length 1)) f).map (·.1.1)),
            uniq lt ((typedEdges lt rows (weights.getD (List.replicate rows.length 1)) f).map (·.1.2)),
            by simp [Graph.rowNames, hrn], by simp [Graph.colNames, hcn], nodup_uniq _ _, nodup_uniq _ _, ?_, ?_, ?_⟩
          · intro e he
            obtain ⟨e', he', hee⟩ := List.mem_map.mp ((hkeys e).mpr he)
            subst hee
            have m1 := (mem_uniq lt _ _).mpr (List.mem_map.mpr ⟨e', he', rfl⟩ :
              e'.1.1 ∈ (typedEdges lt rows (weights.getD (List.replicate rows.length 1)) f).map (·.1.1))
            have m2 := (mem_uniq lt _ _).mpr (List.mem_map.mpr ⟨e', he', rfl⟩ :
              e'.1.2 ∈ (typedEdges lt rows (weights.getD (List.replicate rows.length 1)) f).map (·.1.2))
            refine ⟨⟨_, ?_, getElem?_pos _ _ m1⟩, ⟨_, ?_, getElem?_pos _ _ m2⟩⟩
            · simp only [bipMatrix, csrOf_nRow]; rw [hrl]; exact pos_lt _ _ m1
            · simp only [bipMatrix, csrOf_nCol]; rw [hcl]; exact pos_lt _ _ m2
          · intro a ha
            obtain ⟨e', he', hee⟩ := List.mem_map.mp ((mem_uniq lt _ _).mp ha)
            exact ⟨e'.1, (hkeys _).mp (List.mem_map.mpr ⟨e', he', rfl⟩), Or.inl hee⟩
          · intro b hb2
            obtain ⟨e', he', hee⟩ := List.mem_map.mp ((mem_uniq lt _ _).mp hb2)
            exact ⟨e'.1, (hkeys _).mp (List.mem_map.mpr ⟨e', he', rfl⟩), Or.inl hee⟩
    · have hb' : f.bipartite = false := by simpa using hb
      simp only [hb', Bool.false_eq_true, if_false] at h
      split at h
      · cases h
      · rename_i ax hax
        cases h
        obtain ⟨hnn, hnl, _⟩ := axisOf_named _ _ _ _ _ _ hn hax
        have hN : (sqMatrix f.weighted f.directed (weightKind f.weighted
            (weights.getD (List.replicate rows.length 1))) (typedEdges lt rows
            (weights.getD (List.replicate rows.length 1)) f) ax).nRow = ax.n ∧
            (sqMatrix f.weighted f.directed (weightKind f.weighted
            (weights.getD (List.replicate rows.length 1))) (typedEdges lt rows
            (weights.getD (List.replicate rows.length 1)) f) ax).nCol = ax.n := by
          simp only [sqMatrix]
          constructor <;> (split <;> simp [directed2undirected, apply_ite])
        have hm : ∀ e ∈ typedEdges lt rows (weights.getD (List.replicate rows.length 1)) f,
            e.1.1 ∈ uniq lt ((typedEdges lt rows (weights.getD (List.replicate rows.length 1)) f).flatMap
                fun e => [e.1.1, e.1.2]) ∧
            e.1.2 ∈ uniq lt ((typedEdges lt rows (weights.getD (List.replicate rows.length 1)) f).flatMap
                fun e => [e.1.1, e.1.2]) := by
          intro e he
          exact ⟨(mem_uniq _ _ _).mpr (List.mem_flatMap.mpr ⟨e, he, by simp⟩),
                 (mem_uniq _ _ _).mpr (List.mem_flatMap.mpr ⟨e, he, by simp⟩)⟩
        have hback : ∀ a ∈ uniq lt ((typedEdges lt rows (weights.getD (List.replicate rows.length 1)) f).flatMap
            fun e => [e.1.1, e.1.2]), ∃ e ∈ rows, e.1 = a ∨ e.2 = a := by
          intro a ha
          obtain ⟨e', he', hee⟩ := List.mem_flatMap.mp ((mem_uniq lt _ _).mp ha)
          refine ⟨e'.1, (hkeys _).mp (List.mem_map.mpr ⟨e', he', rfl⟩), ?_⟩
          simp only [List.mem_cons, List.not_mem_nil, or_false] at hee
          rcases hee with hee | hee
          · exact Or.inl hee.symm
          · exact Or.inr hee.symm
        refine ⟨uniq lt ((typedEdges lt rows (weights.getD (List.replicate rows.length 1)) f).flatMap
              fun e => [e.1.1, e.1.2]),
          uniq lt ((typedEdges lt rows (weights.getD (List.replicate rows.length 1)) f).flatMap
              fun e => [e.1.1, e.1.2]),
          by simp [Graph.rowNames, hnn], by simp [Graph.colNames, hnn], nodup_uniq _ _, nodup_uniq _ _,
          ?_, ?_, ?_⟩
        · intro e he
          obtain ⟨e', he', hee⟩ := List.mem_map.mp ((hkeys e).mpr he)
          subst hee
          obtain ⟨m1, m2⟩ := hm e' he'
          refine ⟨⟨_, ?_, getElem?_pos _ _ m1⟩, ⟨_, ?_, getElem?_pos _ _ m2⟩⟩
          · rw [hN.1, hnl]; exact pos_lt _ _ m1
          · rw [hN.2, hnl]; exact pos_lt _ _ m2
        · intro a ha
          obtain ⟨e, he, h1 | h1⟩ := hback a ha
          · exact ⟨e, he, Or.inl h1⟩
          · exact ⟨e, he, Or.inr ⟨hb', h1⟩⟩
        · intro b hb2
          obtain ⟨e, he, h1 | h1⟩ := hback b hb2
          · exact ⟨e, he, Or.inr ⟨hb', h1⟩⟩
          · exact ⟨e, he, Or.inl h1⟩

example : ∃ g, fromEdgeArray ltStr none [("b", "a"), ("c", "a")] none { bipartite := true } = .ok g ∧
    g.rowNames = some ["b", "c"] ∧ g.colNames = some ["a"] ∧ g.matrix.nRow = 2 ∧ g.matrix.nCol = 1 := by
  refine ⟨_, rfl, ?_, ?_, ?_, ?_⟩ <;> decide +kernel

/-- **symmetrised when undirected**: for a graph that is neither directed nor bipartite the specified value of
    (a, b) is that of (b, a) — so, by `edge_array_entry_named` / `edge_array_entry_int`, the returned matrix is symmetric. -/
theorem undirected_symmetric [DecidableEq α] (f : Flags) (hd : f.directed = false) (hb : f.bipartite = false)
    (es : List ((α × α) × Rat)) (a b : α) : specEntry f es a b = specEntry f es b a := by
  unfold specEntry
  simp only [hd, hb, Bool.or_self, Bool.false_eq_true, if_false]
  by_cases hw : f.weighted = true
  · simp only [hw, if_true]
    exact Rat.add_comm _ _
  · simp only [hw, Bool.false_eq_true, if_false, Bool.or_comm]

/-- the matrix of an undirected graph with integer identifiers is symmetric -/
theorem edge_array_symmetric_int (rows : List (Int × Int)) (weights : Option (List Rat)) (f : Flags) (g : Graph Int)
    (hr : f.reindex = false) (hd : f.directed = false) (hb : f.bipartite = false)
    (h : fromEdgeArray ltInt (some id) rows weights f = .ok g) (i j : Nat) :
    g.matrix.entry i j = g.matrix.entry j i := by
  obtain ⟨_, _, _, _, _, hent⟩ := edge_array_entry_int rows weights f g hr h
  rw [hent i j, hent j i]
  exact undirected_symmetric f hd hb _ _ _

/-- **the graph of an edge multiset.** With `sum_duplicates` on, the specified entries do not depend on the order
    in which the edges are listed: the matrix is a function of the *multiset* of (edge, weight) pairs. (With
    `sum_duplicates` off the first occurrence wins, by definition.) -/
theorem specEntry_perm [DecidableEq α] (f : Flags) (hs : f.sumDuplicates = true)
    (es es' : List ((α × α) × Rat)) (hp : es.Perm es') (a b : α) :
    specEntry f es a b = specEntry f es' a b := by
  have hl : ∀ x y : α, (listed es x y).Perm (listed es' x y) := by
    intro x y
    unfold listed
    exact (hp.filter _).map _
  have hb : ∀ x y : α, baseEntry f (listed es x y) = baseEntry f (listed es' x y) := by
    intro x y
    unfold baseEntry
    simp only [hs, if_true]
    rw [rsum_perm _ _ (hl x y), any_perm _ _ _ (hl x y)]
  unfold specEntry
  rw [hb a b, hb b a]

/-- **F13, pinned code.** With `directed2undirected(matrix)` called with its default `weighted=True`, the
    unweighted undirected graph with the two reciprocal edges (0,1), (1,0) gets the entry 2: not binary. -/
theorem pinned_unweighted_not_binary :
    ∃ g, fromEdgeArrayPinned ltInt (some id) [(0, 1), (1, 0)] none { weighted := false } = .ok g ∧
      g.matrix.entry 0 1 = 2 ∧
      specEntry { weighted := false } ([(0, 1), (1, 0)].zip (weightsOf [((0 : Int), (1 : Int)), (1, 0)] none)) (0 : Int) 1 = 1 := by
  refine ⟨_, rfl, ?_, ?_⟩ <;> decide +kernel

/-- **binary when unweighted** (the repaired code): with `weighted` off every entry is 0 or 1, whatever the
    flags, duplicates, reciprocal edges and self-loops. -/
theorem unweighted_binary [DecidableEq α] (f : Flags) (hw : f.weighted = false) (es : List ((α × α) × Rat)) (a b : α) :
    specEntry f es a b = 0 ∨ specEntry f es a b = 1 := by
  have key : ∀ c : Bool, (if c = true then (1 : Rat) else 0) = 0 ∨ (if c = true then (1 : Rat) else 0) = 1 := by
    intro c; cases c <;> simp
  unfold specEntry baseEntry
  simp only [hw, Bool.false_eq_true, if_false]
  split
  · exact key _
  · exact key _

/-! ## from_edge_list, from_adjacency_list: reduction to from_edge_array -/

/-- all tuples have the arity of the first one, and the weights are numbers -/
def WellFormedTuples (edges : List EdgeTuple) : Prop :=
  edges ≠ [] ∧ (∀ e ∈ edges, e.2.2 ≠ .text) ∧ (hasWeights edges = true → ∀ e ∈ edges, e.2.2 ≠ .absent)

/-- **from_edge_list is from_edge_array on the typed array.** (Integers are exact in the model; numpy holds them
    in int64: identifiers are assumed to lie in [-2^63, 2^63), beyond that numpy builds object arrays, which are
    not modelled. Since the repair of F-bigint no identifier goes through a float any more.) For a non-empty list of tuples of one arity with numeric
    weights, `from_edge_list` is `from_edge_array` applied to the array numpy builds (`classify`: an integer
    array when every identifier is an int or every identifier reads as an integer, else the array of their
    strings) and to the weights — so `edge_array_entry_*` and `names_roundtrip` describe its result, the names
    being the integers, resp. the strings, of the identifiers. -/
theorem edge_list_typed (parse : String → Option Int) (edges : List EdgeTuple) (f : Flags)
    (hwf : WellFormedTuples edges) :
    fromEdgeList parse edges f =
      match classify parse (edges.map fun e => (e.1, e.2.1)) with
      | .inl rows => liftNames .int (fromEdgeArray ltInt (some id) rows (tupleWeights edges) f)
      | .inr rows => liftNames .str (fromEdgeArray ltStr none rows (tupleWeights edges) f) := by
  obtain ⟨hne, htext, habs⟩ := hwf
  unfold fromEdgeList fromEdgeListWith fromEdgeArray
  have h1 : (hasWeights edges && edges.any fun e => decide (e.2.2 = WField.absent)) = false := by
    cases hw : hasWeights edges with
    | false => rfl
    | true =>
      simp only [Bool.true_and]
      rw [List.any_eq_false]
      intro e he
      simp [habs hw e he]
  have h2 : (edges.isEmpty && f.bipartite) = false := by
    cases edges with
    | nil => exact absurd rfl hne
    | cons _ _ => rfl
  have h3 : (hasWeights edges && edges.any fun e => decide (e.2.2 = WField.text)) = false := by
    have : (edges.any fun e => decide (e.2.2 = WField.text)) = false := by
      rw [List.any_eq_false]
      intro e he
      simp [htext e he]
    rw [this, Bool.and_false]
  simp only [h1, h2, h3, Bool.false_eq_true, if_false]
  cases classify parse (List.map (fun e => (e.fst, e.snd.fst)) edges) <;> rfl

/-- what numpy's dtype decision returns: an integer array made of the identifiers themselves when they all are
    Python ints; otherwise the array of their strings, read as integers when every one of them parses -/
theorem classify_cases (parse : String → Option Int) (rows : List (Ident × Ident)) :
    (classify parse rows = .inl (rows.map fun r => (r.1.intVal, r.2.intVal)) ∧
      ∀ r ∈ rows, r.1.isInt = true ∧ r.2.isInt = true) ∨
    (classify parse rows = .inl (rows.map fun r => ((parse r.1.toStr).getD 0, (parse r.2.toStr).getD 0)) ∧
      ∀ r ∈ rows, (parse r.1.toStr).isSome = true ∧ (parse r.2.toStr).isSome = true) ∨
    (classify parse rows = .inr (rows.map fun r => (r.1.toStr, r.2.toStr)) ∧
      ∃ r ∈ rows, (parse r.1.toStr).isSome = false ∨ (parse r.2.toStr).isSome = false) := by
  unfold classify
  by_cases h1 : rows.all (fun r => r.1.isInt && r.2.isInt) = true
  · left
    simp only [h1, if_true, true_and]
    intro r hr
    rw [List.all_eq_true] at h1
    simpa using h1 r hr
  · right
    simp only [h1, Bool.false_eq_true, if_false]
    by_cases h2 : (rows.map fun r => (r.1.toStr, r.2.toStr)).all
        (fun r => (parse r.1).isSome && (parse r.2).isSome) = true
    · left
      simp only [h2, if_true, List.map_map]
      refine ⟨rfl, ?_⟩
      intro r hr
      rw [List.all_eq_true] at h2
      simpa using h2 _ (List.mem_map.mpr ⟨r, hr, rfl⟩)
    · right
      simp only [h2, Bool.false_eq_true, if_false, true_and]
      have h2' : ¬ ∀ x ∈ rows.map (fun r => (r.1.toStr, r.2.toStr)), ((parse x.1).isSome && (parse x.2).isSome) = true := by
        rwa [List.all_eq_true] at h2
      apply Classical.byContradiction
      intro hcon
      apply h2'
      intro x hx
      obtain ⟨r, hr, rfl⟩ := List.mem_map.mp hx
      cases ha : (parse r.1.toStr).isSome <;> cases hb : (parse r.2.toStr).isSome <;>
        first | rfl | exact absurd ⟨r, hr, by simp [ha, hb]⟩ hcon

/-- `liftNames` keeps the matrix and the shape of the answer and maps the names -/
theorem liftNames_ok (hmap : α → Ident) (x : Except Ingest.PyErr (Graph α)) (g : Graph Ident)
    (h : liftNames hmap x = .ok g) :
    ∃ g0, x = .ok g0 ∧ g.matrix = g0.matrix ∧ g.matrixOnly = g0.matrixOnly ∧ g.bipartite = g0.bipartite ∧
      g.names = g0.names.map (·.map hmap) ∧ g.namesRow = g0.namesRow.map (·.map hmap) ∧
      g.namesCol = g0.namesCol.map (·.map hmap) := by
  cases x with
  | error e => simp [liftNames] at h
  | ok g0 =>
    simp only [liftNames, Except.ok.injEq] at h
    subst h
    exact ⟨g0, rfl, rfl, rfl, rfl, rfl, rfl, rfl⟩

/-- **from_edge_list, string identifiers.** When some identifier does not read as an integer (hypothesis `hcl`;
    a list made only of numeric-looking strings such as the zip codes `'01234'`, `'02138'` does *not* satisfy it:
    numpy reads them as the integers 1234, 2138 and their spelling is lost — an excluded input, see the status
    file), the graph returned by `from_edge_list` is named by the printed forms of the identifiers, and entry (i, j) is the value the
    specification reads off the list of tuples for the identifiers named at i and j. -/
theorem edge_list_entry_str (parse : String → Option Int) (edges : List EdgeTuple) (f : Flags) (g : Graph Ident)
    (hwf : WellFormedTuples edges)
    (hcl : classify parse (edges.map fun e => (e.1, e.2.1)) = .inr (edges.map fun e => (e.1.toStr, e.2.1.toStr)))
    (h : fromEdgeList parse edges f = .ok g) :
    ∃ rn cn : List String, g.rowNames = some (rn.map .str) ∧ g.colNames = some (cn.map .str) ∧
      g.matrix.nRow = rn.length ∧ g.matrix.nCol = cn.length ∧
      ∀ i j a b, rn[i]? = some a → cn[j]? = some b →
        g.matrix.entry i j = specEntry f ((edges.map fun e => (e.1.toStr, e.2.1.toStr)).zip
          (weightsOf (edges.map fun e => (e.1.toStr, e.2.1.toStr)) (tupleWeights edges))) a b := by
  rw [edge_list_typed parse edges f hwf, hcl] at h
  simp only at h
  obtain ⟨g0, hg0, hm, _, hbip, hn, hnr, hnc⟩ := liftNames_ok _ _ _ h
  obtain ⟨rn, cn, hrn, hcn, hr, hc, hent⟩ := edge_array_entry_named ltStr none _ _ f g0 (Or.inl rfl) hg0
  refine ⟨rn, cn, ?_, ?_, by rw [hm]; exact hr, by rw [hm]; exact hc, ?_⟩
  · unfold Graph.rowNames at hrn ⊢
    rw [hbip, hn, hnr]
    by_cases hb : g0.bipartite = true
    · simp only [hb, if_true] at hrn ⊢; rw [hrn]; rfl
    · have hb' : g0.bipartite = false := by simpa using hb
      simp only [hb', Bool.false_eq_true, if_false] at hrn ⊢; rw [hrn]; rfl
  · unfold Graph.colNames at hcn ⊢
    rw [hbip, hn, hnc]
    by_cases hb : g0.bipartite = true
    · simp only [hb, if_true] at hcn ⊢; rw [hcn]; rfl
    · have hb' : g0.bipartite = false := by simpa using hb
      simp only [hb', Bool.false_eq_true, if_false] at hcn ⊢; rw [hcn]; rfl
  · intro i j a b ha hb
    rw [hm]
    exact hent i j a b ha hb

/-- **from_edge_list, integer identifiers, no reindexing.** When numpy builds an integer array (`rows`) from the
    tuples, the graph carries no names and entry (i, j) is the value the specification reads off the list for
    the integers (i, j). -/
theorem edge_list_entry_int (parse : String → Option Int) (edges : List EdgeTuple) (f : Flags) (g : Graph Ident)
    (rows : List (Int × Int)) (hwf : WellFormedTuples edges) (hr : f.reindex = false)
    (hcl : classify parse (edges.map fun e => (e.1, e.2.1)) = .inl rows)
    (h : fromEdgeList parse edges f = .ok g) :
    g.names = none ∧ g.namesRow = none ∧ g.namesCol = none ∧
    ∀ i j : Nat, g.matrix.entry i j
      = specEntry f (rows.zip (weightsOf rows (tupleWeights edges))) (i : Int) (j : Int) := by
  rw [edge_list_typed parse edges f hwf, hcl] at h
  simp only at h
  obtain ⟨g0, hg0, hm, _, _, hn, hnr, hnc⟩ := liftNames_ok _ _ _ h
  obtain ⟨h1, h2, h3, _, _, hent⟩ := edge_array_entry_int rows _ f g0 hr hg0
  refine ⟨by rw [hn, h1]; rfl, by rw [hnr, h2]; rfl, by rw [hnc, h3]; rfl, ?_⟩
  intro i j
  rw [hm]
  exact hent i j

/-- `from_adjacency_list` is `from_edge_list` on the pairs (node, neighbour), in order -/
theorem adjacency_list_as_edges (parse : String → Option Int) (adj : List (List Ident)) (f : Flags) :
    fromAdjacencyList parse adj f
      = fromEdgeList parse (((List.range adj.length).zip adj).flatMap fun r => r.2.map fun j => (.int r.1, j, .absent)) f := by
  unfold fromAdjacencyList adjacencyEdges
  simp [List.flatMap_map]

example : WellFormedTuples [(.str "a", .int 1, .num 2), (.int 1, .str "b", .num (1/2))] := by
  refine ⟨by simp, ?_, ?_⟩
  · intro e he; simp at he; rcases he with rfl | rfl <;> simp
  · intro _ e he; simp at he; rcases he with rfl | rfl <;> simp

/-! ## ★ csv_as_rows -/

/-- **csv_as_rows (delimiter given).** A file made of comment lines followed by data rows (any number: only the
    first `n_scan = 100` are scanned), read with
    the delimiter `d` given as `delimiter=` or through its alias `sep=` (any character), whose rows all split into
    two fields or all into three, without blanks around the fields, blank rows,
    quote characters (`csv.reader` honours quotes, the model's reader does not: `CleanFile.unquoted`) or numeric
    identifiers that are not integers (`hint`: the fast path truncates `1.5`, `from_edge_list` keeps it): `from_csv` returns exactly what `from_edge_list` returns on the
    list of its rows (numeric fast path and string branch alike) — for all flags. -/
theorem csv_as_rows_given (num : String → Option Rat) (header body : List String)
    (a : CsvArgs) (f : Flags) (d : Char)
    (hgiven : csvGiven a = some d)
    (hlay : a.layout = none ∨ a.layout = some .edgeList)
    (hh : ∀ s ∈ header, isCommentLine a.comments s = true)
    (hclean : CleanFile d (lastComment (a.comments.headD '#') header) a.comments header body)
    (hrs : ∀ s ∈ body, rstrip s = s)
    (hne : body ≠ [])
    (hshape : (∀ s ∈ body, (splitAt d s).length = 2) ∨ (∀ s ∈ body, (splitAt d s).length = 3))
    (hint : ∀ s ∈ body, ∀ r, (num ((splitAt d s).getD 0 "") = some r → r.den = 1) ∧
                              (num ((splitAt d s).getD 1 "") = some r → r.den = 1)) :
    fromCsv num (header ++ body) a f = fromEdgeList (intOfNum num) (tuplesOf num (body.map (splitAt d))) f :=
  fromCsv_given _ num header body a f d hgiven hlay hh hclean hrs hne hshape hint

/-- **csv_as_rows (delimiter inferred).** The same when no delimiter is given and one of the candidates
    tab / comma / semicolon / space separates the fields (same positive count on every row) and is the only
    candidate with that property on the first 100 rows — another candidate may occur inside the fields
    (`New York,Boston`), as long as it does not occur equally often in every row. -/
theorem csv_as_rows_inferred (num : String → Option Rat) (header body : List String)
    (a : CsvArgs) (f : Flags) (k : Nat) (hk : k < 4)
    (hgiven : csvGiven a = none)
    (hlay : a.layout = none ∨ a.layout = some .edgeList)
    (hh : ∀ s ∈ header, isCommentLine a.comments s = true)
    (hclean : CleanFile (['\t', ',', ';', ' '].getD k ' ') (lastComment (a.comments.headD '#') header) a.comments
      header body)
    (hrs : ∀ s ∈ body, rstrip s = s)
    (hne : body ≠ [])
    (hshape : (∀ s ∈ body, (splitAt (['\t', ',', ';', ' '].getD k ' ') s).length = 2) ∨
              (∀ s ∈ body, (splitAt (['\t', ',', ';', ' '].getD k ' ') s).length = 3))
    (hunique : ∀ j, j < 4 → j ≠ k → consistentCol
      ((body.take 100).map fun row => ['\t', ',', ';', ' '].map (fun d => countChar d row)) j = false)
    (hint : ∀ s ∈ body, ∀ r,
      (num ((splitAt (['\t', ',', ';', ' '].getD k ' ') s).getD 0 "") = some r → r.den = 1) ∧
      (num ((splitAt (['\t', ',', ';', ' '].getD k ' ') s).getD 1 "") = some r → r.den = 1)) :
    fromCsv num (header ++ body) a f
      = fromEdgeList (intOfNum num) (tuplesOf num (body.map (splitAt (['\t', ',', ';', ' '].getD k ' ')))) f :=
  fromCsv_inferred _ num header body a f k hk hgiven hlay hh hclean hrs hne hshape hunique hint

/-- **csv_as_rows, adjacency-list layout.** With `data_structure='adjacency_list'`, `from_csv` is
    `from_adjacency_list` of the rows that `csv.reader` returns for the lines that are not comments (a blank line
    is a node without neighbours), for every file, delimiter and flag combination. -/
theorem csv_adjacency_list_as_rows (num : String → Option Rat) (lines : List String) (a : CsvArgs) (f : Flags)
    (h : a.layout = some .adjacencyList) :
    fromCsv num lines a f
      = fromAdjacencyList (intOfNum num)
          ((csvRows (csvDelimiter lines a) (dataLines a.comments lines)).map (·.map Ident.str)) f := by
  unfold fromCsv fromCsvWith fromAdjacencyList fromEdgeList
  simp only [h, Option.getD_some, List.length_map]
  congr 2
  rw [List.zip_map_right, List.map_map]
  rfl

/-- **csv_as_rows, adjacency-dict layout.** With `data_structure='adjacency_dict'` and no empty row, `from_csv`
    is `from_adjacency_list` of the dictionary {first field: other fields} of the rows (a repeated key keeps its
    first position and its last list, as a Python dict does). -/
theorem csv_adjacency_dict_as_rows (num : String → Option Rat) (lines : List String) (a : CsvArgs) (f : Flags)
    (h : a.layout = some .adjacencyDict)
    (hne : ∀ r ∈ csvRows (csvDelimiter lines a) (dataLines a.comments lines), r ≠ []) :
    fromCsv num lines a f
      = fromAdjacencyDict (intOfNum num)
          (((csvRows (csvDelimiter lines a) (dataLines a.comments lines)).map (·.headD "")).eraseDups.map fun k =>
            (Ident.str k, (((csvRows (csvDelimiter lines a) (dataLines a.comments lines)).reverse.find?
              (fun r => r.headD "" = k)).getD []).drop 1 |>.map Ident.str)) f := by
  unfold fromCsv fromCsvWith fromAdjacencyDict fromEdgeList
  simp only [h, Option.getD_some]
  have : (csvRows (csvDelimiter lines a) (dataLines a.comments lines)).any (fun r => r.isEmpty) = false := by
    rw [List.any_eq_false]
    intro r hr
    have := hne r hr
    cases r with
    | nil => exact absurd rfl this
    | cons _ _ => simp
  simp only [this, Bool.false_eq_true, if_false]

/-- `from_adjacency_list` on a dict is `from_edge_list` on the (key, neighbour) pairs, in insertion order -/
theorem adjacency_dict_as_edges (parse : String → Option Int) (adj : List (Ident × List Ident)) (f : Flags) :
    fromAdjacencyDict parse adj f
      = fromEdgeList parse (adj.flatMap fun r => r.2.map fun j => (r.1, j, .absent)) f := rfl

/-- a concrete file meeting the hypotheses: one comment line, two rows `a,b,2` / `b,c,0.5` -/
example : CleanFile ',' (lastComment '#' ["# two edges"]) ['#', '%'] ["# two edges"] ["a,b,2", "b,c,0.5"] ∧
    (∀ s ∈ ["a,b,2", "b,c,0.5"], rstrip s = s) ∧ (∀ s ∈ ["a,b,2", "b,c,0.5"], (splitAt ',' s).length = 3) ∧
    isCommentLine ['#', '%'] "# two edges" = true := by
  refine ⟨⟨?_, ?_, ?_, ?_, ?_, ?_⟩, ?_, ?_, ?_⟩ <;> decide +kernel

/-- **the inferred delimiter splits every scanned row consistently**: when `scan_header` picks candidate `k`
    because it passes the test `mean > 0 and std == 0`, that character occurs the same number `c ≥ 1` of times
    in each of the scanned rows, which all split into `c + 1` fields. -/
theorem inferred_delimiter_consistent (delims : List Char) (body : List String) (k : Nat) (hk : k < delims.length)
    (h : consistentCol (body.map fun row => delims.map (fun d => countChar d row)) k = true) :
    ∃ c, 0 < c ∧ ∀ row ∈ body, countChar (delims.getD k ' ') row = c ∧
      (splitAt (delims.getD k ' ') row).length = c + 1 :=
  equal_counts_of_consistent delims body k hk h

/-- what `scan_header` returns on comment lines followed by at most `n_scan` data rows: the number of comment
    lines, the first character of the last one, the chosen candidate, and the layout read off the rows
    (blank lines are not data rows: excluded here by `hnb`). -/
theorem scan_header_clean (delims comments : List Char) (nScan : Nat) (header body : List String)
    (hh : ∀ s ∈ header, isCommentLine comments s = true)
    (hb : ∀ s ∈ body, isCommentLine comments s = false)
    (hnb : ∀ s ∈ body, strip s ≠ "")
    (hn : body.length ≤ nScan) :
    (scanHeader (header ++ body) delims comments nScan).headerLength = header.length ∧
    (scanHeader (header ++ body) delims comments nScan).comment = lastComment (comments.headD '#') header ∧
    (scanHeader (header ++ body) delims comments nScan).delimiter
      = delims.getD (chooseDelimiter delims.length (body.map fun row => delims.map (fun d => countChar d row))) ' ' ∧
    (scanHeader (header ++ body) delims comments nScan).layout
      = layoutOf (scanHeader (header ++ body) delims comments nScan).delimiter (body.map rstrip) :=
  scanHeader_clean delims comments nScan header body hh hb hnb hn

/-! ## graphml_preserves -/

open SkNet.GraphML in
/-- **graphml_preserves.** When `from_graphml` returns, (1) the matrix is square of order the number of node
    elements and the names are the node ids in document order (absent for canonical node ids); (2) the edge
    elements are read, one by one, as resolved edges in the sense of `ReadsAs` — a clause-by-clause statement
    about the document: end points = positions of the `source` / `target` ids among the node ids (or the number
    in `n<k>` for canonical ids), weight = declared default if no `<data>` carries the weight key, else the
    converted text of the last one that does, undirected iff own `directed` ≠ "true" or absent with
    `edgedefault = "undirected"` — all end points inside the matrix; (3) entry (i, j) collects exactly the
    weights of the edges i → j and of the undirected edges j → i (summed; `or`-ed for boolean weights).
    `ws` is the description of the weights read off the `key` elements (`scanKeys`: the last key named
    `weight_key` that is not declared for nodes; `graphml_no_weight_key` for documents without one).
    With repeated node ids `nodeIds[e.source]? = some s` still holds but does not determine `e.source`:
    the reading is unique only when the ids are distinct. -/
theorem graphml_preserves (num : String → Option Rat) (parseNat : String → Option Nat) (weightKey : String)
    (doc : Doc) (r : Result) (h : fromGraphml num parseNat weightKey doc = .ok r) :
    ∃ (ws : WeightSpec) (others : List OtherKey) (res : List REdge),
      scanKeys num weightKey doc.keys ⟨some .bool, none, 1⟩ [] = .ok (ws, others) ∧
      AllRel (ReadsAs num parseNat doc.nodeids doc.edgedefault doc.nodeIds ws.id ws.ptype ws.default) doc.edges res ∧
      r.matrix.nRow = doc.nodes.length ∧ r.matrix.nCol = doc.nodes.length ∧
      r.names = (if doc.naming then some doc.nodeIds else none) ∧
      (∀ e ∈ res, e.source < doc.nodes.length ∧ e.target < doc.nodes.length) ∧
      ∀ i j, r.matrix.entry i j = GraphML.specEntry ws.kind res i j := by
  unfold fromGraphml at h
  split at h
  · split at h <;> cases h
  · split at h
    · cases h
    · split at h
      · cases h
      · rename_i ws others hws
        split at h
        · cases h
        · split at h
          · cases h
          · split at h
            · cases h
            · rename_i ts hts
              simp only at h
              split at h
              · cases h
              · rename_i hrange
                split at h
                · cases h
                cases h
                obtain ⟨res, hres, hmem, hvals⟩ := triples_sound num parseNat ws others doc.naming
                  doc.symmetrize doc.nodeIds doc.nodes.length doc.nodes.length ws.kind doc.edges ts hts
                refine ⟨ws, others, res, hws,
                  hres.imp (fun c e hce => resolves_readsAs num parseNat doc ws others c e hce), rfl, rfl, rfl, ?_, ?_⟩
                · intro e he
                  have hm := hmem e he
                  have hr : ts.any (fun t => decide (doc.nodes.length ≤ t.1) || decide (doc.nodes.length ≤ t.2.1)) = false := by
                    simpa using hrange
                  rw [List.any_eq_false] at hr
                  have := hr _ hm
                  simp only [Bool.or_eq_true, decide_eq_true_eq, not_or] at this
                  omega
                · intro i j
                  rw [entry_csrOf]
                  unfold Coo.entry GraphML.specEntry
                  rw [hvals]

open SkNet.GraphML in
/-- without a key named `weight_key` (declared for something else than nodes) the weights are boolean ones:
    no id, default 1 -/
theorem graphml_no_weight_key (num : String → Option Rat) (weightKey : String) (keys : List Key)
    (ws : WeightSpec) (others : List OtherKey)
    (hno : ∀ k ∈ keys, isWeightKey weightKey k = false)
    (h : scanKeys num weightKey keys ⟨some .bool, none, 1⟩ [] = .ok (ws, others)) :
    ws.ptype = some .bool ∧ ws.id = none ∧ ws.default = 1 := by
  have := scanKeys_no_weight num weightKey keys _ ws [] others hno h
  rw [this]
  exact ⟨rfl, rfl, rfl⟩

open SkNet.GraphML in
/-- **no refusal of a well-formed document**, the hypotheses being about the document: a graph element carrying
    `edgedefault`, named nodes that all have an id, `key` elements with an id whose `<default>` texts are of their
    type (`KeyOk`; name, type and `for` may be absent: DTD defaults), node `<data>` children whose key is a
    registered key for nodes (or for all) with a text of its type (`DataOk`), edges whose end points are declared
    node ids and whose `<data>` children are the weight (text of its type) or such a datum for edges, and a weight
    key that is not declared as a string. (`ws` is what the scan of the keys returns; without a weight key it is
    the boolean default, see `graphml_no_weight_key`, and every edge datum is then of the second kind.) -/
theorem graphml_ok (num : String → Option Rat) (parseNat : String → Option Nat) (weightKey : String) (doc : Doc)
    (hg : doc.hasGraph = true) (hed : doc.edgedefault.isSome = true) (hnam : doc.naming = true)
    (hkeys : ∀ k ∈ doc.keys, KeyOk num k)
    (hnodes : ∀ c ∈ doc.nodes, c.id.isSome = true ∧
      ∀ d ∈ c.data, DataOk num (registered weightKey doc.keys) "node" d)
    (hedges : ∀ ws others, scanKeys num weightKey doc.keys ⟨some .bool, none, 1⟩ [] = .ok (ws, others) →
      ws.ptype ≠ some .str ∧
      ∀ c ∈ doc.edges, (∃ s ∈ doc.nodeIds, c.source = some s) ∧ (∃ t ∈ doc.nodeIds, c.target = some t) ∧
        ∀ d ∈ c.data, EdgeDatumOk num ws (registered weightKey doc.keys) d) :
    ∃ r, fromGraphml num parseNat weightKey doc = .ok r := by
  obtain ⟨ws, hscan⟩ := scanKeys_ok num weightKey doc.keys ⟨some .bool, none, 1⟩ [] hkeys
  simp only [List.nil_append] at hscan
  obtain ⟨hstr, hedg⟩ := hedges ws _ hscan
  unfold fromGraphml
  simp only [hg, Bool.not_true, Bool.false_eq_true, if_false]
  cases hedv : doc.edgedefault with
  | none => rw [hedv] at hed; cases hed
  | some ed =>
    simp only [hscan]
    have hids : doc.nodes.any (fun c => c.id.isNone) = false := by
      rw [List.any_eq_false]
      intro c hc
      have := (hnodes c hc).1
      cases hcid : c.id with
      | none => rw [hcid] at this; cases this
      | some _ => simp
    simp only [hnam, hids, Bool.and_false, Bool.false_eq_true, if_false]
    rw [nodesData_ok num _ doc.nodes (fun c hc => (hnodes c hc).2)]
    simp only
    obtain ⟨ts, hts, hlt⟩ := triples_ok num parseNat ws _ doc.symmetrize doc.nodeIds doc.edges hedg
    rw [hts]
    simp only
    have hlen : doc.nodeIds.length = doc.nodes.length := by simp [Doc.nodeIds]
    have hr : ts.any (fun t => decide (doc.nodes.length ≤ t.1) || decide (doc.nodes.length ≤ t.2.1)) = false := by
      rw [List.any_eq_false]
      intro t ht
      have := hlt t ht
      rw [hlen] at this
      simp only [Bool.or_eq_true, decide_eq_true_eq, not_or]
      omega
    rw [hr]
    simp only [Bool.false_eq_true, if_false, hstr]
    exact ⟨_, rfl⟩

open SkNet.GraphML in
/-- two named nodes, an undirected default, one weighted edge a–b and one directed edge b → a without data
    (default weight 5/2): entries (a,b) = 3, (b,a) = 3 + 5/2 -/
example : ∃ r, fromGraphml (fun s => if s = "3" then some 3 else if s = "2.5" then some (5/2) else none) (fun _ => none)
      "weight"
      { hasGraph := true, edgedefault := some "undirected", nodeids := none,
        keys := [⟨some "d0", some "weight", some "double", some "edge", ["2.5"]⟩],
        children := [{ tag := "node", id := some "a" }, { tag := "node", id := some "b" },
                     { tag := "edge", source := some "a", target := some "b", data := [("d0", "3")] },
                     { tag := "edge", source := some "b", target := some "a", directed := some "true" }] } = .ok r ∧
    r.names = some ["a", "b"] ∧ r.matrix.entry 0 1 = 3 ∧ r.matrix.entry 1 0 = 3 + 5/2 := by
  refine ⟨_, rfl, ?_, ?_, ?_⟩ <;> decide +kernel

/-! ## ★ save_load_roundtrip -/

/-- **save_load_roundtrip.** For a dataset whose keys are distinct attribute names (not empty, no path separator,
    no dot), `save` writes exactly one file per attribute (`key.npz` for a csr matrix, `key.npy` for an ndarray,
    `key.p` for anything else — whatever was in the folder before is removed), and `load`, in whatever order
    `listdir` returns these files, gives back every attribute with its key, type tag and payload: the dataset
    itself, up to the order of its keys. -/
theorem save_load_roundtrip (d : Dataset) (old : Folder)
    (hk : (d.map (·.key)).Nodup) (hp : ∀ a ∈ d, plainKey a.key = true ∧ DotFree a.key) :
    save old (.dataset d) = .ok (d.map fileOf) ∧
    ∀ d', d'.Perm d → load (some (d'.map fileOf)) = .ok d' := by
  constructor
  · unfold save rmtree
    simp only
    have := saveBundle_eq [] d (fun a ha => (hp a ha).1)
      (by simpa using names_nodup d hk (fun a ha => (hp a ha).2))
    simpa using this
  · intro d' hperm
    unfold load loadBundle
    simp only
    have hk' : ((([] : Dataset) ++ d').map Attr.key).Nodup := by
      simp only [List.nil_append]
      exact (hperm.map _).nodup_iff.mpr hk
    have := loadFrom_fileOf [] d' (fun a ha => (hp a (hperm.mem_iff.mp ha)).2) hk'
    simpa using this

/-- **save is a state machine over the folder; load returns the last dataset saved.** Whatever the folder holds
    — arbitrary files `fs0`, then the bundles of any history of saves (datasets with other attributes, pickled
    ones included) —, after `save` of a dataset with distinct plain dot-free keys the folder holds exactly one
    file per attribute of *that* dataset, and `load` (any `listdir` order) returns exactly its attributes:
    nothing of the earlier bundles comes back. (A statement about the model, in which `shutil.rmtree` is `rmtree _ := []`;
    that the code empties the folder is checked on disk by the run line `c18.save_into`. A folder that is a
    symbolic link or a regular file, on which `save` raises, is not modelled.) -/
theorem save_history_roundtrip (fs0 fs : Folder) (history : List Dataset) (d : Dataset)
    (_hhist : saveAll fs0 history = .ok fs)
    (hk : (d.map (·.key)).Nodup) (hp : ∀ a ∈ d, plainKey a.key = true ∧ DotFree a.key) :
    saveAll fs0 (history ++ [d]) = .ok (d.map fileOf) ∧
    ∀ d', d'.Perm d → load (some (d'.map fileOf)) = .ok d' := by
  have hlast := save_load_roundtrip d fs hk hp
  refine ⟨?_, hlast.2⟩
  have happ : ∀ (hist : List Dataset) (f0 f1 : Folder), saveAll f0 hist = .ok f1 →
      saveAll f0 (hist ++ [d]) = saveAll f1 [d] := by
    intro hist
    induction hist with
    | nil => intro f0 f1 h; unfold saveAll at h; cases h; rfl
    | cons x xs ih =>
      intro f0 f1 h
      have hc : ∀ (ys : List Dataset), saveAll f0 (x :: ys) =
          match save f0 (.dataset x) with
          | .ok fs' => saveAll fs' ys
          | .error e => .error e := fun _ => rfl
      simp only [List.cons_append]
      rw [hc] at h ⊢
      cases hs : save f0 (.dataset x) with
      | error e => rw [hs] at h; cases h
      | ok f2 =>
        rw [hs] at h
        simp only at h ⊢
        exact ih f2 f1 h
  rw [happ history fs0 fs _hhist]
  unfold saveAll
  rw [hlast.1]
  rfl

/-- a history with pickled attributes that the last dataset lacks: the earlier `meta.p` / `source.p` are gone -/
example : saveAll [⟨"notes.p".toList, .other, 9⟩]
      [[⟨"adjacency".toList, .csr, 0⟩, ⟨"meta".toList, .other, 1⟩, ⟨"source".toList, .other, 2⟩],
       [⟨"adjacency".toList, .csr, 3⟩, ⟨"names".toList, .ndarray, 4⟩]]
    = .ok [⟨"adjacency.npz".toList, .csr, 3⟩, ⟨"names.npy".toList, .ndarray, 4⟩] := by rfl

example : (([⟨"adjacency".toList, .csr, 0⟩, ⟨"names".toList, .ndarray, 1⟩, ⟨"meta".toList, .other, 2⟩] : Dataset).map
    Attr.key).Nodup ∧ plainKey "adjacency".toList = true ∧ DotFree "adjacency".toList := by
  refine ⟨by decide, by decide, ?_⟩
  unfold DotFree; decide

/-- a bare csr matrix is saved as the attribute `adjacency` (square) or `biadjacency` and loaded back -/
theorem save_load_matrix (sq : Bool) (p : Nat) (old : Folder) :
    ∃ fs, save old (.matrix sq p) = .ok fs ∧
      load (some fs) = .ok [⟨if sq then "adjacency".toList else "biadjacency".toList, .csr, p⟩] := by
  cases sq <;> exact ⟨_, rfl, rfl⟩

/-- outside the hypothesis: an attribute whose key contains a dot is written to disk but silently dropped by
    `load` (the file name splits into three parts) -/
theorem dotted_key_is_lost :
    ∃ fs, save [] (.dataset [⟨"a.b".toList, .ndarray, 0⟩]) = .ok fs ∧ fs.length = 1 ∧ load (some fs) = .ok [] := by
  exact ⟨_, rfl, rfl, rfl⟩

/-! ## ★ extract_contained -/

/-- **extract_contained.** If `is_within_directory(dir, target)` (as repaired: `commonpath`) answers True, the
    normalised target has the normalised directory as a *component* prefix: it is the folder or below it. -/
theorem extract_contained (cwd directory target : Chars)
    (h : isWithinDirectory cwd directory target = true) :
    Inside (abspath cwd directory) (abspath cwd target) :=
  within_sound cwd directory target h

/-- **safe_extract on an archive of regular files** (the repaired code: name check, then `extractall(filter='data')`):
    either the archive is refused, or one location per member is written, each of them the folder joined with
    the member name (leading slashes stripped by the filter) and lying inside the folder — for all member names.
    Members that are links or directories are not in this model: for them the claim rests on the contract of
    tarfile's `'data'` filter, which the harness monitors by looking at everything created on disk. -/
theorem safe_extract_contained (cwd path : Chars) (members : List Chars) (ps : List APath)
    (h : safeExtract cwd path members = .ok ps) :
    ps.length = members.length ∧
    ∀ p ∈ ps, Inside (abspath cwd path) p ∧
      ∃ m ∈ members, p = abspath cwd (joinPath path (m.dropWhile (· = '/'))) := by
  unfold safeExtract at h
  split at h
  · obtain ⟨hl, hm⟩ := extractAll_ok cwd path members ps h
    refine ⟨hl, ?_⟩
    intro p hp
    obtain ⟨m, hmem, hf⟩ := hm p hp
    obtain ⟨h1, h2⟩ := dataFilter_inside cwd path m p hf
    exact ⟨h2, m, hmem, h1⟩
  · cases h

/-- no false refusal: a target inside a folder whose absolute path starts with a single slash is accepted -/
theorem within_accepts_inside (cwd directory target : Chars) (h1 : (abspath cwd directory).slashes = 1)
    (h : Inside (abspath cwd directory) (abspath cwd target)) :
    isWithinDirectory cwd directory target = true :=
  within_complete cwd directory target h1 h

/-- **no false refusal of an ordinary archive.** Into a folder given by an absolute path (one leading slash, no
    trailing slash), an archive whose member names are relative and made of plain components (no empty, `.`
    or `..` component) is accepted, and member `m` is written at the folder's components followed by those of `m`. -/
theorem safe_extract_accepts_plain (cwd path : Chars) (members : List Chars)
    (habs : isAbs path = true) (hend : ∃ x, path.getLast? = some x ∧ x ≠ '/')
    (hone : (abspath cwd path).slashes = 1)
    (hm : ∀ m ∈ members, isAbs m = false ∧ ∀ c ∈ splitSlash m, PlainComp c) :
    safeExtract cwd path members
      = .ok (members.map fun m => ⟨1, (abspath cwd path).comps ++ splitSlash m⟩) := by
  have hloc : ∀ m ∈ members, abspath cwd (joinPath path m) = ⟨1, (abspath cwd path).comps ++ splitSlash m⟩ := by
    intro m hmem
    rw [abspath_join_plain cwd path m habs hend (hm m hmem).1 (hm m hmem).2, hone]
  unfold safeExtract
  have hall : members.all (fun m => isWithinDirectory cwd path (joinPath path m)) = true := by
    rw [List.all_eq_true]
    intro m hmem
    apply within_complete cwd path _ hone
    unfold Inside
    rw [hloc m hmem]
    exact List.prefix_append _ _
  rw [hall]
  simp only [if_true]
  apply extractAll_of_all
  intro m hmem
  unfold dataFilter
  simp only
  rw [dropWhile_slash_of_rel m (hm m hmem).1, hloc m hmem]
  have hc : commonpath (abspath cwd path) ⟨1, (abspath cwd path).comps ++ splitSlash m⟩ = abspath cwd path := by
    unfold commonpath
    simp only
    rw [commonPrefix_of_prefix _ _ (List.prefix_append _ _)]
    cases hd : abspath cwd path with
    | mk sl c =>
      rw [hd] at hone
      simp only at hone
      simp [hone]
  rw [hc]
  simp

example : isAbs "/data/netset".toList = true ∧ (abspath "/".toList "/data/netset".toList).slashes = 1 ∧
    isAbs "wikivitals/adjacency.npz".toList = false ∧
    ∀ c ∈ splitSlash "wikivitals/adjacency.npz".toList, PlainComp c := by
  refine ⟨by decide, by decide, by decide, ?_⟩
  unfold PlainComp
  decide

example : isWithinDirectory "/home/u".toList "data".toList "data/sub/../x.npz".toList = true ∧
    isWithinDirectory "/home/u".toList "data".toList "data/../data_evil/x".toList = false := by decide

/-- F12 (pinned code): the character-prefix test accepts a member that leaves the folder. -/
theorem pinned_within_admits_escape :
    isWithinDirectoryPinned "/".toList "/d/foo".toList "/d/foo/../foo_evil/x".toList = true ∧
    ¬ Inside (abspath "/".toList "/d/foo".toList) (abspath "/".toList "/d/foo/../foo_evil/x".toList) := by decide

end SkNet.C18
