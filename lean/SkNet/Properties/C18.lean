/- C18 — graphs are ingested and persisted faithfully: property theorems. -/
import SkNet.Model.Ingest
import SkNet.Model.Csv
import SkNet.Model.Persist
import SkNet.Spec.Ingest

namespace SkNet.C18
open SkNet SkNet.Ingest SkNet.Persist

/-- F12 (pinned code): the character-prefix test accepts a member that leaves the folder. -/
theorem pinned_within_admits_escape :
    isWithinDirectoryPinned "/".toList "/d/foo".toList "/d/foo/../foo_evil/x".toList = true ∧
    ¬ Inside (abspath "/".toList "/d/foo".toList) (abspath "/".toList "/d/foo/../foo_evil/x".toList) := by decide

end SkNet.C18
