/- C06 — property theorems (being filled). -/
import SkNet.Model.Modularity
import SkNet.Model.ModularityOpt
import SkNet.Spec.Modularity

namespace SkNet.C06
open SkNet SkNet.Modularity

theorem setInsert_ne_nil (x : Nat) (s : List Nat) : setInsert x s ≠ [] := by
  cases s with
  | nil => simp [setInsert]
  | cons y ys =>
    unfold setInsert
    split
    · simp
    · split <;> simp

end SkNet.C06
