/-
C06 — Modularity is computed as defined and Louvain / Leiden never make it worse.

Theorems about the models of `get_modularity` (Model/Modularity.lean) and of the optimisers
(Model/ModularityOpt.lean); the specifications are in Spec/Modularity.lean.  Only property theorems here; the
proofs rest on SkNet/Lemmas/Modularity*.lean.
-/
import SkNet.Lemmas.ModularityMetric
import SkNet.Lemmas.ModularityComponents
import SkNet.Lemmas.ModularityPre
import SkNet.Lemmas.ModularityFitComp
import SkNet.Lemmas.ModularityLeiden
import SkNet.Lemmas.ModularityLeidenComp
import SkNet.Lemmas.ModularityRule
import SkNet.Lemmas.ModularityConn
import SkNet.Lemmas.ModularityTermZero
import SkNet.Lemmas.ModularityRelabel
import SkNet.Lemmas.ModularityShuffle
import SkNet.Lemmas.ModularityFast
import SkNet.Lemmas.TerminateLouvainOuter
import SkNet.Lemmas.TerminateLeiden

namespace SkNet.C06
open SkNet SkNet.Modularity

/-! ## 1. `get_modularity` returns the modularity of its documentation -/

/-- **getModularity_eq_def (all weightings, square or bipartite input).**  Whenever `get_modularity` returns,
    its `fit` is `(1/w) Σ_{i,j} A_ij δ(c_i,c_j)`, its `div` is `Σ_{i,j} p_i p'_j δ(c_i,c_j)` for the probability
    vectors `p, p'` it derives from `weights`, and the three figures add up: `mod = fit − γ·div`.
    `A` is the input matrix, or the block matrix `[[0,B],[Bᵀ,0]]` with stacked labels for a rectangular input;
    nodes with a negative label belong to no cluster. -/
theorem getModularity_terms (nRow nCol nnz : Nat) (B : Nat → Nat → Rat) (labels : List Int)
    (labelsCol : Option (List Int)) (weights : Weights) (γ : Rat) (o : ModOut)
    (h : getModularity nRow nCol nnz B labels labelsCol weights γ = .ok o) :
    ∃ lab pr pc, modLabels nRow nCol labels labelsCol = .ok lab ∧
      getProbs (modAdj nRow nCol B).1 weights (modAdj nRow nCol B).2 = .ok pr ∧
      getProbs (modAdj nRow nCol B).1 weights (fun i j => (modAdj nRow nCol B).2 j i) = .ok pc ∧
      o.fit = fitDoc (modAdj nRow nCol B).1 (modAdj nRow nCol B).2 (labelAt lab) ∧
      o.div = divDoc (modAdj nRow nCol B).1 pr pc (labelAt lab) ∧
      o.mod = o.fit - γ * o.div := by
  obtain ⟨lab, pr, pc, h1, h2, h3, -, rfl⟩ := getModularity_ok _ _ _ _ _ _ _ _ _ h
  exact ⟨lab, pr, pc, h1, h2, h3, modTerms_fit _ _ _ _ _ _, modTerms_div _ _ _ _ _ _, rfl⟩

/-- **getModularity_eq_def, `weights='degree'`.**  The returned modularity is the documented
    `Q = (1/w) Σ_{i,j} (A_ij − γ d⁺_i d⁻_j / w) δ(c_i,c_j)` (directed form), on the input matrix or, for a
    rectangular input, on its block adjacency with the stacked labels. -/
theorem getModularity_eq_def (nRow nCol nnz : Nat) (B : Nat → Nat → Rat) (labels : List Int)
    (labelsCol : Option (List Int)) (γ : Rat) (o : ModOut)
    (h : getModularity nRow nCol nnz B labels labelsCol .degree γ = .ok o) :
    ∃ lab, modLabels nRow nCol labels labelsCol = .ok lab ∧
      o.mod = modularityDoc (modAdj nRow nCol B).1 (modAdj nRow nCol B).2 γ (labelAt lab) :=
  getModularity_eq_def_degree nRow nCol nnz B labels labelsCol γ o h

/-- the undirected form of the documentation: `Q = (1/w) Σ_{i,j} (A_ij − γ d_i d_j / w) δ(c_i,c_j)` -/
def modularityDocUndirected (n : Nat) (A : Nat → Nat → Rat) (γ : Rat) (c : Nat → Int) : Rat :=
  let w := totalWeight n A
  (1 / w) * sumTo n fun i => sumTo n fun j =>
    if sameCluster c i j then A i j - γ * (outDeg n A i * outDeg n A j / w) else 0

/-- for a symmetric matrix the directed form is the undirected form -/
theorem modularityDoc_undirected (n : Nat) (A : Nat → Nat → Rat) (γ : Rat) (c : Nat → Int)
    (hA : ∀ i j, i < n → j < n → A i j = A j i) :
    modularityDoc n A γ c = modularityDocUndirected n A γ c := by
  unfold modularityDoc modularityDocUndirected
  have hdeg : ∀ j, j < n → inDeg n A j = outDeg n A j := by
    intro j hj
    unfold inDeg outDeg
    exact sumTo_congr fun i hi => hA i j hi hj
  simp only
  congr 1
  refine sumTo_congr fun i _ => sumTo_congr fun j hj => ?_
  rw [hdeg j hj]

/-- **getModularity_eq_def, `weights='uniform'`.**  `Q = Σ_{i,j} (A_ij / w − γ / n²) δ(c_i,c_j)`. -/
theorem getModularity_eq_def_uniform (nRow nCol nnz : Nat) (B : Nat → Nat → Rat) (labels : List Int)
    (labelsCol : Option (List Int)) (γ : Rat) (o : ModOut)
    (h : getModularity nRow nCol nnz B labels labelsCol .uniform γ = .ok o) :
    ∃ lab, modLabels nRow nCol labels labelsCol = .ok lab ∧
      o.mod = modularityWeighted (modAdj nRow nCol B).1 (modAdj nRow nCol B).2
        (fun _ => 1 / ((modAdj nRow nCol B).1 : Rat)) γ (labelAt lab) := by
  obtain ⟨lab, pr, pc, h1, h2, h3, -, rfl⟩ := getModularity_ok _ _ _ _ _ _ _ _ _ h
  refine ⟨lab, h1, ?_⟩
  rw [modTerms_mod, modTerms_fit, modTerms_div, getProbs_uniform _ _ _ h2, getProbs_uniform _ _ _ h3,
    fit_sub_div_eq_weighted]

/-- **getModularity_eq_def, custom node weights `v`.**  `Q = Σ_{i,j} (A_ij / w − γ p_i p_j) δ(c_i,c_j)`, `p = v/Σv`. -/
theorem getModularity_eq_def_custom (nRow nCol nnz : Nat) (B : Nat → Nat → Rat) (labels : List Int)
    (labelsCol : Option (List Int)) (v : List Rat) (γ : Rat) (o : ModOut)
    (h : getModularity nRow nCol nnz B labels labelsCol (.custom v) γ = .ok o) :
    ∃ lab, modLabels nRow nCol labels labelsCol = .ok lab ∧
      o.mod = modularityWeighted (modAdj nRow nCol B).1 (modAdj nRow nCol B).2
        (fun i => v.getD i 0 / sumTo (modAdj nRow nCol B).1 fun j => v.getD j 0) γ (labelAt lab) := by
  obtain ⟨lab, pr, pc, h1, h2, h3, -, rfl⟩ := getModularity_ok _ _ _ _ _ _ _ _ _ h
  refine ⟨lab, h1, ?_⟩
  rw [modTerms_mod, modTerms_fit, modTerms_div, getProbs_custom _ _ _ _ h2, getProbs_custom _ _ _ _ h3,
    fit_sub_div_eq_weighted]

/-- non-vacuity: the `house` example of the docstring (labels 0,0,1,1,0) goes through and gives 1/9 ≈ 0.11 -/
example :
    (getModularity 5 5 12
      (fun i j => if (i, j) ∈ [(0,1),(1,0),(0,4),(4,0),(1,2),(2,1),(1,4),(4,1),(2,3),(3,2),(3,4),(4,3)] then 1 else 0)
      [0, 0, 1, 1, 0] none .degree 1).toOption.map (·.mod) = some (1 / 9 : Rat) := by decide +kernel

/-! ## 1b. renumbering the nodes (used by C02) -/

/-- **modularity_relabel_invariant (directed form).**  For every `n`, every permutation `π` of the nodes (with
    inverse `π'`; new node `π i` is old node `i`), every matrix, labelling and resolution: the documented
    modularity `(1/w) Σ (A_ij − γ d⁺_i d⁻_j / w) δ(c_i,c_j)` of the renumbered matrix with the renumbered labels is
    that of the original. -/
theorem modularity_relabel_invariant {n : Nat} {π π' : Nat → Nat} (h : IsPerm n π π') (A : Nat → Nat → Rat)
    (γ : Rat) (c : Nat → Int) :
    modularityDoc n (relabelMat π' A) γ (relabelVec π' c) = modularityDoc n A γ c :=
  modularityDoc_relabel h A γ c

/-- **… undirected form** (symmetric matrix, `(1/w) Σ (A_ij − γ d_i d_j / w) δ`) -/
theorem modularity_relabel_invariant_undirected {n : Nat} {π π' : Nat → Nat} (h : IsPerm n π π')
    (A : Nat → Nat → Rat) (hA : ∀ i j, i < n → j < n → A i j = A j i) (γ : Rat) (c : Nat → Int) :
    modularityDocUndirected n (relabelMat π' A) γ (relabelVec π' c) = modularityDocUndirected n A γ c := by
  rw [← modularityDoc_undirected n A γ c hA,
    ← modularityDoc_undirected n (relabelMat π' A) γ (relabelVec π' c)
      (fun a b ha hb => hA _ _ (h.lt' a ha) (h.lt' b hb))]
  exact modularityDoc_relabel h A γ c

/-- **… with node weights** (`weights='uniform'`, or a custom vector renumbered with the nodes) -/
theorem modularity_relabel_invariant_weighted {n : Nat} {π π' : Nat → Nat} (h : IsPerm n π π')
    (A : Nat → Nat → Rat) (p : Nat → Rat) (γ : Rat) (c : Nat → Int) :
    modularityWeighted n (relabelMat π' A) (relabelVec π' p) γ (relabelVec π' c) = modularityWeighted n A p γ c :=
  modularityWeighted_relabel h A p γ c

/-- **… bipartite form**: rows renumbered by `πr`, columns by `πc` (labels of rows and columns with them): the
    modularity of the block adjacency `[[0,B],[Bᵀ,0]]` with the stacked labels is unchanged. -/
theorem modularity_relabel_invariant_bipartite {nRow nCol : Nat} {πr πr' πc πc' : Nat → Nat}
    (hr : IsPerm nRow πr πr') (hc : IsPerm nCol πc πc') (B : Nat → Nat → Rat) (γ : Rat) (c : Nat → Int) :
    modularityDoc (nRow + nCol) (blockAdj nRow (relabelBi πr' πc' B)) γ (relabelVec (blockPerm nRow πr' πc') c)
      = modularityDoc (nRow + nCol) (blockAdj nRow B) γ c :=
  modularityDoc_relabel_bipartite hr hc B γ c

/-- **… for the model of `get_modularity`** (via `getModularity_eq_def`): a call on a graph and a call on its
    renumbering (square matrix, `weights='degree'`, both accepted) return the same modularity. -/
theorem getModularity_relabel_invariant {n : Nat} {π π' : Nat → Nat} (h : IsPerm n π π') (nnz nnz' : Nat)
    (A : Nat → Nat → Rat) (labels : List Int) (γ : Rat) (o o' : ModOut)
    (h1 : getModularity n n nnz A labels none .degree γ = .ok o)
    (h2 : getModularity n n nnz' (relabelMat π' A) (relabelList n π' labels) none .degree γ = .ok o') :
    o'.mod = o.mod :=
  getModularity_relabel h nnz nnz' A labels γ o o' h1 h2

/-- the `house` graph of the docstring of `get_modularity` -/
def house : Nat → Nat → Rat := fun i j =>
  if (i, j) ∈ [(0,1),(1,0),(0,4),(4,0),(1,2),(2,1),(1,4),(4,1),(2,3),(3,2),(3,4),(4,3)] then 1 else 0

/-- non-vacuity: the rotation `i ↦ i+2 (mod 5)` is a permutation of the 5 nodes of the house; the model accepts the
    house and its renumbering (labels `[0,0,1,1,0]` renumbered to `[1,0,0,0,1]`) and returns 1/9 on both -/
example : IsPerm 5 (fun i => (i + 2) % 5) (fun a => (a + 3) % 5) ∧
    (getModularity 5 5 12 house [0, 0, 1, 1, 0] none .degree 1).toOption.map (·.mod) = some (1 / 9 : Rat) ∧
    (getModularity 5 5 12 (relabelMat (fun a => (a + 3) % 5) house)
        (relabelList 5 (fun a => (a + 3) % 5) [0, 0, 1, 1, 0]) none .degree 1).toOption.map (·.mod)
      = some (1 / 9 : Rat) ∧
    relabelList 5 (fun a => (a + 3) % 5) [0, 0, 1, 1, 0] = [1, 0, 0, 0, 1] :=
  ⟨⟨by decide, by decide, by decide, by decide⟩, by decide +kernel, by decide +kernel, by decide⟩

/-! ## 2. the gain of a move -/

/-- two triangles `{0,1,2}`, `{3,4,5}` joined by the edge `2 – 3` (unit weights): the concrete input of the examples -/
def twoTriangles : Nat → Nat → Rat := fun i j =>
  if (i, j) ∈ [(0,1),(1,0),(0,2),(2,0),(1,2),(2,1),(3,4),(4,3),(3,5),(5,3),(4,5),(5,4),(2,3),(3,2)] then 1 else 0

/-- non-vacuity of the symmetry hypothesis of `delta_move` -/
example : ∀ i j, i < 6 → j < 6 → twoTriangles i j = twoTriangles j i := by
  have h : ∀ i, i < 6 → ∀ j, j < 6 → twoTriangles i j = twoTriangles j i := by decide +kernel
  exact fun i j hi hj => h i hi j hj

/-- **delta_move.**  For a symmetric matrix, the kernels' `delta_local − delta` is exactly the change of the
    generalised modularity `Q` when node `v` moves from its cluster to cluster `b`. -/
theorem delta_move (n : Nat) (A : Nat → Nat → Rat) (hA : ∀ i j, i < n → j < n → A i j = A j i)
    (o i_ : Nat → Rat) (γ : Rat) (c : Nat → Nat) (v : Nat) (hv : v < n) (b : Nat) (hb : c v ≠ b) :
    Q n A o i_ γ (Function.update c v b) - Q n A o i_ γ c =
      (2 * link n A c v b - γ * o v * vol n i_ c b - γ * i_ v * vol n o c b)
      - (2 * (link n A c v (c v) - A v v) - γ * o v * (vol n i_ c (c v) - i_ v)
          - γ * i_ v * (vol n o c (c v) - o v)) :=
  Modularity.delta_move n A hA o i_ γ c v hv b hb

/-! ## 3. the Louvain kernel -/

/-- **scratch_invariant.**  Between two nodes of `optimize_core` the scratch array `cluster_weights` is
    identically zero and `out/in_cluster_weights[x]` are the volumes of cluster `x` in the current labels
    (`CoreInv`): the bookkeeping never drifts in exact arithmetic. -/
theorem scratch_invariant (g : Graph Rat) (hg : GraphOK g) (res : Rat) (K : Nat) (st : St Rat) (acc : Rat)
    (hinv : CoreInv g K st) (i : Nat) (hi : i < g.n) :
    CoreInv g K (nodeStep g res (st, acc) i).1 :=
  (nodeStep_spec g hg res K st acc hinv i hi).1

/-- non-vacuity of `GraphOK` / `CoreInv` (hypotheses of the kernel theorems): they hold of the level that
    `_pre_processing` builds from the two triangles (Newman weights) with the singleton state `_optimize` starts from -/
example :
    GraphOK (symLevel 6 twoTriangles (fun u => outDeg 6 twoTriangles u / 14) (fun u => outDeg 6 twoTriangles u / 14)).graph ∧
    CoreInv (symLevel 6 twoTriangles (fun u => outDeg 6 twoTriangles u / 14) (fun u => outDeg 6 twoTriangles u / 14)).graph 6
      { labels := arange 6,
        outCl := (symLevel 6 twoTriangles (fun u => outDeg 6 twoTriangles u / 14) (fun u => outDeg 6 twoTriangles u / 14)).outW,
        inCl := (symLevel 6 twoTriangles (fun u => outDeg 6 twoTriangles u / 14) (fun u => outDeg 6 twoTriangles u / 14)).inW,
        cw := tab 6 fun _ => 0 } :=
  ⟨(symLevel_levelOK _ _ _ _).graphOK, coreInv_singletons _ (symLevel_levelOK _ _ _ _)⟩

/-- every move the kernel accepts has a strictly positive gain, equal to the change of `Q` -/
theorem accepted_move_gain (g : Graph Rat) (hg : GraphOK g) (res : Rat) (K : Nat) (st : St Rat) (acc : Rat)
    (hinv : CoreInv g K st) (i : Nat) (hi : i < g.n) :
    (nodeStep g res (st, acc) i).2 - acc
        = QG g res (nodeStep g res (st, acc) i).1.labels - QG g res st.labels ∧
    ((nodeStep g res (st, acc) i).1.labels = st.labels ∨ acc < (nodeStep g res (st, acc) i).2) := by
  obtain ⟨-, h2, -, h4⟩ := nodeStep_spec g hg res K st acc hinv i hi
  refine ⟨h2, ?_⟩
  rcases h4 with h | ⟨_, _, _, _, h⟩
  · exact Or.inl h
  · exact Or.inr h

/-- **best_move_rule.**  The decision of one node of `optimize_core`, in exact arithmetic: among the clusters of its
    stored neighbours (other than its own) it moves to the one of maximal gain `Q(move) − Q` — the smallest label
    among ties — and only if that gain is strictly positive; otherwise every such gain is `≤ 0` and it stays. -/
theorem best_move_rule (g : Graph Rat) (hg : GraphOK g) (res : Rat) (K : Nat) (st : St Rat) (acc : Rat)
    (hinv : CoreInv g K st) (i : Nat) (hi : i < g.n) :
    let cand : Nat → Prop := fun t => (∃ e ∈ g.row i, labOf st.labels e.1 = t) ∧ t ≠ labOf st.labels i
    ((nodeStep g res (st, acc) i).1.labels = st.labels ∧ ∀ t, cand t → moveGain g res st.labels i t ≤ 0) ∨
    (∃ b, cand b ∧ (nodeStep g res (st, acc) i).1.labels = st.labels.set i b ∧
      0 < moveGain g res st.labels i b ∧
      (∀ t, cand t → moveGain g res st.labels i t ≤ moveGain g res st.labels i b) ∧
      (∀ t, cand t → moveGain g res st.labels i t = moveGain g res st.labels i b → b ≤ t)) :=
  nodeStep_rule g hg res K st acc hinv i hi

/-- **optimize_core_increase.**  `optimize_core` as compiled (the loop ends by its tolerance or by its own bound of
    `n + 1` passes, so it always returns), in exact arithmetic: the returned `increase` is `Q(labels_out) − Q(labels_in)`
    and it is non-negative — any tolerance, any resolution, any start that satisfies the invariant. -/
theorem optimize_core_increase (g : Graph Rat) (hg : GraphOK g) (res tol : Rat) (K : Nat) (st : St Rat)
    (hinv : CoreInv g K st) :
    (optimizeCoreCapped g res tol st).2
        = QG g res (optimizeCoreCapped g res tol st).1 - QG g res st.labels ∧
    0 ≤ (optimizeCoreCapped g res tol st).2 :=
  let ⟨h1, h2, _⟩ := optimizeCoreCapped_spec g hg res tol K st hinv
  ⟨h1, h2⟩

/-- the same for the loop without the bound on the passes (`optimizeCore`, the reference loop), whenever it returns;
    and whenever it returns within `n + 1` passes the compiled loop returns the same (`coreCapped_of_coreLoop`) -/
theorem optimize_core_increase_unbounded (g : Graph Rat) (hg : GraphOK g) (res tol : Rat) (K : Nat) (fuel : Nat)
    (st : St Rat) (hinv : CoreInv g K st) (labels' : List Nat) (inc : Rat)
    (h : optimizeCore g res tol fuel st = some (labels', inc)) :
    inc = QG g res labels' - QG g res st.labels ∧ 0 ≤ inc :=
  let ⟨h1, h2, _⟩ := optimizeCore_spec g hg res tol K fuel st hinv labels' inc h
  ⟨h1, h2⟩

/-- the state a kernel call is entered with, up to `δ`: as `CoreInv`, but the cluster weights are only within `δ` of
    the volumes of the clusters.  (`Louvain._optimize` starts from singletons with copies of the node weights: `δ = 0`.
    `Leiden._optimize` carries labels over and hands the kernel `membership.T.dot(weights)`, a float32 sum: `δ > 0`
    on generic weights.) -/
structure CoreNear (δ : Rat) (g : Graph Rat) (K : Nat) (st : St Rat) : Prop where
  len : st.labels.length = g.n
  bound : ∀ i, i < g.n → labOf st.labels i < K
  lenO : st.outCl.length = K
  lenI : st.inCl.length = K
  lenC : st.cw.length = K
  cwZero : ∀ x, st.cw.getD x 0 = 0
  volO : ∀ x, x < K → |st.outCl.getD x 0 - vol g.n g.outW (labOf st.labels) x| ≤ δ
  volI : ∀ x, x < K → |st.inCl.getD x 0 - vol g.n g.inW (labOf st.labels) x| ≤ δ

/-- `CoreNear 0` is `CoreInv` (so the hypothesis below is satisfiable wherever `CoreInv` is: see the example after
    `scratch_invariant`) -/
theorem coreNear_zero_iff (g : Graph Rat) (K : Nat) (st : St Rat) : CoreNear 0 g K st ↔ CoreInv g K st := by
  constructor
  · intro h
    exact ⟨h.len, h.bound, h.lenO, h.lenI, h.lenC, h.cwZero,
      fun x hx => sub_eq_zero.mp (abs_nonpos_iff.mp (h.volO x hx)),
      fun x hx => sub_eq_zero.mp (abs_nonpos_iff.mp (h.volI x hx))⟩
  · intro h
    exact ⟨h.len, h.bound, h.lenO, h.lenI, h.lenC, h.cwZero,
      fun x hx => by rw [h.volO x hx, sub_self, abs_zero],
      fun x hx => by rw [h.volI x hx, sub_self, abs_zero]⟩

/-- the magnitudes on which a bound on the rounding can hold: what `_pre_processing` and `_aggregate` produce from a
    matrix without negative entries (entries and node weights non-negative, each family summing to at most 2 — to 1
    before the casts) -/
structure Normalised (g : Graph Rat) : Prop where
  adjNonneg : ∀ u v, 0 ≤ adj g u v
  adjSum : (sumTo g.n fun u => sumTo g.n (adj g u)) ≤ 2
  outNonneg : ∀ u, 0 ≤ g.outW u
  outSum : sumTo g.n g.outW ≤ 2
  inNonneg : ∀ u, 0 ≤ g.inW u
  inSum : sumTo g.n g.inW ≤ 2

/-- **what is NOT proved: the compiled arithmetic (kernel).**  The kernels compute in IEEE binary32; the statement the
    property makes of them is `optimize_core_increase` up to rounding.  For the `Float32` instance of the very same
    model (the one the `c06.core` lines compare bit for bit with the compiled kernel, on arrays the harness builds and
    on the arrays the fits hand to the kernel), on a graph of normalised magnitudes, resolution in `[0, 4]`, entered
    with cluster weights within `δ` of the volumes: the rational value of the returned `increase` is within `ε n δ` of
    the exact change of `Q`.  `ε` must grow with the size (at most `n + 1` passes of at most `n` moves, each adding a
    rounded gain; observed drift 5e-6 at 20 000 nodes) and with `δ`: no fixed `ε` can do.  Tested by the spec lines
    with `2e-5` up to 700 nodes; not proved. -/
def optimize_core_increase_float32_full (ε : Nat → Rat → Rat) : Prop :=
  ∀ (g : Graph Float32) (res tol : Float32) (K : Nat) (st : St Float32) (δ : Rat),
    GraphOK (g.mapScalar f32ToRat) → Normalised (g.mapScalar f32ToRat) →
    0 ≤ f32ToRat res → f32ToRat res ≤ 4 →
    CoreNear δ (g.mapScalar f32ToRat) K (st.mapScalar f32ToRat) →
    |f32ToRat (optimizeCoreCapped g res tol st).2
        - (QG (g.mapScalar f32ToRat) (f32ToRat res) (optimizeCoreCapped g res tol st).1
            - QG (g.mapScalar f32ToRat) (f32ToRat res) st.labels)| ≤ ε g.n δ

/-- **termination of the loop of `optimize_core` without its bound on the passes**, exact arithmetic, every tolerance
    `≥ 0`: `Q` takes finitely many values over the label vectors and every pass that does not stop the loop raises it
    by more than `tol ≥ 0`.  (In float32 this fails for `tol_optimization = 0` — spurious gains cycle — which is why
    the kernel now bounds its passes; see C17.) -/
theorem optimize_core_terminates (g : Graph Rat) (hg : GraphOK g) (res tol : Rat) (htol : 0 ≤ tol) (K : Nat)
    (st : St Rat) (hinv : CoreInv g K st) :
    ∃ fuel : Nat, ∀ fuel', fuel ≤ fuel' → (optimizeCore g res tol fuel' st).isSome = true :=
  optimizeCore_terminates_zero g hg res tol htol K st hinv

/-- **clusters_within_components (one call of the kernel).**  A node only ever joins the cluster of a stored
    neighbour: if every cluster of the incoming labels lies in one connected component of the stored pattern
    (true of singletons), so does every cluster of the returned labels. -/
theorem optimize_core_within_components (g : Graph Rat) (hg : GraphOK g) (res tol : Rat) (K : Nat)
    (st : St Rat) (hinv : CoreInv g K st) (hw : WithinComp g st.labels) :
    WithinComp g (optimizeCoreCapped g res tol st).1 :=
  let ⟨_, _, h3, _⟩ := optimizeCoreCapped_spec g hg res tol K st hinv
  h3.withinComp hg.cols hinv.len hw

/-! ## 4. aggregation and the whole fit -/

/-- **aggregate_preserves_Q.**  For a well-formed level and any label vector of its nodes, `Q` of a partition
    `c'` of the aggregate graph (`_aggregate`: `MᵀAM`, `Mᵀw`) is `Q` of the composed partition `c' ∘ labels` of
    the graph that was aggregated; in particular total weight and node weights are preserved. -/
theorem aggregate_preserves_Q (labels : List Nat) (lv : Level) (hlv : LevelOK lv) (hlen : labels.length = lv.n)
    (γ : Rat) (c' : Nat → Nat) :
    Q (aggregate labels lv).n (adj (aggregate labels lv).graph) (aggregate labels lv).graph.outW
        (aggregate labels lv).graph.inW γ c'
      = Q lv.n (adj lv.graph) lv.graph.outW lv.graph.inW γ (fun u => c' (labOf labels u)) :=
  aggregate_Q labels lv hlv hlen γ c'

/-- aggregation preserves the total weight (`aggregate_preserves_Q` at resolution 0 for the one-cluster partition) -/
theorem aggregate_preserves_total_weight (labels : List Nat) (lv : Level) (hlv : LevelOK lv)
    (hlen : labels.length = lv.n) :
    (sumTo (aggregate labels lv).n fun a => sumTo (aggregate labels lv).n (adj (aggregate labels lv).graph a))
      = sumTo lv.n fun u => sumTo lv.n (adj lv.graph u) := by
  have h := aggregate_Q labels lv hlv hlen 0 (fun _ => 0)
  unfold Q at h
  simpa using h

/-- non-vacuity of `LevelOK` and of the length hypothesis: the first level of the two triangles, aggregated by its
    two triangles -/
example :
    LevelOK (symLevel 6 twoTriangles (fun u => outDeg 6 twoTriangles u / 14) (fun u => outDeg 6 twoTriangles u / 14)) ∧
    [0, 0, 0, 1, 1, 1].length
      = (symLevel 6 twoTriangles (fun u => outDeg 6 twoTriangles u / 14) (fun u => outDeg 6 twoTriangles u / 14)).n :=
  ⟨symLevel_levelOK _ _ _ _, rfl⟩

/-- the aggregate of a well-formed level (symmetric, indices in range) is well-formed -/
theorem aggregate_wellformed (labels : List Nat) (lv : Level) (hlv : LevelOK lv) (hlen : labels.length = lv.n) :
    LevelOK (aggregate labels lv) :=
  aggregate_levelOK labels lv hlv hlen

/-- **objective_eq_modularity.**  On the level built by `_pre_processing` (normalised symmetric adjacency, node
    weights of the kind) the generalised objective `Q` the kernels optimise equals the documented modularity of
    the kind (Dugué / Newman / Potts) of the input matrix, for every partition and resolution. -/
theorem objective_eq_modularity (kind : Kind) (nRow nCol nnz : Nat) (B : Nat → Nat → Rat) (fb : Bool) (lv : Level)
    (h : preProcess kind nRow nCol nnz B fb = .ok lv) (γ : Rat) (c : Nat → Nat) :
    LevelOK lv ∧
    Q lv.n (adj lv.graph) lv.graph.outW lv.graph.inW γ c
      = objective kind (kindAdj kind nRow nCol B fb).1 (kindAdj kind nRow nCol B fb).2 γ c := by
  obtain ⟨w, hw, rfl⟩ := preProcess_ok _ _ _ _ _ _ _ h
  exact ⟨symLevel_levelOK _ _ _ _, kindWeights_objective kind _ _ w hw γ c⟩

/-! ### the fits.  What is proved (`…_partial`) is about the models of `Louvain.fit` / `Leiden.fit` **as compiled
(kernels with their bounds of `n + 1` / 100 passes), in exact arithmetic, `sort_clusters=False`, for every run of the model
that returns** — and every run on an accepted input returns: `fits_return` below; what is missing (the compiled
arithmetic) is stated in `louvain_never_worse_float32_full` / `leiden_never_worse_float32_full`. -/

/-- the per-cluster form of the objective that the spec lines use on graphs with hundreds of nodes
    (`Σ_k vol⁺(k)·vol⁻(k)` for the null model) is the objective of the specification, for every kind -/
theorem objective_fast_eq (kind : Kind) (n : Nat) (A : Nat → Nat → Rat) (γ : Rat) (c : Nat → Nat) (K : Nat)
    (hc : ∀ i, i < n → c i < K) :
    objective kind n A γ c =
      match kind with
      | .dugue => objectiveFast n A (totalWeight n A) (fun i => outDeg n A i / totalWeight n A)
          (fun j => inDeg n A j / totalWeight n A) γ c K
      | .newman => objectiveFast n A (totalWeight n A) (fun i => outDeg n A i / totalWeight n A)
          (fun j => outDeg n A j / totalWeight n A) γ c K
      | .potts => objectiveFast n A (totalWeight n A) (fun _ => 1 / (n : Rat)) (fun _ => 1 / (n : Rat)) γ c K
      | .other => 0 :=
  objectiveFast_eq kind n A γ c K hc

/-- **louvain_never_worse (partial: exact arithmetic, `shuffle_nodes=False`).**  Whenever the model of `Louvain.fit`
    returns (any graph, kind, resolution, tolerances, aggregation limit), the objective of the kind — the documented
    formula on the input matrix — of the returned labels equals that of the all-singletons partition plus the sum of
    the logged increases, every logged increase is non-negative, hence the returned partition is at least as good as
    the singletons.  Missing: float32 rounding of the gains (`louvain_never_worse_float32_full`).  That the model
    returns on every accepted input when `tol_aggregation ≥ 0`: `fits_return`. -/
theorem louvain_never_worse_partial (kind : Kind) (res tolOpt tolAgg : Rat) (nAgg : Int) (nRow nCol nnz : Nat)
    (B : Nat → Nat → Rat) (fb : Bool) (out : FitOut)
    (h : louvainFitCapped kind res tolOpt tolAgg nAgg nRow nCol nnz B fb = .ok (some out)) :
    objective kind (kindAdj kind nRow nCol B fb).1 (kindAdj kind nRow nCol B fb).2 res (labOf out.labels)
      = objective kind (kindAdj kind nRow nCol B fb).1 (kindAdj kind nRow nCol B fb).2 res (fun u => u)
        + out.increases.sum ∧
    (∀ x ∈ out.increases, 0 ≤ x) ∧
    objective kind (kindAdj kind nRow nCol B fb).1 (kindAdj kind nRow nCol B fb).2 res (fun u => u)
      ≤ objective kind (kindAdj kind nRow nCol B fb).1 (kindAdj kind nRow nCol B fb).2 res (labOf out.labels) := by
  obtain ⟨-, h2, h3⟩ := louvainFitCapped_spec kind res tolOpt tolAgg nAgg nRow nCol nnz B fb out h
  refine ⟨h2, h3, ?_⟩
  rw [h2]
  have : 0 ≤ out.increases.sum := list_sum_nonneg _ h3
  linarith

/-- **louvain_never_worse with `shuffle_nodes=True` (partial: exact arithmetic).**  For every permutation `index` of
    the nodes the random state may draw (every shuffle seed): the fit runs on `adjacency[index][:, index]`, the labels
    are brought back by `labels[reverse]`, and all three clauses hold on the matrix in its ORIGINAL numbering — by the
    invariance of the objective under renumbering (`objective_relabel`). -/
theorem louvain_never_worse_shuffled_partial (kind : Kind) (res tolOpt tolAgg : Rat) (nAgg : Int)
    (nRow nCol nnz : Nat) (B : Nat → Nat → Rat) (fb : Bool) (index : List Nat)
    (hp : index.Perm (List.range (kindAdj kind nRow nCol B fb).1)) (out : FitOut)
    (h : louvainFitShuffled kind res tolOpt tolAgg nAgg nRow nCol nnz B fb index = .ok (some out)) :
    objective kind (kindAdj kind nRow nCol B fb).1 (kindAdj kind nRow nCol B fb).2 res (labOf out.labels)
      = objective kind (kindAdj kind nRow nCol B fb).1 (kindAdj kind nRow nCol B fb).2 res (fun u => u)
        + out.increases.sum ∧
    (∀ x ∈ out.increases, 0 ≤ x) ∧
    ∀ u v, u < (kindAdj kind nRow nCol B fb).1 → v < (kindAdj kind nRow nCol B fb).1 →
      labOf out.labels u = labOf out.labels v →
      Connected (kindAdj kind nRow nCol B fb).1 (kindAdj kind nRow nCol B fb).2 u v :=
  louvainFitShuffled_spec kind res tolOpt tolAgg nAgg nRow nCol nnz B fb index hp out h

/-- the objective of every kind is invariant under a renumbering of the nodes (labels renumbered with them) -/
theorem objective_relabel_invariant {n : Nat} {π π' : Nat → Nat} (h : IsPerm n π π') (kind : Kind)
    (A : Nat → Nat → Rat) (γ : Rat) (c : Nat → Nat) :
    objective kind n (relabelMat π' A) γ (relabelVec π' c) = objective kind n A γ c :=
  objective_relabel h kind A γ c

/-- **leiden_never_worse (partial: exact arithmetic, `shuffle_nodes=False`).**  Whenever the model of `Leiden.fit`
    returns — for every oracle of the random choices of the refinement, any graph, kind, resolution, tolerances, any
    number `outerFuel` of aggregations allowed — the objective of the kind of the returned labels equals that of the
    singletons plus the sum of the logged increases, each non-negative.  (The refined partition only decides how the
    graph is aggregated; the labels returned are the coarse clusters of `optimize_core`.)  Missing: float32 rounding
    (`leiden_never_worse_float32_full`).  That the model returns once `n + 1` aggregations are allowed: `fits_return`. -/
theorem leiden_never_worse_partial (kind : Kind) (res tolOpt tolAgg : Rat) (nAgg : Int) (nRow nCol nnz : Nat)
    (B : Nat → Nat → Rat) (fb : Bool) (outerFuel : Nat) (rands : List (List Nat)) (out : FitOut)
    (h : leidenFit kind res tolOpt tolAgg nAgg nRow nCol nnz B fb outerFuel rands = .ok (some out)) :
    objective kind (kindAdj kind nRow nCol B fb).1 (kindAdj kind nRow nCol B fb).2 res (labOf out.labels)
      = objective kind (kindAdj kind nRow nCol B fb).1 (kindAdj kind nRow nCol B fb).2 res (fun u => u)
        + out.increases.sum ∧
    (∀ x ∈ out.increases, 0 ≤ x) ∧
    objective kind (kindAdj kind nRow nCol B fb).1 (kindAdj kind nRow nCol B fb).2 res (fun u => u)
      ≤ objective kind (kindAdj kind nRow nCol B fb).1 (kindAdj kind nRow nCol B fb).2 res (labOf out.labels) := by
  obtain ⟨-, h2, h3⟩ := leidenFit_spec kind res tolOpt tolAgg nAgg nRow nCol nnz B fb outerFuel rands out h
  refine ⟨h2, h3, ?_⟩
  rw [h2]
  have : 0 ≤ out.increases.sum := list_sum_nonneg _ h3
  linarith

/-- **fits_return.**  Once the input is accepted, the models of the two fits as compiled always return (exact
    arithmetic): `Louvain.fit` for every `tol_optimization` and every `tol_aggregation ≥ 0` within the `n + 1` rounds
    its model allows (a round that continues has a positive exact increase, so a node left its singleton and the
    aggregate is smaller); `Leiden.fit` for every tolerance and every oracle as soon as `n + 1` aggregations are
    allowed (a round that continues has merged a node: the `n == n_previous` stop of /repo b2c73765).  The two
    termination arguments are C17's (`Lemmas/TerminateLouvainOuter.lean`, `Lemmas/TerminateLeiden.lean`); with them the
    hypotheses `= .ok (some out)` of the `…_never_worse_partial` theorems hold whenever the input is accepted. -/
theorem fits_return (kind : Kind) (res tolOpt tolAgg : Rat) (nAgg : Int) (nRow nCol nnz : Nat)
    (B : Nat → Nat → Rat) (fb : Bool) (rands : List (List Nat)) :
    (0 ≤ tolAgg → louvainFitCapped kind res tolOpt tolAgg nAgg nRow nCol nnz B fb ≠ .ok none) ∧
    ∀ outerFuel, (kindAdj kind nRow nCol B fb).1 + 1 ≤ outerFuel →
      leidenFit kind res tolOpt tolAgg nAgg nRow nCol nnz B fb outerFuel rands ≠ .ok none := by
  refine ⟨fun h => SkNet.Terminate.louvainFitCapped_terminates kind res tolOpt tolAgg h nAgg nRow nCol nnz B fb, ?_⟩
  intro outerFuel hf
  cases hpre : preProcess kind nRow nCol nnz B fb with
  | error e => unfold leidenFit; rw [hpre]; simp
  | ok lv =>
    obtain ⟨w, _, hlv⟩ := preProcess_ok kind nRow nCol nnz B fb lv hpre
    have hn : lv.n = (kindAdj kind nRow nCol B fb).1 := by rw [hlv]; rfl
    exact SkNet.Terminate.leidenFit_terminates kind res tolOpt tolAgg nAgg nRow nCol nnz B fb rands lv hpre outerFuel
      (by omega)

/-- non-vacuity: the house is accepted and both fits return on it -/
example :
    (louvainFitCapped .dugue 1 (1/1000) (1/1000) (-1) 5 5 12 house false).toOption.join.isSome = true ∧
    (leidenFit .dugue 1 (1/1000) (1/1000) (-1) 5 5 12 house false 6 []).toOption.join.isSome = true := by
  decide +kernel

/-- what `astype(np.float32)` does to a value of the float64 layer, as far as the statements below need it: the
    result is within half an ulp (relative `2⁻²⁴`, absolute `2⁻¹⁵⁰` in the subnormal range) -/
def IsRoundF32 (cast : Rat → Float32) : Prop :=
  ∀ x : Rat, |x| ≤ 2 ^ 100 → |f32ToRat (cast x) - x| ≤ |x| / 2 ^ 24 + 1 / 2 ^ 150

/-- **what is NOT proved: the property as it reads for the compiled code, Louvain.**  About the executions of
    `louvainFitF32` — `Louvain.fit` with the arrays of every level cast to float32 and `optimize_core` computing in
    binary32 (the `Float32` instance the run lines tie to the compiled kernel), the float64 layer in ℚ: on a matrix
    without negative entries, resolution in `[0, 4]`, whenever the fit returns, the objective (documented formula,
    exact) of the returned labels is within `ε n` of objective(singletons) + Σ logged increases and not below
    objective(singletons) − `ε n`.  This is what the spec lines test with `ε = 2e-5` (up to 700 nodes); `ε` has to
    grow with the number of nodes.  The `F32` fit models themselves are not run by the driver: their kernels are. -/
def louvain_never_worse_float32_full (ε : Nat → Rat) : Prop :=
  ∀ (cast : Rat → Float32), IsRoundF32 cast →
  ∀ (kind : Kind) (res tolOpt tolAgg : Rat) (nAgg : Int) (nRow nCol nnz : Nat) (B : Nat → Nat → Rat) (fb : Bool)
    (out : FitOut), (∀ i j, 0 ≤ B i j) → 0 ≤ res → res ≤ 4 →
    louvainFitF32 cast kind res tolOpt tolAgg nAgg nRow nCol nnz B fb = .ok (some out) →
    |objective kind (kindAdj kind nRow nCol B fb).1 (kindAdj kind nRow nCol B fb).2 res (labOf out.labels)
        - objective kind (kindAdj kind nRow nCol B fb).1 (kindAdj kind nRow nCol B fb).2 res (fun u => u)
        - out.increases.sum| ≤ ε (kindAdj kind nRow nCol B fb).1 ∧
    objective kind (kindAdj kind nRow nCol B fb).1 (kindAdj kind nRow nCol B fb).2 res (fun u => u)
        - ε (kindAdj kind nRow nCol B fb).1
      ≤ objective kind (kindAdj kind nRow nCol B fb).1 (kindAdj kind nRow nCol B fb).2 res (labOf out.labels)

/-- **the same for Leiden** (`leidenFitF32`: both kernels in binary32, the cluster weights of the carried labels
    summed in binary32), for every oracle of the random choices of the refinement; not proved -/
def leiden_never_worse_float32_full (ε : Nat → Rat) : Prop :=
  ∀ (cast : Rat → Float32), IsRoundF32 cast →
  ∀ (kind : Kind) (res tolOpt tolAgg : Rat) (nAgg : Int) (nRow nCol nnz : Nat) (B : Nat → Nat → Rat) (fb : Bool)
    (rands : List (List Nat)) (out : FitOut), (∀ i j, 0 ≤ B i j) → 0 ≤ res → res ≤ 4 →
    leidenFitF32 cast kind res tolOpt tolAgg nAgg nRow nCol nnz B fb rands = .ok (some out) →
    |objective kind (kindAdj kind nRow nCol B fb).1 (kindAdj kind nRow nCol B fb).2 res (labOf out.labels)
        - objective kind (kindAdj kind nRow nCol B fb).1 (kindAdj kind nRow nCol B fb).2 res (fun u => u)
        - out.increases.sum| ≤ ε (kindAdj kind nRow nCol B fb).1 ∧
    objective kind (kindAdj kind nRow nCol B fb).1 (kindAdj kind nRow nCol B fb).2 res (fun u => u)
        - ε (kindAdj kind nRow nCol B fb).1
      ≤ objective kind (kindAdj kind nRow nCol B fb).1 (kindAdj kind nRow nCol B fb).2 res (labOf out.labels)

/-- the refinement kernel as compiled (at most `refinePasses` = 100 passes), for every oracle: the refined partition refines the
    clusters it is given, and is reached by nodes joining the refined cluster of a stored neighbour with the node's
    own label -/
theorem refine_refines (g : Graph Rat) (hcols : ∀ i, i < g.n → ∀ e ∈ g.row i, e.1 < g.n) (res : Rat)
    (labels : List Nat) (fuel : Nat) (st : RSt Rat) (rands : List Nat) (hinv : RefInv g.n labels st.refined)
    (refined' rest : List Nat) (h : refineCore g res labels fuel st rands = some (refined', rest)) :
    RefInv g.n labels refined' ∧ JoinSteps g st.refined refined' :=
  refineCore_spec g hcols res labels fuel st rands hinv refined' rest h

/-- non-vacuity of `RefInv`: the singletons `Leiden._optimize_refine` starts from refine any clusters -/
example : RefInv 6 [0, 0, 0, 1, 1, 1] (arange 6) :=
  ⟨rfl, fun u v hu hv huv => by
    rw [show arange 6 = List.range 6 from rfl, labOf_range 6 u hu, labOf_range 6 v hv] at huv
    rw [huv]⟩

/-- non-vacuity: the same two triangles through `Leiden.fit` (oracle `[[1,2,3,4,5,6,7,8,9,10,11,12]]`) -/
example :
    (leidenFit .dugue 1 0 0 (-1) 6 6 14
      twoTriangles false 100 [[1,2,3,4,5,6,7,8,9,10,11,12], [1,2,3]]).toOption.join.map
          (fun o => (o.labels, o.increases))
      = some ([0, 0, 0, 1, 1, 1], [26/49, 0]) := by
  decide +kernel

/-- **clusters_within_components (Louvain.fit; partial: exact arithmetic, every run of the model that returns).**
    Two nodes with the same label are joined by a chain of non-zero weights of the matrix the kind works on (the input
    matrix, or its block form for a bipartite graph), through every aggregation: no cluster contains nodes of two
    different connected components.  (With `shuffle_nodes=True`: third clause of `louvain_never_worse_shuffled_partial`.) -/
theorem louvain_clusters_within_components_partial (kind : Kind) (res tolOpt tolAgg : Rat) (nAgg : Int)
    (nRow nCol nnz : Nat) (B : Nat → Nat → Rat) (fb : Bool) (out : FitOut)
    (h : louvainFitCapped kind res tolOpt tolAgg nAgg nRow nCol nnz B fb = .ok (some out)) :
    ∀ u v, u < (kindAdj kind nRow nCol B fb).1 → v < (kindAdj kind nRow nCol B fb).1 →
      labOf out.labels u = labOf out.labels v →
      Connected (kindAdj kind nRow nCol B fb).1 (kindAdj kind nRow nCol B fb).2 u v :=
  louvainFitCapped_comp kind res tolOpt tolAgg nAgg nRow nCol nnz B fb out h

/-- **clusters_within_components (Leiden.fit; partial as above).**  For every oracle of the random choices: although
    the graph is aggregated by the refined clusters, the returned (coarse) clusters stay inside connected components
    of the matrix the kind works on (mixed-sign weights whose block sums cancel included: the argument does not use
    the stored pattern of the aggregate beyond "a stored entry comes from a stored entry"). -/
theorem leiden_clusters_within_components_partial (kind : Kind) (res tolOpt tolAgg : Rat) (nAgg : Int)
    (nRow nCol nnz : Nat) (B : Nat → Nat → Rat) (fb : Bool) (outerFuel : Nat) (rands : List (List Nat)) (out : FitOut)
    (h : leidenFit kind res tolOpt tolAgg nAgg nRow nCol nnz B fb outerFuel rands = .ok (some out)) :
    ∀ u v, u < (kindAdj kind nRow nCol B fb).1 → v < (kindAdj kind nRow nCol B fb).1 →
      labOf out.labels u = labOf out.labels v →
      Connected (kindAdj kind nRow nCol B fb).1 (kindAdj kind nRow nCol B fb).2 u v :=
  leidenFit_comp kind res tolOpt tolAgg nAgg nRow nCol nnz B fb outerFuel rands out h

/-- the executable component test of the spec lines accepts only labelings whose clusters lie inside connected
    components (`Connected`, the relation of the two theorems above) … -/
theorem components_test_sound (n : Nat) (A : Nat → Nat → Rat) (c : Nat → Nat)
    (h : clustersWithinComponents n A c = true) :
    ∀ u v, u < n → v < n → c u = c v → Connected n A u v :=
  clustersWithinComponents_sound n A c h

/-- the component test of the spec lines on graphs with hundreds of nodes (a forest and the root of every cluster are
    supplied by the caller) accepts only such labelings, whatever it is supplied with -/
theorem components_forest_test_sound (n : Nat) (A : Nat → Nat → Rat) (c parent croot : Nat → Nat)
    (h : clustersWithinForest n A c parent croot = true) :
    ∀ u v, u < n → v < n → c u = c v → Connected n A u v :=
  clustersWithinForest_sound n A c parent croot h

/-- non-vacuity: on the two triangles the forest `1 → 0, 2 → 1, 4 → 3, 5 → 4` certifies the two triangles as clusters
    and does not certify one cluster of six (another forest would: the edge 2 – 3 joins the triangles) -/
example :
    clustersWithinForest 6 twoTriangles (fun u => u / 3) (fun u => if u % 3 = 0 then u else u - 1)
      (fun k => 3 * k) = true ∧
    clustersWithinForest 6 twoTriangles (fun _ => 0) (fun u => if u % 3 = 0 then u else u - 1) (fun _ => 0) = false := by
  decide +kernel

/-- … and accepts every such labeling, given the closure certificate it evaluates itself on every call -/
theorem components_test_complete (n : Nat) (A : Nat → Nat → Rat) (c : Nat → Nat)
    (hcert : ∀ u, u < n → closedUnder n A (reachK n A u n) = true)
    (h : ∀ u v, u < n → v < n → c u = c v → Connected n A u v) :
    clustersWithinComponents n A c = true :=
  clustersWithinComponents_complete n A c hcert h

/-- a directed weighted graph (3-cycle `0→1→2→0` plus `2→3` of weight 2 and `3→2`) and a 2 × 3 biadjacency matrix: the
    inputs of the examples beyond the undirected unit-weight case -/
def dirGraph : Nat → Nat → Rat := fun i j =>
  if (i, j) ∈ [(0,1),(1,2),(2,0),(2,3),(3,2)] then (if (i, j) = (2, 3) then 2 else 1) else 0

def rectGraph : Nat → Nat → Rat := fun i j => if (i, j) ∈ [(0,0),(0,1),(1,1),(1,2)] then 1 else 0

/-- non-vacuity beyond Dugué / undirected: `get_modularity` with uniform weights on the directed graph, with custom
    weights, and on the rectangular matrix (block form, `labels_col`); `Louvain.fit` for Newman on the directed graph,
    Potts and Dugué (Barber) on the rectangular matrix, with `shuffle_nodes=True` for the permutation `[2,0,3,1]`;
    `Leiden.fit` for Newman on the directed graph -/
example :
    (getModularity 4 4 5 dirGraph [0,0,0,1] none .uniform (1/2)).toOption.map (fun o => (o.mod, o.fit, o.div))
      = some (3/16, 1/2, 5/8) ∧
    (getModularity 4 4 5 dirGraph [0,0,1,1] none (.custom [1,2,3,2]) 2).toOption.map (fun o => (o.mod, o.fit, o.div))
      = some (-19/48, 2/3, 17/32) ∧
    (getModularity 2 3 4 rectGraph [0,1] (some [0,0,1]) .degree 1).toOption.map (fun o => (o.mod, o.fit, o.div))
      = some (7/32, 3/4, 17/32) := by decide +kernel

example :
    (louvainFitCapped .newman 1 0 0 (-1) 4 4 5 dirGraph false).toOption.join.map (fun o => (o.labels, o.increases))
      = some ([0, 0, 1, 1], [4/9, 0]) ∧
    (louvainFitCapped .potts (1/2) 0 0 (-1) 2 3 4 rectGraph false).toOption.join.map (fun o => (o.labels, o.increases))
      = some ([0, 0, 0, 0, 0], [59/100, 1/100]) ∧
    (louvainFitCapped .dugue 1 0 0 (-1) 2 3 4 rectGraph false).toOption.join.map (fun o => (o.labels, o.increases))
      = some ([0, 2, 0, 1, 2], [1/4, 0]) ∧
    [2, 0, 3, 1].Perm (List.range 4) ∧
    (louvainFitShuffled .newman 1 0 0 (-1) 4 4 5 dirGraph false [2, 0, 3, 1]).toOption.join.map
        (fun o => (o.labels, o.increases)) = some ([1, 1, 0, 0], [4/9, 0]) ∧
    (leidenFit .newman 1 0 0 (-1) 4 4 5 dirGraph false 50 [[3,1,4,1,5,9,2,6],[5,3]]).toOption.join.map
        (fun o => (o.labels, o.increases)) = some ([0, 0, 1, 1], [4/9, 0]) := by decide +kernel

/-- non-vacuity of the component test: the two triangles are one component, so any labelling passes, and the closure
    certificate holds -/
example : clustersWithinComponents 6 twoTriangles (fun u => u / 3) = true ∧
    (∀ u, u < 6 → closedUnder 6 twoTriangles (reachK 6 twoTriangles u 6) = true) := by decide +kernel

/-- non-vacuity: two triangles joined by an edge (6 nodes, unit weights, Dugué, γ = 1, tolerances 0): the fit returns
    the two triangles after two aggregations, with logged increases 26/49 and 0
    (objective 5/14 against −17/98 for the singletons) -/
example :
    (louvainFitCapped .dugue 1 0 0 (-1) 6 6 14
      twoTriangles false).toOption.join.map (fun o => (o.labels, o.increases))
      = some ([0, 0, 0, 1, 1, 1], [26/49, 0]) := by
  decide +kernel

end SkNet.C06
