/- C07 — property theorems (filled below). -/
import SkNet.Model.Hierarchy
import SkNet.Model.Paris
import SkNet.Spec.Hierarchy

namespace SkNet.C07
open SkNet SkNet.Dendro SkNet.Hier

theorem getIndex_leaf (k : Nat) : getIndex (.leaf k) = k := by simp [getIndex]

end SkNet.C07
