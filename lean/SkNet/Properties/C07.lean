/-
C07 — hierarchical algorithms always return a valid dendrogram.

Theorems about the models `SkNet.Hier.*`, `SkNet.Paris.*`, `SkNet.Dendro.reorderDendrogram`, which mirror
sknetwork/hierarchy/{postprocess.py, louvain_hierarchy.py, paris.pyx, base.py} and are tied to the code on every run
by tools/harness/c07.py.  `ValidDendro n D` (Spec/Dendro.lean) is the executable predicate of the statement.
-/
import SkNet.Lemmas.GetDendro
import SkNet.Lemmas.Valid

namespace SkNet.C07
open SkNet SkNet.Dendro SkNet.Hier

/-- **Validity implies the size clause of the statement**: in a valid dendrogram over `n` leaves the size column
    of every row is the number of original nodes below the merge, the two children of a row were created before
    it and are distinct, and the last row has size `n`. -/
theorem valid_sizes {α : Type} {n : Nat} {pre : Dendro α} {r : Row α} {rs : Dendro α}
    (hv : ValidDendro n (pre ++ r :: rs) = true) :
    r.i < n + pre.length ∧ r.j < n + pre.length ∧ r.i ≠ r.j ∧
    r.s = (leaves n (pre ++ r :: rs) (n + pre.length)).length ∧ (rs = [] → r.s = n) := by
  obtain ⟨h1, h2, h3, _, h5⟩ := valid_row hv
  exact ⟨h1, h2, h3, h5, fun e => by subst e; exact valid_last_size hv⟩

example : ValidDendro 4 ([⟨0, 1, 1, 2⟩, ⟨2, 3, 2, 2⟩, ⟨4, 5, 3, 4⟩] : Dendro Nat) = true := by decide

/-- **get_dendrogram** (tree → dendrogram, with the `size` dict and the running index): for every tree over the
    leaves `0 … n-1` whose inner lists have at least two elements — what `_recursive_louvain` and `_get_hierarchy`
    build — the rows returned form a valid dendrogram over `n` leaves: `n-1` rows, row `t` merges two distinct live
    clusters, the size column is the number of leaves below (`valid_sizes`). -/
theorem getDendrogram_valid (ts : List Tree) (n : Nat) (hwf : WF (.node ts))
    (hperm : (tleaves (.node ts)).Perm (List.range n)) :
    ∃ rows, getDendrogram (.node ts) = .ok rows ∧ ValidDendro n rows = true := by
  have hlen : (tleaves (.node ts)).length = n := by simpa using hperm.length_eq
  have h2 : 2 ≤ ts.length := by simp only [WF] at hwf; exact hwf.1
  -- at least one leaf
  have hn : 0 < n := by
    rcases ts with _ | ⟨t, ts⟩
    · simp at h2
    · have : tleaves t ≠ [] := by
        have hwt : WF t := by simp only [WF, WFL] at hwf; exact hwf.2.1
        revert hwt
        refine Tree.rec (motive_1 := fun t => WF t → tleaves t ≠ [])
          (motive_2 := fun ts => WFL ts → ts ≠ [] → tleavesL ts ≠ []) ?_ ?_ ?_ ?_ t
        · intro k _; simp [tleaves]
        · intro ts ih hw
          simp only [WF] at hw
          simp only [tleaves]
          exact ih hw.2 (by intro e; subst e; simp at hw)
        · intro _ h; exact absurd rfl h
        · intro t ts iht _ hw _
          simp only [WFL] at hw
          simp only [tleavesL]
          intro e
          exact iht hw.1 (List.append_eq_nil_iff.mp e).1
      simp only [tleaves, tleavesL, List.length_append] at hlen
      have : 0 < (tleaves t).length := List.length_pos_iff.mpr this
      omega
  let st0 : GState := { rows := [], index := getIndex (.node ts), size := [] }
  have hidx : getIndex (.node ts) + 1 = n := by
    rw [getIndex_eq]; exact listMax_perm_range hn hperm
  have g0 : GInv n st0 (liveInit (List.replicate n 1)) := by
    refine ⟨rfl, ?_, by simpa [st0] using hidx, fun _ _ => rfl, fun _ _ => rfl⟩
    have := linv_init (List.replicate n 1)
    simpa [st0] using this
  have hpre : PreLeaves n (tleaves (.node ts)) (liveInit (List.replicate n 1)) := by
    refine ⟨hperm.nodup_iff.mpr List.nodup_range, fun x hx => ?_⟩
    have : x < n := by simpa using hperm.mem_iff.mp hx
    exact ⟨this, liveInit_get? n x this⟩
  obtain ⟨root, st', L', e, g, _, hcnt, _, _, _⟩ := specTree_all n (.node ts) 0 st0 _ g0 hwf hpre
  refine ⟨st'.rows, ?_, ?_⟩
  · unfold getDendrogram
    simp only [show ts.length > 1 by omega, if_true]
    show (procTree 0 (.node ts) st0).map _ = _
    rw [e]; rfl
  · unfold ValidDendro ValidDendroW
    simp only [List.length_replicate, Bool.and_eq_true, beq_iff_eq]
    refine ⟨?_, ?_⟩
    · simp only [st0, List.length_nil] at hcnt; omega
    · rw [validLoop_eq_isSome, g.live]; rfl

/-- non-vacuity: the tree `[[[0],[1]],[[2],[3]],[[4],[5],[6]]]` (the witness of the repaired defect F7) -/
example : WF (.node [.node [.leaf 0, .leaf 1], .node [.leaf 2, .leaf 3], .node [.leaf 4, .leaf 5, .leaf 6]]) ∧
    (getDendrogram (.node [.node [.leaf 0, .leaf 1], .node [.leaf 2, .leaf 3],
      .node [.leaf 4, .leaf 5, .leaf 6]])).toOption.map (fun rows => ValidDendro 7 rows && lastSizeIs 7 rows)
      = some true := by
  refine ⟨by simp [WF, WFL], by decide⟩

end SkNet.C07
