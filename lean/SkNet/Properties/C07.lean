/-
C07 — hierarchical algorithms always return a valid dendrogram.

Theorems about the models `SkNet.Hier.*`, `SkNet.Paris.*`, `SkNet.Dendro.reorderDendrogram`, which mirror
sknetwork/hierarchy/{postprocess.py, louvain_hierarchy.py, paris.pyx, base.py} and are tied to the code on every run
by tools/harness/c07.py.  `ValidDendro n D` (Spec/Dendro.lean) is the executable predicate of the statement.
-/
import SkNet.Lemmas.GetDendro
import SkNet.Lemmas.Valid
import SkNet.Lemmas.Paris
import SkNet.Lemmas.Reorder
import SkNet.Lemmas.GetDendroMono
import SkNet.Lemmas.Builders
import SkNet.Lemmas.Split
import SkNet.Lemmas.SplitAgree
import SkNet.Lemmas.SplitPin
import SkNet.Lemmas.TerminateHierarchy
import SkNet.Lemmas.HierHelpers
import SkNet.Lemmas.MergeW
import SkNet.Lemmas.ParisMono
import SkNet.Lemmas.Reducible
import SkNet.Lemmas.ParisTerm
import SkNet.Lemmas.ParisReturns

namespace SkNet.C07
open SkNet SkNet.Dendro SkNet.Hier

/-- **Validity implies the size clause of the statement**: in a valid dendrogram over `n` leaves the size column
    of every row is the number of original nodes below the merge, the two children of a row were created before
    it and are distinct, and the last row has size `n`. -/
theorem valid_sizes {α : Type} {n : Nat} {pre : Dendro α} {r : Row α} {rs : Dendro α}
    (hv : ValidDendro n (pre ++ r :: rs) = true) :
    r.i < n + pre.length ∧ r.j < n + pre.length ∧ r.i ≠ r.j ∧
    r.s = (leaves n (pre ++ r :: rs) (n + pre.length)).length ∧ (rs = [] → r.s = n) := by
  obtain ⟨h1, h2, h3, _, h5⟩ := valid_row hv
  exact ⟨h1, h2, h3, h5, fun e => by subst e; exact valid_last_size hv⟩

example : ValidDendro 4 ([⟨0, 1, 1, 2⟩, ⟨2, 3, 2, 2⟩, ⟨4, 5, 3, 4⟩] : Dendro Nat) = true := by decide

/-- **get_dendrogram** (tree → dendrogram, with the `size` dict and the running index): for every tree over the
    leaves `0 … n-1` whose inner lists have at least two elements — what `_recursive_louvain` and `_get_hierarchy`
    build — the rows returned form a valid dendrogram over `n` leaves: `n-1` rows, row `t` merges two distinct live
    clusters, the size column is the number of leaves below (`valid_sizes`). -/
theorem getDendrogram_valid (ts : List Tree) (n : Nat) (hwf : WF (.node ts))
    (hperm : (tleaves (.node ts)).Perm (List.range n)) :
    ∃ rows, getDendrogram (.node ts) = .ok rows ∧ ValidDendro n rows = true := by
  have hlen : (tleaves (.node ts)).length = n := by simpa using hperm.length_eq
  have h2 : 2 ≤ ts.length := by simp only [WF] at hwf; exact hwf.1
  -- at least one leaf
  have hn : 0 < n := by
    rcases ts with _ | ⟨t, ts⟩
    · simp at h2
    · have : tleaves t ≠ [] := by
        have hwt : WF t := by simp only [WF, WFL] at hwf; exact hwf.2.1
        revert hwt
        refine Tree.rec (motive_1 := fun t => WF t → tleaves t ≠ [])
          (motive_2 := fun ts => WFL ts → ts ≠ [] → tleavesL ts ≠ []) ?_ ?_ ?_ ?_ t
        · intro k _; simp [tleaves]
        · intro ts ih hw
          simp only [WF] at hw
          simp only [tleaves]
          exact ih hw.2 (by intro e; subst e; simp at hw)
        · intro _ h; exact absurd rfl h
        · intro t ts iht _ hw _
          simp only [WFL] at hw
          simp only [tleavesL]
          intro e
          exact iht hw.1 (List.append_eq_nil_iff.mp e).1
      simp only [tleaves, tleavesL, List.length_append] at hlen
      have : 0 < (tleaves t).length := List.length_pos_iff.mpr this
      omega
  let st0 : GState := { rows := [], index := getIndex (.node ts), size := [] }
  have hidx : getIndex (.node ts) + 1 = n := by
    rw [getIndex_eq]; exact listMax_perm_range hn hperm
  have g0 : GInv n st0 (liveInit (List.replicate n 1)) := by
    refine ⟨rfl, ?_, by simpa [st0] using hidx, fun _ _ => rfl, fun _ _ => rfl⟩
    have := linv_init (List.replicate n 1)
    simpa [st0] using this
  have hpre : PreLeaves n (tleaves (.node ts)) (liveInit (List.replicate n 1)) := by
    refine ⟨hperm.nodup_iff.mpr List.nodup_range, fun x hx => ?_⟩
    have : x < n := by simpa using hperm.mem_iff.mp hx
    exact ⟨this, liveInit_get? n x this⟩
  obtain ⟨root, st', L', e, g, _, hcnt, _, _, _⟩ := specTree_all n (.node ts) 0 st0 _ g0 hwf hpre
  refine ⟨st'.rows, ?_, ?_⟩
  · unfold getDendrogram
    simp only [show ts.length > 1 by omega, if_true]
    show (procTree 0 (.node ts) st0).map _ = _
    rw [e]; rfl
  · unfold ValidDendro ValidDendroW
    simp only [List.length_replicate, Bool.and_eq_true, beq_iff_eq]
    refine ⟨?_, ?_⟩
    · simp only [st0, List.length_nil] at hcnt; omega
    · rw [validLoop_eq_isSome, g.live]; rfl

/-- non-vacuity: the tree `[[[0],[1]],[[2],[3]],[[4],[5],[6]]]` (the witness of the repaired defect F7) -/
example : WF (.node [.node [.leaf 0, .leaf 1], .node [.leaf 2, .leaf 3], .node [.leaf 4, .leaf 5, .leaf 6]]) ∧
    (getDendrogram (.node [.node [.leaf 0, .leaf 1], .node [.leaf 2, .leaf 3],
      .node [.leaf 4, .leaf 5, .leaf 6]])).toOption.map (fun rows => ValidDendro 7 rows && lastSizeIs 7 rows)
      = some true := by
  refine ⟨by simp [WF, WFL], by decide⟩


/-! ### Paris -/

section paris
open SkNet.Paris SkNet.Agg
variable {α : Type} [Add α] [Mul α] [Div α] [OfNat α 0] [OfNat α 1] [OfNat α 2] [LT α] [DecidableLT α] [BEq α]

/-- **Paris** (`paris_valid_partial`): whenever the nearest-neighbour chain returns — it is run with fuel in the
    model; `paris_terminates` bounds the fuel needed — the dendrogram written by `Paris.fit` before the optional reordering
    (the merges of reciprocal nearest neighbours, then the joins of the connected components at infinite
    height) is a valid dendrogram over the `n` nodes: `n-1` rows, every row merges two distinct live clusters and
    carries the number of nodes below.  This holds for every scalar type, every rounding and every weights: the
    bookkeeping does not depend on the similarities. -/
theorem paris_valid_partial (round32 : α → α) (fuel : Nat) (csr : List (List (Nat × α))) (outW inW : List α)
    {rows : List (Row (HInf α))}
    (h : fitRows round32 fuel (AggGraph.init csr outW inW) = .ok (some rows)) :
    ValidDendro csr.length rows = true := by
  unfold fitRows at h
  obtain ⟨res, hres, h⟩ := bind_ok h
  cases res with
  | none => simp [pure, Except.pure] at h
  | some st =>
    simp only at h
    obtain ⟨rows', hj, h⟩ := bind_ok h
    simp only [pure, Except.pure, Except.ok.injEq, Option.some.injEq] at h
    subst h
    obtain ⟨L, hp, hsz⟩ := chainLoop_pinv (n := csr.length) round32 _ fuel _ st _ (pinv_init csr outW inW) hres
    unfold joinComponents at hj
    split at hj
    · cases hj
    · rename_i node0 size0 restRev hrev
      simp only [Except.ok.injEq] at hj
      subst hj
      have hcomps : st.comps = restRev.reverse ++ [(node0, size0)] := by
        have := congrArg List.reverse hrev
        simpa using this
      have hnd := hp.compsNodup
      rw [hcomps] at hnd
      simp only [List.map_append, List.map_cons, List.map_nil] at hnd
      have hnd' := List.nodup_append.mp hnd
      have hlast := hp.compsOK (node0, size0) (by rw [hcomps]; simp)
      obtain ⟨L', g1, g2⟩ := join_spec csr.length restRev.reverse st.rows node0 size0 L hp.live hp.linv hlast.1
        (by
          intro p hpm
          refine ⟨(hp.compsOK p (by rw [hcomps]; exact List.mem_append_left _ hpm)).1, ?_⟩
          intro e
          exact hnd'.2.2 p.1 (List.mem_map.mpr ⟨p, hpm, rfl⟩) node0 (by simp) e)
        hnd'.1
      rw [← hp.next] at g1 g2
      unfold ValidDendro ValidDendroW
      simp only [List.length_replicate, Bool.and_eq_true, beq_iff_eq]
      refine ⟨?_, ?_⟩
      · have hc := hp.count
        rw [hsz, hcomps] at hc
        have hl := (liveAfter_linv st.rows 0 _ L (linv_init (List.replicate csr.length 1))
          (by simpa using hp.live)).2
        simp only [liveInit, List.length_map, List.length_range, List.length_replicate, List.length_append,
          List.length_cons, List.length_nil, List.length_reverse] at hc hl g2
        omega
      · rw [validLoop_eq_isSome, g1]; rfl

/-- non-vacuity: the chain returns on a weighted path of three nodes plus an isolated node (integer scalars are
    enough to run the bookkeeping), and the result is a valid dendrogram with one join at infinite height -/
example : (fitRows (α := Int) id 100
      (AggGraph.init [[(1, 30)], [(0, 30), (2, 10)], [(1, 10)], []] [1, 1, 1, 1] [1, 1, 1, 1])).toOption.map
      (fun o => o.map fun rows => (rows.map fun r => (r.i, r.j, r.s), ValidDendro 4 rows))
    = some (some ([(1, 0, 2), (4, 2, 3), (5, 3, 4)], true)) := by decide

end paris


/-! ### reorder_dendrogram -/

section reorder
open SkNet.Cut
variable {α : Type} [LinearOrder α]

/-- **reorder_dendrogram** (`reorder_valid`): for a valid dendrogram whose heights never decrease from a merge to its
    parent — what Paris' reducible linkage and the depth-based heights of the Louvain hierarchies give —
    `reorder_dendrogram` returns a valid dendrogram with non-decreasing height column and the same merge tree:
    the row of merge `t` is found at position `pos t` with the same height and size, and the node renamed from `x`
    has exactly the same leaves (a child always sorts before its parent: equal heights are separated by the
    larger-child key). -/
theorem reorder_valid {n : Nat} {D : Dendro α} (hv : ValidDendro n D = true) (hm : MonoPaths n D = true) :
    ∃ D', reorderDendrogram D = .ok D' ∧ ValidDendro n D' = true ∧ heightsSorted D' = true ∧
      (∀ x, x < n + D.length → leaves n D' (indexNewOf D x) = leaves n D x) ∧
      (∀ t r, D[t]? = some r → ∃ r', D'[posOf (lexsortIdx D) t]? = some r' ∧ r'.h = r.h ∧ r'.s = r.s) :=
  reorder_valid_core hv hm

/-- non-vacuity: a valid dendrogram in creation order (as `Paris(reorder=False)` returns it), monotone towards the
    root but not sorted by row; its reordering -/
example : ValidDendro 4 ([⟨0, 1, 3, 2⟩, ⟨2, 3, 1, 2⟩, ⟨4, 5, 3, 4⟩] : Dendro Nat) = true ∧
    MonoPaths 4 ([⟨0, 1, 3, 2⟩, ⟨2, 3, 1, 2⟩, ⟨4, 5, 3, 4⟩] : Dendro Nat) = true ∧
    (reorderDendrogram ([⟨0, 1, 3, 2⟩, ⟨2, 3, 1, 2⟩, ⟨4, 5, 3, 4⟩] : Dendro Nat)).toOption =
      some [⟨2, 3, 1, 2⟩, ⟨0, 1, 3, 2⟩, ⟨5, 4, 3, 4⟩] := by decide

/-- without monotone heights the result is not a dendrogram (the parent is written before its child) -/
example : ((reorderDendrogram ([⟨0, 1, 5, 2⟩, ⟨2, 3, 1, 3⟩] : Dendro Nat)).toOption.map (ValidDendro 3)) = some false := by
  decide

end reorder


/-! ### the Louvain hierarchies: tree → `dendrogram_` -/

/-- **LouvainIteration / LouvainHierarchy, from the tree on** (`treePipeline` = `get_dendrogram`, the shift of the
    heights, `reorder_dendrogram`): for every tree over the nodes `0 … n-1` whose inner lists have at least two
    elements — whatever partitions Louvain returned — `dendrogram_` is a valid dendrogram over the `n` nodes with
    non-decreasing heights. -/
theorem louvain_pipeline_valid (ts : List Tree) (n : Nat) (hwf : WF (.node ts))
    (hperm : (tleaves (.node ts)).Perm (List.range n)) :
    ∃ D, treePipeline (.node ts) = .ok D ∧ ValidDendro n D = true ∧ heightsSorted D = true := by
  obtain ⟨rows, hrows, hv⟩ := getDendrogram_valid ts n hwf hperm
  have hlen : (tleaves (.node ts)).length = n := by simpa using hperm.length_eq
  have h2 : 2 ≤ n := by
    simp only [WF] at hwf
    have := tleaves_length_ge.2 ts hwf.2
    simp only [tleaves] at hlen
    omega
  have hidx : getIndex (.node ts) + 1 = n := by
    rw [getIndex_eq]; exact listMax_perm_range (by omega) hperm
  have hl : ∀ x ∈ tleaves (.node ts), x < n := fun x hx => by simpa using hperm.mem_iff.mp hx
  have hm := getDendrogram_mono hidx hl hrows
  have hne : rows ≠ [] := by
    intro e; subst e
    have := valid_length hv; simp at this; omega
  obtain ⟨rows', hsh⟩ : ∃ rows', shiftHeights rows = .ok rows' := by
    unfold shiftHeights
    cases rows with
    | nil => exact absurd rfl hne
    | cons r rs => exact ⟨_, rfl⟩
  obtain ⟨hv', hm'⟩ := shiftHeights_spec hsh hv hm
  obtain ⟨D, hD, hvD, hsD, _, _⟩ := reorder_valid hv' hm'
  refine ⟨D, ?_, hvD, hsD⟩
  unfold treePipeline
  simp only [hrows, hsh, bind, Except.bind]
  exact hD

/-- non-vacuity: the tree of LouvainHierarchy on the house graph -/
example : (treePipeline (.node [.node [.leaf 0, .node [.leaf 1, .leaf 4]], .node [.leaf 2, .leaf 3]])).toOption.map
      (fun D => (D.map fun r => (r.i, r.j, r.h, r.s), ValidDendro 5 D && heightsSorted D))
    = some ([(4, 1, 1, 2), (3, 2, 2, 2), (5, 0, 2, 3), (6, 7, 3, 5)], true) := by decide


/-- **LouvainIteration** (non-bipartite input, `n ≥ 2` nodes): for every behaviour of Louvain (`oracle`: one label
    per node of the sub-graph it is given), every `depth` and every graph (`hasEdge`), the tree built by
    `_recursive_louvain` followed by `get_dendrogram`, the height shift and `reorder_dendrogram` is a valid dendrogram
    over the `n` nodes with non-decreasing heights. -/
theorem louvainIteration_valid (hasEdge : List Nat → Bool) (oracle : List Nat → List Nat)
    (ho : ∀ nodes, (oracle nodes).length = nodes.length) (depth : Int) (n : Nat) (hn : 2 ≤ n) :
    ∃ D, treePipeline (recursiveLouvain hasEdge oracle (n + 1) depth (List.range n)) = .ok D ∧
      ValidDendro n D = true ∧ heightsSorted D = true := by
  obtain ⟨hwf, hperm⟩ := recursiveLouvain_wf hasEdge oracle ho (n + 1) depth (List.range n)
    (by intro e; have := congrArg List.length e; simp at this; omega) (by simp)
  cases ht : recursiveLouvain hasEdge oracle (n + 1) depth (List.range n) with
  | leaf k =>
    rw [ht] at hperm
    have := hperm.length_eq
    simp [tleaves] at this
    omega
  | node ts =>
    rw [ht] at hwf hperm
    exact louvain_pipeline_valid ts n hwf hperm

/-- non-vacuity: an oracle that splits every node list in two halves -/
example : ((treePipeline (recursiveLouvain (fun _ => true)
      (fun nodes => nodes.map fun x => if x < 2 then 0 else 1) 6 3 (List.range 5))).toOption.map
      fun D => ValidDendro 5 D && heightsSorted D) = some true := by decide


/-- **LouvainHierarchy** (non-bipartite input, `n ≥ 2` nodes): whatever label vectors Louvain returned on the
    graph and on the successive aggregates (`first :: more`, one label per current cluster: `SeqOK`), when the loop
    of `_get_hierarchy` ends within them, `dendrogram_` is a valid dendrogram over the `n` nodes with non-decreasing
    heights — including the case of a single top cluster (F8, repaired). -/
theorem louvainHierarchy_valid (n : Nat) (hn : 2 ≤ n) (first : List Nat) (more : List (List Nat)) (t : Tree)
    (hfirst : first.length = n) (hok : SeqOK more (uniqueSorted first).length)
    (h : getHierarchy n (first :: more) = some t) :
    ∃ D, treePipeline t = .ok D ∧ ValidDendro n D = true ∧ heightsSorted D = true := by
  obtain ⟨hwf, hperm⟩ := getHierarchy_wf n hn first more t hfirst hok h
  cases t with
  | leaf k =>
    have := hperm.length_eq
    simp [tleaves] at this
    omega
  | node ts => exact louvain_pipeline_valid ts n hwf hperm

/-- **LouvainHierarchy, total**: with more recorded rounds of Louvain than clusters of the first round (the `while`
    loop of `_get_hierarchy` stops as soon as a round does not reduce the number of clusters:
    `SkNet.Terminate.getHierarchyLoop_terminates`), the loop ends and `dendrogram_` is a valid dendrogram over the
    `n` nodes with non-decreasing heights. -/
theorem louvainHierarchy_total (n : Nat) (hn : 2 ≤ n) (first : List Nat) (more : List (List Nat))
    (hfirst : first.length = n) (hok : SeqOK more (uniqueSorted first).length)
    (hlen : (uniqueSorted first).length < more.length) :
    ∃ t D, getHierarchy n (first :: more) = some t ∧ treePipeline t = .ok D ∧ ValidDendro n D = true ∧
      heightsSorted D = true := by
  have hne := SkNet.Terminate.getHierarchyLoop_terminates more ((List.range n).map .leaf) first (uniqueSorted first)
    (chained_of_seqOK more _ hok) hlen
  obtain ⟨t, ht⟩ : ∃ t, getHierarchy n (first :: more) = some t := by
    unfold getHierarchy
    cases hl : getHierarchyLoop more ((List.range n).map .leaf) first (uniqueSorted first) with
    | none => exact absurd hl hne
    | some items => simp only [hl, Option.map_some]; exact ⟨_, rfl⟩
  obtain ⟨D, h1, h2, h3⟩ := louvainHierarchy_valid n hn first more t hfirst hok ht
  exact ⟨t, D, ht, h1, h2, h3⟩

/-- non-vacuity: Louvain puts the 3 nodes of a triangle in one cluster (the witness of F8) -/
example : (match getHierarchy 3 [[0, 0, 0], [0]] with
    | some t => match treePipeline t with
      | .ok D => ValidDendro 3 D && (D.map fun (r : Row Int) => (r.i, r.j, r.h, r.s)) == [(2, 1, 1, 2), (3, 0, 1, 3)]
      | .error _ => false
    | none => false) = true := by decide


/-! ### split_dendrogram (bipartite input) -/

/-- **split_dendrogram** (`split_valid`): for a valid dendrogram over the `n1 + n2` nodes of a bipartite graph
    (rows first), `split_dendrogram` returns a valid dendrogram over the `n1` rows and a valid dendrogram over the
    `n2` columns (`n1 - 1` and `n2 - 1` merges, sizes counting the rows, resp. columns, below each merge). -/
theorem split_valid {α : Type} {D : Dendro α} {n1 n2 : Nat} (h1 : 0 < n1) (h2 : 0 < n2)
    (hv : ValidDendro (n1 + n2) D = true) :
    ∃ R C, splitDendrogram D n1 n2 = .ok (R, C) ∧ ValidDendro n1 R = true ∧ ValidDendro n2 C = true := by
  have hlen := valid_length hv
  have ha := side_valid (m := n1) (N := n1 + n2) (off := 0) h1 (by omega) hv
  have hb := side_valid (m := n2) (N := n1 + n2) (off := n1) h2 (by omega) hv
  refine ⟨_, _, ?_, ha, hb⟩
  unfold splitDendrogram
  have e1 : ¬ (D.length < n1 + n2 - 1) := by omega
  have e2 : D.take (n1 + n2 - 1) = D := List.take_of_length_le (by omega)
  simp only [e1, if_false, e2, splitLoop_eq]
  rfl

/-- non-vacuity: a 2 × 2 biadjacency matrix, full dendrogram over the 4 nodes -/
example : ValidDendro 4 ([⟨0, 2, 1, 2⟩, ⟨1, 3, 1, 2⟩, ⟨4, 5, 2, 4⟩] : Dendro Nat) = true ∧
    (splitDendrogram ([⟨0, 2, 1, 2⟩, ⟨1, 3, 1, 2⟩, ⟨4, 5, 2, 4⟩] : Dendro Nat) 2 2).toOption =
      some ([⟨0, 1, 2, 2⟩], [⟨0, 1, 2, 2⟩]) := by decide


/-- (superseded by `split_agrees_pinned`, which pins the height: here any merge of the full dendrogram with the same
    restriction is accepted as a witness.)
    **split_dendrogram agrees with the full dendrogram** (`split_agrees`): every merge of the row dendrogram is, at the
    same height, the restriction to the rows of a merge of the full dendrogram (its leaves are the rows below that
    merge, in the same order); likewise every merge of the column dendrogram with the columns renumbered from 0. -/
theorem split_agrees {α : Type} {D : Dendro α} {n1 n2 : Nat} (h1 : 0 < n1) (h2 : 0 < n2)
    (hv : ValidDendro (n1 + n2) D = true) {R C : Dendro α} (h : splitDendrogram D n1 n2 = .ok (R, C)) :
    (∀ (u : Nat) (ru : Row α), R[u]? = some ru → ∃ (t : Nat) (rt : Row α), D[t]? = some rt ∧ ru.h = rt.h ∧
      leaves n1 R (n1 + u) = sideOf n1 0 (leaves (n1 + n2) D (n1 + n2 + t))) ∧
    (∀ (u : Nat) (cu : Row α), C[u]? = some cu → ∃ (t : Nat) (rt : Row α), D[t]? = some rt ∧ cu.h = rt.h ∧
      leaves n2 C (n2 + u) = sideOf n2 n1 (leaves (n1 + n2) D (n1 + n2 + t))) := by
  have hlen := valid_length hv
  unfold splitDendrogram at h
  have e1 : ¬ (D.length < n1 + n2 - 1) := by omega
  have e2 : D.take (n1 + n2 - 1) = D := List.take_of_length_le (by omega)
  simp only [e1, if_false, e2, splitLoop_eq, Except.ok.injEq, Prod.mk.injEq] at h
  obtain ⟨hR, hC⟩ := h
  constructor
  · have := side_agrees (m := n1) (N := n1 + n2) (off := 0) h1 (by omega) hv
    rw [← hR]; exact this
  · have := side_agrees (m := n2) (N := n1 + n2) (off := n1) h2 (by omega) hv
    rw [← hC]; exact this

/-- **split_dendrogram agrees with the full dendrogram, with pinned heights** (`split_agrees_pinned`): the merges of
    the row dendrogram are *exactly* the merges of the full dendrogram that join two clusters both containing rows:
    every row `u` of `R` comes from such a merge `t` of `D` (same height, leaves = the rows below `t`), and every such
    merge of `D` appears in `R`; likewise for the columns. (A merge of `D` that only adds columns to a cluster has the
    same restriction to the rows as the cluster it extends; its height is *not* accepted.) -/
theorem split_agrees_pinned {α : Type} {D : Dendro α} {n1 n2 : Nat} (h1 : 0 < n1) (h2 : 0 < n2)
    (hv : ValidDendro (n1 + n2) D = true) {R C : Dendro α} (h : splitDendrogram D n1 n2 = .ok (R, C)) :
    (∀ (u : Nat) (ru : Row α), R[u]? = some ru → ∃ (t : Nat) (rt : Row α), D[t]? = some rt ∧ ru.h = rt.h ∧
      sideOf n1 0 (leaves (n1 + n2) D rt.i) ≠ [] ∧ sideOf n1 0 (leaves (n1 + n2) D rt.j) ≠ [] ∧
      leaves n1 R (n1 + u) = sideOf n1 0 (leaves (n1 + n2) D (n1 + n2 + t))) ∧
    (∀ (t : Nat) (rt : Row α), D[t]? = some rt → sideOf n1 0 (leaves (n1 + n2) D rt.i) ≠ [] →
      sideOf n1 0 (leaves (n1 + n2) D rt.j) ≠ [] → ∃ (u : Nat) (ru : Row α), R[u]? = some ru ∧ ru.h = rt.h ∧
      leaves n1 R (n1 + u) = sideOf n1 0 (leaves (n1 + n2) D (n1 + n2 + t))) ∧
    (∀ (u : Nat) (cu : Row α), C[u]? = some cu → ∃ (t : Nat) (rt : Row α), D[t]? = some rt ∧ cu.h = rt.h ∧
      sideOf n2 n1 (leaves (n1 + n2) D rt.i) ≠ [] ∧ sideOf n2 n1 (leaves (n1 + n2) D rt.j) ≠ [] ∧
      leaves n2 C (n2 + u) = sideOf n2 n1 (leaves (n1 + n2) D (n1 + n2 + t))) ∧
    (∀ (t : Nat) (rt : Row α), D[t]? = some rt → sideOf n2 n1 (leaves (n1 + n2) D rt.i) ≠ [] →
      sideOf n2 n1 (leaves (n1 + n2) D rt.j) ≠ [] → ∃ (u : Nat) (cu : Row α), C[u]? = some cu ∧ cu.h = rt.h ∧
      leaves n2 C (n2 + u) = sideOf n2 n1 (leaves (n1 + n2) D (n1 + n2 + t))) := by
  have hlen := valid_length hv
  unfold splitDendrogram at h
  have e1 : ¬ (D.length < n1 + n2 - 1) := by omega
  have e2 : D.take (n1 + n2 - 1) = D := List.take_of_length_le (by omega)
  simp only [e1, if_false, e2, splitLoop_eq, Except.ok.injEq, Prod.mk.injEq] at h
  obtain ⟨hR, hC⟩ := h
  obtain ⟨_, hBa⟩ := side_pinned (α := α) (m := n1) (N := n1 + n2) (off := 0) h1 (by omega) hv
  obtain ⟨_, hBb⟩ := side_pinned (α := α) (m := n2) (N := n1 + n2) (off := n1) h2 (by omega) hv
  rw [← hR, ← hC]
  exact ⟨hBa.pin, hBa.conv, hBb.pin, hBb.conv⟩

/-- **split_dendrogram keeps the heights in order** (`split_sorted`): the heights of the row (column) dendrogram are
    a sublist of the heights of the full one; if the full dendrogram has non-decreasing heights (what every fit with
    reordering returns), so have `dendrogram_row_` (= `dendrogram_` of a bipartite fit) and `dendrogram_col_`. -/
theorem split_sorted {α : Type} [LinearOrder α] {D : Dendro α} {n1 n2 : Nat} (h1 : 0 < n1) (h2 : 0 < n2)
    (hv : ValidDendro (n1 + n2) D = true) {R C : Dendro α} (h : splitDendrogram D n1 n2 = .ok (R, C)) :
    (R.map (fun (q : Row α) => q.h)).Sublist (D.map (fun (q : Row α) => q.h)) ∧
    (C.map (fun (q : Row α) => q.h)).Sublist (D.map (fun (q : Row α) => q.h)) ∧
    (heightsSorted D = true → heightsSorted R = true ∧ heightsSorted C = true) := by
  have hlen := valid_length hv
  unfold splitDendrogram at h
  have e1 : ¬ (D.length < n1 + n2 - 1) := by omega
  have e2 : D.take (n1 + n2 - 1) = D := List.take_of_length_le (by omega)
  simp only [e1, if_false, e2, splitLoop_eq, Except.ok.injEq, Prod.mk.injEq] at h
  obtain ⟨hR, hC⟩ := h
  obtain ⟨_, hBa⟩ := side_pinned (α := α) (m := n1) (N := n1 + n2) (off := 0) h1 (by omega) hv
  obtain ⟨_, hBb⟩ := side_pinned (α := α) (m := n2) (N := n1 + n2) (off := n1) h2 (by omega) hv
  rw [← hR, ← hC]
  exact ⟨hBa.heights, hBb.heights, fun hs =>
    ⟨heightsSorted_of_sublist hBa.heights hs, heightsSorted_of_sublist hBb.heights hs⟩⟩

/-- non-vacuity (the reviewer's counter-example to the unpinned statement): rows {0,1}, columns {2,3}; the only merge
    joining two row clusters is the first one (height 1): the row dendrogram has height 1, not 2 or 3 -/
example : ValidDendro 4 ([⟨0, 1, 1, 2⟩, ⟨4, 2, 2, 3⟩, ⟨5, 3, 3, 4⟩] : Dendro Nat) = true ∧
    (splitDendrogram ([⟨0, 1, 1, 2⟩, ⟨4, 2, 2, 3⟩, ⟨5, 3, 3, 4⟩] : Dendro Nat) 2 2).toOption =
      some ([⟨0, 1, 1, 2⟩], [⟨0, 1, 3, 2⟩]) := by decide

/-- **The attributes of a bipartite fit** (`bipartite_attrs_valid`): `_split_vars` applies `split_dendrogram` to
    `dendrogram_full_`. Whenever the full dendrogram over the `n1 + n2` nodes is valid with non-decreasing heights —
    what `louvain_pipeline_valid`, `louvainIteration_valid`, `louvainHierarchy_total` and `paris_valid` /
    `paris_returns` (reorder=True) give for the graph with `n1 + n2` nodes — `dendrogram_` = `dendrogram_row_` and
    `dendrogram_col_` exist, are valid dendrograms over the `n1` rows and the `n2` columns, have non-decreasing heights,
    and their merges are exactly the merges of the full dendrogram joining two clusters that both contain rows
    (columns) — `split_agrees_pinned`. -/
theorem bipartite_attrs_valid {α : Type} [LinearOrder α] {D : Dendro α} {n1 n2 : Nat} (h1 : 0 < n1) (h2 : 0 < n2)
    (hv : ValidDendro (n1 + n2) D = true) (hs : heightsSorted D = true) :
    ∃ R C, splitDendrogram D n1 n2 = .ok (R, C) ∧ ValidDendro n1 R = true ∧ ValidDendro n2 C = true ∧
      heightsSorted R = true ∧ heightsSorted C = true := by
  obtain ⟨R, C, hsp, hR, hC⟩ := split_valid h1 h2 hv
  obtain ⟨_, _, hsorted⟩ := split_sorted h1 h2 hv hsp
  obtain ⟨sR, sC⟩ := hsorted hs
  exact ⟨R, C, hsp, hR, hC, sR, sC⟩

/-- the composition for LouvainHierarchy on a bipartite input with `n1` rows and `n2` columns (the fit runs on the
    graph with `n1 + n2` nodes): the three dendrogram attributes exist and are valid with non-decreasing heights -/
theorem louvainHierarchy_bipartite (n1 n2 : Nat) (h1 : 0 < n1) (h2 : 0 < n2) (first : List Nat)
    (more : List (List Nat)) (hfirst : first.length = n1 + n2) (hok : SeqOK more (uniqueSorted first).length)
    (hlen : (uniqueSorted first).length < more.length) :
    ∃ t D R C, getHierarchy (n1 + n2) (first :: more) = some t ∧ treePipeline t = .ok D ∧
      ValidDendro (n1 + n2) D = true ∧ heightsSorted D = true ∧
      splitDendrogram D n1 n2 = .ok (R, C) ∧ ValidDendro n1 R = true ∧ ValidDendro n2 C = true ∧
      heightsSorted R = true ∧ heightsSorted C = true := by
  obtain ⟨t, D, ht, hD, hv, hs⟩ := louvainHierarchy_total (n1 + n2) (by omega) first more hfirst hok hlen
  obtain ⟨R, C, hsp, hR, hC, sR, sC⟩ := bipartite_attrs_valid h1 h2 hv hs
  exact ⟨t, D, R, C, ht, hD, hv, hs, hsp, hR, hC, sR, sC⟩

/-! ### AggregateGraph.merge -/

/-- **`AggregateGraph.merge`** (`merge_invariant`, shared by C07 and C08): on a dict of dicts whose rows have
    distinct keys, whose key structure and weights are symmetric, whose weights are non-negative and which stores
    no id `≥ next`, merging two distinct existing nodes `n1`, `n2` into the new node `next`
    * removes every entry of the rows and columns `n1`, `n2` (no dead key is left),
    * gives the new node the sums `w(n1, y) + w(n2, y)` (rows) and `w(x, n1) + w(x, n2)` (columns), and the
      self-loop `w(n1,n1) + w(n1,n2) + w(n2,n1) + w(n2,n2)`,
    * leaves every other entry unchanged,
    and the result satisfies the same invariant for `next + 1` (so the replay of a whole dendrogram can be followed). -/
theorem merge_invariant {nb : Dict (Dict Rat)} {next n1 n2 : Nat} (h : SkNet.Agg.NbInv nb next) (h12 : n1 ≠ n2)
    (h1 : n1 < next) (h2 : n2 < next) :
    SkNet.Agg.NbInv (SkNet.Agg.mergeNb nb n1 n2 next) (next + 1) ∧
    (∀ x y, SkNet.Agg.getEntry (SkNet.Agg.mergeNb nb n1 n2 next) x y =
      if x = n1 ∨ x = n2 ∨ y = n1 ∨ y = n2 then 0
      else if x = next ∧ y = next then
        0 + SkNet.Agg.getEntry nb n1 n1 + SkNet.Agg.getEntry nb n1 n2 + SkNet.Agg.getEntry nb n2 n1 +
          SkNet.Agg.getEntry nb n2 n2
      else if x = next then SkNet.Agg.getEntry nb n1 y + SkNet.Agg.getEntry nb n2 y
      else if y = next then SkNet.Agg.getEntry nb x n1 + SkNet.Agg.getEntry nb x n2
      else SkNet.Agg.getEntry nb x y) ∧
    (∀ x y, SkNet.Agg.K (SkNet.Agg.mergeNb nb n1 n2 next) x y =
      if x = n1 ∨ x = n2 ∨ y = n1 ∨ y = n2 then false
      else if x = next then (decide (y = next) || SkNet.Agg.K nb n1 y || SkNet.Agg.K nb n2 y)
      else if y = next then (SkNet.Agg.K nb n1 x || SkNet.Agg.K nb n2 x)
      else SkNet.Agg.K nb x y) := by
  have h4 : next ≠ n1 := by omega
  have h5 : next ≠ n2 := by omega
  obtain ⟨_, hW, hK⟩ := SkNet.Agg.mergeNb_spec nb h12 h4 h5 h.rows (fun x => h.fresh x next (Nat.le_refl _)) h.sym
  exact ⟨SkNet.Agg.nbInv_merge h h12 h1 h2, hW, hK⟩

/-- non-vacuity: a triangle 0-1-2 with weights, merging 0 and 1 into node 3 -/
example : SkNet.Agg.getEntry (SkNet.Agg.mergeNb
      ([(0, [(1, 2), (2, 1)]), (1, [(0, 2), (2, 3)]), (2, [(0, 1), (1, 3)])] : Dict (Dict Rat)) 0 1 3) 3 2 = 4 ∧
    SkNet.Agg.getEntry (SkNet.Agg.mergeNb
      ([(0, [(1, 2), (2, 1)]), (1, [(0, 2), (2, 3)]), (2, [(0, 1), (1, 3)])] : Dict (Dict Rat)) 0 1 3) 3 3 = 4 := by
  decide +kernel


/-! ### Paris, complete (repaired code) -/

section parisComplete
open SkNet.Paris SkNet.Agg SkNet.Cut

/-- the rows written by `Paris.fit` before the reordering never decrease towards the root: the height of a merge is
    clamped by the heights of the clusters it merges (F19, repaired), the joins are at infinite height -/
theorem paris_rows_mono (round32 : ℚ → ℚ) (fuel : Nat) (csr : List (List (Nat × ℚ))) (outW inW : List ℚ)
    {rows : List (Row (HInf ℚ))} (h : fitRows round32 fuel (AggGraph.init csr outW inW) = .ok (some rows)) :
    MonoPaths csr.length rows = true := by
  apply monoPaths_of_monoRows_gen
  unfold fitRows at h
  obtain ⟨res, hres, h⟩ := bind_ok h
  cases res with
  | none => simp [pure, Except.pure] at h
  | some st =>
    simp only at h
    obtain ⟨rows', hj, h⟩ := bind_ok h
    simp only [pure, Except.pure, Except.ok.injEq, Option.some.injEq] at h
    subst h
    have hnext : (AggGraph.init csr outW inW).next = csr.length := rfl
    rw [hnext] at hres
    obtain ⟨L, hp, _⟩ := chainLoop_pinv (n := csr.length) round32 _ fuel _ st _ (pinv_init csr outW inW) hres
    have hM := chainLoop_mono (n := csr.length) round32 fuel _ st _ (pinv_init csr outW inW)
      (by intro r hr; simp at hr) hres
    unfold joinComponents at hj
    split at hj
    · cases hj
    · rename_i node0 size0 restRev hrev
      simp only [Except.ok.injEq] at hj
      subst hj
      have hcomps : st.comps = restRev.reverse ++ [(node0, size0)] := by
        have := congrArg List.reverse hrev
        simpa using this
      have hb : ∀ p ∈ st.comps, p.1 < csr.length + st.rows.length := fun p hpm =>
        hp.linv.bound _ (Dict.get?_some_key_mem (hp.compsOK p hpm).1)
      have := join_mono csr.length restRev.reverse st.rows node0 size0 hM
        (hb (node0, size0) (by rw [hcomps]; simp))
        (fun p hpm => hb p (by rw [hcomps]; exact List.mem_append_left _ hpm))
      rw [hp.next]
      exact this

/-- **Paris** (`paris_valid`, rational scalars, any rounding function in place of the float32 casts): whenever the
    nearest-neighbour chain returns, the dendrogram returned by `Paris.fit` is a valid dendrogram over the `n` nodes;
    with `reorder=True` its heights never decrease, with `reorder=False` they never decrease towards the root.
    (False on the pinned tree for rare graphs: F19, repaired — a float32 near-tie put a parent below its child.) -/
theorem paris_valid (round32 : ℚ → ℚ) (fuel : Nat) (csr : List (List (Nat × ℚ))) (outW inW : List ℚ) (reorder : Bool)
    {D : Dendro (HInf ℚ)} (h : Paris.fit round32 fuel (AggGraph.init csr outW inW) reorder = .ok (some D)) :
    ValidDendro csr.length D = true ∧ (if reorder then heightsSorted D = true else MonoPaths csr.length D = true) := by
  unfold Paris.fit at h
  obtain ⟨res, hres, h⟩ := bind_ok h
  cases res with
  | none => simp [pure, Except.pure] at h
  | some rows =>
    simp only at h
    have hv := paris_valid_partial round32 fuel csr outW inW hres
    have hm := paris_rows_mono round32 fuel csr outW inW hres
    cases reorder with
    | false =>
      simp only [Bool.false_eq_true, if_false, pure, Except.pure, Except.ok.injEq, Option.some.injEq] at h
      subst h
      exact ⟨hv, hm⟩
    | true =>
      simp only [if_true] at h
      obtain ⟨D', hD', hvD', hsD', _, _⟩ := reorder_valid_core hv hm
      have : reorderDendrogram rows = .ok D' := hD'
      rw [this] at h
      simp only [Except.map, Except.ok.injEq, Option.some.injEq] at h
      subst h
      exact ⟨hvD', hsD'⟩

/-- non-vacuity: the coordinator's 7-node witness of F19 with exact rational similarities (no rounding): the chain
    returns and the reordered dendrogram is valid and sorted -/
example : (match Paris.fit (α := ℚ) id 400
      (AggGraph.init
        [[(3, 1/26), (5, 1/26)], [(2, 1/26), (3, 1/26), (6, 1/26)], [(1, 1/26), (3, 1/26), (4, 1/26), (6, 1/26)],
         [(0, 1/26), (1, 1/26), (2, 1/26), (4, 1/26), (5, 1/26), (6, 1/26)], [(2, 1/26), (3, 1/26), (5, 1/26)],
         [(0, 1/26), (3, 1/26), (4, 1/26), (6, 1/26)], [(1, 1/26), (2, 1/26), (3, 1/26), (5, 1/26)]]
        [2/26, 3/26, 4/26, 6/26, 3/26, 4/26, 4/26] [2/26, 3/26, 4/26, 6/26, 3/26, 4/26, 4/26]) true with
    | .ok (some D) => ValidDendro 7 D && heightsSorted D
    | _ => false) = true := by decide +kernel

end parisComplete

/-! ### The linkage is reducible -/

section reducibleLinkage
open SkNet.Agg SkNet.Paris

/-- **Paris' linkage is reducible** (`reducible`): in exact arithmetic, after `AggregateGraph.merge(n1, n2)` the
    similarity of the new node to any other node `c` is defined and lies between the similarities of `n1` and `n2`
    to `c` (mediant inequality: numerators and denominators add) — in particular
    `sim(n1 ∪ n2, c) ≤ max (sim(n1, c)) (sim(n2, c))`. This is the one-step inequality only. What is derived from it
    here: a merge keeps the nearest neighbour of every other node (`SkNet.Paris.isNN_merge`, for any monotone
    rounding), which is what `paris_returns` needs. That the heights of the unclamped algorithm are monotone along
    root paths (DESIGN §5 lists it under this name) is *not* proved: the repaired code clamps the height (F19) and
    `paris_rows_mono` / `paris_valid` rest on the clamp, not on this inequality. -/
theorem reducible {g : AggGraph ℚ} {n1 n2 c : Nat} (hI : NbInv g.nb g.next) (h12 : n1 ≠ n2)
    (h1 : n1 < g.next) (h2 : n2 < g.next) (hc : c < g.next) (hc1 : c ≠ n1) (hc2 : c ≠ n2)
    (ho1 : 0 < wOf g.outW n1) (ho2 : 0 < wOf g.outW n2) (hoc : 0 < wOf g.outW c)
    (hi1 : 0 < wOf g.inW n1) (hi2 : 0 < wOf g.inW n2) (hic : 0 < wOf g.inW c) :
    ∃ s s1 s2, similarity id (g.merge n1 n2) g.next c = some s ∧ similarity id g n1 c = some s1 ∧
      similarity id g n2 c = some s2 ∧ min s1 s2 ≤ s ∧ s ≤ max s1 s2 :=
  similarity_merge hI h12 h1 h2 hc hc1 hc2 ho1 ho2 hoc hi1 hi2 hic

/-- non-vacuity: a weighted triangle; merging 0 and 1 gives similarity 1/8 to node 2, between 1/12 and 3/20 -/
example :
    let g : AggGraph ℚ := { next := 3, nb := [(0, [(1, 2), (2, 1)]), (1, [(0, 2), (2, 3)]), (2, [(0, 1), (1, 3)])],
                            sizes := [(0, 1), (1, 1), (2, 1)], outW := [(0, 3), (1, 5), (2, 4)],
                            inW := [(0, 3), (1, 5), (2, 4)] }
    similarity id (g.merge 0 1) 3 2 = some (1 / 8) ∧ similarity id g 0 2 = some (1 / 12) ∧
      similarity id g 1 2 = some (3 / 20) := by
  decide +kernel

end reducibleLinkage

/-! ### Paris terminates -/

section parisTerminates
open SkNet.Agg SkNet.Paris

/-- **The nearest-neighbour chain of Paris terminates** (`paris_terminates`): for every rounding function (exact
    arithmetic, or the float32 rounding of the C variables — only comparisons and the symmetry of the similarity
    are used), every symmetric weighted graph on `n` nodes (`NbInv`: symmetric keys and weights in the dict of
    dicts) and all node weights, `Paris.fit` run with fuel at least `(n + 1)·(4n² + 3)` never runs out of fuel: it
    returns a dendrogram (valid by `paris_valid`) or raises.
    Measure: the number of clusters left, then — between two merges the graph is fixed — the rank of the pair on
    top of the chain in the finite order (similarity, then minus the sum of the two ids): along the chain the
    similarity never decreases, and while it stays the same the next node has a smaller id than the node two
    places below (ties go to the smaller id), so the pair climbs strictly. -/
theorem paris_terminates (round32 : ℚ → ℚ) (csr : List (List (Nat × ℚ))) (outW inW : List ℚ) (reorder : Bool)
    (hsym : NbInv (AggGraph.init csr outW inW).nb csr.length) (fuel : Nat)
    (hfuel : (csr.length + 1) * (2 * csr.length * (2 * csr.length) + 3) ≤ fuel) :
    Paris.fit round32 fuel (AggGraph.init csr outW inW) reorder ≠ .ok none := by
  have hT : TInv csr.length ({ g := AggGraph.init csr outW inW, chain := [], rows := [], comps := [] } : PState ℚ) :=
    ⟨⟨_, pinv_init csr outW inW⟩, hsym⟩
  have hmu : mu round32 (2 * csr.length)
      ({ g := AggGraph.init csr outW inW, chain := [], rows := [], comps := [] } : PState ℚ) < fuel := by
    unfold mu pot
    have : (AggGraph.init csr outW inW).sizes.length = csr.length := by simp [AggGraph.init]
    simp only [this]
    rw [Nat.succ_mul] at hfuel
    omega
  have hloop := chainLoop_terminates round32 (AggGraph.init csr outW inW).next fuel _ hT hmu
  unfold Paris.fit fitRows
  simp only [bind, Except.bind]
  cases hc : chainLoop round32 (AggGraph.init csr outW inW).next fuel
      { g := AggGraph.init csr outW inW, chain := [], rows := [], comps := [] } with
  | error e => simp
  | ok r =>
    cases r with
    | none => exact absurd hc hloop
    | some st =>
      simp only
      cases joinComponents st.g.next st.comps st.rows with
      | error e => simp
      | ok rows =>
        simp only [pure, Except.pure]
        cases reorder with
        | false => simp
        | true =>
          simp only [if_true]
          cases reorderDendrogram rows with
          | error e => simp [Except.map]
          | ok D => simp [Except.map]

/-- **Paris, `raises ∨ valid`** (for *any* rounding function and any weights): on a symmetric graph, with the fuel of
    `paris_terminates`, `Paris.fit` either raises or returns a valid dendrogram over the `n` nodes (sorted heights
    when `reorder=True`, heights never decreasing towards the root otherwise). That it does not raise is
    `paris_returns`, under its extra hypotheses (monotone rounding, positive weights of the nodes with a neighbour). -/
theorem paris_total (round32 : ℚ → ℚ) (csr : List (List (Nat × ℚ))) (outW inW : List ℚ) (reorder : Bool)
    (hsym : NbInv (AggGraph.init csr outW inW).nb csr.length) (fuel : Nat)
    (hfuel : (csr.length + 1) * (2 * csr.length * (2 * csr.length) + 3) ≤ fuel) :
    (∃ e, Paris.fit round32 fuel (AggGraph.init csr outW inW) reorder = .error e) ∨
    ∃ D, Paris.fit round32 fuel (AggGraph.init csr outW inW) reorder = .ok (some D) ∧
      ValidDendro csr.length D = true ∧
      (if reorder then heightsSorted D = true else MonoPaths csr.length D = true) := by
  have hne := paris_terminates round32 csr outW inW reorder hsym fuel hfuel
  cases hfit : Paris.fit round32 fuel (AggGraph.init csr outW inW) reorder with
  | error e => exact Or.inl ⟨e, rfl⟩
  | ok r =>
    cases r with
    | none => exact absurd hfit hne
    | some D =>
      obtain ⟨h1, h2⟩ := paris_valid round32 fuel csr outW inW reorder hfit
      exact Or.inr ⟨D, rfl, h1, h2⟩

/-- **Paris returns** (`paris_returns`): for every *monotone* rounding of the similarities (exact arithmetic,
    round-to-nearest float32), on a graph with `n ≥ 1` nodes given as a symmetric dict of dicts with non-negative
    entries (`NbInv`), non-negative node weights, and in which the denominator of the similarity
    `out_x · in_y + out_y · in_x` is positive for every pair of distinct adjacent nodes, `Paris.fit` with the fuel of
    `paris_terminates` **does not raise**: it returns a dendrogram, valid over the `n` nodes, with non-decreasing
    heights when `reorder=True` and heights never decreasing towards the root otherwise.
    The hypotheses hold for every symmetrised non-negative matrix under `weights='uniform'` (isolated nodes
    included: a node without an edge has an empty row and becomes a component of its own) and under
    `weights='degree'` for directed inputs too (for an edge `x → y`, `out_x · in_y > 0`; sources and sinks have a
    null in- or out-weight and are fine), as long as no product of node weights underflows to 0 in double precision.
    The symmetry of the keys (`NbInv`) is the symmetry of the *stored* entries: `fit` establishes it for every input,
    a non-symmetric matrix is replaced by `A + Aᵀ`, and the explicit zeros of a matrix that is symmetric in value
    are dropped since /repo 612f1679 (F27: a zero stored on one side only passed `is_symmetric`, the keys were not
    symmetric and the chain raised KeyError) — no stored zero reaches `AggregateGraph` any more.
    What they exclude is the denominator 0 on an adjacent pair — weights below about 1e-154 relative to the total:
    there the repaired code still returns (`invSim`), by runs only.  Not covered: the rounding
    of the double additions inside `merge` (exact in the model), NaN / inf.
    Proof: besides the invariants of `paris_terminates`, the chain stays a chain of nearest neighbours of the
    *current* graph after a merge (`isNN_merge`: the similarity to the merged node is a rounded mediant, at most the
    similarity to the old nearest neighbour, and the new id is the largest, so ties do not move) and never visits
    a node twice (`nn_not_in_chain`), so every node read from the chain is alive. -/
theorem paris_returns (round32 : ℚ → ℚ) (hr : Monotone round32) (csr : List (List (Nat × ℚ))) (outW inW : List ℚ)
    (reorder : Bool) (hn : 1 ≤ csr.length)
    (hsym : NbInv (AggGraph.init csr outW inW).nb csr.length)
    (hwn : ∀ x, 0 ≤ Paris.wOf (AggGraph.init csr outW inW).outW x ∧ 0 ≤ Paris.wOf (AggGraph.init csr outW inW).inW x)
    (hpos : ∀ x y, K (AggGraph.init csr outW inW).nb x y = true → y ≠ x →
      0 < Paris.den (AggGraph.init csr outW inW) x y)
    (fuel : Nat) (hfuel : (csr.length + 1) * (2 * csr.length * (2 * csr.length) + 3) ≤ fuel) :
    ∃ D, Paris.fit round32 fuel (AggGraph.init csr outW inW) reorder = .ok (some D) ∧
      ValidDendro csr.length D = true ∧
      (if reorder then heightsSorted D = true else MonoPaths csr.length D = true) := by
  have hkeys : ∀ x, x ∈ Dict.keys (AggGraph.init csr outW inW).sizes ↔ x < csr.length := by
    intro x
    simp [AggGraph.init, Dict.keys]
  have hnext : (AggGraph.init csr outW inW).next = csr.length := rfl
  have hR0 : RetInv round32 csr.length
      ({ g := AggGraph.init csr outW inW, chain := [], rows := [], comps := [] } : PState ℚ) := by
    refine ⟨⟨⟨_, pinv_init csr outW inW⟩, hsym⟩, ?_, ?_, hwn, ?_, by simp, by simp, trivial⟩
    · -- every node has a (possibly empty) row in the initial dict of dicts
      intro x hx
      have hxl := (hkeys x).mp hx
      exact ⟨_, get?_map_range _ csr.length x hxl⟩
    · intro x y _ hK _
      have := (K_lt (next := csr.length) hsym hK).2
      exact (hkeys y).mpr this
    · intro x y _ hK hne; exact hpos x y hK hne
  have hmu : mu round32 (2 * csr.length)
      ({ g := AggGraph.init csr outW inW, chain := [], rows := [], comps := [] } : PState ℚ) < fuel := by
    unfold mu pot
    have : (AggGraph.init csr outW inW).sizes.length = csr.length := by simp [AggGraph.init]
    simp only [this]
    rw [Nat.succ_mul] at hfuel
    omega
  obtain ⟨st, hloop, hRf, hsz⟩ := chainLoop_ret hr (AggGraph.init csr outW inW).next fuel _ hR0 hmu
  obtain ⟨L, hP⟩ := hRf.tinv.pinv
  -- at least one component has been recorded
  have hcomps : st.comps ≠ [] := by
    have hLpos := liveAfter_nonempty st.rows 0 _ L (by simpa using linv_init (List.replicate csr.length 1)) hP.live
      (by simp [liveInit]; omega)
    have hc := hP.count
    intro e
    have : L.length = 0 := by rw [hc, hsz, e]; rfl
    omega
  obtain ⟨rows, hrowsEq⟩ : ∃ rows, joinComponents st.g.next st.comps st.rows = .ok rows := by
    unfold joinComponents
    cases hrev : st.comps.reverse with
    | nil => exact absurd (by simpa using hrev) hcomps
    | cons p rest => obtain ⟨a, b⟩ := p; exact ⟨_, rfl⟩
  have hfitRows : fitRows round32 fuel (AggGraph.init csr outW inW) = .ok (some rows) := by
    unfold fitRows
    simp only [bind, Except.bind, hloop, hrowsEq, pure, Except.pure]
  have hv := paris_valid_partial round32 fuel csr outW inW hfitRows
  have hm := paris_rows_mono round32 fuel csr outW inW hfitRows
  have hfit : ∃ D, Paris.fit round32 fuel (AggGraph.init csr outW inW) reorder = .ok (some D) := by
    unfold Paris.fit
    simp only [bind, Except.bind, hfitRows]
    cases reorder with
    | false => exact ⟨rows, rfl⟩
    | true =>
      obtain ⟨D', hD', _⟩ := reorder_valid_core hv hm
      simp only [if_true]
      rw [hD']
      exact ⟨D', rfl⟩
  obtain ⟨D, hD⟩ := hfit
  obtain ⟨h1, h2⟩ := paris_valid round32 fuel csr outW inW reorder hD
  exact ⟨D, hD, h1, h2⟩

/-- non-vacuity: the 4-cycle with unit weights (every similarity is tied, so the tie rule decides every step)
    satisfies the hypothesis, and with the fuel of the theorem `Paris.fit` returns a valid sorted dendrogram -/
example : NbInv (AggGraph.init [[(1, (1 : ℚ) / 8), (3, 1 / 8)], [(0, 1 / 8), (2, 1 / 8)], [(1, 1 / 8), (3, 1 / 8)],
        [(0, 1 / 8), (2, 1 / 8)]] [1 / 4, 1 / 4, 1 / 4, 1 / 4] [1 / 4, 1 / 4, 1 / 4, 1 / 4]).nb 4 ∧
    (match Paris.fit (α := ℚ) id 335 (AggGraph.init [[(1, (1 : ℚ) / 8), (3, 1 / 8)], [(0, 1 / 8), (2, 1 / 8)],
        [(1, 1 / 8), (3, 1 / 8)], [(0, 1 / 8), (2, 1 / 8)]] [1 / 4, 1 / 4, 1 / 4, 1 / 4] [1 / 4, 1 / 4, 1 / 4, 1 / 4])
        true with
      | .ok (some D) => ValidDendro 4 D && heightsSorted D
      | _ => false) = true := by
  refine ⟨?_, by decide +kernel⟩
  have hnb : (AggGraph.init [[(1, (1 : ℚ) / 8), (3, 1 / 8)], [(0, 1 / 8), (2, 1 / 8)], [(1, 1 / 8), (3, 1 / 8)],
        [(0, 1 / 8), (2, 1 / 8)]] [1 / 4, 1 / 4, 1 / 4, 1 / 4] [1 / 4, 1 / 4, 1 / 4, 1 / 4]).nb =
      [(0, [(1, 1 / 8), (3, 1 / 8)]), (1, [(0, 1 / 8), (2, 1 / 8)]), (2, [(1, 1 / 8), (3, 1 / 8)]),
       (3, [(0, 1 / 8), (2, 1 / 8)])] := by decide +kernel
  rw [hnb]
  have hrow : ∀ x, row ([(0, [(1, (1 : ℚ) / 8), (3, 1 / 8)]), (1, [(0, 1 / 8), (2, 1 / 8)]),
      (2, [(1, 1 / 8), (3, 1 / 8)]), (3, [(0, 1 / 8), (2, 1 / 8)])] : Dict (Dict ℚ)) x =
      if x = 0 then [(1, 1 / 8), (3, 1 / 8)] else if x = 1 then [(0, 1 / 8), (2, 1 / 8)]
      else if x = 2 then [(1, 1 / 8), (3, 1 / 8)] else if x = 3 then [(0, 1 / 8), (2, 1 / 8)] else [] := by
    intro x
    rcases x with _ | _ | _ | _ | x <;> simp [row, Dict.get?]
  refine ⟨?_, ?_, ?_, ?_, ?_⟩
  · intro x
    rw [hrow]
    rcases x with _ | _ | _ | _ | x <;> simp [Dict.keys]
  · intro x y
    unfold K
    rw [hrow, hrow]
    rcases x with _ | _ | _ | _ | x <;> rcases y with _ | _ | _ | _ | y <;> simp [Dict.contains, Dict.get?]
  · intro x z hz
    unfold K
    rw [hrow]
    have e0 : ¬ 0 = z := by omega
    have e1 : ¬ 1 = z := by omega
    have e2 : ¬ 2 = z := by omega
    have e3 : ¬ 3 = z := by omega
    rcases x with _ | _ | _ | _ | x <;> simp [Dict.contains, Dict.get?, e0, e1, e2, e3]
  · intro x y
    unfold getEntry
    rw [hrow, hrow]
    rcases x with _ | _ | _ | _ | x <;> rcases y with _ | _ | _ | _ | y <;> simp [Dict.get?]
  · intro x y
    unfold getEntry
    rw [hrow]
    rcases x with _ | _ | _ | _ | x <;> rcases y with _ | _ | _ | _ | y <;> simp [Dict.get?]

/-- the two input classes the first version of `paris_returns` excluded (second review): a directed input with a
    source and two sinks under `weights='degree'` (0 → 1, 0 → 2: out = [1, 0, 0], in = [0, ½, ½], computed before the
    symmetrisation — every node has a null in- or out-weight, every adjacent pair a positive denominator), and
    `weights='uniform'` with an isolated node (edge 0 – 1, node 2 alone: its row is empty). In both the denominators
    of adjacent pairs are positive, the weights non-negative, and `Paris.fit` returns a valid dendrogram. -/
example :
    let g1 : AggGraph ℚ := AggGraph.init [[(1, 1 / 4), (2, 1 / 4)], [(0, 1 / 4)], [(0, 1 / 4)]] [1, 0, 0] [0, 1 / 2, 1 / 2]
    let g2 : AggGraph ℚ := AggGraph.init [[(1, 1 / 2)], [(0, 1 / 2)], []] [1 / 3, 1 / 3, 1 / 3] [1 / 3, 1 / 3, 1 / 3]
    (0 < Paris.den g1 0 1 ∧ 0 < Paris.den g1 0 2 ∧ 0 < Paris.den g1 1 0 ∧ 0 < Paris.den g1 2 0) ∧
    (Paris.wOf g1.outW 1 = 0 ∧ Paris.wOf g1.inW 0 = 0) ∧
    (match Paris.fit (α := ℚ) id 200 g1 true with
      | .ok (some D) => ValidDendro 3 D && heightsSorted D
      | _ => false) = true ∧
    (0 < Paris.den g2 0 1 ∧ 0 < Paris.den g2 1 0 ∧ row g2.nb 2 = []) ∧
    (match Paris.fit (α := ℚ) id 200 g2 true with
      | .ok (some D) => ValidDendro 3 D && heightsSorted D
      | _ => false) = true := by
  decide +kernel

end parisTerminates

end SkNet.C07
