/-
C15 — linear operators and conversion utilities equal their dense definitions.

`OpExpr` (Model/LinOp.lean) are the operator expressions built from SparseLR, Regularizer, Normalizer,
Laplacian, CoNeighbor, Polynome by negation, sum, difference, scaling, transposition, left / right sparse
product, type change, `normalize` and the format conversions; `OpExpr.eval` evaluates them as the code does
(Python's dispatch, the constructors' checks, the loops over the low-rank tuples, Horner's scheme);
`OpExpr.denote` (Spec/LinOp.lean) is the dense matrix written with elementary matrix algebra.
All theorems are for matrices of any size over ℚ.
-/
import SkNet.Lemmas.LinOpExpr
import SkNet.Lemmas.Convert
import SkNet.Lemmas.ConvertCsr
import SkNet.Lemmas.LinOpType
import SkNet.Lemmas.LinOpProg
import SkNet.Lemmas.LinOpCast

namespace SkNet.C15
open SkNet SkNet.LinOp SkNet.Convert

/-! ## ★ denote_op : operator expressions -/

/-- **denote_op.** Whatever expression `e` is evaluated successfully to an operator `o`
(any matrices, any regularisation values, any coefficients), the dense matrix of `o` is the
matrix `e` denotes: same shape, same entries. By structural induction over `OpExpr` (21 constructors: the six
classes, negation, sum, difference, sum / difference with a csr matrix, scaling from the right and from the left,
transposition — also of scipy's sum / scaled combinators —, left / right sparse product, type change, normalize and
the three format conversions).
Hypothesis `IntCastsExact`: an `astype(int)` inside `e` is applied to an operator whose stored parts are integers;
the code casts the stored parts (sparse part and low-rank vectors of a SparseLR, the two factors of a CoNeighbor)
one by one, so on other operands the result is *not* the cast of the denoted matrix (`astype_int_not_entrywise`). -/
theorem denote_op (e : OpExpr) (o : Op) (hc : e.IntCastsExact) (h : e.eval = .ok o) :
    Mat.Eqv o.dense e.denote :=
  (OpExpr.denote_spec e o hc h).2

/-- **type change.** `astype(float64 | float32)` keeps the operator (ℚ has no float32 rounding: the harness compares
those within the float32 tolerance); `astype(int)` truncates every stored part towards zero. -/
theorem astype_float_keeps (o o' : Op) (dt : CastTo) (hdt : dt ≠ .int) (h : o.astype dt = .ok o') : o' = o :=
  Op.astype_float hdt h

/-- `astype` exists on SparseLR, Laplacian and CoNeighbor only (AttributeError on the others and on scipy's combinators) -/
theorem astype_classes (o : Op) (dt : CastTo) :
    (∃ o', o.astype dt = .ok o') ↔ (o.kind = .slr ∨ o.kind = .lap ∨ o.kind = .con) := by
  cases o <;> simp [Op.astype, Op.kind]

/-- **what `astype(int)` guarantees whatever the stored parts are**: a SparseLR or a CoNeighbor cast to `int` maps
integer vectors to integer vectors (every stored part is truncated to an integer). This is the specification the
harness evaluates on the implementation's output (`c15.spec_integral`, `integralVec`) when the parts are not integers
and `denote_op` therefore does not apply. -/
theorem astype_int_integral (v : Vec) (hv : ∀ j, IsInt (vget v j)) :
    (∀ (s : SLR), integralVec ((s.astype .int).matvec v) = true) ∧
    (∀ (c : CoNeighbor), integralVec ((c.astype .int).matvec v) = true) := by
  constructor
  · intro s
    rw [integralVec_iff]
    intro x hx
    obtain ⟨i, hi, rfl⟩ := List.getElem_of_mem hx
    have := SLR.astype_int_integral s v hv i
    rwa [vget, List.getD_eq_getElem?_getD, List.getElem?_eq_getElem hi, Option.getD_some] at this
  · intro c
    rw [integralVec_iff]
    intro x hx
    obtain ⟨i, hi, rfl⟩ := List.getElem_of_mem hx
    have := CoNeighbor.astype_int_integral c v hv i
    rwa [vget, List.getD_eq_getElem?_getD, List.getElem?_eq_getElem hi, Option.getD_some] at this

example : integralVec ((SLR.astype .int ⟨⟨1, 1, [[1/2]]⟩, [([3/2], [5/2])]⟩).matvec [3]) = true ∧
    integralVec ((⟨⟨1, 1, [[1/2]]⟩, [([3/2], [5/2])]⟩ : SLR).matvec [3]) = false := by decide +kernel

/-- the cast of the parts is not the cast of the matrix: `SparseLR(0, [(3/2, 2)])` denotes `[[3]]`, after `astype(int)`
the low-rank vectors are `1` and `2` and the operator denotes `[[2]]` — hence the hypothesis `IntCastsExact` above -/
theorem astype_int_not_entrywise :
    ((OpExpr.astype (.slr ⟨1, 1, [[0]]⟩ [([3/2], [2])]) .int).eval.toOption.map fun o => o.dense.get 0 0) = some 2 ∧
    ((OpExpr.slr ⟨1, 1, [[0]]⟩ [([3/2], [2])]).denote.cast .int).get 0 0 = 3 := by decide +kernel

/-- truncation is towards zero, and integers are kept -/
example : rtrunc (-3/2) = -1 ∧ rtrunc (7/2) = 3 ∧ rtrunc (-4) = -4 := by decide +kernel

/-- `IntCastsExact` is satisfiable: integer parts are kept by the cast -/
example : ((OpExpr.slr ⟨1, 2, [[2, -1]]⟩ [([3], [1, 0])]).eval.toOption.bind fun o => (o.astype .int).toOption.map fun o' =>
    decide (o'.dense.get 0 0 = o.dense.get 0 0 ∧ o'.dense.get 0 1 = o.dense.get 0 1)) = some true := by decide +kernel

/-- **Applying the operator to a vector is multiplying by the dense matrix it denotes**:
`operator.dot(x)` for the value of any expression. -/
theorem denote_op_dot (e : OpExpr) (o : Op) (hc : e.IntCastsExact) (h : e.eval = .ok o)
    (v y : Vec) (hy : o.dot v = .ok y) : y = e.denote.mulVec v := by
  obtain ⟨hw, he⟩ := OpExpr.denote_spec e o hc h
  unfold Op.dot at hy
  split at hy
  · rename_i hv
    cases hy
    rw [Op.matvec_eq_dense o v hw hv]
    exact Mat.Eqv.mulVec he v
  · cases hy

/-- the dot product is refused exactly when the length of the vector is not the number of columns
of the denoted matrix -/
theorem denote_op_dot_error (e : OpExpr) (o : Op) (hc : e.IntCastsExact) (h : e.eval = .ok o) (v : Vec) :
    (o.dot v = .error .valueError) ↔ v.length ≠ e.denote.nCol := by
  obtain ⟨hw, he⟩ := OpExpr.denote_spec e o hc h
  have hcol : o.nCol = e.denote.nCol := by rw [← (Op.dense_shape o hw).2]; exact he.nCol
  unfold Op.dot
  rw [hcol]
  by_cases hv : v.length = e.denote.nCol <;> simp [hv]

/-- **Transposed**: `operator.T.dot(x)` multiplies by the transposed dense matrix. -/
theorem denote_op_transpose_dot (e : OpExpr) (o : Op) (hc : e.IntCastsExact)
    (h : (OpExpr.transpose e).eval = .ok o) (v y : Vec) (hy : o.dot v = .ok y) :
    y = e.denote.transpose.mulVec v :=
  denote_op_dot (.transpose e) o hc h v y hy

/-- **Adjoint**: `operator.H.dot(x)` (scipy's combinators re-dispatch `A.H + B.H`, `A.H * alpha` on the classes'
own arithmetic) never raises on a vector of the right length and multiplies by the transposed dense matrix. -/
theorem denote_op_hdot (e : OpExpr) (o : Op) (hc : e.IntCastsExact) (h : e.eval = .ok o)
    (v : Vec) (hv : v.length = e.denote.nRow) : o.hdot v = .ok (e.denote.transpose.mulVec v) := by
  obtain ⟨hw, he⟩ := OpExpr.denote_spec e o hc h
  obtain ⟨a, ha, hwa, har, hac⟩ := Op.adjoint_ok hw
  obtain ⟨_, hea⟩ := Op.adjoint_spec hw ha
  have hlen : v.length = a.nCol := by rw [hac, ← (Op.dense_shape o hw).1, he.nRow]; exact hv
  unfold Op.hdot
  rw [ha]
  show a.dot v = _
  unfold Op.dot
  rw [if_pos hlen, Op.matvec_eq_dense a v hwa hlen]
  exact congrArg Except.ok (Mat.Eqv.mulVec (hea.trans (Mat.Eqv.transpose he)) v)

/-- transposition is not vacuous on scipy's combinators: `(-Normalizer(A, 1)).T`, `(Laplacian(A) + Laplacian(A)).T`
and `(2 * Polynome(A, c)).T` evaluate (after the repair F16n the three classes define `_adjoint`) -/
example : ((OpExpr.transpose (.neg (.normalizer ⟨2, 2, [[0, 1], [0, 0]]⟩ 1))).eval.toOption.bind
    fun o => (o.dot [1, 1]).toOption) = some [-3/4, -5/4] := by decide +kernel
example : ((OpExpr.transpose (.add (.laplacian ⟨2, 2, [[0, 1], [0, 0]]⟩ 0 false [])
    (.laplacian ⟨2, 2, [[0, 1], [0, 0]]⟩ 0 false []))).eval.toOption.bind
    fun o => (o.dot [1, 0]).toOption) = some [2, -2] := by decide +kernel
example : ((OpExpr.transpose (.rmul 2 (.polynome ⟨2, 2, [[0, 1], [0, 0]]⟩ [1, 1]))).eval.toOption.bind
    fun o => (o.dot [1, 0]).toOption) = some [2, 2] := by decide +kernel

/-- **2-d arrays**: `operator.dot(X)` (scipy stacks `_matvec` of the columns) is the matrix product
by the dense matrix. -/
theorem denote_op_dotMat (e : OpExpr) (o : Op) (hc : e.IntCastsExact) (h : e.eval = .ok o)
    (x y : Mat) (hy : o.dotMat x = .ok y) : Mat.Eqv y (e.denote.mul x) := by
  obtain ⟨hw, he⟩ := OpExpr.denote_spec e o hc h
  exact (Op.dotMat_eqv hw hy).2.trans (Mat.Eqv.mul he (Mat.Eqv.refl x))

/-- **the 2-d branches of `_matvec`** (SparseLR, Normalizer and its transposed product, CoNeighbor) multiply
by the dense matrix as well -/
theorem matvec2d_slr (s : SLR) (x : Mat) : Mat.Eqv (s.matmat x) (s.dense.mul x) := SLR.matmat_eqv_dense s x

theorem matvec2d_normalizer (n : Normalizer) (x : Mat) (hx : x.nRow = n.adj.nCol) :
    Mat.Eqv (n.matmat x) (n.dense.mul x) ∧ Mat.Eqv (n.rmatmat x) (n.dense.transpose.mul x) :=
  ⟨Normalizer.matmat_eqv_dense n x hx, Normalizer.rmatmat_eqv_dense n x⟩

/-- **every 2-d branch**: a direct call `operator._matvec(X)` with a 2-d array (SparseLR, Normalizer and its
transposed product, Laplacian, CoNeighbor, Polynome's Horner loop on matrices) multiplies by the dense matrix of
the expression -/
theorem denote_op_matvec2d (e : OpExpr) (o : Op) (hc : e.IntCastsExact) (h : e.eval = .ok o)
    (x y : Mat) (hx : x.nRow = o.nCol) (hy : o.matvec2d x = .ok y) : Mat.Eqv y (e.denote.mul x) := by
  obtain ⟨hw, he⟩ := OpExpr.denote_spec e o hc h
  exact (Op.matvec2d_eqv hw hx hy).trans (Mat.Eqv.mul he (Mat.Eqv.refl x))

/-- **row, column and total sums of a SparseLR** are the sums of the dense matrix it denotes -/
theorem slr_sums (e : OpExpr) (s : SLR) (hc : e.IntCastsExact) (h : e.eval = .ok (.slr s)) :
    s.sum1 = e.denote.rowSums ∧ (∀ y, s.sum0 = .ok y → y = e.denote.transpose.rowSums) ∧
      s.sumAll = vsum e.denote.rowSums := by
  obtain ⟨hw, he⟩ := OpExpr.denote_spec e _ hc h
  have h1 : s.sum1 = e.denote.rowSums := by rw [SLR.sum1_eq]; exact Mat.Eqv.rowSums he
  refine ⟨h1, fun y hy => ?_, by unfold SLR.sumAll; rw [h1]⟩
  rw [SLR.sum0_eq hw hy]
  exact Mat.Eqv.rowSums (Mat.Eqv.transpose he)

/-- non-vacuity: `(2 * (SparseLR(S, [(x, y)]) + Regularizer(A, 1/2))).T` applied to a vector,
`S, A` rectangular 2 × 3 with a null row -/
def exampleExpr : OpExpr :=
  .transpose (.mul (.add (.slr ⟨2, 3, [[1, 2, 0], [0, 0, 0]]⟩ [([1, -1], [1, 0, 2])])
    (.regularizer ⟨2, 3, [[0, 0, 3], [0, 0, 0]]⟩ (1/2))) 2)

example : (exampleExpr.eval.toOption.map fun o => (o.nRow, o.nCol)) = some (3, 2) := by decide +kernel
example : (exampleExpr.eval.toOption.bind fun o => (o.dot [1, 2]).toOption) = some [1, 5, 3] := by decide +kernel

/-- non-vacuity for the generic scipy combinators: `Normalizer(A, 1) - Laplacian(A)` -/
def exampleExpr2 : OpExpr :=
  .sub (.normalizer ⟨2, 2, [[0, 1], [0, 0]]⟩ 1) (.laplacian ⟨2, 2, [[0, 1], [0, 0]]⟩ 0 false [])

example : (exampleExpr2.eval.toOption.bind fun o => (o.dot [1, 1]).toOption) = some [1, 1] := by decide +kernel

/-- before the repair (finding F16k) the code tested `regularization > 0`: a negative value entered the degrees but not
the product. `pinnedNormalizerMatvec` is that product; on `A = [[2, 2]]`, `reg = -2` it gives `[1]` where the dense
definition gives `[1/2]` (witness replayed in corpus/C15.jsonl); the repaired model agrees with the definition. -/
def pinnedNormalizerMatvec (n : Normalizer) (v : Vec) : Vec :=
  let prod := n.adj.mulVec v
  let prod := if n.reg > 0 then tab n.adj.nRow fun i => vget prod i + n.reg * vmean v * 1 else prod
  tab n.adj.nRow fun i => vget n.normDiag i * vget prod i

theorem normalizer_negative_regularization_pinned_wrong :
    pinnedNormalizerMatvec (Normalizer.init ⟨1, 2, [[2, 2]]⟩ (-2)) [1, 0] = [1]
      ∧ (OpExpr.normalizer ⟨1, 2, [[2, 2]]⟩ (-2)).denote.mulVec [1, 0] = [1/2]
      ∧ ((OpExpr.normalizer ⟨1, 2, [[2, 2]]⟩ (-2)).eval.toOption.bind fun o => (o.dot [1, 0]).toOption) = some [1/2] := by
  decide +kernel

/-! ## operator objects used several times: operands are values -/

/-- **An operation does not change its operands.** In the model operators are values: running further statements of a
program (each may use any operator bound before: `a + b`, then `a - b`, `a.T`, `2 * a` …) leaves every operator
already bound exactly as it was; the environment only grows, by one operator per statement. This is what the code
must refine (the harness re-evaluates the operands after every operation against their own denotation; an in-place
update such as `low_rank_tuples +=` in `SparseLR.__add__`, or CoNeighbor's in-place arithmetic F16i, departs from it).
[true by construction of the model — `Prog.run` appends to a list of values —: it states the reference the harness holds the
code against, it says nothing about the code by itself] -/
theorem prog_run_prefix (ss : List Stmt) (env env' : List Op) (h : Prog.run ss env = .ok env') :
    ∃ rest, env' = env ++ rest ∧ rest.length = ss.length := Prog.run_prefix ss env env' h

/-- **A program (DAG) is worth its unfolded trees**: every operator bound by a program run from the empty environment
is applied as the dense matrix denoted by the expression tree obtained by unfolding the statements — however many
times its operands are used elsewhere in the program. -/
theorem prog_run_denote (ss : List Stmt) (env : List Op) (h : Prog.run ss [] = .ok env) :
    ∃ trees, Prog.unfold ss [] = some trees ∧ trees.length = env.length ∧
      ∀ (i : Nat) (t : OpExpr) (o : Op), trees[i]? = some t → env[i]? = some o → t.IntCastsExact →
        Mat.Eqv o.dense t.denote ∧ ∀ v y, o.dot v = .ok y → y = t.denote.mulVec v := by
  obtain ⟨trees, hu, hr⟩ := Prog.run_unfold ss [] [] env EnvRel.nil h
  refine ⟨trees, hu, hr.1, fun i t o ht ho hc => ?_⟩
  have he := hr.2 i t o ht ho
  exact ⟨denote_op t o hc he, fun v y hy => denote_op_dot t o hc he v y hy⟩

/-- non-vacuity: `a = SparseLR(S, [(x, y)])`, `b = Regularizer(A, 1)`, then `a + b`, `a - b`, `a.T` on the same `a` -/
def exampleProg : List Stmt :=
  [.leaf (.slr ⟨2, 2, [[1, 2], [0, 0]]⟩ [([1, -1], [1, 2])]), .leaf (.regularizer ⟨2, 2, [[0, 1], [0, 0]]⟩ 1),
   .add 0 1, .sub 0 1, .transpose 0]

example : ((Prog.run exampleProg []).toOption.map fun env => env.map fun o => (o.dot [1, 1]).toOption)
    = some [some [6, -3], some [2, 1], some [8, -2], some [4, -4], some [1, 2]] := by decide +kernel

/-! ## one operator object used twice (finding F16i, recorded and not repaired) -/

/-- the property for an expression that mentions ONE CoNeighbor object twice (`c - c`, `c + (-c)`, `c * 2 + c`):
what Python computes (`Op.shared`: `__neg__` / `__mul__` work in place and return the operand) should be the
product by the dense matrix the expression denotes -/
def shared_operand_full : Prop :=
  ∀ (p : SharedPattern) (a : Mat) (nz : Bool) (c : CoNeighbor), CoNeighbor.init a nz = .ok c →
    ∀ v : Vec, v.length = a.nRow → (Op.shared p c).matvec v = (OpExpr.sharedPattern p a nz).denote.mulVec v

/-- **it is false on the pinned and on the repaired tree**: with `c = CoNeighbor([[1,2,0],[0,1,1]])`,
`(c - c).dot([1, 0])` is `-2 M x = [-14/3, -4/3]`, not `0` (replayed on the implementation: corpus/C15.jsonl,
KNOWN-FINDING F16i; `test_coneighbors` of the repository relies on the in-place semantics) -/
theorem shared_operand_full_false : ¬ shared_operand_full := by
  intro h
  have := h .sub ⟨2, 3, [[1, 2, 0], [0, 1, 1]]⟩ true _ rfl [1, 0] rfl
  revert this
  decide +kernel

/-- **what holds** (`…_partial`): when the two mentions are two separate objects — i.e. for operator expressions
as trees, which is what `denote_op` is about — the product is the product by the denoted matrix. Missing with respect
to `shared_operand_full`: object identity; the repair (pure `__neg__` / `__mul__`) would contradict the repository's own test.
[an instance of `denote_op_dot`, kept as the `…_partial` companion DESIGN §6 asks for] -/
theorem shared_operand_partial (p : SharedPattern) (a : Mat) (nz : Bool) (o : Op)
    (h : (OpExpr.sharedPattern p a nz).eval = .ok o) (v y : Vec) (hy : o.dot v = .ok y) :
    y = (OpExpr.sharedPattern p a nz).denote.mulVec v :=
  denote_op_dot _ o (by cases p <;> simp [OpExpr.sharedPattern, OpExpr.IntCastsExact]) h v y hy

/-! ## which expressions evaluate, which are refused -/

/-- **Static typing is exact.** `OpExpr.type?` computes, from the classes and shapes alone (plus `check_format`'s
emptiness test and the lengths of the low-rank vectors), the class and shape of the value of an expression or the
exception Python raises (`ValueError` for a shape mismatch, `AttributeError` for a missing method such as
`left_sparse_dot` / `astype` of a Normalizer, `TypeError` for a format conversion of a non-SparseLR operator).
The evaluation of the model agrees with it on every expression: it never refuses a well-typed expression and never
accepts an ill-typed one.  `PyErr.unsupported` is not an exception of Python: it marks the requests the model leaves out
(a Normalizer without columns, a Laplacian without nodes, `operator ± csr matrix` and `normalize` for the classes that
are not a SparseLR / CoNeighbor); for those the theorem says that model and typing leave them out together, nothing
about the code, and the harness does not produce them. -/
theorem eval_type_exact (e : OpExpr) : e.eval.map Op.ty = e.type? := OpExpr.eval_type e

theorem eval_ok_iff (e : OpExpr) : (∃ o, e.eval = .ok o) ↔ (∃ t, e.type? = .ok t) := by
  rw [← eval_type_exact]
  constructor
  · rintro ⟨o, h⟩; exact ⟨o.ty, by rw [h]; rfl⟩
  · rintro ⟨t, h⟩
    cases he : e.eval with
    | error err => rw [he] at h; cases h
    | ok o => exact ⟨o, rfl⟩

/-- the dense denotation of a well-typed expression has the shape its static type announces -/
theorem denote_shape (e : OpExpr) (t : Ty) (hc : e.IntCastsExact) (h : e.type? = .ok t) :
    e.denote.nRow = t.nRow ∧ e.denote.nCol = t.nCol := by
  rw [← eval_type_exact] at h
  cases he : e.eval with
  | error err => rw [he] at h; cases h
  | ok o =>
    rw [he] at h
    have ht : o.ty = t := Except.ok.inj h
    obtain ⟨hw, hd⟩ := OpExpr.denote_spec e o hc he
    obtain ⟨hr, hcl⟩ := Op.dense_shape o hw
    subst ht
    exact ⟨by rw [← hd.nRow, hr]; rfl, by rw [← hd.nCol, hcl]; rfl⟩

/-- every operator obtained by evaluating an expression is well formed (valid low-rank tuples, square Laplacian,
composable CoNeighbor factors, square non-empty Polynome matrix), whatever the regularisations -/
theorem eval_well_formed (e : OpExpr) (o : Op) (h : e.eval = .ok o) : o.WF := OpExpr.eval_wf e o h

example : exampleExpr.type? = .ok ⟨.slr, 3, 2⟩ := by decide
/-- after the repair F16q a SparseLR plus an operator of another class is scipy's sum operator (it was an AttributeError) -/
example : (OpExpr.add (.slr ⟨1, 1, [[1]]⟩ []) (.normalizer ⟨1, 1, [[1]]⟩ 0)).type? = .ok ⟨.gen, 1, 1⟩ := by decide
/-- `.H` re-dispatches: `(0 * Regularizer(A, 1) + Normalizer(A)).H` is `SparseLR + adjoint`, which needs that repair -/
example : ((OpExpr.add (.rmul 0 (.regularizer ⟨2, 2, [[0, 1], [1, 0]]⟩ 1)) (.normalizer ⟨2, 2, [[0, 1], [1, 0]]⟩ 0)).eval.toOption.bind
    fun o => (o.hdot [1, 2]).toOption) = some [2, 1] := by decide +kernel
example : (OpExpr.leftDot ⟨2, 3, [[1, 0, 0], [0, 1, 0]]⟩ (.slr ⟨2, 2, [[1, 0], [0, 1]]⟩ [])).type? = .error .valueError := by
  decide

/-! ## ★ the operator classes one by one -/

/-- **SparseLR**: `_matvec` is the product by `S + Σ x yᵀ` (no hypothesis at all) -/
theorem sparselr_matvec (s : SLR) (v : Vec) : s.matvec v = s.dense.mulVec v := SLR.matvec_eq_dense s v

/-- **Regularizer** denotes `A + reg · 1 1ᵀ / n_col` and always constructs -/
theorem regularizer_denote (a : Mat) (reg : Rat) :
    ∃ s, regularizer a reg = .ok s ∧ Mat.Eqv s.dense (regularized a reg) := by
  obtain ⟨s, hs⟩ := regularizer_ok a reg
  exact ⟨s, hs, (regularizer_dense hs).2⟩

/-- **Normalizer**: product and transposed product (the repaired `_rmatvec`, finding F16).
Domain `0 < n_col`: the definition `A + reg · 1 1ᵀ / n_col` and the mean of the code divide by the number of columns;
in ℚ a division by 0 is 0, numpy gives nan, so the statements are restricted to where both are the same thing
(`OpExpr.eval` refuses a Normalizer without columns with `.unsupported`, the harness counts it as outside the domain). -/
theorem normalizer_matvec (n : Normalizer) (v : Vec) (_hpos : 0 < n.adj.nCol) (hv : v.length = n.adj.nCol) :
    n.matvec v = n.dense.mulVec v := Normalizer.matvec_eq_dense n v hv

theorem normalizer_rmatvec (n : Normalizer) (v : Vec) (_hpos : 0 < n.adj.nCol) :
    n.rmatvec v = n.dense.transpose.mulVec v :=
  Normalizer.rmatvec_eq_dense n v

/-- **Normalizer** denotes `D⁺ (A + reg/n 1 1ᵀ)` with `D` the row sums of the regularised matrix (`0 < n_col`) -/
theorem normalizer_denote (a : Mat) (reg : Rat) (_hpos : 0 < a.nCol) :
    Mat.Eqv (Normalizer.init a reg).dense (rowNormalized (regularized a reg)) :=
  Normalizer.init_dense a reg

/-- the domain guard of the evaluator: no Normalizer without columns, no Laplacian without nodes -/
theorem eval_domain_guard (a : Mat) (reg : Rat) (nz : Bool) (sq : Vec) :
    (a.nCol = 0 → (OpExpr.normalizer a reg).eval = .error .unsupported) ∧
    (a.nRow = 0 → a.nCol = 0 → (OpExpr.laplacian a reg nz sq).eval = .error .unsupported) := by
  constructor
  · intro h; simp [OpExpr.eval, h]
  · intro h1 h2; simp [OpExpr.eval, h1, h2]

/-- a 2-d array without columns is refused (`scipy` cannot stack no column): `operator.dot(zeros((n, 0)))` -/
theorem dotMat_no_column (o : Op) (x : Mat) (hr : x.nRow = o.nCol) (hc : x.nCol = 0) :
    o.dotMat x = .error .valueError := by
  unfold Op.dotMat; simp [hr, hc]

/-- every entry of the regularised matrix scales with the weights and the regularisation -/
theorem regularized_smul (a : Mat) (reg k : Rat) (i j : Nat) :
    (regularized (a.smul k) (k * reg)).get i j = k * (regularized a reg).get i j := by
  by_cases h : i < a.nRow ∧ j < a.nCol
  · rw [get_regularized (a.smul k) (k * reg) (by simpa using h.1) (by simpa using h.2), get_regularized a reg h.1 h.2,
      Mat.get_smul, Mat.smul_nCol]
    ring
  · rw [Mat.get_of_not_lt (a := regularized (a.smul k) (k * reg)) (by simpa [regularized] using h),
      Mat.get_of_not_lt (a := regularized a reg) (by simpa [regularized] using h)]
    ring

/-- **The Normalizer does not depend on the scale of the weights**: `Normalizer(k·A, k·reg)` denotes the same matrix as
`Normalizer(A, reg)` for every `k > 0` — a node of total weight 1e-9 is normalised like any other (the seeded change
S04r4 treated weights `≤ 1e-8` as null). The harness runs `normalize`, `Normalizer`, the normalised Laplacian,
`CoNeighbor` and `get_tfidf` on rescaled matrices against the lines of the unscaled matrix. -/
theorem normalizer_scale_invariant (a : Mat) (reg k : Rat) (hk : 0 < k) (i j : Nat) :
    (rowNormalized (regularized (a.smul k) (k * reg))).get i j = (rowNormalized (regularized a reg)).get i j := by
  unfold rowNormalized
  rw [Mat.get_scaleRows, Mat.get_scaleRows, vget_pinvVec, vget_pinvVec, regularized_smul]
  have hs : vget (regularized (a.smul k) (k * reg)).rowSums i = k * vget (regularized a reg).rowSums i := by
    unfold Mat.rowSums
    rw [Mat.vget_mulVec, Mat.vget_mulVec]
    have hc : (regularized (a.smul k) (k * reg)).nCol = (regularized a reg).nCol := by simp [regularized]
    rw [hc, ← sumTo_mul_left]
    apply sumTo_congr; intro j _
    rw [regularized_smul]; ring
  rw [hs, ← mul_assoc, pinv_mul_pos hk]

/-- `normalize(k·A) = normalize(A)` for every `k > 0` -/
theorem normalize_scale_invariant (a : Mat) (k : Rat) (hk : 0 < k) (i j : Nat) :
    (normalize1 (a.smul k)).get i j = (normalize1 a).get i j := normalize1_smul a k hk i j

example : normalize1 (Mat.smul (1/1000000000) ⟨2, 2, [[1, 3], [0, 2]]⟩) = ⟨2, 2, [[1/4, 3/4], [0, 1]]⟩ := by decide +kernel

/-- before the repair `Normalizer._transpose` returned the operator itself: on the asymmetric
`A = [[0,2,0],[0,0,0],[1,0,3]]` the product `N x` differs from `Nᵀ x` (witness replayed in corpus/C15.jsonl) -/
theorem normalizer_transpose_pinned_wrong :
    let n := Normalizer.init ⟨3, 3, [[0, 2, 0], [0, 0, 0], [1, 0, 3]]⟩ 0
    n.matvec [1, 2, 3] ≠ n.dense.transpose.mulVec [1, 2, 3] := by
  decide +kernel

/-- **Laplacian**: product, transposed operator (repaired `_transpose`), constructor -/
theorem laplacian_matvec (l : Laplacian) (v : Vec) (hsq : l.lap.nCol = l.lap.nRow) (hv : v.length = l.lap.nRow) :
    l.matvec v = l.dense.mulVec v := Laplacian.matvec_eq_dense l v hsq hv

theorem laplacian_transpose (l : Laplacian) (hsq : l.lap.nCol = l.lap.nRow) :
    Mat.Eqv l.transpose.dense l.dense.transpose := Laplacian.transpose_dense l hsq

example : ∃ l, Laplacian.init ⟨2, 2, [[0, 1], [3, 0]]⟩ (1/2) false [] = .ok l ∧ l.lap.nCol = l.lap.nRow :=
  ⟨_, rfl, rfl⟩

/-- `laplacian_eq D − A`: the constructor gives `D' − A'` of the regularised adjacency, conjugated by
`diag(1/sqrt(d'))⁺` when normalised -/
theorem laplacian_denote (a : Mat) (reg : Rat) (nz : Bool) (sq : Vec) (l : Laplacian)
    (h : Laplacian.init a reg nz sq = .ok l) :
    Mat.Eqv l.dense (OpExpr.laplacian a reg nz sq).denote := Laplacian.init_dense h

/-- **CoNeighbor** denotes `A F⁺ Aᵀ`, its product is `backward (forward x)` -/
theorem coneighbor_matvec (c : CoNeighbor) (v : Vec) : c.matvec v = c.dense.mulVec v :=
  CoNeighbor.matvec_eq_dense c v

theorem coneighbor_denote (a : Mat) (nz : Bool) (c : CoNeighbor) (h : CoNeighbor.init a nz = .ok c) :
    Mat.Eqv c.dense (OpExpr.coneighbor a nz).denote := CoNeighbor.init_dense h

/-! ## safe_sparse_dot -/

/-- **safe_sparse_dot**: for every combination of dense array / csr matrix / operator that the function accepts,
the result (a matrix, or an operator through `left_sparse_dot` / `right_sparse_dot`) denotes the product
of the two operands -/
theorem safe_sparse_dot_denotes (a b : Operand) (ha : a.WF) (hb : b.WF) (r : DotResult)
    (h : safeSparseDot a b = .ok r) : r.Denotes (a.dense.mul b.dense) :=
  safeSparseDot_denotes a b ha hb r h

example : (safeSparseDot (.ndarray ⟨1, 2, [[1, 2]]⟩) (.csr ⟨2, 1, [[3], [4]]⟩)).toOption.map
    (fun r => match r with | .mat m => some m | _ => none) = some (some ⟨1, 1, [[11]]⟩) := by decide +kernel

/-! ## ★ horner_eq_powersum, polynome_transpose -/

/-- **horner_eq_powersum.** The Ruffini–Horner loop of `Polynome._matvec` computes `(Σ_k c_k M^k) v`. -/
theorem horner_eq_powersum (m : Mat) (hsq : m.nCol = m.nRow) (cs : List Rat) (hcs : cs ≠ []) (v : Vec)
    (hv : v.length = m.nRow) :
    Polynome.matvec ⟨m, cs⟩ v = (polySum m cs 0).mulVec v := by
  rw [← powerSum_eq_polySum]; exact Polynome.matvec_eq_dense m hsq cs hcs v hv

example : Polynome.matvec ⟨⟨2, 2, [[0, 1], [2, 0]]⟩, [1, 2, 3]⟩ [1, 1] = [9, 11] := by decide +kernel

/-- **polynome_transpose.** `Polynome(Mᵀ, coeffs)` denotes the transposed polynomial. -/
theorem polynome_transpose (m : Mat) (hsq : m.nCol = m.nRow) (cs : List Rat) :
    Mat.Eqv (polySum m.transpose cs 0) (polySum m cs 0).transpose := by
  rw [← powerSum_eq_polySum, ← powerSum_eq_polySum]; exact Polynome.powerSum_transpose m hsq cs 0

/-- a Polynome of the model is refused exactly for no coefficient, a null matrix or a non-square one.
Exact for the model only: `Mat` has no notion of stored entries, `isNull` stands for `nnz == 0` of `check_format`;
a csr matrix whose stored entries are all explicit zeros is null here and accepted by the code
(`Polynome(Z, [1, 2]).dot(x) = x`, `CoNeighbor(Z).dot(x) = 0`): such matrices are outside the model and the harness
never builds them (`_no_hidden_zero`). -/
theorem polynome_init_error (a : Mat) (cs : List Rat) :
    (∃ p, Polynome.init a cs = .ok p) ↔ (cs ≠ [] ∧ a.isNull = false ∧ a.nRow = a.nCol) := by
  unfold Polynome.init
  by_cases h1 : cs.isEmpty
  · have : cs = [] := List.isEmpty_iff.mp h1
    simp [h1, this]
  · have hne : cs ≠ [] := fun e => h1 (by simp [e])
    by_cases h2 : a.isNull
    · simp [h1, h2]
    · by_cases h3 : a.nRow = a.nCol <;> simp [h1, h2, h3, hne]

/-! ## ★ pseudo_inverse -/

/-- **pseudo_inverse**: null weights stay null, the others are inverted -/
theorem pseudo_inverse (w : Rat) : (w = 0 → pinv w = 0) ∧ (w ≠ 0 → pinv w * w = 1) := by
  unfold pinv
  refine ⟨fun h => by simp [h], fun h => ?_⟩
  simp only [h, if_false]
  rw [one_div, inv_mul_cancel₀ h]

theorem pinvVec_spec (w : Vec) (i : Nat) : vget (pinvVec w) i = pinv (vget w i) := vget_pinvVec w i

/-- the Boolean specifications that the driver evaluates on the implementation's outputs (`spec` lines) are satisfied
by the model's outputs, for any tolerance `≥ 0` -/
theorem spec_lines_hold_of_model (tol : Rat) (ht : 0 ≤ tol) (w : Vec) (a : Mat) :
    PinvSpec tol w (pinvVec w) = true ∧ NormalizeSpec1 tol a (normalize1 a) = true :=
  ⟨pinvSpec_model tol ht w, normalizeSpec1_model tol ht a⟩

/-- **normalize_rows**: `normalize(matrix, p=1)` divides every row by its 1-norm — the rows of the result have
1-norm 1, the null rows stay null, and each row times the norm of the input row gives the input row back -/
theorem normalize_rows (a : Mat) (i j : Nat) :
    vget (norms1 (normalize1 a)) i = (if vget (norms1 a) i = 0 then 0 else 1) ∧
    (vget (norms1 a) i = 0 → (normalize1 a).get i j = 0) ∧
    (normalize1 a).get i j * vget (norms1 a) i = a.get i j :=
  ⟨normalize1_row_norm a i, fun h => (normalize1_null_row a i h j).1, normalize1_proportional a i j⟩

example : normalize1 ⟨2, 2, [[1, -3], [0, 0]]⟩ = ⟨2, 2, [[1/4, -3/4], [0, 0]]⟩ := by decide +kernel

/-- **get_norms**: `p = 1` gives `Σ_j |a_ij|`, `p = 2` the square root (external) of `Σ_j a_ij²` -/
theorem get_norms_def (a : Mat) (i : Nat) :
    vget (norms1 a) i = sumTo a.nCol (fun j => |a.get i j|) ∧
    vget (norms2sq a) i = sumTo a.nCol (fun j => a.get i j * a.get i j) :=
  ⟨vget_norms1 a i, vget_norms2sq a i⟩

/-- **normalize(matrix, p=2)** under the contract of `np.sqrt` (`s_i ≥ 0`, `s_i² = Σ_j a_ij²`): rows of 2-norm 1,
null rows stay null, every row a non-negative multiple of the input row -/
theorem normalize_rows_p2 (a : Mat) (s : Vec) (i : Nat) (hs0 : 0 ≤ vget s i)
    (hs : vget s i * vget s i = vget (norms2sq a) i) :
    (sumTo a.nCol (fun j => (normalize2 a s).get i j * (normalize2 a s).get i j)
        = if vget (norms2sq a) i = 0 then 0 else 1) ∧
    (∀ j, (normalize2 a s).get i j * vget s i = a.get i j) ∧
    (∀ j, 0 ≤ (normalize2 a s).get i j * a.get i j) := normalize2_spec a s i hs0 hs

example : (0 : Rat) ≤ vget [5, 0] 0 ∧ vget [5, 0] 0 * vget [5, 0] 0 = vget (norms2sq ⟨2, 2, [[3, -4], [0, 0]]⟩) 0 := by
  decide +kernel

/-! ## ★ laplacian_eq, directed2undirected_denote, bipartite conversions, tfidf_eq_def -/

/-- **laplacian_eq D − A**: `get_laplacian` refuses non-square input; otherwise its entries are
`δ_ij Σ_k a_ik − a_ij` and every row sums to zero -/
theorem laplacian_eq (a l : Mat) (h : getLaplacian a = .ok l) :
    (∀ i j, i < a.nRow → j < a.nRow → l.get i j = (if i = j then vget a.rowSums i else 0) - a.get i j) ∧
    (∀ i, i < a.nRow → sumTo a.nRow (fun j => l.get i j) = 0) :=
  ⟨(getLaplacian_spec h).2.2.2.1, (getLaplacian_spec h).2.2.2.2⟩

example : (getLaplacian ⟨2, 2, [[0, 2], [1, 3]]⟩).toOption = some ⟨2, 2, [[2, -2], [-1, 1]]⟩ := by decide +kernel
example : (getLaplacian ⟨1, 2, [[0, 2]]⟩).toOption = none := by decide +kernel

/-- **directed2undirected_denote**: `A + Aᵀ`, or the documented indicator of `max(A, Aᵀ) > 0` (an entry is 1 exactly
when one of the two directions carries a positive weight; repair F16r); always symmetric; refused for a non-square
matrix. The dtype rule is `d2uDtype`. -/
theorem directed2undirected_denote (a m : Mat) (weighted : Bool) (h : directed2undirected a weighted = .ok m) :
    (∀ i j, i < a.nRow → j < a.nRow →
      m.get i j = if weighted then a.get i j + a.get j i else (if 0 < a.get i j ∨ 0 < a.get j i then 1 else 0)) ∧
    (∀ i j, m.get i j = m.get j i) :=
  ⟨(directed2undirected_spec h).2.2.2.1, (directed2undirected_spec h).2.2.2.2⟩

/-- on non-negative weights the pattern of `A + Aᵀ` (what the pinned code took) is the documented `max(A, Aᵀ) > 0`:
the repair F16r changes the result only for negative weights -/
theorem d2u_unweighted_nonneg (x y : Rat) (hx : 0 ≤ x) (hy : 0 ≤ y) : (x + y ≠ 0) ↔ (0 < x ∨ 0 < y) := by
  constructor
  · intro h
    by_cases h1 : 0 < x
    · exact Or.inl h1
    · right
      have : x = 0 := le_antisymm (not_lt.mp h1) hx
      subst this
      rcases lt_or_eq_of_le hy with h2 | h2
      · exact h2
      · exact absurd (by rw [← h2]; ring) h
  · rintro (h | h) <;> intro h0 <;> linarith

/-- … and they differ on a negative and on cancelling weights: `[[0, -1], [0, 0]]` has no edge, `[[0, 1], [-1, 0]]` has one -/
example : (directed2undirected ⟨2, 2, [[0, -1], [0, 0]]⟩ false).toOption = some ⟨2, 2, [[0, 0], [0, 0]]⟩ := by decide +kernel
example : (directed2undirected ⟨2, 2, [[0, 1], [-1, 0]]⟩ false).toOption = some ⟨2, 2, [[0, 1], [1, 0]]⟩ := by decide +kernel

/-- **the spec lines of the format conversions and of tf-idf** evaluate the documented definitions entry by entry on
the implementation's output (`D2USpec`, `B2DSpec`, `B2USpec`, `TfidfSpec` of Spec/Convert.lean, written without
`Mat.block`, `Mat.add`, the pseudo-inverse or `normalize`); the models satisfy them for every tolerance -/
theorem format_specs_hold (tol : Rat) (ht : 0 ≤ tol) (a m b count : Mat) (w : Bool) (logTable : List Rat)
    (h : directed2undirected a w = .ok m) :
    D2USpec tol a w m = true ∧ B2DSpec tol b (bipartite2directed b) = true ∧
    B2USpec tol b (bipartite2undirected b) = true ∧ TfidfSpec tol count logTable (getTfidf count logTable) = true :=
  ⟨d2uSpec_model tol ht a m w h, b2dSpec_model tol ht b, b2uSpec_model tol ht b, tfidfSpec_model tol ht count logTable⟩

/-- the specifications are not vacuous: they reject a wrong output -/
example : D2USpec 0 ⟨2, 2, [[0, -1], [0, 0]]⟩ false ⟨2, 2, [[0, 1], [1, 0]]⟩ = false := by decide +kernel
example : B2DSpec 0 ⟨1, 1, [[2]]⟩ ⟨2, 2, [[0, 2], [2, 0]]⟩ = false := by decide +kernel
example : B2USpec 0 ⟨1, 1, [[2]]⟩ ⟨2, 2, [[0, 2], [0, 0]]⟩ = false := by decide +kernel
example : TfidfSpec 0 ⟨2, 1, [[2], [0]]⟩ [3, 1] ⟨2, 1, [[1], [0]]⟩ = false := by decide +kernel
example : TfidfSpec 0 ⟨2, 1, [[2], [0]]⟩ [3, 1] ⟨2, 1, [[3], [0]]⟩ = true := by decide +kernel

example : (directed2undirected ⟨2, 2, [[0, 2], [1, 3]]⟩ true).toOption = some ⟨2, 2, [[0, 3], [3, 6]]⟩ := by decide +kernel

/-- the dtype rule of `directed2undirected(weighted=True)`: floating types stay floating (repaired: float32 went
through `astype(int)`), everything else becomes int
[a table read back by `rfl`: its content is the comparison of the harness with the dtype the code returns] -/
theorem d2u_dtype_rule : d2uDtype .float64 = .float64 ∧ d2uDtype .float32 = .float64 ∧
    d2uDtype .int = .int ∧ d2uDtype .bool = .int := ⟨rfl, rfl, rfl, rfl⟩

/-- **bipartite conversions**: `[[0, B], [Bᵀ, 0]]` and `[[0, B], [0, 0]]` entry by entry -/
theorem bipartite2undirected_denote (b : Mat) (i j : Nat) (hi : i < b.nRow + b.nCol) (hj : j < b.nRow + b.nCol) :
    (bipartite2undirected b).get i j =
      if i < b.nRow then (if j < b.nRow then 0 else b.get i (j - b.nRow))
      else (if j < b.nRow then b.get j (i - b.nRow) else 0) := bipartite2undirected_spec b i j hi hj

theorem bipartite2directed_denote (b : Mat) (i j : Nat) (hi : i < b.nRow + b.nCol) (hj : j < b.nRow + b.nCol) :
    (bipartite2directed b).get i j = if i < b.nRow ∧ b.nRow ≤ j then b.get i (j - b.nRow) else 0 :=
  bipartite2directed_spec b i j hi hj

/-- **tfidf_eq_def**: `tf-idf[i, j] = count[i, j] / Σ_k |count[i, k]| · log(N / df_j)`, 0 for an empty document
or a word of no document (`logTable[f-1]` stands for `log(N / f)`), `df_j` = number of documents with a positive count -/
theorem tfidf_eq_def (count : Mat) (logTable : List Rat) (i j : Nat) (hi : i < count.nRow) (hj : j < count.nCol) :
    (getTfidf count logTable).get i j
      = pinv (sumTo count.nCol fun k => |count.get i k|) * count.get i j
        * (if 0 < (docFreq count).getD j 0 then logTable.getD ((docFreq count).getD j 0 - 1) 0 else 0)
    ∧ (docFreq count).getD j 0 = ((List.range count.nRow).filter fun i => 0 < count.get i j).length :=
  ⟨getTfidf_spec count logTable i j hi hj, docFreq_spec count j hj⟩

/-! ## ★ membership_roundtrip -/

/-- **membership_roundtrip**: whenever `get_membership(labels, n_labels)` succeeds,
`from_membership` of the result gives the labels back with every negative label replaced by `-1` -/
theorem membership_roundtrip (labels : List Int) (nLabels : Option Nat) (c : Csr Rat)
    (h : getMembership labels nLabels = .ok c) : fromMembership c = .ok (clampLabels labels) := by
  obtain ⟨m, -, -, rfl⟩ := getMembership_ok h
  exact fromMembership_membershipCsr labels m

example : ((getMembership [0, -3, 2, 2] none).toOption.map fun c => (c.nRow, c.nCol, c.indptr.toList, c.indices.toList))
    = some (4, 3, [0, 1, 1, 2, 3], [0, 2, 2]) := by decide +kernel
example : clampLabels [0, -3, 2, 2] = [0, -1, 2, 2] := by decide

/-- `get_membership` succeeds exactly with a non-negative number of columns that exceeds every label -/
theorem membership_ok_shape (labels : List Int) (nLabels : Option Nat) (c : Csr Rat)
    (h : getMembership labels nLabels = .ok c) :
    ∃ m : Int, 0 ≤ m ∧ (∀ x ∈ labels, 0 ≤ x → x < m) ∧ c = membershipCsr labels m := getMembership_ok h

/-- `from_membership` refuses a matrix with two labels in a row (numpy cannot assign 3 values to 2 places) -/
theorem from_membership_multilabel :
    (fromMembership (⟨2, 2, #[0, 2, 3], #[0, 1, 1], #[1, 1, 1]⟩ : Csr Rat)).toOption = none := by
  decide +kernel

/-- **get_membership builds the indicator matrix of the labels** (dense denotation of its CSR arrays) -/
theorem membership_indicator (labels : List Int) (m : Int) (i j : Nat) (hi : i < labels.length) (hj : j < m.toNat) :
    (csrDense (membershipCsr labels m)).get i j = if labels[i] = (j : Int) then 1 else 0 :=
  membership_dense labels m i j hi hj

/-! ## get_neighbors / get_degrees / get_weights on the CSR arrays -/

/-- **`csr_matrix(A.T)`** (what `transpose=True` builds) denotes the transposed dense matrix -/
theorem csr_transpose_denote (c : Csr Rat) : Mat.Eqv (csrDense (csrTranspose c)) (csrDense c).transpose :=
  csrTranspose_dense c

/-- **get_weights**: row sums of the dense matrix the CSR arrays denote (duplicates add up, explicit zeros do not
count); column sums with `transpose=True`. Hypothesis: the stored column indices are inside the shape. -/
theorem get_weights_spec (c : Csr Rat) (h : InRange c) (tr : Bool) :
    getWeights c tr = (if tr then (csrDense c).transpose else csrDense c).rowSums := getWeights_spec c h tr

/-- a matrix meeting the hypothesis: 2 × 3 with a duplicate entry and an explicit zero -/
example : ∀ i, i < 2 → ∀ e ∈ (⟨2, 3, #[0, 3, 4], #[2, 0, 2, 1], #[1, 2, 3, 0]⟩ : Csr Rat).row i, e.1 < 3 := by
  decide +kernel

example : getWeights (⟨2, 3, #[0, 3, 4], #[2, 0, 2, 1], #[1, 2, 3, 0]⟩ : Csr Rat) true = [2, 0, 4] := by decide +kernel

/-- **get_neighbors**: the stored column indices of the row (`IndexError` past the last row); with
`transpose=True` the rows storing that column, by increasing row -/
theorem get_neighbors_spec (c : Csr Rat) (node : Nat) :
    getNeighbors c node false = (if node < c.nRow then .ok ((c.row node).map (·.1)) else .error .indexError) ∧
    (node < c.nCol → getNeighbors c node true
      = .ok ((List.range c.nRow).flatMap fun i => ((c.row i).filter fun e => e.1 == node).map fun _ => i)) :=
  ⟨getNeighbors_spec c node, getNeighbors_transpose_spec c node⟩

/-- **get_degrees**: the number of stored entries of every row, of every column with `transpose=True` -/
theorem get_degrees_spec (c : Csr Rat) :
    getDegrees c false = tab c.nRow (fun i => (c.row i).length) ∧
    getDegrees c true = tab c.nCol (fun j => (transposedRow c j).length) := getDegrees_spec c

/-- scipy's invariant of a constructed CSR matrix (`Csr.WF`) implies the hypothesis `InRange` of `get_weights_spec` -/
theorem wf_in_range (c : Csr Rat) (h : c.WF = true) : InRange c := inRange_of_wf c h

/-- **get_neighbors / get_degrees against the dense matrix**, for a CSR matrix in canonical format without explicit
zeros (`Canonical`: strictly increasing columns in every row, no stored zero): the neighbours of a node are exactly
the columns of the non-zero entries of its row (of its column with `transpose=True`), in increasing order, and the
degrees count them -/
theorem get_neighbors_dense (c : Csr Rat) (hr : InRange c) (hc : Canonical c) :
    (∀ node, node < c.nRow → NeighborsSpec (csrDense c) node ((c.row node).map (·.1)) = true) ∧
    (∀ node, node < c.nCol →
      NeighborsSpec (csrDense c).transpose node (((csrTranspose c).row node).map (·.1)) = true) :=
  ⟨fun node hn => neighborsSpec_model c hr hc node hn, fun node hn => neighborsSpec_transpose_model c hc node hn⟩

theorem get_degrees_dense (c : Csr Rat) (hr : InRange c) (hc : Canonical c) :
    DegreesSpec (csrDense c) (getDegrees c false) = true ∧
    DegreesSpec (csrDense c).transpose (getDegrees c true) = true :=
  ⟨degreesSpec_model c hr hc, degreesSpec_transpose_model c hc⟩

/-- a canonical matrix: `[[0, 2, 0], [1, 0, 3]]` -/
example : ∀ i, i < 2 → (((⟨2, 3, #[0, 1, 3], #[1, 0, 2], #[2, 1, 3]⟩ : Csr Rat).row i).map (·.1)).Pairwise (· < ·) := by
  decide +kernel

/-- the remaining Boolean specifications of the driver hold of the model's outputs -/
theorem spec_lines_hold_of_model_2 (tol : Rat) (ht : 0 ≤ tol) (a l : Mat) (h : getLaplacian a = .ok l)
    (labels : List Int) (nl : Option Nat) (m : Int) (hm : membershipCols labels nl = .ok m) :
    LaplacianSpec tol a l = true ∧ MembershipSpec labels nl (csrDense (membershipCsr labels m)) = true :=
  ⟨laplacianSpec_model tol ht a l h, membershipSpec_model labels nl m hm⟩

/-- the specification looks at the number of columns: a matrix with a column too many is rejected -/
example : MembershipSpec [0, 1] none ⟨2, 3, [[1, 0, 0], [0, 1, 0]]⟩ = false ∧
    MembershipSpec [0, 1] none ⟨2, 2, [[1, 0], [0, 1]]⟩ = true ∧
    MembershipSpec [0, 1] (some 3) ⟨2, 3, [[1, 0, 0], [0, 1, 0]]⟩ = true := by decide +kernel

/-! ## ★ topk_spec -/

/-- **topk_spec**: `top_k(scores, k, sort)` returns `min(k, n)` distinct valid indices such that no left-out score
exceeds a returned one, by non-increasing score when `sort` — for every score vector, `k` and `sort`
(in particular `k ≥ n` with `sort=False`, which raised before the repair, finding F16) -/
theorem topk_spec (scores : List Rat) (k : Nat) (sort : Bool) :
    TopKSpec scores k sort (topK scores k sort) = true := topK_spec scores k sort

/-- the same as a proposition -/
theorem topk_prop (scores : List Rat) (k : Nat) (sort : Bool) : TopKProp scores k sort (topK scores k sort) :=
  topK_prop scores k sort

/-- the pinned code raised for `sort=False`, `k ≥ n ≥ 2` (witness replayed in corpus/C15.jsonl) -/
theorem topk_pinned_raises : (topKPinned [3, 1, 2] 5 false).toOption = none ∧ topK [3, 1, 2] 5 false = [0, 1, 2] := by
  decide +kernel

end SkNet.C15
