/- C15 — property theorems (filled below). -/
import SkNet.Model.LinOp
import SkNet.Model.Convert
import SkNet.Spec.LinOp
import SkNet.Spec.Convert

namespace SkNet.C15
open SkNet SkNet.LinOp SkNet.Convert

theorem pinv_zero : pinv 0 = 0 := by simp [pinv]

end SkNet.C15
