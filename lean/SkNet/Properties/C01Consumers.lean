/-
C01 — `RespectsDenote` instances for the consumers that have Lean models in other property files
(`Model/{Path, Topology, Heat, Modularity, WL}.lean`, owned by C10, C11, C14, C05, C02).

This module is built and audited by tools/harness/c01.py separately from `Properties/C01.lean`, so that a change in one
of those models is reported as "the consumer instances are stale" and does not stop the C01 check.

What has content here: the C10 edge predicate (`edgeOf`: a stored entry with a non-zero value) and the C02 WL adjacency
lists (`adjOf`: the stored column indices) see the stored form — for each, a theorem under the hypothesis that makes the
stored form a function of the matrix, and a refutation without it. The instances for models that take the value
function (`valOf`) are function extensionality (see `C01.respects_denote_val`): they record that those models read the
denotation, nothing about the compiled kernels.
-/
import SkNet.Properties.C01
import SkNet.Lemmas.WL
import SkNet.Model.Path
import SkNet.Model.Topology
import SkNet.Model.Heat
import SkNet.Model.Modularity

namespace SkNet.C01
open SkNet SkNet.Fmt SkNet.Own

attribute [-simp] List.getD_eq_getElem?_getD

/-! ## models that take the value function (function extensionality, see `respects_denote_val`) -/

/-- C11: `count_triangles` (sequential or any parallel schedule), `get_clustering_coefficient` and
`get_core_decomposition` (models of `Model/Topology.lean`) on a square matrix given by its stored rows. -/
theorem respects_denote_countTriangles (sched : Option Topology.Schedule) :
    RespectsDenote fun nCol rows => Topology.countTriangles rows.length nCol (valOf rows) sched := by
  intro nCol rows rows' hw hw' hlen h
  show Topology.countTriangles rows.length nCol (valOf rows) sched = Topology.countTriangles rows'.length nCol (valOf rows') sched
  rw [valOf_ext nCol rows rows' hw hw' hlen h, hlen]

theorem respects_denote_clusteringCoefficient (sched : Option Topology.Schedule) :
    RespectsDenote fun nCol rows => Topology.clusteringCoefficient rows.length nCol (valOf rows) sched := by
  intro nCol rows rows' hw hw' hlen h
  show Topology.clusteringCoefficient rows.length nCol (valOf rows) sched = Topology.clusteringCoefficient rows'.length nCol (valOf rows') sched
  rw [valOf_ext nCol rows rows' hw hw' hlen h, hlen]

theorem respects_denote_coreDecomposition :
    RespectsDenote fun nCol rows => Topology.getCoreDecomposition rows.length nCol (valOf rows) := by
  intro nCol rows rows' hw hw' hlen h
  show Topology.getCoreDecomposition rows.length nCol (valOf rows) = Topology.getCoreDecomposition rows'.length nCol (valOf rows')
  rw [valOf_ext nCol rows rows' hw hw' hlen h, hlen]

/-- C14: `Diffusion.fit` / `Dirichlet.fit` (model of `Model/Heat.lean`: get_adjacency_values, normalisation, the
iteration) read the values through `valOf` and, in `check_format`, whether anything is stored at all. -/
def heatConsumer (algo : Heat.Algo) (a : Heat.Args) (nIter : Int) (α : Rat) (nCol : Nat) (rows : Rows) :=
  Heat.fit algo rows.length nCol (storedNnz rows) (valOf rows) a nIter α

/-- `respects_denote` for the heat models as DESIGN states it; false — `respects_denote_heat_full_false`. -/
def respects_denote_heat_full : Prop :=
  ∀ algo a nIter α, RespectsDenote (heatConsumer algo a nIter α)

/-- what holds: same denotation and *both or neither* store an entry ⇒ same fit. -/
theorem respects_denote_heat_partial (algo : Heat.Algo) (a : Heat.Args) (nIter : Int) (α : Rat)
    (nCol : Nat) (rows rows' : Rows) (hw : rowsWF nCol rows = true) (hw' : rowsWF nCol rows' = true)
    (hlen : rows.length = rows'.length)
    (h : ∀ i j, i < rows.length → j < nCol → valOf rows i j = valOf rows' i j)
    (hnnz : storedNnz rows = 0 ↔ storedNnz rows' = 0) :
    heatConsumer algo a nIter α nCol rows = heatConsumer algo a nIter α nCol rows' := by
  unfold heatConsumer Heat.fit Heat.getAdjacencyValues
  rw [valOf_ext nCol rows rows' hw hw' hlen h, hlen]
  by_cases h0 : storedNnz rows = 0
  · have h0' := hnnz.1 h0
    simp [h0, h0']
  · have h0' : ¬ storedNnz rows' = 0 := fun e => h0 (hnnz.2 e)
    simp [h0, h0']

/-- the stored structure the heat models depend on: a matrix holding one explicit zero is accepted (and diffused),
the empty matrix of the same denotation is refused by `check_format` ('The input matrix is empty'). -/
theorem respects_denote_heat_full_false : ¬ respects_denote_heat_full := by
  intro h
  have := h .dirichlet {} 1 0 1 [[(0, 0)]] [[]] (by decide) (by decide) rfl
    (by intro i j hi hj
        have hi0 : i = 0 := by simp at hi; omega
        have hj0 : j = 0 := by omega
        subst hi0; subst hj0; decide +kernel)
  have e1 : heatConsumer .dirichlet {} 1 0 1 [[(0, 0)]] = .ok ⟨[1], none, none⟩ := by decide +kernel
  have e2 : heatConsumer .dirichlet {} 1 0 1 [[]] = .error .valueError := by rfl
  rw [e1, e2] at this
  cases this

/-- C05: `get_modularity` (model of `Model/Modularity.lean`) on simple stored forms. -/
theorem respects_denote_getModularity_simple (labels : List Int) (labelsCol : Option (List Int)) (w : Modularity.Weights) (γ : Rat)
    (nCol : Nat) (rows rows' : Rows)
    (hw : rowsWF nCol rows = true) (hw' : rowsWF nCol rows' = true) (hs : rowsSimple rows) (hs' : rowsSimple rows')
    (hlen : rows.length = rows'.length)
    (h : ∀ i j, i < rows.length → j < nCol → valOf rows i j = valOf rows' i j) :
    Modularity.getModularity rows.length nCol (storedCount rows) (valOf rows) labels labelsCol w γ
      = Modularity.getModularity rows'.length nCol (storedCount rows') (valOf rows') labels labelsCol w γ := by
  rw [hlen]
  exact respects_denote_val_nnz_simple (fun nc nnz v => Modularity.getModularity rows'.length nc nnz v labels labelsCol w γ)
    nCol rows rows' hw hw' hs hs' hlen h


/-- C11: `count_cliques` (model `Topology.countCliquesEntry`, which since /repo c45a6484 symmetrises and reads the
summed values only). -/
theorem respects_denote_countCliques (k : Int) :
    RespectsDenote fun nCol rows => Topology.countCliquesEntry rows.length nCol (valOf rows) k := by
  intro nCol rows rows' hw hw' hlen h
  show Topology.countCliquesEntry rows.length nCol (valOf rows) k = Topology.countCliquesEntry rows'.length nCol (valOf rows') k
  rw [valOf_ext nCol rows rows' hw hw' hlen h, hlen]

/-! ## consumers that see the stored form -/

/-- C10: the path functions read `indices` and `data`: an edge is a stored entry with a non-zero value. -/
def distancesConsumer (a : Path.DistArgs) (nCol : Nat) (rows : Rows) :=
  Path.getDistances rows.length nCol (edgeOf rows) a

/-- `respects_denote` for `get_distances` as DESIGN states it; false — `respects_denote_distances_full_false`. -/
def respects_denote_distances_full : Prop := ∀ a, RespectsDenote (distancesConsumer a)

/-- what holds: on matrices with non-negative stored values (graph weights; duplicates and any stored order allowed)
the hop distances are a function of the denotation. -/
theorem respects_denote_distances_partial (a : Path.DistArgs) (nCol : Nat) (rows rows' : Rows)
    (hw : rowsWF nCol rows = true) (hw' : rowsWF nCol rows' = true) (hn : rowsNonneg rows) (hn' : rowsNonneg rows')
    (hlen : rows.length = rows'.length)
    (h : ∀ i j, i < rows.length → j < nCol → valOf rows i j = valOf rows' i j) :
    distancesConsumer a nCol rows = distancesConsumer a nCol rows' := by
  unfold distancesConsumer
  rw [edgeOf_ext nCol rows rows' hw hw' hn hn' hlen h, hlen]

/-- duplicates that cancel (2 and -2 stored at the same position) are an edge for `get_distances` although the
matrix is zero there: node 1 is at distance 1 from node 0 on one representation and unreachable on the other. -/
theorem respects_denote_distances_full_false : ¬ respects_denote_distances_full := by
  intro h
  have := h { source := some [0] } 2 [[(1, 2), (1, -2)], []] [[], []] (by decide) (by decide) rfl
    (by intro i j hi hj
        have : i = 0 ∨ i = 1 := by simp at hi; omega
        have : j = 0 ∨ j = 1 := by omega
        rcases ‹i = 0 ∨ i = 1› with rfl | rfl <;> rcases ‹j = 0 ∨ j = 1› with rfl | rfl <;> decide +kernel)
  have e1 : distancesConsumer { source := some [0] } 2 [[(1, 2), (1, -2)], []] = .ok (some (.single [0, 1])) := by rfl
  have e2 : distancesConsumer { source := some [0] } 2 [[], []] = .ok (some (.single [0, -1])) := by rfl
  rw [e1, e2] at this
  injection this with h1
  injection h1 with h2
  injection h2 with h3
  simp at h3

example : rowsNonneg [[(1, 2), (1, 1)], [(0, 3)]] ∧ rowsWF 2 [[(1, 2), (1, 1)], [(0, 3)]] = true := by
  refine ⟨?_, by decide⟩
  intro r hr p hp
  simp at hr
  rcases hr with rfl | rfl <;> simp at hp <;> rcases hp with rfl | rfl <;> decide

/-! ## a kernel that walks `indptr / indices` directly: Weisfeiler-Lehman on unsorted indices -/

/-- **respects_denote (WL), idealised hash**. The Weisfeiler-Lehman kernel reads the stored column indices of each
row in storage order; *with a hash that identifies permutations* (`WL.ExactOps`: `hashOf l = hashOf l' ↔ l.Perm l'`,
`apart a b ↔ a ≠ b`) the colours do not depend on that order. The compiled kernel does NOT satisfy `ExactOps`: it
adds float64 powers in storage order and separates hashes by `abs(h - h') > 1e-10` (`WL.floatOps`), so this theorem
is about the exact model only; for the float kernel the statement is `wl_unsorted_float_full` below (not proved;
property C02 records a hash collision of the float kernel as a finding, and the harness compares the real kernel on
shuffled indices on every run). -/
theorem wl_unsorted_same {H : Type} {ops : WL.HashOps H} (hx : WL.ExactOps ops) (adj adj' : List (List Nat))
    (hlen : adj.length = adj'.length)
    (hperm : ∀ i, i < adj.length → (adj.getD i []).Perm (adj'.getD i [])) (maxIter : Option Nat) :
    WL.colorWL ops adj maxIter = WL.colorWL ops adj' maxIter := by
  have htr : ∀ L : List Nat, WL.triples ops adj L = WL.triples ops adj' L := by
    intro L
    unfold WL.triples
    rw [← hlen]
    unfold tab
    apply List.map_congr_left
    intro i hi
    have hi' : i < adj.length := List.mem_range.1 hi
    have : ops.hashOf ((adj.getD i []).map fun j => L.getD j 0) = ops.hashOf ((adj'.getD i []).map fun j => L.getD j 0) :=
      (hx.hash_iff _ _).2 ((hperm i hi').map _)
    rw [this]
  have hround : ∀ L : List Nat, WL.round ops adj L = WL.round ops adj' L := by
    intro L
    unfold WL.round WL.roundAssign
    rw [htr L, hlen]
  have hcol : ∀ (m : Nat) (L : List Nat) (ch : Bool), WL.coloring ops adj m L ch = WL.coloring ops adj' m L ch := by
    intro m
    induction m with
    | zero => intro L ch; rfl
    | succ m ih =>
      intro L ch
      unfold WL.coloring
      cases ch with
      | false => rfl
      | true => simp only [if_true]; rw [hround L]; exact ih _ _
  unfold WL.colorWL
  rw [hlen]
  exact congrArg Prod.fst (hcol _ _ _)

/-- the float statement (not proved): the colours computed with the float64 hash and the 1e-10 separation of the
compiled kernel do not depend on the stored order. Storage order changes the float sum by round-off, so this needs a
margin hypothesis on the hashes that the kernel does not check. -/
def wl_unsorted_float_full : Prop :=
  ∀ (powers : Array Float) (adj adj' : List (List Nat)), adj.length = adj'.length →
    (∀ i, i < adj.length → (adj.getD i []).Perm (adj'.getD i [])) → ∀ maxIter,
    WL.colorWL (WL.floatOps powers) adj maxIter = WL.colorWL (WL.floatOps powers) adj' maxIter

/-- Non-vacuity of `wl_unsorted_same`: `WL.exactOps` is exact (`C02.exactOps_exact`); on the path 0-1-2 stored with
the middle row in either order the colours agree and are not constant. -/
example : WL.colorWL WL.exactOps [[1], [0, 2], [1]] none = WL.colorWL WL.exactOps [[1], [2, 0], [1]] none ∧
    WL.colorWL WL.exactOps [[1], [0, 2], [1]] none = [0, 1, 0] := by
  decide +kernel

/-- C02: the kernel's adjacency lists are the stored column indices. -/
def wlConsumer {H : Type} (ops : WL.HashOps H) (maxIter : Option Nat) (_nCol : Nat) (rows : Rows) :=
  WL.colorWL ops (adjOf rows) maxIter

/-- what holds (exact hash): two *simple* stored forms of a matrix — no column twice in a row, no stored zero, any
stored order — give the same colours. -/
theorem respects_denote_wl_partial {H : Type} {ops : WL.HashOps H} (hx : WL.ExactOps ops) (maxIter : Option Nat)
    (nCol : Nat) (rows rows' : Rows) (hs : rowsSimple rows) (hs' : rowsSimple rows') (hlen : rows.length = rows'.length)
    (h : ∀ i j, valOf rows i j = valOf rows' i j) :
    wlConsumer ops maxIter nCol rows = wlConsumer ops maxIter nCol rows' := by
  unfold wlConsumer
  apply wl_unsorted_same hx (adjOf rows) (adjOf rows') (by simp [adjOf, hlen])
  intro i hi
  exact adjOf_perm rows rows' hs hs' hlen h i (by simpa [adjOf] using hi)

/-- `respects_denote` for the WL colouring as DESIGN states it (exact hash); false: a stored zero is a neighbour. -/
def respects_denote_wl_full : Prop := ∀ maxIter, RespectsDenote (wlConsumer WL.exactOps maxIter)

theorem respects_denote_wl_full_false : ¬ respects_denote_wl_full := by
  intro h
  have := h none 3 [[(1, 1)], [(0, 1), (2, 0)], []] [[(1, 1)], [(0, 1)], []] (by decide) (by decide) rfl
    (by intro i j hi hj
        have hi' : i = 0 ∨ i = 1 ∨ i = 2 := by simp at hi; omega
        have hj' : j = 0 ∨ j = 1 ∨ j = 2 := by omega
        rcases hi' with rfl | rfl | rfl <;> rcases hj' with rfl | rfl | rfl <;> decide +kernel)
  revert this
  decide +kernel


end SkNet.C01
