/-
C17 — every fit terminates and stays within its buffers: the property theorems.

Part 1 (this section): the index-kind type system on the kernel IR into which the Cython kernels are
translated on every run (`tools/translate/kernels.py` → `SkNet/Generated/KernelIR.lean`).
-/
import SkNet.Lemmas.Kinds

namespace SkNet.C17
open SkNet SkNet.IR

/-! ## 1. `kinds_sound`: a kernel accepted by the index-kind checker stays within its buffers -/

/-- **kinds_sound.** Let `K` be a translated kernel and `ill` a list of access sites.  If the checker accepts
    `K` with the index checks of exactly the sites in `ill` waived (`K.checkWith ill = true`: every other index
    is kinded, and every value stored into a kinded variable, array or container is kinded), then on every
    input that satisfies the declared shapes (`inp.satisfies K.env`: every array has at least its declared
    number of cells, every stored element and every integer parameter lies in its kind), for **every** oracle
    (outcomes of floating-point comparisons, container iteration orders, `rand()`, values of uninterpreted
    expressions) and every step budget, an out-of-bounds access can only be reported at a site of `ill`. -/
theorem kinds_sound (K : Kernel) (ill : List Nat) (h : K.checkWith ill = true) (inp : Inputs)
    (hin : inp.satisfies K.env = true) (orc : Nat → Nat → Int) (fuel : Nat) (site : Nat)
    (hr : exec fuel K.body (inp.state orc) = .err (.oob site)) : site ∈ ill :=
  kinds_sound_inputs K ill h inp hin orc fuel site hr

/-- A well-kinded kernel (no site waived) never reads or writes outside the arrays it was given. -/
theorem wellKinded_inbounds (K : Kernel) (h : K.wellKinded = true) (inp : Inputs)
    (hin : inp.satisfies K.env = true) (orc : Nat → Nat → Int) (fuel : Nat) (site : Nat) :
    exec fuel K.body (inp.state orc) ≠ .err (.oob site) := by
  intro hr
  have := kinds_sound K [] h inp hin orc fuel site hr
  simp at this

/-! ### the hypotheses are satisfiable, and the checker's refusals are meaningful -/

/-- `for i in range(n): for j in range(indptr[i], indptr[i+1]): out[indices[j]] += data[j]`
    dimension symbols: 1 = n, 2 = nnz; arrays: 0 = indptr, 1 = indices, 2 = data (float), 3 = out (float);
    variables: 0 = i, 1 = j. -/
def rowScatter : Kernel where
  name := "rowScatter"
  env := { vars := [Kind.lt 1, Kind.lt 2],
           arrs := [⟨some (1, 1), Kind.le 2⟩, ⟨some (2, 0), Kind.lt 1⟩, ⟨some (2, 0), Kind.any⟩, ⟨some (1, 0), Kind.any⟩] }
  body := .forRange 0 (.const 0) (.dim 1)
            (.forRange 1 (.load 0 0 (.var 0)) (.load 1 0 (.add (.var 0) (.const 1)))
              (.seq (.touch 2 2 (.var 1)) (.touch 3 3 (.load 4 1 (.var 1)))))
  siteNames := ["indptr[i]", "indptr[i+1]", "data[j]", "out[indices[j]]", "indices[j]"]
  varNames := ["i", "j"]
  arrNames := ["indptr", "indices", "data", "out"]

/-- the same loop with the classical slip `data[indices[j]]` instead of `data[j]` (the shape of F2) -/
def rowScatterBad : Kernel :=
  { rowScatter with
    body := .forRange 0 (.const 0) (.dim 1)
              (.forRange 1 (.load 0 0 (.var 0)) (.load 1 0 (.add (.var 0) (.const 1)))
                (.seq (.touch 2 2 (.load 4 1 (.var 1))) (.touch 3 3 (.load 4 1 (.var 1))))) }

/-- a graph with 3 nodes and the single edge 0 → 2 (nnz = 1 < n) -/
def oneEdge : Inputs where
  dims := [0, 3, 1]
  scalars := []
  arrs := [(0, [0, 1, 1, 1]), (1, [2]), (2, [0]), (3, [0, 0, 0])]

example : rowScatter.wellKinded = true := by decide
example : oneEdge.satisfies rowScatter.env = true := by decide
/-- so `wellKinded_inbounds` applies to a concrete non-trivial input; and the run indeed completes -/
example : (match exec 50 rowScatter.body (oneEdge.state (fun _ _ => 0)) with | .ok _ => true | _ => false) = true := by
  decide

/-- the checker refuses the slip, names the site … -/
example : rowScatterBad.wellKinded = false ∧ rowScatterBad.ill = [2] := by decide
/-- … and the refusal is not spurious: on the one-edge graph the interpreter reports that very access
    (`data[indices[j]]` with `indices[j] = 2 ≥ nnz = 1`) out of bounds. -/
example : (match exec 50 rowScatterBad.body (oneEdge.state (fun _ _ => 0)) with
    | .err (.oob 2) => true | _ => false) = true := by decide

end SkNet.C17
