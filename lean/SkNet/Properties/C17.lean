/-
C17 — every fit terminates and stays within its buffers: the property theorems.

Part 1 (this section): the index-kind type system on the kernel IR into which the Cython kernels are
translated on every run (`tools/translate/kernels.py` → `SkNet/Generated/KernelIR.lean`).
-/
import SkNet.Lemmas.Kinds
import SkNet.Lemmas.KindsAssigned
import SkNet.Lemmas.TerminateSeen
import SkNet.Lemmas.TerminateLouvain
import SkNet.Lemmas.ModularityFit
import SkNet.Lemmas.KernelsHeap
import SkNet.Lemmas.KernelsWL
import SkNet.Lemmas.KernelsVote
import SkNet.Lemmas.TerminateLouvainOuter
import SkNet.Lemmas.TerminatePush
import SkNet.Lemmas.TerminateHierarchy
import SkNet.Lemmas.TerminateLeiden

namespace SkNet.C17
open SkNet SkNet.IR

/-! ## 1. `kinds_sound`: a kernel accepted by the index-kind checker stays within its buffers -/

/-- **kinds_sound.** Let `K` be a translated kernel and `ill` a list of access sites.  If the checker accepts
    `K` with the index checks of exactly the sites in `ill` waived (`K.checkWith ill = true`: every other index
    is kinded, and every value stored into a kinded variable, array or container is kinded), then on every
    input that satisfies the declared shapes (`inp.satisfies K.env`: every array has at least its declared
    number of cells, every stored element and every integer parameter lies in its kind), for **every** oracle
    (outcomes of floating-point comparisons, container iteration orders, `rand()`, values of uninterpreted
    expressions) and every step budget, an out-of-bounds access can only be reported at a site of `ill`. -/
theorem kinds_sound (K : Kernel) (ill : List Nat) (h : K.checkWith ill = true) (inp : Inputs)
    (hin : inp.satisfies K.env = true) (orc : Nat → Nat → Int) (fuel : Nat) (site : Nat)
    (hr : exec fuel K.body (inp.state orc) = .err (.oob site)) : site ∈ ill :=
  kinds_sound_inputs K ill h inp hin orc fuel site hr

/-- A well-kinded kernel (no site waived) never reads or writes outside the arrays it was given. -/
theorem wellKinded_inbounds (K : Kernel) (h : K.wellKinded = true) (inp : Inputs)
    (hin : inp.satisfies K.env = true) (orc : Nat → Nat → Int) (fuel : Nat) (site : Nat) :
    exec fuel K.body (inp.state orc) ≠ .err (.oob site) := by
  intro hr
  have := kinds_sound K [] h inp hin orc fuel site hr
  simp at this

/-! ### the hypotheses are satisfiable, and the checker's refusals are meaningful -/

/-- `for i in range(n): for j in range(indptr[i], indptr[i+1]): out[indices[j]] += data[j]`
    dimension symbols: 1 = n, 2 = nnz; arrays: 0 = indptr, 1 = indices, 2 = data (float), 3 = out (float);
    variables: 0 = i, 1 = j. -/
def rowScatter : Kernel where
  name := "rowScatter"
  env := { vars := [Kind.lt 1, Kind.lt 2],
           arrs := [⟨some (1, 1), Kind.le 2⟩, ⟨some (2, 0), Kind.lt 1⟩, ⟨some (2, 0), Kind.any⟩, ⟨some (1, 0), Kind.any⟩] }
  body := .forRange 0 (.const 0) (.dim 1)
            (.forRange 1 (.load 0 0 (.var 0)) (.load 1 0 (.add (.var 0) (.const 1)))
              (.seq (.touch 2 2 (.var 1)) (.touch 3 3 (.load 4 1 (.var 1)))))
  params := []
  siteNames := ["indptr[i]", "indptr[i+1]", "data[j]", "out[indices[j]]", "indices[j]"]
  varNames := ["i", "j"]
  arrNames := ["indptr", "indices", "data", "out"]

/-- the same loop with the classical slip `data[indices[j]]` instead of `data[j]` (the shape of F2) -/
def rowScatterBad : Kernel :=
  { rowScatter with
    body := .forRange 0 (.const 0) (.dim 1)
              (.forRange 1 (.load 0 0 (.var 0)) (.load 1 0 (.add (.var 0) (.const 1)))
                (.seq (.touch 2 2 (.load 4 1 (.var 1))) (.touch 3 3 (.load 4 1 (.var 1))))) }

/-- a graph with 3 nodes and the single edge 0 → 2 (nnz = 1 < n) -/
def oneEdge : Inputs where
  dims := [0, 3, 1]
  scalars := []
  arrs := [(0, [0, 1, 1, 1]), (1, [2]), (2, [0]), (3, [0, 0, 0])]

example : rowScatter.wellKinded = true := by decide
example : oneEdge.satisfies rowScatter.env = true := by decide
/-- so `wellKinded_inbounds` applies to a concrete non-trivial input; and the run indeed completes -/
example : (match exec 50 rowScatter.body (oneEdge.state (fun _ _ => 0)) with | .ok _ => true | _ => false) = true := by
  decide

/-- the checker refuses the slip, names the site … -/
example : rowScatterBad.wellKinded = false ∧ rowScatterBad.ill = [2] := by decide
/-- … and the refusal is not spurious: on the one-edge graph the interpreter reports that very access
    (`data[indices[j]]` with `indices[j] = 2 ≥ nnz = 1`) out of bounds. -/
example : (match exec 50 rowScatterBad.body (oneEdge.state (fun _ _ => 0)) with
    | .err (.oob 2) => true | _ => false) = true := by decide

/-- **no_uninit.**  The complement of `kinds_sound` on the error classes of the interpreter: if the definite-assignment
    check accepts the kernel from its entry variables (`K.assigned`: integer parameters and object fields are the only
    variables read before an assignment), then on inputs that give a value to each of them no execution — any oracle,
    any fuel — reads an unassigned variable.  With `kinds_sound`, an accepted kernel can therefore only stop in a
    normal state, in `.done` (a `return`; or a `pick` from an empty container, which ends the over-approximated path),
    in `.fuel` (the budget of the interpreter; termination is the subject of section 2), or out of bounds at a
    waived site. -/
theorem no_uninit (K : Kernel) (h : K.assigned = true) (inp : Inputs) (hp : inp.provides K.params = true)
    (orc : Nat → Nat → Int) (fuel x : Nat) : exec fuel K.body (inp.state orc) ≠ .err (.uninit x) :=
  assigned_sound K.params K.body h inp hp orc fuel x

/-- the two error classes together -/
theorem kinds_and_assignment_sound (K : Kernel) (ill : List Nat) (h : K.checkWith ill = true) (ha : K.assigned = true)
    (inp : Inputs) (hin : inp.satisfies K.env = true) (hp : inp.provides K.params = true) (orc : Nat → Nat → Int)
    (fuel : Nat) (e : Err) (hr : exec fuel K.body (inp.state orc) = .err e) : ∃ site, e = .oob site ∧ site ∈ ill := by
  cases e with
  | oob site => exact ⟨site, rfl, kinds_sound K ill h inp hin orc fuel site hr⟩
  | uninit x => exact absurd hr (no_uninit K ha inp hp orc fuel x)

example : rowScatter.assigned = true ∧ oneEdge.provides rowScatter.params = true := by decide
/-- a kernel that reads a local before assigning it is refused, and the refusal is meaningful -/
example :
    let K : Kernel := { rowScatter with body := .touch 0 3 (.var 0) }
    K.assigned = false ∧
    (match exec 5 K.body (oneEdge.state (fun _ _ => 0)) with | .err (.uninit 0) => true | _ => false) = true := by
  decide

/-! ## 2. Termination: measures for the loops of the models -/

/-- **propagation_terminates.**  `Propagation.fit` with the stop rule "a configuration of labels comes back" alone
    (model `SkNet.Vote.fit` with `nIter = none`: the code between /repo c67df33b and be74e3a8) terminates on **every** graph
    with non-negative weights — directed or not —, for every seed vector, every node order and every `n_iter`:
    `fitBound` = (number of nodes)^(number of updated nodes) + 1 evaluations of the loop test suffice,
    because a sweep never invents a label and a configuration is never met twice before the loop stops.
    This is termination, **not** a time bound: the bound is exponential and the family of disjoint directed cycles
    attains an exponential number of sweeps (period `lcm (cᵢ - 1)`, Landau's function; `propagation_seen_rule_not_proportionate`
    below; 65 nodes needed 510 510 sweeps, defect F26).  The code that exists bounds the default number of sweeps by
    `n + 1`: `propagation_sweeps_bounded`. -/
-- (`hw` is inherited from C13's lemma `voteUpdate_subset`; the pigeonhole argument itself only needs that a sweep is a
-- function that never invents a label, so the restriction to non-negative weights is an artefact of the proof)
theorem propagation_terminates (c : Csr Rat) (hw : ∀ p, 0 ≤ c.data.getD p 0) (values : List Int)
    (a : Vote.PropArgs) (hsig : Vote.SigmaOK a.sigma (Vote.instantiateVars values).2.length) (fuel : Nat)
    (hf : Terminate.fitBound values a.sigma ≤ fuel) : Vote.fit c values a fuel ≠ none :=
  Terminate.fit_terminates c hw values a hsig fuel hf

/-- the directed 3-cycle 0 → 1 → 2 → 0 (the input on which the pinned code never returned, F18) -/
def dicycle3 : Csr Rat :=
  { nRow := 3, nCol := 3, indptr := #[0, 1, 2, 3], indices := #[1, 2, 0], data := #[1, 1, 1] }

/-- non-vacuity, on the very input of F18: a single class of seeds (every node starts with its own label, every
    node is updated), default `n_iter`; the labels oscillate with period 2 and the loop stops at the third test
    of a configuration already seen, well inside the bound 3³ + 1 = 28. -/
example : (∀ p, 0 ≤ dicycle3.data.getD p 0) ∧ Terminate.fitBound [0, 0, 0] none = 28 ∧
    Vote.fit dicycle3 [0, 0, 0] {} 28 = some ([1, 2, 1], 3) := by
  refine ⟨?_, by decide +kernel, by decide +kernel⟩
  intro p
  by_cases h : p < 3
  · have : p = 0 ∨ p = 1 ∨ p = 2 := by omega
    rcases this with rfl | rfl | rfl <;> decide +kernel
  · have : dicycle3.data.getD p 0 = 0 := by
      simp [dicycle3, Array.getD, show ¬ p < 3 from h]
    rw [this]

/-- **propagation_sweeps_bounded.**  With a bound `k` on the number of sweeps — an explicit `n_iter = k ≥ 0`, or the
    default `n_iter = -1`, which `Propagation.fit` reads as `k = n + 1` since /repo be74e3a8 — the loop makes at most `k`
    sweeps, on every graph, for every seed vector and node order, whatever the weights: `k + 1` evaluations of the loop
    test suffice.  (Each sweep is one call of `vote_update`: one pass over the edges of the updated nodes.) -/
theorem propagation_sweeps_bounded (c : Csr Rat) (values : List Int) (a : Vote.PropArgs) (k : Nat)
    (hk : a.nIter = some k) (fuel : Nat) (hf : k + 1 ≤ fuel) :
    ∃ r, Vote.fit c values a fuel = some r ∧ r.2 ≤ k :=
  Terminate.fit_capped c values a k hk fuel hf

/-- the disjoint directed cycles of lengths 3, 4 and 6 (13 nodes) -/
def dicycles346 : Csr Rat :=
  { nRow := 13, nCol := 13, indptr := #[0, 1, 2, 3, 4, 5, 6, 7, 8, 9, 10, 11, 12, 13],
    indices := #[1, 2, 0, 4, 5, 6, 3, 8, 9, 10, 11, 12, 7], data := #[1, 1, 1, 1, 1, 1, 1, 1, 1, 1, 1, 1, 1] }

/-- **propagation_seen_rule_not_proportionate.**  Witness that the stop rule "a configuration comes back" alone does not
    bound the sweeps by the size of the input: on the 13 nodes of `dicycles346` (own labels, every node updated) the
    asynchronous sweep has period lcm(2, 3, 5) = 30 and the uncapped loop makes 31 sweeps (> n + 1 = 14); with the cap of
    the code it stops after 14. -/
theorem propagation_seen_rule_not_proportionate :
    (Vote.fit dicycles346 (List.replicate 13 0) {} 40).map (·.2) = some 31 ∧
    (Vote.fit dicycles346 (List.replicate 13 0) { nIter := some 14 } 15).map (·.2) = some 14 := by
  refine ⟨by decide +kernel, by decide +kernel⟩

/-- The loop of the pinned code stopped only when a sweep changed nothing.  A loop of that shape does not
    terminate on an orbit of period 2 (this is the mechanism of F18, kept as the witness of the repair). -/
def untilFixed (step : List Int → List Int) : Nat → List Int → Option (List Int)
  | 0, _ => none
  | fuel+1, l => if step l = l then some l else untilFixed step fuel (step l)

theorem untilFixed_diverges (step : List Int → List Int) (a b : List Int) (hab : a ≠ b)
    (h1 : step a = b) (h2 : step b = a) : ∀ fuel, untilFixed step fuel a = none ∧ untilFixed step fuel b = none := by
  intro fuel
  induction fuel with
  | zero => exact ⟨rfl, rfl⟩
  | succ f ih =>
    constructor
    · simp only [untilFixed, h1, if_neg (Ne.symm hab)]
      exact ih.2
    · simp only [untilFixed, h2, if_neg hab]
      exact ih.1

/-- on the directed 3-cycle one sweep of the vote over all nodes maps `[1,1,2] ↦ [1,2,1] ↦ [2,1,2]`… : the
    configurations `[1,2,1]` and `[2,1,2]` are exchanged, so `untilFixed` never returns there -/
example : ∀ fuel, untilFixed (fun l => Vote.voteUpdate dicycle3 l [0, 1, 2]) fuel [1, 2, 1] = none :=
  fun fuel => (untilFixed_diverges _ [1, 2, 1] [2, 1, 2] (by decide) (by decide +kernel) (by decide +kernel) fuel).1

/-- **optimize_core_terminates** (over ℚ, the loop *without* its pass cap).  The `while not stop` loop of the Louvain
    kernel as it was before the cap, `SkNet.Modularity.optimizeCore` / `coreLoop` (the reference loop of C06; the
    model of the compiled code is `optimizeCoreCapped`, total by construction) instantiated at the rationals,
    terminates for every tolerance `tol ≥ 0`: in exact arithmetic the cap is never what the loop needs in order to end
    (`Modularity.coreCapped_of_coreLoop` relates the two when the loop ends within `n + 1` passes).
    This is a statement about exact arithmetic **only**: the compiled kernel accumulates in `float`, where an exact
    tie can come out as a tiny positive gain, and with `tol_optimization = 0` it did cycle for ever (defect F22,
    13-node weighted path); the float32 kernel terminates because of its pass cap (`n + 1` passes, /repo 244a467f),
    which the worker stream exercises, not because of this theorem.  Over ℚ: a pass that does not stop the loop raises the objective `Q` by
    `increase_pass > tol ≥ 0`, so no label vector is met twice and `K^n + 1` passes suffice (`n` nodes, `K` cluster
    slots).  This is the statement left open as `SkNet.C06.optimize_core_terminates_full`. -/
theorem optimize_core_terminates (g : Modularity.Graph Rat) (hg : Modularity.GraphOK g) (res tol : Rat)
    (htol : 0 ≤ tol) (K : Nat) (st : Modularity.St Rat) (hinv : Modularity.CoreInv g K st) (fuel : Nat)
    (hf : K ^ g.n + 1 ≤ fuel) : Modularity.optimizeCore g res tol fuel st ≠ none :=
  Terminate.optimizeCore_terminates g hg res tol htol K st hinv fuel hf

/-- two nodes joined by one edge, degree weights -/
def pairLevel : Modularity.Level :=
  { n := 2, rows := [[(1, 1)], [(0, 1)]], outW := [1/2, 1/2], inW := [1/2, 1/2] }

theorem pairLevel_ok : Modularity.LevelOK pairLevel where
  lenR := by decide
  lenO := by decide
  lenI := by decide
  cols := by
    intro i hi
    have hi' : i < 2 := hi
    have : i = 0 ∨ i = 1 := by omega
    rcases this with rfl | rfl <;> decide +kernel
  sym := by
    intro u v hu hv
    have hu' : u < 2 := hu
    have hv' : v < 2 := hv
    have h1 : u = 0 ∨ u = 1 := by omega
    have h2 : v = 0 ∨ v = 1 := by omega
    rcases h1 with rfl | rfl <;> rcases h2 with rfl | rfl <;> decide +kernel

/-- non-vacuity: the hypotheses hold of the singletons on the one-edge graph with `tol = 0`, and the kernel
    indeed returns within the bound 2² + 1 = 5 (both nodes end in one cluster) -/
example : Modularity.optimizeCore pairLevel.graph 1 0 5
      { labels := Modularity.arange 2, outCl := pairLevel.outW, inCl := pairLevel.inW, cw := tab 2 fun _ => 0 } ≠ none :=
  optimize_core_terminates pairLevel.graph pairLevel_ok.graphOK 1 0 (le_refl 0) 2 _
    (Modularity.coreInv_singletons pairLevel pairLevel_ok) 5 (by decide)

/-- For a negative tolerance the statement is false: a pass that changes nothing has `increase_pass = 0 > tol`
    and does not stop the loop (`Louvain(tol_optimization < 0)` is outside the valid parameters). -/
theorem optimize_core_negative_tol_diverges (g : Modularity.Graph Rat) (res tol : Rat) (htol : tol < 0)
    (st : Modularity.St Rat) (hfix : Modularity.corePass g res st = (st, 0)) (fuel : Nat) :
    Modularity.optimizeCore g res tol fuel st = none := by
  unfold Modularity.optimizeCore
  rw [Terminate.coreLoop_negative_tol_diverges g res tol htol st hfix fuel]
  rfl

/-! ## 3. `MinHeap` and `compute_core`: in bounds and terminating, with the capacity of the vectors modelled -/

/-- **inbounds_core.**  Checked model of `minheap.pyx` + `core.pyx` (`SkNet/Model/KernelsHeap.lean`: every
    `vector`/memoryview access fails outside the *size* of the array, as under `-D_GLIBCXX_ASSERTIONS` /
    `boundscheck(True)`).  On every CSR structure with `n + 1` row pointers, rows ending inside `indices` and
    column indices `< n` — symmetric or not, sorted or not, with duplicates or self-loops — `compute_core`
    (with the repaired `__cinit__`, `resize(n)`) never leaves an array (`insert_key` writes at `size < n`, the
    sift loops stay below `size`, `pos[val[·]]` and `degrees[indices[·]]` are node-indexed), the recursion of
    `min_heapify` ends within the height budget, the `while not mh.empty()` loop within `n` rounds; and the result
    is the result of the unchecked model of C11 (so C11's `core_exact` speaks about the same values). -/
theorem inbounds_core (indptr indices : List Nat) (n : Nat) (hc : KHeap.CsrOK indptr indices n) :
    ∃ labels : List Int, KHeap.computeCore? true indptr indices = .ok labels ∧
      Topology.computeCore indptr indices = some labels ∧ labels.length = n :=
  KHeap.computeCore?_ok hc

/-- non-vacuity: a directed, unsorted structure with a self-loop and a sink (4 nodes, 6 entries) -/
example : KHeap.CsrOK [0, 3, 4, 6, 6] [2, 0, 1, 3, 3, 0] 4 ∧
    KHeap.computeCore? true [0, 3, 4, 6, 6] [2, 0, 1, 3, 3, 0] = .ok [2, 1, 2, 0] := by
  refine ⟨⟨by decide, by decide, by decide⟩, by decide +kernel⟩

/-- **The pinned `__cinit__` (`reserve(n)` only) is out of bounds on every non-empty graph** (defect F19): the
    vectors have size 0, the first `insert_key` writes `val[0]` outside it.  Witness: the path on 4 nodes. -/
theorem minheap_reserve_out_of_bounds :
    KHeap.computeCore? false [0, 1, 3, 5, 6] [1, 0, 2, 1, 3, 2] = .error .oob ∧
    KHeap.computeCore? true [0, 1, 3, 5, 6] [1, 0, 2, 1, 3, 2] = .ok [1, 1, 1, 1] := by
  constructor <;> decide +kernel

/-! ## 4. Weisfeiler–Lehman: the colour counter stays an index of `powers` -/

/-- **wl_colours_in_range.**  The one access of `weisfeiler_lehman_coloring` on a fixed array that the index kinds
    cannot type is `powers[labels[j]]` (`powers` has `n` cells, the colours come from a counter).  On the model of
    C02, for any hash: every colour produced by a round is `< n` — the counter starts at 0 and is bumped at most
    once per sorted node after the first — and the kernel keeps colours `< n` whatever the number of rounds; the
    `while iteration < max_iter and has_changed` loop makes at most `max_iter ≤ n` rounds (the model recurses on
    that bound). -/
theorem wl_colours_in_range (ops : WL.HashOps H) (adj : List (List Nat)) (k : Nat) (labels : List Nat) (ch : Bool)
    (h : ∀ c ∈ labels, c < adj.length) : ∀ c ∈ (WL.coloring ops adj k labels ch).1, c < adj.length :=
  KWL.coloring_lt ops adj k labels ch h

/-- `color_weisfeiler_lehman` on a non-empty graph only returns colours `< n` -/
theorem wl_entry_colours_in_range (ops : WL.HashOps H) (adj : List (List Nat)) (maxIter : Option Nat)
    (hn : 0 < adj.length) : ∀ c ∈ WL.colorWL ops adj maxIter, c < adj.length :=
  KWL.colorWL_lt ops adj maxIter hn

/-- non-vacuity: the path 0–1–2 gets the colours `[0, 1, 0]`, all `< 3` -/
example : WL.colorWL WL.exactOps [[1], [0, 2], [1]] none = [0, 1, 0] := by decide +kernel

/-! ## 5. More loops: the outer loop of Louvain, the work-list of push -/

/-! ### the outer loops, on the chain that mirrors the code as compiled now (pass caps of F21 / F22 in the kernels) -/

/-- **louvain_fit_terminates.**  On the chain that mirrors the code as it is compiled now
    (`SkNet.Modularity.louvainFitCapped`: `optimize_core` returns after at most `n + 1` passes, /repo 244a467f), over ℚ:
    once the input is accepted, `Louvain.fit` returns for **every** `tol_optimization` — the kernel is total by its cap,
    no budget appears — and every `tol_aggregation ≥ 0`: the increase a round reports is still exactly the change of `Q`,
    so a round that continues strictly decreases the number of nodes and the `n + 1` rounds are never exhausted.
    (`optimize_core_terminates` above is about the loop *without* the cap: it says the cap is not what ends the loop
    in exact arithmetic within `K^n + 1` passes; `Modularity.coreCapped_of_coreLoop` relates the two when the
    uncapped loop ends within `n + 1` passes.) -/
theorem louvain_fit_terminates (kind : Modularity.Kind) (res tolOpt tolAgg : Rat) (htolAgg : 0 ≤ tolAgg)
    (nAgg : Int) (nRow nCol nnz : Nat) (B : Nat → Nat → Rat) (fb : Bool) :
    Modularity.louvainFitCapped kind res tolOpt tolAgg nAgg nRow nCol nnz B fb ≠ .ok none :=
  Terminate.louvainFitCapped_terminates kind res tolOpt tolAgg htolAgg nAgg nRow nCol nnz B fb

/-- the outer loop alone, on any well-formed level -/
theorem louvain_outer_terminates (res tolOpt tolAgg : Rat) (htolAgg : 0 ≤ tolAgg) (nAgg : Int)
    (fuel count : Nat) (lv : Modularity.Level) (memb : List Nat) (incs : List Rat) (hlv : Modularity.LevelOK lv)
    (hf : lv.n + 1 ≤ fuel) :
    Modularity.louvainLoopCapped res tolOpt tolAgg nAgg fuel count lv memb incs ≠ none :=
  Terminate.louvainLoopCapped_terminates res tolOpt tolAgg htolAgg nAgg fuel count lv memb incs hlv hf

/-- non-vacuity: the pair level with both tolerances 0 -/
example : (Modularity.louvainLoopCapped 1 0 0 (-1) 3 0 pairLevel (Modularity.arange 2) []).map (·.labels)
    = some [0, 0] := by decide +kernel

/-- **leiden_fit_terminates.**  `Leiden.fit` (model `SkNet.Modularity.leidenFit`, which mirrors the progress
    condition of /repo b2c73765: a round whose refinement merges no node ends the loop) terminates once the input is
    accepted — for **every** tolerance and every sequence of `rand()` values, and without any assumption on the
    increase the kernel reports (the float32 noise that kept the loop alive, defect F25, cannot any more): a round that
    continues has strictly fewer nodes, both kernels return by their pass caps, `n + 1` rounds suffice. -/
theorem leiden_fit_terminates (kind : Modularity.Kind) (res tolOpt tolAgg : Rat) (nAgg : Int) (nRow nCol nnz : Nat)
    (B : Nat → Nat → Rat) (fb : Bool) (rands : List (List Nat)) (lv : Modularity.Level)
    (hpre : Modularity.preProcess kind nRow nCol nnz B fb = .ok lv) (outerFuel : Nat) (hf : lv.n + 1 ≤ outerFuel) :
    Modularity.leidenFit kind res tolOpt tolAgg nAgg nRow nCol nnz B fb outerFuel rands ≠ .ok none :=
  Terminate.leidenFit_terminates kind res tolOpt tolAgg nAgg nRow nCol nnz B fb rands lv hpre outerFuel hf

/-- the outer loop alone, on any well-formed level -/
theorem leiden_outer_terminates (res tolOpt tolAgg : Rat) (nAgg : Int) (fuel count : Nat) (lv : Modularity.Level)
    (labels memb : List Nat) (incs : List Rat) (rands : List (List Nat)) (hlv : Modularity.LevelOK lv)
    (hf : lv.n + 1 ≤ fuel) :
    Modularity.leidenLoop res tolOpt tolAgg nAgg fuel count lv labels memb incs rands ≠ none :=
  Terminate.leidenLoop_terminates res tolOpt tolAgg nAgg fuel count lv labels memb incs rands hlv hf

/-- non-vacuity: the pair level, tolerances 0 -/
example : (Modularity.leidenLoop 1 0 0 (-1) 3 0 pairLevel [0, 1] [0, 1] [] [[7, 3]]).map (·.labels) = some [0, 0] := by
  decide +kernel

/-- **push_worklist_terminates.**  The `while not worklist.empty()` loop of `push_pagerank` (model
    `SkNet.Rank.pushLoop`, exact arithmetic) terminates: a vertex re-enters the work-list only when its residual
    crosses the tolerance from below, residuals never decrease, so `|work-list| + n` rounds suffice
    (`2n` from the initial list of all vertices). -/
theorem push_worklist_terminates (g : Rank.Graph ℚ) (deg : List ℚ) (a tol : ℚ) (ha : a ≤ 1)
    (hdeg : ∀ v, 0 ≤ deg.getD v 0) (st : Rank.PState ℚ) (hg : ∀ v, ∀ p ∈ g.row v, p.1 < st.resid.length)
    (hnn : ∀ v, 0 ≤ st.resid.getD v 0) (fuel : Nat) (hf : st.work.length + st.resid.length ≤ fuel) :
    Rank.pushLoop g deg a tol fuel st ≠ none := by
  apply Terminate.pushLoop_terminates g deg a tol ha hdeg st.resid.length hg fuel st hnn rfl
  have : (Terminate.belowTol st.resid tol).card ≤ st.resid.length := by
    unfold Terminate.belowTol
    exact le_trans (Finset.card_filter_le _ _) (by simp)
  simp only [Terminate.pushMeasure]
  omega

/-- non-vacuity: two vertices joined by one edge, residuals `[1/4, 1/4]`, tolerance `1/3`, damping `1/2` -/
example : Rank.pushLoop (α := ℚ) ⟨2, fun i => if i = 0 then [(1, 1)] else if i = 1 then [(0, 1)] else []⟩ [1, 1]
    (1/2) (1/3) 4 ⟨[1/2, 1/2], [1/4, 1/4], [0, 1]⟩ ≠ none := by
  apply push_worklist_terminates
  · norm_num
  · intro v
    rw [List.getD_eq_getElem?_getD]
    rcases v with _ | _ | v <;> simp
  · intro v p hp
    simp only at hp
    split at hp
    · simp only [List.mem_singleton] at hp; subst hp; decide
    · split at hp
      · simp only [List.mem_singleton] at hp; subst hp; decide
      · simp at hp
  · intro v
    rw [List.getD_eq_getElem?_getD]
    rcases v with _ | _ | v <;> simp
  · decide

/-- **louvain_hierarchy_terminates.**  The `while 1` loop of `LouvainHierarchy._get_hierarchy` (model
    `SkNet.Hier.getHierarchyLoop`; the successive results of `fit_predict` are an input of the model) ends as soon
    as the number of clusters stops changing, and it can only strictly decrease: if every result has one label per
    cluster of the previous one (`Chained`: what `fit_predict` on the aggregate returns), the loop needs at most as
    many further rounds as there are clusters in the first result.  The statement is conditional on `Chained` and on a
    recorded sequence longer than the number of clusters (`hlen`); it bounds the number of *rounds* — each round is a whole
    `Louvain.fit`, whose own termination is `louvain_fit_terminates`. -/
theorem louvain_hierarchy_terminates (more : List (List Nat)) (items : List Hier.Tree) (labels labelsUnique : List Nat)
    (hch : Terminate.Chained labelsUnique.length more) (hlen : labelsUnique.length < more.length) :
    Hier.getHierarchyLoop more items labels labelsUnique ≠ none :=
  Terminate.getHierarchyLoop_terminates more items labels labelsUnique hch hlen

/-- non-vacuity: 4 nodes in 3 clusters, then 3 → 2 clusters, then 2 → 2: stops at the third round -/
example : Terminate.Chained 3 [[0, 0, 1], [0, 1], [0, 1], [0, 0]] ∧
    (Hier.getHierarchyLoop [[0, 0, 1], [0, 1], [0, 1], [0, 0]] ((List.range 4).map .leaf) [0, 1, 1, 2] [0, 1, 2]).isSome = true := by
  refine ⟨?_, by decide +kernel⟩
  refine ⟨rfl, by decide +kernel, by decide +kernel, by decide +kernel, trivial⟩

/-! ## 6. `vote_update`: in bounds, including the scratch vectors and the `votes` buffer (the sites of defect F2) -/

/-- **inbounds_vote.**  Checked model of the repaired `vote_update` (`SkNet/Model/KernelsVote.lean`), in unbounded
    integers.  The kernel computes the size of `votes`, `labels[i] + 1`, in C `int`: the model agrees with it only for
    labels `< 2^31 - 1` (hypothesis `hint`; for `INT32_MAX` the sum wraps and the kernel writes past the buffer —
    defect F23; `Propagation.fit` now renumbers the seeds `0..k-1` before the sweeps, so the kernel only sees labels
    `< n`).  On every well-formed square CSR matrix (`Csr.WF`, what scipy guarantees), with one label per node
    (negative = unlabelled) and an update index of nodes, no access leaves its array: `data` is read at the edge position,
    the scratch vectors `labels_neigh`/`votes_neigh` are read below their common size, `votes` — `max(labels) + 1`
    cells — is only indexed by labels that occur in `labels`, and a sweep never introduces a new label.  The
    result is the result of the unchecked model of C13.  (For the pinned kernel the corresponding statement is
    false: `SkNet.C13.pinned_vote_out_of_bounds`.) -/
theorem inbounds_vote (c : Csr Rat) (hwf : c.WF = true) (hsq : c.nRow = c.nCol) (labels : List Int)
    (hl : labels.length = c.nRow) (hint : ∀ l ∈ labels, l < 2 ^ 31 - 1) (index : List Nat)
    (hidx : ∀ i ∈ index, i < c.nRow) :
    KVote.voteUpdate? c labels index = .ok (Vote.voteUpdate c labels index) ∧
    (Vote.nLabels labels : Int) < 2 ^ 31 :=
  ⟨KVote.voteUpdate?_ok (KVote.csrOK_of_wf c hwf hsq) labels hl index hidx, KVote.nLabels_lt_int32 labels hint⟩

/-- the C `int` computation `labels[i] + 1` at `INT32_MAX`: the wrapped sum is negative, no cell is allocated,
    and the first vote for that label is out of the buffer (witness of F23 at the level of the arithmetic) -/
example : KVote.wrap32 ((2 ^ 31 - 1 : Int) + 1) = -(2 ^ 31) ∧ ¬ ((2 ^ 31 - 1 : Int) < 2 ^ 31 - 1) := by decide

/-- non-vacuity: the one-edge graph on 6 nodes (nnz = 2 < n, the input on which the pinned kernel read
    `data[jj]` out of bounds), seeds 7 and 9 on the two end points (labels ≥ n = 6, on which the pinned
    kernel wrote past `votes`), every node updated -/
example :
    let c : Csr Rat := { nRow := 6, nCol := 6, indptr := #[0, 1, 2, 2, 2, 2, 2], indices := #[1, 0], data := #[1, 1] }
    c.WF = true ∧
    KVote.voteUpdate? c [7, 9, -1, -1, -1, -1] [0, 1, 2, 3, 4, 5]
      = .ok [9, 9, -1, -1, -1, -1] := by
  refine ⟨by decide +kernel, by decide +kernel⟩

/-! ## 7. the refinement of Leiden -/

/-- **refine_core_terminates** (over ℚ, the loop *without* its pass cap).  The compiled `optimize_refine_core`
    always returns because of its bound on the number of passes (`while increase and n_pass < 100`, /repo 68bb875c then
    695ec4cc — the float32 kernel cycled without it, defect F21, and a bound of `n + 1` passes made such runs quadratic,
    defect F29); the model of the code, `SkNet.Modularity.refineCore` / `refineCapped`, is a total function
    for that reason and needs no theorem.  What is proved here is that in exact arithmetic the cap is not what ends the
    loop within `K^n + 1` passes: the `while increase` loop without the cap (`SkNet.Modularity.refineLoop`) terminates
    for **every** sequence of values of `rand()`:
    a node only moves to a refined cluster whose `delta_local` is strictly positive; the refined partition refines
    the clusters, so the neighbour loop restricted to the node's own cluster sees the whole link towards each
    candidate and `delta_local` is exactly the change of `Q` of the refined partition; a pass that sets `increase`
    strictly raises `Q`, no refined label vector is met twice: `K^n + 1` passes suffice.  (Exponential bound: this is
    termination, not a time bound.) -/
theorem refine_core_terminates (g : Modularity.Graph Rat) (hg : Modularity.GraphOK g) (res : Rat) (K : Nat)
    (labels : List Nat) (st : Modularity.RSt Rat) (hinv : Terminate.RInv g K labels st) (rands : List Nat)
    (fuel : Nat) (hf : K ^ g.n + 1 ≤ fuel) : Modularity.refineLoop g res labels fuel st rands ≠ none :=
  Terminate.refineCore_terminates g hg res K labels st hinv rands fuel hf

/-- from the start state of `Leiden._optimize_refine` (singletons, node weights, zero scratch), on every well-formed
    level -/
theorem leiden_refine_terminates (lv : Modularity.Level) (hlv : Modularity.LevelOK lv) (res : Rat)
    (labels : List Nat) (rands : List Nat) (fuel : Nat) (hf : lv.n ^ lv.n + 1 ≤ fuel) :
    Modularity.refineLoop lv.graph res labels fuel
      { refined := Modularity.arange lv.n, outCl := lv.outW, inCl := lv.inW, cw := tab lv.n fun _ => 0 } rands
      ≠ none :=
  Terminate.leidenRefine_terminates lv hlv res labels rands fuel hf

/-- non-vacuity: the pair level, both nodes in one cluster: the refinement joins them whatever `rand()` says, and the
    capped kernel returns the same labels -/
example : (Modularity.refineLoop pairLevel.graph 1 [0, 0] 5
      { refined := Modularity.arange 2, outCl := pairLevel.outW, inCl := pairLevel.inW, cw := tab 2 fun _ => 0 }
      [7, 3]).map (·.1.refined) = some [1, 1] ∧
    (Modularity.leidenRefine pairLevel 1 0 [0, 0] [7, 3]).map (·.1) = some [1, 1] := by
  refine ⟨by decide +kernel, by decide +kernel⟩

end SkNet.C17
