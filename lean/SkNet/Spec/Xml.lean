/-
Specification side of C20: a small recogniser of well-formed XML documents, independent of how the drawing
functions build their strings.

`parse` reads a string into pieces; `balanced` checks nesting, the single root, attribute uniqueness and that
only blanks occur outside the root; `wf s` = both succeed.  The recogniser accepts a *subset* of XML 1.0
(no prolog, comments, processing instructions, CDATA sections, DOCTYPE; ASCII names; no blanks around `=`;
no raw `>` in character data) — every string it accepts is a
well-formed XML 1.0 document whose root is the first start tag.
-/
import SkNet.Model.Xml

namespace SkNet.Svg

def isWs (c : Nat) : Bool := c == 32 || c == 9 || c == 10 || c == 13

def isNameStart (c : Nat) : Bool :=
  (65 ≤ c && c ≤ 90) || (97 ≤ c && c ≤ 122) || c == 95 || c == 58

def isNameChar (c : Nat) : Bool :=
  isNameStart c || (48 ≤ c && c ≤ 57) || c == 45 || c == 46

/-- a (restricted, ASCII) XML `Name` -/
def nameOk (n : PyStr) : Bool :=
  match n with
  | [] => false
  | c :: r => isNameStart c && r.all isNameChar

/-- a character of character data written as itself -/
def textCharOk (c : Nat) : Bool := isXmlChar c && c != 60 && c != 38 && c != 62

/-- a character inside a quoted attribute value (quote `q`) -/
def attrCharOk (q c : Nat) : Bool := isXmlChar c && c != 60 && c != 38 && c != q

def isDigit (c : Nat) : Bool := 48 ≤ c && c ≤ 57
def isHexDigit (c : Nat) : Bool := isDigit c || (65 ≤ c && c ≤ 70) || (97 ≤ c && c ≤ 102)

def decVal (ds : PyStr) : Nat := ds.foldl (fun a d => 10 * a + (d - 48)) 0
def hexVal (ds : PyStr) : Nat :=
  ds.foldl (fun a d => 16 * a + (if d ≤ 57 then d - 48 else if d ≤ 70 then d - 55 else d - 87)) 0

/-- the body of a reference `&body;`: one of the five predefined entities or a character reference to an XML `Char` -/
def refOk (b : PyStr) : Bool :=
  b == py!"amp" || b == py!"lt" || b == py!"gt" || b == py!"quot" || b == py!"apos" ||
  (match b with
   | 35 :: 120 :: ds => !ds.isEmpty && ds.all isHexDigit && isXmlChar (hexVal ds)
   | 35 :: ds => !ds.isEmpty && ds.all isDigit && isXmlChar (decVal ds)
   | _ => false)

/-- the character a reference stands for -/
def refChar (b : PyStr) : Nat :=
  if b == py!"amp" then 38 else if b == py!"lt" then 60 else if b == py!"gt" then 62
  else if b == py!"quot" then 34 else if b == py!"apos" then 39
  else match b with
    | 35 :: 120 :: ds => hexVal ds
    | 35 :: ds => decVal ds
    | _ => 0

/-- longest prefix satisfying `p`, and the rest -/
def spanP (p : Nat → Bool) : PyStr → PyStr × PyStr
  | [] => ([], [])
  | c :: r => if p c then let (a, b) := spanP p r; (c :: a, b) else ([], c :: r)

/-- an attribute value between quotes `q`: XML characters other than `<` and the quote, `&` only as the start of a
    reference `&body;` -/
def attrValOk (q : Nat) : Nat → PyStr → Bool
  | 0, _ => false
  | _+1, [] => true
  | f+1, c :: r =>
    if c = 38 then
      match spanP (fun x => x != 59) r with
      | (b, _ :: r2) => refOk b && attrValOk q f r2
      | (_, []) => false
    else isXmlChar c && c != 60 && c != q && attrValOk q f r

/-- attributes up to and including the `>` or `/>` that ends the tag:
    `(attributes, trailing blanks, self-closing?, rest)` -/
def parseAttrs : Nat → PyStr → Option (List Attr × PyStr × Bool × PyStr)
  | 0, _ => none
  | f+1, s =>
    let (ws, r) := spanP isWs s
    match r with
    | [] => none
    | c :: r' =>
      if c = 62 then some ([], ws, false, r')
      else if c = 47 then
        (match r' with
         | d :: r'' => if d = 62 then some ([], ws, true, r'') else none
         | [] => none)
      else if ws.isEmpty then none
      else
        let (key, r1) := spanP isNameChar (c :: r')
        if !nameOk key then none
        else match r1 with
          | e :: q :: r2 =>
            if e = 61 ∧ (q = 34 ∨ q = 39) then
              let (val, r3) := spanP (fun x => x != q) r2
              match r3 with
              | [] => none
              | _ :: r4 =>
                if attrValOk q (val.length + 1) val then
                  match parseAttrs f r4 with
                  | some (as, t, sc, rest) => some (⟨ws, key, q, val⟩ :: as, t, sc, rest)
                  | none => none
                else none
            else none
          | _ => none

/-- one piece per step; `none` = not in the recognised language -/
def parse : Nat → PyStr → Option (List Piece)
  | 0, _ => none
  | _+1, [] => some []
  | f+1, c :: r =>
    if c = 60 then
      match r with
      | [] => none
      | d :: r' =>
        if d = 47 then
          let (name, r1) := spanP isNameChar r'
          let (ws, r2) := spanP isWs r1
          match r2 with
          | e :: r3 =>
            if e = 62 ∧ nameOk name then (parse f r3).map (Piece.ctag name ws :: ·) else none
          | [] => none
        else
          let (name, r1) := spanP isNameChar (d :: r')
          if !nameOk name then none
          else match parseAttrs (r1.length + 1) r1 with
            | some (as, t, sc, r2) =>
              (parse f r2).map ((if sc then Piece.etag name as t else Piece.otag name as t) :: ·)
            | none => none
    else if c = 38 then
      let (body, r1) := spanP (fun x => x != 59) r
      match r1 with
      | _ :: r2 => if refOk body then (parse f r2).map (Piece.ref body :: ·) else none
      | [] => none
    else if textCharOk c then (parse f r).map (Piece.chr c :: ·)
    else none

def parseDoc (s : PyStr) : Option (List Piece) := parse (s.length + 1) s

/-- no attribute name occurs twice -/
def attrsUnique : List Attr → Bool
  | [] => true
  | a :: as => !(as.any (fun b => b.key == a.key)) && attrsUnique as

/-- nesting: `stk` = names of the open elements (innermost first), `seen` = the root has started -/
def balanced : List Piece → List PyStr → Bool → Bool
  | [], stk, seen => stk.isEmpty && seen
  | .otag n as _ :: r, stk, seen => !(stk.isEmpty && seen) && attrsUnique as && balanced r (n :: stk) true
  | .etag _ as _ :: r, stk, seen => !(stk.isEmpty && seen) && attrsUnique as && balanced r stk true
  | .ctag n _ :: r, stk, seen =>
    (match stk with
     | [] => false
     | m :: stk' => n == m && balanced r stk' seen)
  | .chr c :: r, stk, seen => (!stk.isEmpty || isWs c) && balanced r stk seen
  | .ref _ :: r, stk, seen => !stk.isEmpty && balanced r stk seen

/-- the string is a well-formed XML document (of the recognised subset) -/
def wf (s : PyStr) : Bool :=
  match parseDoc s with
  | some ps => balanced ps [] false
  | none => false

/-! ### reading a file: strict UTF-8 decoding (no overlong forms, no surrogates, at most U+10FFFF) -/

def isCont (b : Nat) : Bool := 0x80 ≤ b && b ≤ 0xBF

/-- one code point per step; `none` = the bytes are not UTF-8 -/
def utf8DecodeF : Nat → List Nat → Option PyStr
  | 0, _ => none
  | _+1, [] => some []
  | f+1, b0 :: r =>
    if b0 < 0x80 then (utf8DecodeF f r).map (b0 :: ·)
    else if 0xC2 ≤ b0 ∧ b0 ≤ 0xDF then
      match r with
      | b1 :: r1 =>
        if isCont b1 then (utf8DecodeF f r1).map (((b0 - 0xC0) * 64 + (b1 - 0x80)) :: ·) else none
      | _ => none
    else if 0xE0 ≤ b0 ∧ b0 ≤ 0xEF then
      match r with
      | b1 :: b2 :: r2 =>
        let c := (b0 - 0xE0) * 4096 + (b1 - 0x80) * 64 + (b2 - 0x80)
        if isCont b1 ∧ isCont b2 ∧ 0x800 ≤ c ∧ ¬ (0xD800 ≤ c ∧ c ≤ 0xDFFF) then
          (utf8DecodeF f r2).map (c :: ·)
        else none
      | _ => none
    else if 0xF0 ≤ b0 ∧ b0 ≤ 0xF4 then
      match r with
      | b1 :: b2 :: b3 :: r3 =>
        let c := (b0 - 0xF0) * 262144 + (b1 - 0x80) * 4096 + (b2 - 0x80) * 64 + (b3 - 0x80)
        if isCont b1 ∧ isCont b2 ∧ isCont b3 ∧ 0x10000 ≤ c ∧ c < 0x110000 then
          (utf8DecodeF f r3).map (c :: ·)
        else none
      | _ => none
    else none

/-- `bytes.decode('utf-8')` -/
def utf8Decode (bytes : List Nat) : Option PyStr := utf8DecodeF (bytes.length + 1) bytes

/-! ### what is in a parsed document -/

/-- name of the root element -/
def rootName : List Piece → Option PyStr
  | [] => none
  | .otag n _ _ :: _ => some n
  | .etag n _ _ :: _ => some n
  | .chr _ :: r => rootName r
  | _ :: _ => none

def attrVal? (as : List Attr) (k : PyStr) : Option PyStr :=
  (as.find? (fun a => a.key == k)).map (·.val)

/-- elements (start or empty tags) named `n` satisfying `p` on their attributes -/
def countElems (n : PyStr) (p : List Attr → Bool) : List Piece → Nat
  | [] => 0
  | .otag m as _ :: r => (if m == n && p as then 1 else 0) + countElems n p r
  | .etag m as _ :: r => (if m == n && p as then 1 else 0) + countElems n p r
  | _ :: r => countElems n p r

/-- pieces strictly inside `defs` elements removed (marker definitions are not part of the drawing proper) -/
def dropDefs : List Piece → Nat → List Piece
  | [], _ => []
  | .otag m as t :: r, d =>
    if m == py!"defs" then dropDefs r (d+1)
    else if d = 0 then .otag m as t :: dropDefs r d else dropDefs r (d+1)
  | .ctag m t :: r, d =>
    if d = 0 then .ctag m t :: dropDefs r d else dropDefs r (d-1)
  | p :: r, d => if d = 0 then p :: dropDefs r d else dropDefs r d

/-- character data up to the next tag, with references resolved -/
def textUpToTag : List Piece → PyStr
  | .chr c :: r => c :: textUpToTag r
  | .ref b :: r => refChar b :: textUpToTag r
  | _ => []

/-- the displayed text of every `text` element, in document order -/
def textContents : List Piece → List PyStr
  | [] => []
  | .otag m _ _ :: r => if m == py!"text" then textUpToTag r :: textContents r else textContents r
  | _ :: r => textContents r

/-- what a name is displayed as by the repaired code: characters XML cannot represent are shown as U+FFFD -/
def displayed (s : PyStr) : PyStr := s.map fun c => if isXmlChar c then c else 0xFFFD

/-- a character every sanitiser must show as itself: an XML character that is neither markup (`& < > " '`),
    nor white space, nor the replacement character -/
def isPlain (c : Nat) : Bool :=
  isXmlChar c && c != 38 && c != 60 && c != 62 && c != 34 && c != 39 && !isWs c && c != 0xFFFD

/-- the plain characters of a string, in order (a sanitiser-independent weakening of "the text shows the name", kept
    as a corollary: `plainOf_displayed`; the specification itself demands the exact text `displayed name`) -/
def plainOf (s : PyStr) : PyStr := s.filter isPlain

end SkNet.Svg
