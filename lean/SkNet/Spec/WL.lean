/-
Colour refinement, specified without any colour numbers, hashes or sorting:
`sameClass adj k u v` — after `k` rounds of refinement the nodes `u` and `v` are still together:
they were together after `k-1` rounds and their out-neighbourhoods contain the same number of members
of every round-(k-1) class (the class of `w`, for every node `w`).  "Refinement cannot separate u and v" is `∀ k, sameClass adj k u v`.
-/
import SkNet.Model.Basic

namespace SkNet.WL

def nbrs (adj : List (List Nat)) (u : Nat) : List Nat := adj.getD u []

def sameClass (adj : List (List Nat)) : Nat → Nat → Nat → Bool
  | 0, _, _ => true
  | k+1, u, v =>
    sameClass adj k u v &&
    (List.range adj.length).all fun w =>
      (nbrs adj u).countP (sameClass adj k w) == (nbrs adj v).countP (sameClass adj k w)

/-- refinement never separates `u` and `v` -/
def Inseparable (adj : List (List Nat)) (u v : Nat) : Prop := ∀ k, sameClass adj k u v = true

/-- the colouring `labels` groups the nodes exactly as round `k` of refinement does -/
def groupsAs (adj : List (List Nat)) (k : Nat) (labels : List Nat) : Bool :=
  (List.range adj.length).all fun u => (List.range adj.length).all fun v =>
    (labels.getD u 0 == labels.getD v 0) == sameClass adj k u v

/-- the partition of round `k` is stable (round `k+1` separates nothing more) -/
def stableAt (adj : List (List Nat)) (k : Nat) : Bool :=
  (List.range adj.length).all fun u => (List.range adj.length).all fun v =>
    sameClass adj (k+1) u v == sameClass adj k u v

/-! ### memoised evaluation (what the driver runs); `classTab_eq`, `groupsAsT_eq`, `stableAtT_eq`, `groupsAsStable_iff` in Lemmas/WLSpecTab.lean
(collected as `C02.spec_lines_sound`) tie them to `sameClass` / `Inseparable` -/

def tget (t : List (List Bool)) (u v : Nat) : Bool := (t.getD u []).getD v false

def classTab (adj : List (List Nat)) : Nat → List (List Bool)
  | 0 => tab adj.length fun _ => tab adj.length fun _ => true
  | k+1 =>
    let t := classTab adj k
    tab adj.length fun u => tab adj.length fun v =>
      tget t u v &&
      (List.range adj.length).all fun w =>
        (nbrs adj u).countP (tget t w) == (nbrs adj v).countP (tget t w)

/-- the class table of the first stable round `≤ fuel` rounds ahead (stability persists: `stable_forever`),
    with the number of rounds used -/
def stableTab (adj : List (List Nat)) : Nat → Nat → List (List Bool) → Nat × List (List Bool)
  | 0, k, t => (k, t)
  | fuel+1, k, t =>
    let t' := tab adj.length fun u => tab adj.length fun v =>
      tget t u v &&
      (List.range adj.length).all fun w =>
        (nbrs adj u).countP (tget t w) == (nbrs adj v).countP (tget t w)
    if t' == t then (k, t) else stableTab adj fuel (k+1) t'

/-- do the colours group the nodes exactly as the stable refinement does? -/
def groupsAsStable (adj : List (List Nat)) (labels : List Nat) : Bool :=
  let t := (stableTab adj adj.length 0 (classTab adj 0)).2
  (List.range adj.length).all fun u => (List.range adj.length).all fun v =>
    (labels.getD u 0 == labels.getD v 0) == tget t u v

def groupsAsT (adj : List (List Nat)) (k : Nat) (labels : List Nat) : Bool :=
  let t := classTab adj k
  (List.range adj.length).all fun u => (List.range adj.length).all fun v =>
    (labels.getD u 0 == labels.getD v 0) == tget t u v

def stableAtT (adj : List (List Nat)) (k : Nat) : Bool :=
  let t := classTab adj k
  let t' := classTab adj (k+1)
  (List.range adj.length).all fun u => (List.range adj.length).all fun v => tget t' u v == tget t u v

end SkNet.WL
