/-
Specification side of C14 (heat diffusion), independent of the iteration of the code.

* the maximum principle and the boundary condition as predicates on an *output vector*, given the
  abstract seeds (node, temperature) — `maxPrinciple`, `boundaryKept`;
* the harmonic extension: `IsHarmonic` (Prop, used by the theorems) / `isHarmonicB` (executable): a function
  equal to the seed temperature on the seeds and to the weighted mean of its neighbours elsewhere, written
  without division:  (Σ_j w i j) · h i = Σ_j w i j · h j;
* `solveHarmonic`: Gauss–Jordan elimination over ℚ that *proposes* such a function; the spec line of the driver
  verifies the proposal with `isHarmonicB` (the solver is not trusted) and compares the implementation's
  output with it.  Uniqueness of the harmonic function is `SkNet.C14.harmonic_unique`.
-/
import SkNet.Model.Basic

namespace SkNet.HeatSpec

/-- `Σ_{j<n} f j` -/
def total : Nat → (Nat → Rat) → Rat
  | 0, _ => 0
  | n+1, f => total n f + f n

def absR (x : Rat) : Rat := if x < 0 then -x else x

/-- abstract seeds: (node, temperature ≥ 0), nodes distinct -/
abbrev Seeds := List (Nat × Rat)

def seedTemp? (s : Seeds) (i : Nat) : Option Rat := (s.find? fun p => p.1 == i).map (·.2)

def isSeed (s : Seeds) (i : Nat) : Bool := (seedTemp? s i).isSome

def minList : List Rat → Option Rat
  | [] => none
  | x :: xs => match minList xs with
    | none => some x
    | some m => some (if x ≤ m then x else m)

def maxList : List Rat → Option Rat
  | [] => none
  | x :: xs => match maxList xs with
    | none => some x
    | some m => some (if m ≤ x then x else m)

/-- `lo − tol·(1+|x|) ≤ x ≤ hi + tol·(1+|x|)` (DESIGN §8; `tol = 0` is the exact statement) -/
def within (lo hi tol x : Rat) : Bool :=
  decide (lo - tol * (1 + absR x) ≤ x) && decide (x ≤ hi + tol * (1 + absR x))

/-- every value lies between the smallest and the largest initial temperature -/
def maxPrinciple (lo hi tol : Rat) (out : List Rat) : Bool := out.all (within lo hi tol)

/-- the seeds are returned unchanged (exactly) -/
def boundaryKept (s : Seeds) (out : List Rat) : Bool :=
  s.all fun p => decide (p.1 < out.length) && out.getD p.1 0 == p.2

/-! ### harmonic functions -/

/-- `h` equals the seeds on the boundary and the weighted mean of its neighbours elsewhere -/
def IsHarmonic (n : Nat) (w : Nat → Nat → Rat) (seed : Nat → Bool) (temp : Nat → Rat) (h : Nat → Rat) : Prop :=
  ∀ i, i < n →
    (seed i = true → h i = temp i) ∧
    (seed i = false → (total n fun j => w i j) * h i = total n fun j => w i j * h j)

def isHarmonicB (n : Nat) (w : Nat → Nat → Rat) (s : Seeds) (h : List Rat) : Bool :=
  h.length == n && (List.range n).all fun i =>
    match seedTemp? s i with
    | some t => h.getD i 0 == t
    | none => (total n fun j => w i j) * h.getD i 0 == total n fun j => w i j * h.getD j 0

/-! ### connection to the boundary -/

/-- node `i` reaches a seed within `t` steps along edges of positive weight -/
inductive ReachesSeed (n : Nat) (w : Nat → Nat → Rat) (seed : Nat → Bool) : Nat → Nat → Prop
  | here {i t : Nat} : i < n → seed i = true → ReachesSeed n w seed t i
  | step {i j t : Nat} : i < n → 0 < w i j → ReachesSeed n w seed t j → ReachesSeed n w seed (t+1) i

/-- a path of edges of positive weight inside the `n` nodes -/
inductive Path (n : Nat) (w : Nat → Nat → Rat) : Nat → Nat → Prop
  | refl {i : Nat} : i < n → Path n w i i
  | head {i k j : Nat} : i < n → 0 < w i k → Path n w k j → Path n w i j

/-- the graph is connected -/
def Connected (n : Nat) (w : Nat → Nat → Rat) : Prop := ∀ i j, i < n → j < n → Path n w i j

/-- one round of backward closure: `v` is marked when it is, or when an edge of positive weight leads to a marked node -/
def reachStep (n : Nat) (w : Nat → Nat → Rat) (r : List Bool) : List Bool :=
  tab n fun v => r.getD v false || (List.range n).any fun u => decide (0 < w v u) && r.getD u false

/-- the nodes that reach a seed within `k` steps -/
def reachIter (n : Nat) (w : Nat → Nat → Rat) (s : Seeds) : Nat → List Bool
  | 0 => tab n fun v => isSeed s v
  | k+1 => reachStep n w (reachIter n w s k)

/-- every node reaches a seed along edges of positive weight (executable guard of the harmonic spec lines) -/
def allReachSeed (n : Nat) (w : Nat → Nat → Rat) (s : Seeds) : Bool := (reachIter n w s n).all id

def nonnegW (n : Nat) (w : Nat → Nat → Rat) : Bool :=
  (List.range n).all fun i => (List.range n).all fun j => decide (0 ≤ w i j)

/-- the linear system of the Dirichlet problem as an augmented `n × (n+1)` matrix -/
def dirichletSystem (n : Nat) (w : Nat → Nat → Rat) (s : Seeds) : Array (Array Rat) :=
  Array.ofFn (n := n) fun i =>
    match seedTemp? s i.val with
    | some t => Array.ofFn (n := n+1) fun j => if j.val == i.val then 1 else if j.val == n then t else 0
    | none =>
      let d := total n fun j => w i.val j
      Array.ofFn (n := n+1) fun j =>
        if j.val == n then 0
        else (if j.val == i.val then d else 0) - w i.val j.val

/-- Gauss–Jordan elimination; `none` when a pivot is missing (singular system) -/
def gaussJordan (n : Nat) (m0 : Array (Array Rat)) : Option (List Rat) := Id.run do
  let mut m := m0
  for c in [0:n] do
    -- find a pivot row ≥ c
    let mut piv : Option Nat := none
    for r in [c:n] do
      if piv.isNone && (m.getD r #[]).getD c 0 != 0 then piv := some r
    match piv with
    | none => return none
    | some r =>
      let rowR := m.getD r #[]
      let rowC := m.getD c #[]
      m := (m.setIfInBounds r rowC).setIfInBounds c rowR
      let p := rowR.getD c 1
      let prow := rowR.map (· / p)
      m := m.setIfInBounds c prow
      for r2 in [0:n] do
        if r2 != c then
          let row2 := m.getD r2 #[]
          let f := row2.getD c 0
          if f != 0 then
            m := m.setIfInBounds r2 (Array.ofFn (n := n+1) fun j => row2.getD j.val 0 - f * prow.getD j.val 0)
  return some ((List.range n).map fun i => (m.getD i #[]).getD n 0)

def solveHarmonic (n : Nat) (w : Nat → Nat → Rat) (s : Seeds) : Option (List Rat) :=
  gaussJordan n (dirichletSystem n w s)

/-- sup-distance of two vectors -/
def supDist (a b : List Rat) : Rat :=
  (List.range (max a.length b.length)).foldl (fun m i =>
    let d := absR (a.getD i 0 - b.getD i 0); if m ≤ d then d else m) 0

end SkNet.HeatSpec
