/-
Executable specification of the C08 statement for cuts and aggregation, evaluated on the implementation's
own outputs by `spec` lines.  Nothing here looks at how the code computes: only the dendrogram given, the
options, and the returned labels / dendrogram / counts.

A failed clause is reported by name (`Except String Unit`).
-/
import SkNet.Model.Cut
import SkNet.Spec.Dendro

namespace SkNet.Cut
open SkNet SkNet.Dendro

def need (b : Bool) (msg : String) : Except String Unit := if b then .ok () else .error msg

/-- nodes carrying label `c` -/
def clusterOf (labels : List Nat) (c : Nat) : List Nat :=
  (List.range labels.length).filter fun v => labels.getD v 0 == c

def nLabels (labels : List Nat) : Nat := labels.foldl (fun m x => max m (x + 1)) 0

/-- the cluster is exactly the leaf set of one node of the tree -/
def isSubtree (n : Nat) (D : Dendro α) (c : List Nat) : Bool :=
  (List.range (n + D.length)).any fun x => sameSet (leaves n D x) c

/-- clauses common to both cuts: a labelling `0..k-1` of the `n` leaves, every cluster non-empty and the leaf
    set of one subtree, sizes non-increasing in the label when `sort_clusters` -/
def labelsSpec (n : Nat) (D : Dendro α) (labels : List Nat) (sorted : Bool) : Except String Unit := do
  need (labels.length == n) "labels-length"
  let k := nLabels labels
  let cl := tab k (clusterOf labels)
  need (cl.all (!·.isEmpty)) "label-unused"
  need (cl.all (isSubtree n D)) "cluster-not-a-subtree"
  if sorted then
    need ((cl.zip (cl.drop 1)).all fun p => p.2.length ≤ p.1.length) "sizes-not-non-increasing"

section straight
variable {α : Type} [LT α] [DecidableLT α]

/-- every merge strictly below `thr` is applied: all the leaves below it share one label (the statement of C08,
    literally; on a dendrogram with an inversion — a child higher than its parent — the code does not meet it, F24) -/
def belowApplied (n : Nat) (D : Dendro α) (labels : List Nat) (thr : α) : Bool :=
  (List.range D.length).all fun t =>
    match D[t]? with
    | none => true
    | some r =>
      if r.h < thr then
        match leaves n D (n + t) with
        | [] => true
        | v :: vs => vs.all fun w => labels.getD w 0 == labels.getD v 0
      else true

/-- with a threshold only: no merge at or above `thr` is applied (its leaves do not all share one label) -/
def aboveNotApplied (n : Nat) (D : Dendro α) (labels : List Nat) (thr : α) : Bool :=
  (List.range D.length).all fun t =>
    match D[t]? with
    | none => true
    | some r =>
      if r.h < thr then true
      else
        match leaves n D (n + t) with
        | [] => true
        | v :: vs => vs.any fun w => labels.getD w 0 != labels.getD v 0

/-- `cut_straight`: at least `n_clusters` clusters when no threshold is given, exactly `n_clusters` when the
    heights are distinct; with a threshold every merge below it applied, and — with a threshold only, on a
    dendrogram whose heights never decrease towards the root — no other merge -/
def straightSpec (n : Nat) (D : Dendro α) (nClusters : Option Nat) (threshold : Option α)
    (labels : List Nat) (sorted : Bool) : Except String Unit := do
  labelsSpec n D labels sorted
  let k := nLabels labels
  let want := match nClusters with
    | some c => some c
    | none => if threshold.isNone then some 2 else none
  match threshold, want with
  | none, some c =>
    need (c ≤ k) "fewer-clusters-than-n_clusters"
    if DistinctHeights D then need (k == c) "not-exactly-n_clusters"
  | _, _ => pure ()
  match threshold with
  | some thr =>
    need (belowApplied n D labels thr) "merge-below-threshold-not-applied"
    if nClusters.isNone && MonoPaths n D then
      need (aboveNotApplied n D labels thr) "merge-at-or-above-threshold-applied"
  | none => pure ()

end straight

/-- `cut_balanced`: no cluster larger than `max_cluster_size` -/
def balancedSpec (n : Nat) (D : Dendro α) (maxSize : Nat) (labels : List Nat) (sorted : Bool) :
    Except String Unit := do
  labelsSpec n D labels sorted
  let k := nLabels labels
  need ((tab k (clusterOf labels)).all (·.length ≤ maxSize)) "cluster-larger-than-max_cluster_size"

/-- original leaves below node `x` of the reduced dendrogram `R` whose leaves are the clusters of `labels` -/
def expandLeaves (k : Nat) (R : Dendro α) (labels : List Nat) (x : Nat) : List Nat :=
  (leaves k R x).flatMap (clusterOf labels)

/-- the dendrogram returned with `return_dendrogram=True`: valid over the clusters weighted by their sizes,
    sizes sum to n, every row is a merge of the given tree (same leaf set, same height) -/
def reducedSpec [DecidableEq α] (n : Nat) (D : Dendro α) (labels : List Nat) (R : Dendro α) :
    Except String Unit := do
  let k := nLabels labels
  let w := tab k fun c => (clusterOf labels c).length
  need (ValidDendroW w R) "reduced-dendrogram-not-valid"
  need (lastSizeIs n R) "reduced-last-size"
  need ((List.range R.length).all fun u =>
    match R[u]? with
    | none => false
    | some r => (List.range D.length).any fun t =>
        match D[t]? with
        | some d => d.h == r.h && sameSet (leaves n D (n + t)) (expandLeaves k R labels (k + u))
        | none => false) "reduced-row-is-not-a-merge-of-the-tree"

/-- the clusters alive after the first `m` merges of `D`, in increasing order of node id -/
def liveNodes (n : Nat) (D : Dendro α) (m : Nat) : List Nat :=
  let used := (D.take m).flatMap fun r => [r.i, r.j]
  (List.range (n + m)).filter fun x => !used.contains x

/-- `aggregate_dendrogram`: `k-1` rows keeping the heights of the last `k-1` merges; valid over `k` leaves
    weighted by the sizes of the subtrees they stand for; counts (when returned) are those sizes, sum `n` -/
def aggSpec [DecidableEq α] (n : Nat) (D : Dendro α) (k : Nat) (A : Dendro α) (counts : Option (List Nat)) :
    Except String Unit := do
  let suffix := D.drop (n - k)
  need (A.length + 1 == k) "aggregate-row-count"
  need (A.map (·.h) == suffix.map (·.h)) "aggregate-heights"
  -- the clusters alive after the first n-k merges, in increasing order of node id
  let ext := liveNodes n D (n - k)
  let w := ext.map fun x => (leaves n D x).length
  need (ValidDendroW w A) "aggregate-not-valid"
  need (lastSizeIs n A) "aggregate-last-size"
  need ((List.range A.length).all fun u =>
      sameSet ((leaves k A (k + u)).flatMap fun c => leaves n D (ext.getD c 0))
              (leaves n D (n + (n - k) + u))) "aggregate-row-is-not-the-same-merge"
  match counts with
  | none => pure ()
  | some c =>
    need (c == w) "counts-are-not-the-subtree-sizes"
    need (c.foldl (· + ·) 0 == n) "counts-do-not-sum-to-n"

end SkNet.Cut
