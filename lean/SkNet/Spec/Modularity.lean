/-
Specification side of C06, independent of the membership products and of the kernels:

* `modularityDoc`   : the modularity of the documentation of `get_modularity`, as the double sum
                      `(1/w) Σ_{i,j} (A_ij − γ w⁺_i w⁻_j / w) δ(c_i,c_j)` (directed form; the undirected form is the
                      case of a symmetric matrix) and its `uniform` / custom-weight variants;
* `Q`               : the generalised objective `Σ_{u,v} [c u = c v] (A u v − γ o u · i v)` the optimisers work on;
* `objective`       : the documented modularity of each kind (dugue / newman / potts) of the *input* matrix;
* `connected`       : two nodes are joined by a chain of stored non-zero entries (either direction).
-/
import SkNet.Model.Basic
import SkNet.Model.Modularity
import SkNet.Model.ModularityOpt

namespace SkNet.Modularity

/-- `w = 1ᵀA1` -/
def totalWeight (n : Nat) (A : Nat → Nat → Rat) : Rat := sumTo n fun i => sumTo n (A i)

/-- out-weight `w⁺_i` (row sum) -/
def outDeg (n : Nat) (A : Nat → Nat → Rat) (i : Nat) : Rat := sumTo n (A i)

/-- in-weight `w⁻_j` (column sum) -/
def inDeg (n : Nat) (A : Nat → Nat → Rat) (j : Nat) : Rat := sumTo n fun i => A i j

/-- Kronecker symbol of two labels; nodes with a negative label belong to no cluster -/
def sameCluster (c : Nat → Int) (i j : Nat) : Bool := c i == c j && decide (0 ≤ c i)

/-- documentation of `get_modularity`, `weights='degree'`:
    `Q = (1/w) Σ_{i,j} (A_ij − γ d⁺_i d⁻_j / w) δ(c_i, c_j)` -/
def modularityDoc (n : Nat) (A : Nat → Nat → Rat) (γ : Rat) (c : Nat → Int) : Rat :=
  let w := totalWeight n A
  (1 / w) * sumTo n fun i => sumTo n fun j =>
    if sameCluster c i j then A i j - γ * (outDeg n A i * inDeg n A j / w) else 0

/-- the same with node weights `p` (a probability vector) in place of the degrees:
    `Q = Σ_{i,j} (A_ij / w − γ p_i p_j) δ(c_i, c_j)`; `weights='uniform'` is `p = 1/n` -/
def modularityWeighted (n : Nat) (A : Nat → Nat → Rat) (p : Nat → Rat) (γ : Rat) (c : Nat → Int) : Rat :=
  let w := totalWeight n A
  sumTo n fun i => sumTo n fun j =>
    if sameCluster c i j then A i j / w - γ * (p i * p j) else 0

/-- fit and diversity terms of the documentation -/
def fitDoc (n : Nat) (A : Nat → Nat → Rat) (c : Nat → Int) : Rat :=
  (1 / totalWeight n A) * sumTo n fun i => sumTo n fun j => if sameCluster c i j then A i j else 0

def divDoc (n : Nat) (pr pc : Nat → Rat) (c : Nat → Int) : Rat :=
  sumTo n fun i => sumTo n fun j => if sameCluster c i j then pr i * pc j else 0

/-- generalised modularity of the partition `c` of `n` nodes -/
def Q (n : Nat) (A : Nat → Nat → Rat) (o i_ : Nat → Rat) (γ : Rat) (c : Nat → Nat) : Rat :=
  sumTo n fun u => sumTo n fun v => if c u = c v then A u v - γ * (o u * i_ v) else 0

/-- The objective of each kind, written from the documentation on the input matrix:
    Dugué  `(1/w) Σ (A_ij − γ d⁺_i d⁻_j / w) δ`   (Barber's modularity for a biadjacency matrix),
    Newman `(1/w) Σ (A_ij − γ d_i d_j / w) δ`      (`d` = out-weights),
    Potts  `(1/w) Σ A_ij δ − γ Σ δ / n²`.
    Newman on a *directed* square input: `d` is the out-weight of the input for both factors, as the code does
    (`in_weights = out_weights.copy()`); the documentation only says "degree" — the reading `A + Aᵀ`, `d⁺ + d⁻`
    has another null-model term and is not what the optimiser's logged increases refer to. -/
def objective (kind : Kind) (n : Nat) (A : Nat → Nat → Rat) (γ : Rat) (c : Nat → Nat) : Rat :=
  let w := totalWeight n A
  match kind with
  | .dugue => (1 / w) * sumTo n fun i => sumTo n fun j =>
      if c i = c j then A i j - γ * (outDeg n A i * inDeg n A j / w) else 0
  | .newman => (1 / w) * sumTo n fun i => sumTo n fun j =>
      if c i = c j then A i j - γ * (outDeg n A i * outDeg n A j / w) else 0
  | .potts => ((1 / w) * sumTo n fun i => sumTo n fun j => if c i = c j then A i j else 0)
      - γ * (sumTo n fun i => sumTo n fun j => if c i = c j then 1 / ((n : Rat) * (n : Rat)) else 0)
  | .other => 0

/-- weight of cluster `k` for node weights `x` -/
def clusterSum (n : Nat) (x : Nat → Rat) (c : Nat → Nat) (k : Nat) : Rat := sumTo n fun i => if c i = k then x i else 0

/-- the same objective with the null-model term summed per cluster (`Σ_k vol⁺(k)·vol⁻(k)`) instead of per pair of
    nodes: `w` = total weight, `o`, `i_` = the normalised node weights of the kind, labels below `K`.
    Equal to `objective` (`Lemmas/ModularityFast.lean`); used by the spec lines on graphs with hundreds of nodes. -/
def objectiveFast (n : Nat) (A : Nat → Nat → Rat) (w : Rat) (o i_ : Nat → Rat) (γ : Rat) (c : Nat → Nat) (K : Nat) : Rat :=
  (1 / w) * (sumTo n fun i => sumTo n fun j => if c i = c j then A i j else 0)
    - γ * sumTo K fun k => clusterSum n o c k * clusterSum n i_ c k

/-! ### connected components (edges = stored non-zero weight in either direction) -/

def linked (A : Nat → Nat → Rat) (u v : Nat) : Bool := A u v != 0 || A v u != 0

/-- `u` and `v` (both `< n`) are joined by a chain of links inside the `n` nodes -/
inductive Connected (n : Nat) (A : Nat → Nat → Rat) : Nat → Nat → Prop
  | refl {u : Nat} : u < n → Connected n A u u
  | step {u v w : Nat} : Connected n A u v → w < n → linked A v w = true → Connected n A u w

/-- executable: the set of nodes reachable from `u` in at most `k` steps -/
def reachK (n : Nat) (A : Nat → Nat → Rat) (u : Nat) : Nat → List Bool
  | 0 => tab n fun v => v == u
  | k+1 =>
    let prev := reachK n A u k
    tab n fun w => prev.getD w false || (List.range n).any fun v => prev.getD v false && linked A v w

def connectedB (n : Nat) (A : Nat → Nat → Rat) (u v : Nat) : Bool :=
  decide (u < n) && (reachK n A u n).getD v false

/-- the set `r` of nodes is closed under links: the certificate that `reachK … n` is a whole component -/
def closedUnder (n : Nat) (A : Nat → Nat → Rat) (r : List Bool) : Bool :=
  (List.range n).all fun v => (List.range n).all fun w => !(r.getD v false && linked A v w) || r.getD w false

/-- no cluster contains nodes of two different connected components
    (first conjunct: the reach sets are closed, so that the test is exact — `Lemmas/ModularityConn.lean`) -/
def clustersWithinComponents (n : Nat) (A : Nat → Nat → Rat) (c : Nat → Nat) : Bool :=
  let reach := tab n fun u => reachK n A u n
  ((List.range n).all fun u => closedUnder n A (reach.getD u [])) &&
  (List.range n).all fun u => (List.range n).all fun v => c u != c v || (reach.getD u []).getD v false

/-! ### the same clause with a certificate (graphs with hundreds of nodes: the reach sets above cost `n⁴`)

The caller supplies a forest (`parent`, along links, towards a root) and the root of every cluster; the test follows the
parents `n` times.  Sound for any certificate (`Lemmas/ModularityConn.lean`); a wrong certificate can only make it fail. -/

def rootOf (parent : Nat → Nat) : Nat → Nat → Nat
  | 0, u => u
  | k+1, u => rootOf parent k (parent u)

/-- every parent is a node, and is the node itself or one of its links -/
def forestOK (n : Nat) (A : Nat → Nat → Rat) (parent : Nat → Nat) : Bool :=
  (List.range n).all fun u => decide (parent u < n) && (parent u == u || linked A u (parent u))

/-- every node reaches, along its parents, the root recorded for its cluster -/
def clustersWithinForest (n : Nat) (A : Nat → Nat → Rat) (c : Nat → Nat) (parent : Nat → Nat) (croot : Nat → Nat) :
    Bool :=
  forestOK n A parent && (List.range n).all fun u => rootOf parent n u == croot (c u)

end SkNet.Modularity
