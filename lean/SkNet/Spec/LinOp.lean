/-
Specification for C15: the dense matrix an operator expression denotes, written with elementary matrix
algebra only (no SparseLR, no Horner scheme, no operator classes).  `spec` lines of the driver evaluate
`OpExpr.denote` and multiply the implementation's input by it; `Properties/C15.lean` proves that the model
of the code (`OpExpr.eval`, `Op.matvec`) agrees with it.
-/
import SkNet.Model.Basic
import SkNet.Model.LinOp

namespace SkNet.LinOp
open SkNet

/-- `Σ x yᵀ` over the low-rank tuples -/
def lowRank (n m : Nat) : List (Vec × Vec) → Mat
  | [] => Mat.zero n m
  | t :: ts => (Mat.outer n m t.1 t.2).add (lowRank n m ts)

/-- regularised matrix `A + reg · 1 1ᵀ / n_col` -/
def regularized (a : Mat) (reg : Rat) : Mat := a.add (Mat.const a.nRow a.nCol (reg / (a.nCol : Rat)))

/-- column sums of absolute values -/
def colAbsSums (a : Mat) : Vec := a.transpose.abs.rowSums

/-- `Σ_k c_k A^k` (`pows` = powers already taken) -/
def polySum (a : Mat) : List Rat → Nat → Mat
  | [], _ => Mat.zero a.nRow a.nRow
  | c :: cs, k => ((a.pow k).smul c).add (polySum a cs (k+1))

/-- rows divided by their sum (rows of sum 0 are left as they are multiplied by 0) -/
def rowNormalized (a : Mat) : Mat := scaleRows (pinvVec a.rowSums) a

namespace OpExpr

/-- the dense matrix denoted by an operator expression -/
def denote : OpExpr → Mat
  | slr s ts => s.add (lowRank s.nRow s.nCol ts)
  | regularizer a reg => regularized a reg
  | normalizer a reg => rowNormalized (regularized a reg)
  | laplacian a reg nz sq =>
    let a' := regularized a reg
    let l := (Mat.diag a.nRow a'.rowSums).sub a'
    if nz then (Mat.diag a.nRow (pinvVec sq)).mul (l.mul (Mat.diag a.nRow (pinvVec sq))) else l
  | coneighbor a nz =>
    if nz then a.mul ((Mat.diag a.nCol (pinvVec (colAbsSums a))).mul a.transpose) else a.mul a.transpose
  | polynome a cs => polySum a cs 0
  | neg e => e.denote.neg
  | add e f => e.denote.add f.denote
  | sub e f => e.denote.sub f.denote
  | addCsr e a => e.denote.add a
  | subCsr e a => e.denote.sub a
  | mul e c => e.denote.smul c
  | transpose e => e.denote.transpose
  | leftDot m e => m.mul e.denote
  | rightDot e m => e.denote.mul m
  | astype e _ => e.denote      -- the cast keeps the values (`IntCastsExact` for `int`; float32 rounding is outside)
  | rmul c e => e.denote.smul c
  | d2u e => e.denote.add e.denote.transpose
  | b2d e => Mat.block e.denote (Mat.zero e.denote.nCol e.denote.nRow)
  | b2u e => Mat.block e.denote e.denote.transpose
  | normalize e => rowNormalized e.denote

/-- every `astype(int)` of the expression is applied to an operator whose stored parts are integers, so that the
cast (truncation of the stored parts, which is what the code does) keeps the denoted matrix -/
def IntCastsExact : OpExpr → Prop
  | astype e .int => e.IntCastsExact ∧ ∀ o, e.eval = .ok o → o.astype .int = .ok o
  | astype e _ => e.IntCastsExact
  | neg e | addCsr e _ | subCsr e _ | mul e _ | transpose e | leftDot _ e | rightDot e _ | rmul _ e
  | d2u e | b2d e | b2u e | normalize e => e.IntCastsExact
  | add e f | sub e f => e.IntCastsExact ∧ f.IntCastsExact
  | _ => True

end OpExpr

/-! ### static typing of operator expressions: which class Python returns, which shape, which refusal -/

/-- the class of the object an expression evaluates to (`gen` = one of scipy's generic combinators) -/
inductive Kind
  | slr | nrm (transposed : Bool) | lap | con | pol | gen
deriving DecidableEq, Repr

structure Ty where
  kind : Kind
  nRow : Nat
  nCol : Nat
deriving DecidableEq, Repr

/-- class of `-x` and of `x * c` -/
def Kind.scaled : Kind → Kind
  | .slr => .slr | .pol => .pol | .con => .con | _ => .gen

/-- `a + b` -/
def Ty.add (t u : Ty) : Except PyErr Ty :=
  match t.kind, u.kind with
  | .slr, .slr => if t.nRow = u.nRow ∧ t.nCol = u.nCol then .ok t else .error .valueError
  | _, _ => if t.nRow = u.nRow ∧ t.nCol = u.nCol then .ok ⟨.gen, t.nRow, t.nCol⟩ else .error .valueError

namespace OpExpr

/-- the class and shape of the value of an expression, or the exception Python raises; computed from the
shapes alone (plus the emptiness test of `check_format` and the lengths of the low-rank vectors) -/
def type? : OpExpr → Except PyErr Ty
  | slr s ts =>
    if ts.all (fun t => t.1.length == s.nRow && t.2.length == s.nCol) then .ok ⟨.slr, s.nRow, s.nCol⟩
    else .error .valueError
  | regularizer a _ => .ok ⟨.slr, a.nRow, a.nCol⟩
  | normalizer a _ => if a.nCol = 0 then .error .unsupported else .ok ⟨.nrm false, a.nRow, a.nCol⟩
  | laplacian a _ _ _ =>
    if a.nRow = 0 ∧ a.nCol = 0 then .error .unsupported
    else if a.nRow ≠ a.nCol then .error .valueError else .ok ⟨.lap, a.nRow, a.nRow⟩
  | coneighbor a _ => if a.isNull then .error .valueError else .ok ⟨.con, a.nRow, a.nRow⟩
  | polynome a cs =>
    if cs.isEmpty then .error .valueError
    else if a.isNull then .error .valueError
    else if a.nRow ≠ a.nCol then .error .valueError
    else .ok ⟨.pol, a.nRow, a.nRow⟩
  | neg e => do let t ← e.type?; pure ⟨t.kind.scaled, t.nRow, t.nCol⟩
  | mul e _ => do let t ← e.type?; pure ⟨t.kind.scaled, t.nRow, t.nCol⟩
  | add e f => do
    let t ← e.type?
    let u ← f.type?
    t.add u
  | sub e f => do
    let t ← e.type?
    let u ← f.type?
    t.add ⟨u.kind.scaled, u.nRow, u.nCol⟩
  | addCsr e a => do
    let t ← e.type?
    match t.kind with
    | .slr => if t.nRow = a.nRow ∧ t.nCol = a.nCol then pure t else .error .valueError
    | _ => .error .unsupported
  | subCsr e a => do
    let t ← e.type?
    match t.kind with
    | .slr => if t.nRow = a.nRow ∧ t.nCol = a.nCol then pure t else .error .valueError
    | _ => .error .unsupported
  | transpose e => do
    let t ← e.type?
    match t.kind with
    | .slr => pure ⟨.slr, t.nCol, t.nRow⟩
    | .nrm b => pure ⟨.nrm (!b), t.nCol, t.nRow⟩
    | .lap => pure t
    | .con => pure ⟨.con, t.nCol, t.nRow⟩
    | .pol => pure t
    | .gen => pure ⟨.gen, t.nCol, t.nRow⟩
  | leftDot m e => do
    let t ← e.type?
    match t.kind with
    | .slr => if m.nCol = t.nRow then pure ⟨.slr, m.nRow, t.nCol⟩ else .error .valueError
    | .con => if m.nCol = t.nRow then pure ⟨.con, m.nRow, t.nCol⟩ else .error .valueError
    | _ => .error .attributeError
  | rightDot e m => do
    let t ← e.type?
    match t.kind with
    | .slr => if t.nCol = m.nRow then pure ⟨.slr, t.nRow, m.nCol⟩ else .error .valueError
    | .con => if t.nCol = m.nRow then pure ⟨.con, t.nRow, m.nCol⟩ else .error .valueError
    | _ => .error .attributeError
  | astype e _ => do
    let t ← e.type?
    match t.kind with
    | .slr | .lap | .con => pure t
    | _ => .error .attributeError
  | rmul _ e => do let t ← e.type?; pure ⟨.gen, t.nRow, t.nCol⟩
  | d2u e => do
    let t ← e.type?
    match t.kind with
    | .slr => if t.nRow = t.nCol then pure t else .error .valueError
    | _ => .error .typeError
  | b2d e => do
    let t ← e.type?
    match t.kind with
    | .slr => pure ⟨.slr, t.nRow + t.nCol, t.nRow + t.nCol⟩
    | _ => .error .typeError
  | b2u e => do
    let t ← e.type?
    match t.kind with
    | .slr => pure ⟨.slr, t.nRow + t.nCol, t.nRow + t.nCol⟩
    | _ => .error .typeError
  | normalize e => do
    let t ← e.type?
    match t.kind with
    | .slr | .con => pure t
    | _ => .error .unsupported

end OpExpr

/-- class and shape of an operator value -/
def Op.kind : Op → Kind
  | .slr _ => .slr | .nrm _ t => .nrm t | .lap _ => .lap | .con _ => .con | .pol _ => .pol
  | .gsum _ _ => .gen | .gscaled _ _ => .gen

def Op.ty (o : Op) : Ty := ⟨o.kind, o.nRow, o.nCol⟩

/-! ### source facts the dispatch of `Op` relies on

Which of the dispatch-relevant methods each operator class defines itself (everything else is inherited from its
base: scipy's generic `LinearOperator` arithmetic).  The harness extracts the same table from the source with
Python's `ast` on every run and the driver compares (`c15.dispatch`): if a class gains or loses one of these
methods, the model's dispatch no longer mirrors the code. -/

def classMethods : String → Option (String × List String)
  | "SparseLR" => some ("LinearOperator", ["__add__", "__mul__", "__neg__", "__sub__", "_adjoint", "_matvec",
      "_transpose", "astype", "left_sparse_dot", "right_sparse_dot", "sum"])
  | "Regularizer" => some ("SparseLR", [])
  | "Normalizer" => some ("LinearOperator", ["_matvec", "_rmatvec"])
  | "Laplacian" => some ("LinearOperator", ["_adjoint", "_matvec", "_transpose", "astype"])
  | "CoNeighbor" => some ("LinearOperator", ["__mul__", "__neg__", "_adjoint", "_matvec", "_transpose", "astype",
      "left_sparse_dot", "right_sparse_dot"])
  | "Polynome" => some ("LinearOperator", ["__mul__", "__neg__", "_adjoint", "_matvec", "_transpose"])
  | _ => none

/-! ### comparison within the tolerance of DESIGN §8 -/

/-- `|a - b| ≤ tol · (1 + scale)` -/
def close (tol scale a b : Rat) : Bool := rabs (a - b) ≤ tol * (1 + scale)

def maxAbs (v : Vec) : Rat := v.foldl (fun m x => if m < rabs x then rabs x else m) 0

def closeVec (tol : Rat) (a b : Vec) : Bool :=
  let sc := maxAbs b
  a.length == b.length && (List.range a.length).all fun i => close tol sc (vget a i) (vget b i)

def matMaxAbs (a : Mat) : Rat :=
  (List.range a.nRow).foldl (fun m i => (List.range a.nCol).foldl (fun m j =>
    if m < rabs (a.get i j) then rabs (a.get i j) else m) m) 0

def closeMat (tol : Rat) (a b : Mat) : Bool :=
  let sc := matMaxAbs b
  a.nRow == b.nRow && a.nCol == b.nCol &&
  (List.range a.nRow).all fun i => (List.range a.nCol).all fun j => close tol sc (a.get i j) (b.get i j)

/-- every entry is an integer: what an operator cast to `int` (SparseLR, CoNeighbor) returns on integer input -/
def integralVec (v : Vec) : Bool := v.all fun x => x.den == 1

/-- column sums, row sums of a dense matrix -/
def colSums (a : Mat) : Vec := a.transpose.rowSums

end SkNet.LinOp
