/-
Specification of property C05 (what "a well-formed clustering with consistent secondary outputs" means),
written independently of the pipeline of the code.  Every predicate is decidable: the driver evaluates it on
the outputs of the real estimators (`spec` lines); `SkNet/Properties/C05.lean` proves it of the model.
-/
import SkNet.Model.Clustering

namespace SkNet.Clustering

/-! ### partitions -/

/-- number of labels in use when labels are `0..k-1`: `max + 1` -/
def nLabels (l : List Nat) : Nat :=
  match l.max? with
  | none => 0
  | some m => m + 1

/-- the labels are exactly `0, …, k-1`: all below `k`, none unused -/
def Contiguous (l : List Nat) (k : Nat) : Prop :=
  (∀ x ∈ l, x < k) ∧ ∀ c, c < k → c ∈ l

instance (l : List Nat) (k : Nat) : Decidable (Contiguous l k) := by
  unfold Contiguous; infer_instance

/-- cluster sizes are non-increasing in the label -/
def SizesNonInc (l : List Nat) (k : Nat) : Prop :=
  ∀ c, c + 1 < k → l.count (c + 1) ≤ l.count c

instance (l : List Nat) (k : Nat) : Decidable (SizesNonInc l k) :=
  decidable_of_iff (∀ c, c < k → c + 1 < k → l.count (c + 1) ≤ l.count c)
    ⟨fun h c hc => h c (by omega) hc, fun h c _ hc => h c hc⟩

/-- two label vectors describe the same partition of the positions -/
def SamePartition [DecidableEq α] [DecidableEq β] (a : List α) (b : List β) : Prop :=
  a.length = b.length ∧
  ∀ i, i < a.length → ∀ j, j < a.length → (a[i]? = a[j]? ↔ b[i]? = b[j]?)

instance [DecidableEq α] [DecidableEq β] (a : List α) (b : List β) : Decidable (SamePartition a b) := by
  unfold SamePartition; infer_instance

/-- `SamePartition` evaluated with constant-time indexing (quadratic instead of cubic on lists); equivalent to
    `decide (SamePartition a b)`: `samePartitionB_iff` in `SkNet/Lemmas/ClusteringCanon.lean` -/
def samePartitionB [DecidableEq α] [DecidableEq β] (a : List α) (b : List β) : Bool :=
  a.length == b.length &&
  (List.range a.length).all fun i => (List.range a.length).all fun j =>
    decide (a.toArray[i]? = a.toArray[j]?) == decide (b.toArray[i]? = b.toArray[j]?)

/-- `labels` uses exactly the labels `0..k-1`, with non-increasing sizes when `sorted` -/
def ValidK (labels : List Nat) (k : Nat) (sorted : Bool) : Prop :=
  Contiguous labels k ∧ (sorted = true → SizesNonInc labels k)

/-- The contract assumed of `np.argsort(key)`: some permutation of the positions along which the keys do not
    decrease (nothing is assumed about ties) -/
def IsArgsort (key : List Int) (p : List Nat) : Prop :=
  p.Perm (List.range key.length) ∧ (p.map fun i => key.getD i 0).Pairwise (· ≤ ·)

/-- The clause of C05 about Louvain, Leiden and propagation: one label per node (for a bipartite graph the
    vector lists rows then columns), labels `0..k-1` with none unused, sizes non-increasing when sorted. -/
def ValidClustering (n : Nat) (labels : List Nat) (sorted : Bool) : Prop :=
  labels.length = n ∧ Contiguous labels (nLabels labels) ∧
  (sorted = true → SizesNonInc labels (nLabels labels))

instance (n : Nat) (labels : List Nat) (sorted : Bool) : Decidable (ValidClustering n labels sorted) := by
  unfold ValidClustering; infer_instance

/-! ### soft membership -/

/-- total weight stored in one row -/
def rowWeight (row : List (Nat × Rat)) : Rat := sumR (row.map (·.2))

/-- one row of `probs_`: `k` non-negative entries summing to 1 (within `tol`; to exactly 0 when the node
    has no outgoing weight) -/
def ProbsRowOK (row : List (Nat × Rat)) (p : List Rat) (k : Nat) (tol : Rat) : Prop :=
  p.length = k ∧ (∀ x ∈ p, 0 ≤ x) ∧
  (if rowWeight row = 0 then sumR p = 0 else absR (sumR p - 1) ≤ tol)

instance (row : List (Nat × Rat)) (p : List Rat) (k : Nat) (tol : Rat) : Decidable (ProbsRowOK row p k tol) := by
  unfold ProbsRowOK; infer_instance

/-- `probs` has one admissible row per row of the matrix -/
def ProbsOK (a : SpMat) (probs : List (List Rat)) (k : Nat) (tol : Rat) : Prop :=
  probs.length = a.length ∧ ∀ i, i < a.length → ProbsRowOK (a.getD i []) (probs.getD i []) k tol

instance (a : SpMat) (probs : List (List Rat)) (k : Nat) (tol : Rat) : Decidable (ProbsOK a probs k tol) := by
  unfold ProbsOK; infer_instance

/-! ### aggregate graph -/

/-- the stored entries of a matrix as `(row, column, value)` -/
def triples (a : SpMat) : List (Nat × Nat × Rat) :=
  (List.range a.length).flatMap fun i => (a.getD i []).map fun e => (i, e.1, e.2)

/-- sum of the input weights from cluster `x` (of the rows) to cluster `y` (of the columns) -/
def aggEntry (a : SpMat) (lr lc : List Nat) (k x y : Nat) : Rat :=
  sumR (((triples a).filter fun t => lr.getD t.1 k == x && lc.getD t.2.1 k == y).map (·.2.2))

/-- the same for integer labels, negative labels being ignored (`aggregate_graph`) -/
def aggEntryInt (a : SpMat) (lr lc : List Int) (x y : Nat) : Rat :=
  sumR (((triples a).filter fun t => lr.getD t.1 (-1) == (x : Int) && lc.getD t.2.1 (-1) == (y : Int)).map (·.2.2))

/-- total weight of the input -/
def totalWeight (a : SpMat) : Rat := sumR ((triples a).map (·.2.2))

/-- sum of all entries of a dense matrix -/
def sumAll (m : List (List Rat)) : Rat := sumR (m.map sumR)

/-- `agg` is `k × k` and equals the sums of input weights between clusters (within `tol` per entry) -/
def AggOK (a : SpMat) (lr lc : List Nat) (k : Nat) (agg : List (List Rat)) (tol : Rat) : Prop :=
  agg.length = k ∧ ∀ x, x < k → (agg.getD x []).length = k ∧
    ∀ y, y < k → absR ((agg.getD x []).getD y 0 - aggEntry a lr lc k x y) ≤ tol

instance (a : SpMat) (lr lc : List Nat) (k : Nat) (agg : List (List Rat)) (tol : Rat) :
    Decidable (AggOK a lr lc k agg tol) := by
  unfold AggOK; infer_instance

/-- The clause of C05 about secondary outputs, for the outputs `s` computed from the input matrix `a`
    (`nCol` columns) and the fitted labels `f` (exact arithmetic, tolerance 0):
    what was not asked for is absent; `probs_` (and `probs_row_`, `probs_col_` for a bipartite graph) are soft
    memberships over the `k` labels; `aggregate_` holds the sums of weights between clusters and its total is the
    total weight of the input. -/
def SecondaryOK (a : SpMat) (nCol : Nat) (f : Fitted) (bipartite returnProbs returnAggregate : Bool)
    (s : Secondary) : Prop :=
  let lr := f.labels
  let lc := if bipartite then f.labelsCol.getD [] else f.labels
  let k := if bipartite then nLabels (lr ++ lc) else nLabels lr
  (if returnProbs then
      ∃ P, s.probs = some P ∧ ProbsOK a P k 0 ∧
        (if bipartite then s.probsRow = some P ∧ ∃ Pc, s.probsCol = some Pc ∧ ProbsOK (transposeSp a nCol) Pc k 0
         else s.probsRow = none ∧ s.probsCol = none)
    else s.probs = none ∧ s.probsRow = none ∧ s.probsCol = none) ∧
  (if returnAggregate then
      ∃ G, s.aggregate = some G ∧ AggOK a lr lc k G 0 ∧ sumAll G = totalWeight a
    else s.aggregate = none)

/-! ### k-centers -/

/-- node `c` may be a centre -/
def Admissible (bipartite : Bool) (nRow nCol : Nat) (pos : CenterPos) (c : Nat) : Prop :=
  if bipartite then
    match pos with
    | .row => c < nRow
    | .col => nRow ≤ c ∧ c < nRow + nCol
    | .both => c < nRow + nCol
    | .other => False
  else c < nRow

instance (b : Bool) (nRow nCol : Nat) (pos : CenterPos) (c : Nat) : Decidable (Admissible b nRow nCol pos c) := by
  unfold Admissible; cases b <;> cases pos <;> simp <;> infer_instance

/-- The clause of C05 about k-centers: one label below `n_clusters` per node, `n_clusters` distinct admissible
    centres; for a bipartite graph `centers_row_` / `centers_col_` list the centres of each side. -/
def KCentersOK (bipartite : Bool) (nRow nCol : Nat) (pos : CenterPos) (nClusters : Nat)
    (labels : List Nat) (centers : List Nat) : Prop :=
  labels.length = (if bipartite then nRow + nCol else nRow) ∧ (∀ l ∈ labels, l < nClusters) ∧
  centers.length = nClusters ∧ centers.Nodup ∧ ∀ c ∈ centers, Admissible bipartite nRow nCol pos c

instance (b : Bool) (nRow nCol : Nat) (pos : CenterPos) (k : Nat) (labels centers : List Nat) :
    Decidable (KCentersOK b nRow nCol pos k labels centers) := by
  unfold KCentersOK; infer_instance

/-- the split of the centres of a bipartite graph: rows as they are, columns shifted by `n_row`,
    together exactly the centres -/
def CentersSplitOK (nRow : Nat) (pos : CenterPos) (centers : List Nat)
    (cr : Option (List Nat)) (cc : Option (List Int)) : Prop :=
  match pos with
  | .row => cr = some centers ∧ cc = none
  | .col => cr = none ∧ cc = some (centers.map fun (c : Nat) => (c : Int) - nRow)
  | _ => cr = some (centers.filter (· < nRow)) ∧
         cc = some ((centers.filter (nRow ≤ ·)).map fun (c : Nat) => (c : Int) - nRow)

instance (nRow : Nat) (pos : CenterPos) (centers : List Nat) (cr : Option (List Nat)) (cc : Option (List Int)) :
    Decidable (CentersSplitOK nRow pos centers cr cc) := by
  unfold CentersSplitOK; cases pos <;> simp <;> infer_instance

end SkNet.Clustering
