/-
Specification vocabulary of property C12, independent of the searches of the code:
reachability, weak / strong components, 2-colourability, cycles.

Every notion has a `Prop` form (used by the theorems of Properties/C12.lean) and an executable form
(used by the `spec` / `contract` lines of Drive/C12.lean).  The executable closure stops when a round
adds nothing and answers `none` when its fuel runs out, so that its meaning does not rest on a counting
argument (`closure_sound` in Lemmas/Connectivity.lean).
A graph is `n` and `adj : Nat → List Nat` (`v ∈ adj u` is the edge u → v).
-/
import SkNet.Model.Basic

namespace SkNet.Connectivity

/-! ### reachability and components -/

/-- `Reach adj u v`: a walk (possibly empty) from `u` to `v` -/
inductive Reach (adj : Nat → List Nat) : Nat → Nat → Prop
  | refl (u : Nat) : Reach adj u u
  | tail {u v w : Nat} : Reach adj u v → w ∈ adj v → Reach adj u w

/-- the symmetrised graph on the nodes `< n` -/
def weakAdj (n : Nat) (adj : Nat → List Nat) : Nat → List Nat :=
  fun i => adj i ++ (List.range n).filter fun j => (adj j).contains i

/-- `u` and `v` lie in the same strong (mutually reachable) / weak (reachable in the symmetrised graph) component -/
def SameComp (n : Nat) (adj : Nat → List Nat) (strong : Bool) (u v : Nat) : Prop :=
  if strong then Reach adj u v ∧ Reach adj v u else Reach (weakAdj n adj) u v

/-- contract of `connected_components(...)[1]`: equal labels exactly inside a component -/
def IsLabelling (n : Nat) (adj : Nat → List Nat) (strong : Bool) (labels : List Nat) : Prop :=
  labels.length = n ∧
  ∀ u v, u < n → v < n → (labels.getD u 0 = labels.getD v 0 ↔ SameComp n adj strong u v)

/-- one round: add the successors of the marked nodes -/
def closeStep (n : Nat) (adj : Nat → List Nat) (r : List Bool) : List Bool :=
  tab n fun v => r.getD v false || (List.range n).any fun u => r.getD u false && (adj u).contains v

/-- iterate `closeStep` until nothing is added; `none` = out of fuel -/
def closure (n : Nat) (adj : Nat → List Nat) : Nat → List Bool → Option (List Bool)
  | 0, _ => none
  | fuel+1, r =>
    let r' := closeStep n adj r
    if r' == r then some r else closure n adj fuel r'

/-- nodes reachable from `s` (as a mask of length `n`) -/
def reachFrom (n : Nat) (adj : Nat → List Nat) (s : Nat) : Option (List Bool) :=
  closure n adj (n + 1) (tab n fun v => v == s)

/-- reachability matrix, row `s` = `reachFrom s` -/
def reachMatrix (n : Nat) (adj : Nat → List Nat) : Option (List (List Bool)) :=
  (List.range n).mapM (reachFrom n adj)

def reachB (rm : List (List Bool)) (u v : Nat) : Bool := (rm.getD u []).getD v false

/-- equal labels exactly for mutually reachable nodes of `g` -/
def isLabellingOn (n : Nat) (g : Nat → List Nat) (labels : List Nat) : Option Bool := do
  let rm ← reachMatrix n g
  pure (labels.length == n &&
    (List.range n).all fun u => (List.range n).all fun v =>
      (labels.getD u 0 == labels.getD v 0) == (reachB rm u v && reachB rm v u))

/-- executable `IsLabelling` (mutual reachability in the symmetrised graph is reachability) -/
def isLabellingB (n : Nat) (adj : Nat → List Nat) (strong : Bool) (labels : List Nat) : Option Bool :=
  isLabellingOn n (if strong then adj else weakAdj n adj) labels

/-! ### 2-colourability -/

/-- a proper 2-colouring of the nodes `< n` exists (a self-loop makes it impossible) -/
def TwoColourable (n : Nat) (adj : Nat → List Nat) : Prop :=
  ∃ c : Nat → Bool, ∀ u, u < n → ∀ v ∈ adj u, c u ≠ c v

/-- brute force over the `2^n` colourings -/
def twoColourableB (n : Nat) (adj : Nat → List Nat) : Bool :=
  (List.range (2 ^ n)).any fun mask =>
    (List.range n).all fun u => (adj u).all fun v => mask.testBit u != mask.testBit v

/-! ### cycles -/

/-- a directed cycle exists: some edge `u → v` whose head reaches its tail (a self-loop is one) -/
def HasCycle (n : Nat) (adj : Nat → List Nat) : Prop :=
  ∃ u v, u < n ∧ v ∈ adj u ∧ Reach adj v u

def hasCycleB (n : Nat) (adj : Nat → List Nat) : Option Bool := do
  let rm ← reachMatrix n adj
  pure ((List.range n).any fun u => (adj u).any fun v => reachB rm v u)

/-- consecutive nodes of the list are joined by edges `x → y` -/
def isChain (adj : Nat → List Nat) : List Nat → Bool
  | [] => true
  | [_] => true
  | x :: y :: l => (adj x).contains y && isChain adj (y :: l)

/-- every node of `c` is followed by one of its successors, and the last one by the first -/
def IsClosedChain (adj : Nat → List Nat) (c : List Nat) : Prop :=
  match c with
  | [] => False
  | h :: t => isChain adj (h :: t ++ [h]) = true

instance (adj : Nat → List Nat) (c : List Nat) : Decidable (IsClosedChain adj c) := by
  unfold IsClosedChain; cases c <;> infer_instance

/-- `c` is a simple cycle of the graph: distinct nodes `< n`, closed chain of edges;
    in an undirected graph a single node (self-loop) or at least three nodes -/
def IsSimpleCycle (n : Nat) (adj : Nat → List Nat) (directed : Bool) (c : List Nat) : Prop :=
  c.Nodup ∧ (∀ v ∈ c, v < n) ∧ IsClosedChain adj c ∧ (directed = true ∨ c.length = 1 ∨ 3 ≤ c.length)

instance (n : Nat) (adj : Nat → List Nat) (directed : Bool) (c : List Nat) :
    Decidable (IsSimpleCycle n adj directed c) := by
  unfold IsSimpleCycle; infer_instance

/-- rotation of `c` by `k` -/
def rotate (c : List Nat) (k : Nat) : List Nat := c.drop (k % c.length) ++ c.take (k % c.length)

/-- same directed cycle: equal up to rotation -/
def SameRotation (c d : List Nat) : Prop := ∃ k, k < c.length ∧ rotate c k = d

instance (c d : List Nat) : Decidable (SameRotation c d) := by
  unfold SameRotation; infer_instance

/-- same node set (how an undirected cycle is identified by `get_cycles`) -/
def SameNodes (c d : List Nat) : Prop := (∀ v ∈ c, v ∈ d) ∧ (∀ v ∈ d, v ∈ c)

instance (c d : List Nat) : Decidable (SameNodes c d) := by
  unfold SameNodes; infer_instance

/-- brute-force enumeration of the simple directed cycles whose least node is `s`, each written from `s`:
    extend simple paths through nodes `> s`; `rpath` is reversed; `fuel` bounds the depth (`n` suffices) -/
def cyclesThrough (adj : Nat → List Nat) (s : Nat) : Nat → List Nat → List (List Nat)
  | 0, _ => []
  | fuel+1, rpath =>
    let cur := rpath.headD s
    (adj cur).eraseDups.flatMap fun w =>
      if w == s then [rpath.reverse]
      else if w > s && !rpath.contains w then cyclesThrough adj s fuel (w :: rpath)
      else []

/-- all simple directed cycles of the graph on the nodes `< n`, each once, least node first -/
def allSimpleCycles (n : Nat) (adj : Nat → List Nat) : List (List Nat) :=
  (List.range n).flatMap fun s => cyclesThrough (fun u => (adj u).filter (· < n)) s n [s]

/-- undirected graph (symmetric `adj`): a cycle exists iff there is a self-loop or an edge `{u, v}` whose
    removal leaves `v` reachable from `u` -/
def hasUndirectedCycleB (n : Nat) (adj : Nat → List Nat) : Option Bool := do
  let loops := (List.range n).any fun u => (adj u).contains u
  if loops then pure true
  else
    let found ← (List.range n).mapM fun u =>
      ((adj u).filter (u < ·)).eraseDups.mapM fun v => do
        let adj' : Nat → List Nat := fun x =>
          if x == u then (adj x).filter (· != v) else if x == v then (adj x).filter (· != u) else adj x
        let r ← reachFrom n adj' u
        pure (r.getD v false)
    pure (found.any fun l => l.any id)

end SkNet.Connectivity
