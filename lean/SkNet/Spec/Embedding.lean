/-
Specification side of C09, independent of the operator classes of the code: every matrix is written
entry by entry from the documented formula (`A + α 11ᵀ/n`, `D⁻¹A`, `D − A`, `D₁^{-α₁} A D₂^{-α₂}`,
`A − 1μᵀ`, `Σ_t (αM)ᵗ G`), and the predicates say "is an eigenpair / singular triplet of it",
"is ordered", "has unit rows".  Generic in the scalar like the model; residuals are returned as numbers so
that the driver (Float) can compare them with a tolerance and the theorems (exact field) with `0`.
-/
import SkNet.Model.Embedding

namespace SkNet.Embedding.Spec
open SkNet SkNet.Embedding

section
variable {α : Type} [Add α] [Sub α] [Mul α] [Div α] [Neg α] [Zero α] [One α] [NatCast α] [BEq α]
  [LT α] [DecidableLT α]

/-- `A + α 11ᵀ / m` for an `_ × m` matrix -/
def aReg (m : Nat) (a : Mat α) (reg : α) (i j : Nat) : α := mget a i j + reg / (m : α)

/-- regularised degree `Σ_j (A + α 11ᵀ/n)_ij` -/
def degReg (n : Nat) (a : Mat α) (reg : α) (i : Nat) : α := sumN n fun j => aReg n a reg i j

/-- `(D⁻¹ A_reg v)_i`, `D⁻¹` the pseudo-inverse -/
def transApply (n : Nat) (a : Mat α) (reg : α) (v : Nat → α) (i : Nat) : α :=
  pinv (degReg n a reg i) * sumN n fun j => aReg n a reg i j * v j

/-- `((D − A_reg) v)_i` -/
def lapApply (n : Nat) (a : Mat α) (reg : α) (v : Nat → α) (i : Nat) : α :=
  degReg n a reg i * v i - sumN n fun j => aReg n a reg i j * v j

/-- largest of `|f i|`, `i < n` -/
def maxAbs (n : Nat) (f : Nat → α) : α :=
  (List.range n).foldl (fun acc i => if acc < absv (f i) then absv (f i) else acc) 0

/-- residual `max_i |(M v)_i − λ v_i|` -/
def eigResidual (n : Nat) (apply : (Nat → α) → Nat → α) (lam : α) (v : Nat → α) : α :=
  maxAbs n fun i => apply v i - lam * v i

/-- transitive closure by Warshall's scheme (independent of the model's relaxation rounds) -/
def closure (n : Nat) (e : Nat → Nat → Bool) : List (List Bool) :=
  (List.range n).foldl (fun r k =>
    tab n fun i => tab n fun j =>
      ((r.getD i []).getD j false) || (((r.getD i []).getD k false) && ((r.getD k []).getD j false)))
    (tab n fun i => tab n fun j => i == j || e i j)

def stronglyConnected (n : Nat) (a : Mat α) : Bool :=
  let c := closure n fun i j => !(mget a i j == 0)
  (List.range n).all fun i => (List.range n).all fun j => (c.getD i []).getD j false

/-- documented rule: a non-negative parameter is used as it is; a negative one means "its absolute value
    if the graph is not (strongly) connected, otherwise none" -/
def effectiveReg (n : Nat) (a : Mat α) (regParam : α) : α :=
  if regParam < 0 then (if stronglyConnected n a then 0 else 0 - regParam) else regParam

/-- is `l` non-decreasing / non-increasing up to `tol` -/
def isNondecreasing (l : Vec α) (tol : α) : Bool :=
  (List.range (l.length - 1)).all fun i => !(decide (vget l (i+1) + tol < vget l i))

def isNonincreasing (l : Vec α) (tol : α) : Bool :=
  (List.range (l.length - 1)).all fun i => !(decide (vget l i + tol < vget l (i+1)))

/-- a row is either exactly null or has Euclidean norm 1 (up to `tol`) -/
def unitOrNull (F : Fn α) (k : Nat) (row : Nat → α) (tol : α) : Bool :=
  ((List.range k).all fun j => row j == 0) ||
    !(decide (tol < absv (F.sqrt (sumN k fun j => row j * row j) - 1)))

def unitRows (F : Fn α) (n k : Nat) (m : Mat α) (tol : α) : Bool :=
  (List.range n).all fun i => unitOrNull F k (mget m i) tol

/-- `normalize(·, p=2)` written row by row: `x / ‖x‖`, null rows stay null -/
def normalizedEntry (F : Fn α) (k : Nat) (m : Mat α) (i j : Nat) : α :=
  let nr := F.sqrt (sumN k fun c => mget m i c * mget m i c)
  if nr == 0 then 0 else mget m i j / nr

/-- largest entrywise distance of two `n × k` matrices -/
def maxDiff (n k : Nat) (x y : Nat → Nat → α) : α :=
  maxAbs n fun i => maxAbs k fun j => x i j - y i j

/-- how far the columns of an `n × k` matrix are from being orthonormal for the weights `w`:
    `max_{c,c'} |Σ_i w_i m_ic m_ic' − δ_cc'|` -/
def gramDefect (n k : Nat) (w : Nat → α) (m : Mat α) : α :=
  maxAbs k fun c => maxAbs k fun c' =>
    (sumN n fun i => w i * mget m i c * mget m i c') - (if c == c' then 1 else 0)

/-! GSVD: `M = D₁^{-α₁} (A + α 11ᵀ/n_col) D₂^{-α₂}` -/

def gsvdWeightRow (nCol : Nat) (a : Mat α) (reg : α) (i : Nat) : α := sumN nCol fun j => aReg nCol a reg i j
def gsvdWeightCol (nRow nCol : Nat) (a : Mat α) (reg : α) (j : Nat) : α := sumN nRow fun i => aReg nCol a reg i j

def gsvdEntry (F : Fn α) (nRow nCol : Nat) (a : Mat α) (reg fr fc : α) (i j : Nat) : α :=
  pinv (F.pow (gsvdWeightRow nCol a reg i) fr) * aReg nCol a reg i j * pinv (F.pow (gsvdWeightCol nRow nCol a reg j) fc)

/-- residuals of the triplet `(σ, u, v)` of an `nRow × nCol` matrix `m`: `‖M v − σ u‖∞`, `‖Mᵀ u − σ v‖∞` -/
def tripletResidual (nRow nCol : Nat) (m : Nat → Nat → α) (s : α) (u v : Nat → α) : α × α :=
  (maxAbs nRow fun i => (sumN nCol fun j => m i j * v j) - s * u i,
   maxAbs nCol fun j => (sumN nRow fun i => m i j * u i) - s * v j)

/-- PCA: `A − 1 μᵀ`, `μ_j` the mean of column `j` -/
def centredEntry (nRow : Nat) (a : Mat α) (i j : Nat) : α :=
  mget a i j - (sumN nRow fun r => mget a r j) / (nRow : α)

/-- `xⁿ` by repeated multiplication -/
def powN (x : α) : Nat → α
  | 0 => 1
  | t+1 => powN x t * x

/-- `Mᵗ G` for a dense `n × n` matrix `m` and an `n × k` matrix `g` -/
def matPowApply (n : Nat) (m : Nat → Nat → α) (g : Nat → Nat → α) : Nat → Nat → Nat → α
  | 0 => g
  | t+1 => fun i c => sumN n fun j => m i j * matPowApply n m g t j c

/-- `Σ_{t ≤ K} (αM)ᵗ G` -/
def rpClosedForm (n : Nat) (m : Nat → Nat → α) (alpha : α) (g : Nat → Nat → α) (K : Nat) (i c : Nat) : α :=
  sumN (K+1) fun t => powN alpha t * matPowApply n m g t i c

/-- the multiplier of RandomProjection, entry by entry -/
def rpMultiplierEntry (n : Nat) (a : Mat α) (reg : α) (randomWalk : Bool) (i j : Nat) : α :=
  if randomWalk then pinv ((sumN n fun c => mget a i c) + reg) * aReg n a reg i j else aReg n a reg i j

/-- LouvainEmbedding: share of the weight of node `i` that goes to cluster `c` -/
def louvainEntry (m : Nat) (a : Mat α) (labels : List Int) (i c : Nat) : α :=
  let tot := sumN m fun j => absv (mget a i j)
  if tot == 0 then 0 else (sumN m fun j => if labels.getD j (-1) == (c : Int) then mget a i j else 0) / tot

end
end SkNet.Embedding.Spec
