/-
What a drawing must contain, stated from the *input* alone (independent of the templates and of the order in which
the code appends): how many node shapes, edge paths and names, and which text each name is displayed as.
The text of a name is the name itself with every character XML 1.0 cannot represent shown as U+FFFD (`displayed`).
A "displayed edge" is a stored entry of the (bi)adjacency matrix with a non-zero weight, plus every edge label put
on a pair of nodes that has no edge (`edge_labels` draws those as extra edges).
-/
import SkNet.Model.Svg
import SkNet.Spec.Xml

namespace SkNet.Svg

structure Expected where
  /-- `circle` elements -/
  circles : Nat
  /-- pie sectors: `path` elements with a `style` attribute -/
  sectors : Nat
  /-- edge paths: `path` elements with a `stroke` attribute, outside `defs` -/
  edgePaths : Nat
  /-- displayed text (references resolved) of the `text` elements, in document order -/
  texts : List PyStr
deriving Repr, DecidableEq

/-- a pie sector is a `path` with a `style` attribute, an edge a `path` with a `stroke` attribute -/
def hasStyle (as : List Attr) : Bool := (attrVal? as py!"style").isSome
def hasStroke (as : List Attr) : Bool := (attrVal? as py!"stroke").isSome

/-- what a parsed document contains -/
def observed (ps : List Piece) : Expected :=
  let body := dropDefs ps 0
  { circles := countElems py!"circle" (fun _ => true) body
    sectors := countElems py!"path" hasStyle body
    edgePaths := countElems py!"path" hasStroke body
    texts := textContents body }

/-- is node `i` drawn as a pie chart (else as one circle)? -/
def isPie (probs : Option Probs) (i : Nat) : Bool :=
  match probs with
  | none => false
  | some p =>
    let row := p.rows.getD i []
    row.length ≠ 1 && row.foldl (fun a e => a + e.2) 0 ≠ 0

def ncolsOf (probs : Option Probs) : Nat := (probs.map (·.ncols)).getD 0

/-- the adjacency is symmetric: `A[i,j] = A[j,i]` for all pairs -/
def symmetricSpec (n : Nat) (es : List Entry) : Bool :=
  (List.range n).all fun i => (List.range n).all fun j => entryAt es i j = entryAt es j i

/-- number of nodes, and the displayed stored entries (non-zero weight), of a `visualize_graph` call -/
def specN (a : GraphArgs) : Nat := if a.hasAdj then a.n else a.pos.length
def specEs (a : GraphArgs) : List Entry := (if a.hasAdj then a.entries else []).filter fun e => e.2.2 ≠ 0
/-- the graph is drawn with arrows when asked to, by default when its adjacency matrix is not symmetric -/
def specDirected (a : GraphArgs) : Bool := a.directed.getD (!symmetricSpec (specN a) (specEs a))
/-- an edge `i → j` is shown unless it is an arrow between two nodes given the same position -/
def shownSpec (a : GraphArgs) (i j : Nat) : Bool := !specDirected a || a.pos.getD i (0, 0) != a.pos.getD j (0, 0)
def specOrder (a : GraphArgs) : List Nat := a.nodeOrder.getD (List.range (specN a))

/-- expected content of `visualize_graph` on a non-degenerate canvas (`width` or `height` non-zero, `scale ≠ 0`) -/
def expectedGraph (a : GraphArgs) : Expected :=
  { circles := ((specOrder a).filter fun i => !isPie a.probs i).length
    sectors := ((specOrder a).filter fun i => isPie a.probs i).length * ncolsOf a.probs
    edgePaths :=
      if a.displayEdges then
        ((specEs a).filter fun e => shownSpec a e.1 e.2.1).length +
        (a.edgeLabels.filter fun l =>
          entryAt (specEs a) l.1.toNat l.2.1.toNat = 0 && shownSpec a l.1.toNat l.2.1.toNat).length
      else 0
    texts := match a.names with
      | none => []
      | some names => (List.range (specN a)).map fun i => displayed (names.getD i []) }

/-- expected content of `visualize_bigraph` -/
def expectedBigraph (a : BigraphArgs) : Expected :=
  let rows := List.range a.nRow
  let cols := List.range a.nCol
  let es := a.entries.filter fun e => e.2.2 ≠ 0
  let extra := (a.edgeLabels.filter fun l => entryAt es l.1.toNat l.2.1.toNat = 0).length
  { circles := (rows.filter fun i => !isPie a.probsRow i).length + (cols.filter fun i => !isPie a.probsCol i).length
    sectors := (rows.filter fun i => isPie a.probsRow i).length * ncolsOf a.probsRow +
               (cols.filter fun i => isPie a.probsCol i).length * ncolsOf a.probsCol
    edgePaths := if a.displayEdges then es.length + extra else 0
    texts := (match a.namesRow with
        | none => []
        | some names => rows.map fun i => displayed (names.getD i [])) ++
      (match a.namesCol with
        | none => []
        | some names => cols.map fun i => displayed (names.getD i [])) }

/-- expected content of a dendrogram drawing with `n` leaves -/
def expectedDendrogram (a : DendroArgs) : Expected :=
  let n := a.merges.length + 1
  { circles := 0, sectors := 0
    edgePaths := 3 * a.merges.length
    texts := match a.names with
      | none => []
      | some names => (List.range n).map fun i => displayed (names.getD i []) }

/-! ### geometry: every edge path joins the shapes of its two end nodes -/

/-- blank-separated tokens -/
def splitBlank (s : PyStr) : List PyStr :=
  let (acc, cur) := s.foldl (fun (st : List PyStr × PyStr) c =>
    if c = 32 then (if st.2.isEmpty then st.1 else st.1 ++ [st.2], []) else (st.1, st.2 ++ [c])) ([], [])
  if cur.isEmpty then acc else acc ++ [cur]

/-- `[-]digits[.digits]` as a rational -/
def parseDec (s : PyStr) : Option Rat :=
  let (neg, body) := match s with
    | 45 :: r => (true, r)
    | r => (false, r)
  let (ip, rest) := spanP isDigit body
  let frac : Option PyStr := match rest with
    | [] => some []
    | 46 :: f => if f.all isDigit then some f else none
    | _ => none
  match frac with
  | none => none
  | some f =>
    if ip.isEmpty && f.isEmpty then none
    else
      let v : Rat := (decVal ip : Rat) + (decVal f : Rat) / ((10 ^ f.length : Nat) : Rat)
      some (if neg then -v else v)

/-- truncation toward zero (`astype(int)`) -/
def truncRat (v : Rat) : Rat := if v ≥ 0 then (v.floor : Rat) else (v.ceil : Rat)

/-- a node shape read back from the document: centre and radius, as numbers -/
structure Centre where
  x : Rat
  y : Rat
  r : Rat
deriving Repr

/-- the node shapes in document order: `(isSector, centre)`.  A circle gives `(cx, cy, r)`; a pie sector
    `M x0 y0 A r r 0 f 1 x1 y1 L x y` gives the integer part of `(x, y)` (edges are drawn between integer parts) and `r`.
    `none` = a number could not be read (exponent notation, nan): the geometry check is then inconclusive. -/
def shapeItems : List Piece → Option (List (Bool × Centre))
  | [] => some []
  | .etag m as _ :: r =>
    if m == py!"circle" then
      match parseDec ((attrVal? as py!"cx").getD []), parseDec ((attrVal? as py!"cy").getD []),
            parseDec ((attrVal? as py!"r").getD []), shapeItems r with
      | some x, some y, some rr, some rest => some ((false, ⟨x, y, rr⟩) :: rest)
      | _, _, _, _ => none
    else if m == py!"path" && hasStyle as then
      match splitBlank ((attrVal? as py!"d").getD []) with
      | [_, _, _, _, rr, _, _, _, _, _, _, _, x, y] =>
        (match parseDec x, parseDec y, parseDec rr, shapeItems r with
         | some x, some y, some rr, some rest => some ((true, ⟨truncRat x, truncRat y, rr⟩) :: rest)
         | _, _, _, _ => none)
      | _ => none
    else shapeItems r
  | _ :: r => shapeItems r

/-- the centre of every drawn node: nodes are drawn in the order `order`, a pie node as `k` sectors with one centre -/
def centresOf (order : List Nat) (pie : Nat → Bool) (k : Nat) : List (Bool × Centre) → Option (List (Nat × Centre))
  | items =>
    match order with
    | [] => if items.isEmpty then some [] else none
    | i :: rest =>
      if pie i then
        let mine := items.take k
        if mine.length == k && k > 0 && mine.all (fun it => it.1 && it.2.x == (mine.headD (true, ⟨0, 0, 0⟩)).2.x &&
            it.2.y == (mine.headD (true, ⟨0, 0, 0⟩)).2.y) then
          (centresOf rest pie k (items.drop k)).map (fun l => (i, (mine.headD (true, ⟨0, 0, 0⟩)).2) :: l)
        else none
      else
        match items with
        | (false, c) :: more => (centresOf rest pie k more).map (fun l => (i, c) :: l)
        | _ => none

/-- `M x1 y1 x2 y2` of the edge paths (those with a `stroke` attribute), in document order, as numbers -/
def strokePathsOf : List Piece → Option (List (Rat × Rat × Rat × Rat))
  | [] => some []
  | .etag m as _ :: r =>
    if m == py!"path" && hasStroke as then
      match splitBlank ((attrVal? as py!"d").getD []) with
      | [mm, a, b, c, d] =>
        (match parseDec a, parseDec b, parseDec c, parseDec d, strokePathsOf r with
         | some a, some b, some c, some d, some rest => if mm == py!"M" then some ((a, b, c, d) :: rest) else none
         | _, _, _, _, _ => none)
      | _ => none
    else strokePathsOf r
  | _ :: r => strokePathsOf r

/-- does the path start at the centre of `ci` and end at (undirected) / near (directed: within the radius of the
    target plus rounding) the centre of `cj`? -/
def joins (directed : Bool) (ci cj : Centre) (p : Rat × Rat × Rat × Rat) : Bool :=
  p.1 == ci.x && p.2.1 == ci.y &&
  (if directed then
    let r := if cj.r < 0 then -cj.r else cj.r        -- signed node weights can give a negative printed radius
    (p.2.2.1 - cj.x) * (p.2.2.1 - cj.x) + (p.2.2.2 - cj.y) * (p.2.2.2 - cj.y) ≤ (r + 2) * (r + 2)
   else p.2.2.1 == cj.x && p.2.2.2 == cj.y)

/-- remove the first element satisfying `p` -/
def removeFirst (p : α → Bool) : List α → Option (List α)
  | [] => none
  | x :: xs => if p x then some xs else (removeFirst p xs).map (x :: ·)

/-- undirected (exact): every expected edge is matched by a path of its own; the paths that are left -/
def matchExactRest (centre : Nat → Option Centre) :
    List (Nat × Nat) → List (Rat × Rat × Rat × Rat) → Option (List (Rat × Rat × Rat × Rat))
  | [], paths => some paths
  | (i, j) :: es, paths =>
    match centre i, centre j with
    | some ci, some cj =>
      (match removeFirst (joins false ci cj) paths with
       | some rest => matchExactRest centre es rest
       | none => none)
    | _, _ => none

/-- … and no path is left -/
def matchExact (centre : Nat → Option Centre) (es : List (Nat × Nat)) (paths : List (Rat × Rat × Rat × Rat)) : Bool :=
  match matchExactRest centre es paths with
  | some rest => rest.isEmpty
  | none => false

/-- directed (the arrow stops at the rim of the target, so the end point is only near its centre): as many paths as
    expected edges, every expected edge has a path that joins its end nodes, every path joins the end nodes of an
    expected edge -/
def matchNear (centre : Nat → Option Centre) (es : List (Nat × Nat)) (paths : List (Rat × Rat × Rat × Rat)) : Bool :=
  let ok := fun (e : Nat × Nat) (p : Rat × Rat × Rat × Rat) =>
    match centre e.1, centre e.2 with
    | some ci, some cj => joins true ci cj p
    | _, _ => false
  es.length == paths.length && es.all (fun e => paths.any (ok e)) && paths.all (fun p => es.any (fun e => ok e p))

def matchEdges (directed : Bool) (centre : Nat → Option Centre)
    (es : List (Nat × Nat)) (paths : List (Rat × Rat × Rat × Rat)) : Bool :=
  if directed then matchNear centre es paths else matchExact centre es paths

/-- `visualize_graph`: the edge paths are exactly the displayed edges, each joining the shapes (circle or pie) of its
    end nodes; arrows on all of them or on none.  Edges with an end node that has no shape (`node_order` a subset) are
    only counted.  `none` = inconclusive (a number cannot be read). -/
def geomGraph (a : GraphArgs) (ps : List Piece) : Option Bool :=
  if !a.displayEdges then some true
  else
    let body := dropDefs ps 0
    match shapeItems body, strokePathsOf body with
    | some items, some paths =>
      (match centresOf (specOrder a) (isPie a.probs) (ncolsOf a.probs) items with
       | none => some false                      -- the node shapes do not follow `node_order`
       | some cs =>
         let centre := fun i => (cs.find? (·.1 == i)).map (·.2)
         let expected := (((specEs a).filter fun e => shownSpec a e.1 e.2.1).map fun e => (e.1, e.2.1)) ++
           ((a.edgeLabels.filter fun l =>
              entryAt (specEs a) l.1.toNat l.2.1.toNat = 0 && shownSpec a l.1.toNat l.2.1.toNat).map
             fun l => (l.1.toNat, l.2.1.toNat))
         let known := expected.filter fun e => (centre e.1).isSome && (centre e.2).isSome
         -- arrows (`marker-end`) on every edge path of a directed drawing, on none of an undirected one
         let arrows := countElems py!"path" (fun as => hasStroke as && (attrVal? as py!"marker-end").isSome) body
         some (arrows == (if specDirected a then paths.length else 0) &&
           (if specDirected a then
              (if known.length == expected.length then matchNear centre expected paths
               else known.all fun e => paths.any fun p =>
                 match centre e.1, centre e.2 with
                 | some ci, some cj => joins true ci cj p
                 | _, _ => false)
            else match matchExactRest centre known paths with
              | some rest => rest.length + known.length == expected.length
              | none => false)))
    | _, _ => none

/-- `visualize_bigraph`: row shapes first, then column shapes (circles or pies) -/
def geomBigraph (a : BigraphArgs) (ps : List Piece) : Option Bool :=
  if !a.displayEdges then some true
  else
    match shapeItems ps, strokePathsOf ps with
    | some items, some paths =>
      let rowItems := ((List.range a.nRow).map fun i => if isPie a.probsRow i then ncolsOf a.probsRow else 1).foldl (· + ·) 0
      (match centresOf (List.range a.nRow) (isPie a.probsRow) (ncolsOf a.probsRow) (items.take rowItems),
             centresOf (List.range a.nCol) (isPie a.probsCol) (ncolsOf a.probsCol) (items.drop rowItems) with
       | some rows, some cols =>
         let centre := fun i =>
           if i < a.nRow then (rows.find? (·.1 == i)).map (·.2) else (cols.find? (·.1 == i - a.nRow)).map (·.2)
         let es := a.entries.filter fun e => e.2.2 ≠ 0
         let expected := (es.map fun e => (e.1, a.nRow + e.2.1)) ++
           ((a.edgeLabels.filter fun l => entryAt es l.1.toNat l.2.1.toNat = 0).map
             fun l => (l.1.toNat, a.nRow + l.2.1.toNat))
         some (matchExact centre expected paths)
       | _, _ => some false)
    | _, _ => none

/-- two printed numbers are the same up to the rounding of a float64 computed from printed operands -/
def closeTo (a b : Rat) : Bool :=
  let d := if a ≥ b then a - b else b - a
  let m := (if a ≥ 0 then a else -a) + (if b ≥ 0 then b else -b) + 1
  d * 1000000 ≤ m

/-- `visualize_dendrogram`: the three paths of merge `t` form a bracket — one leg from each child to the level of the
    merge and a bar joining the legs —; a leg starts where its child was drawn (a leaf on the base line, each leaf once
    and at a place of its own; an earlier merge at the middle of its bar). `top` = root on top (`rotate=False`). -/
def geomDendro (a : DendroArgs) (ps : List Piece) : Option Bool :=
  match strokePathsOf ps with
  | none => none
  | some paths =>
    let n := a.merges.length + 1
    let top := !a.rotate
    -- (axis along which the leaves are spread, axis of the heights)
    let u := fun (p : Rat × Rat) => if top then p.1 else p.2
    let v := fun (p : Rat × Rat) => if top then p.2 else p.1
    let step := fun (st : Option (List (Nat × Rat × Rat) × List (Rat × Rat))) (t : Nat) =>
      match st with
      | none => none
      | some (nodes, leaves) =>
        match paths[3 * t]?, paths[3 * t + 1]?, paths[3 * t + 2]? with
        | some p0, some p1, some p2 =>
          let (i, j) := a.merges.getD t (0, 0)
          let s0 := (p0.1, p0.2.1); let e0 := (p0.2.2.1, p0.2.2.2)
          let s1 := (p1.1, p1.2.1); let e1 := (p1.2.2.1, p1.2.2.2)
          let b0 := (p2.1, p2.2.1); let b1 := (p2.2.2.1, p2.2.2.2)
          let bracket := u s0 == u e0 && u s1 == u e1 && v e0 == v e1 && b0 == e0 && b1 == e1
          let start := fun (c : Nat) (s : Rat × Rat) =>
            if c < n then !(leaves.any (fun l => u l == u s)) && leaves.all (fun l => v l == v s)
            else match nodes.find? (·.1 == c) with
              | some (_, x, y) => closeTo x s.1 && closeTo y s.2
              | none => false
          if bracket && start i s0 && start j s1 && !(i < n && j < n && u s0 == u s1) then
            let leaves := (if i < n then [s0] else []) ++ (if j < n then [s1] else []) ++ leaves
            let mid : Rat × Rat := if top then ((e0.1 + e1.1) / 2, e0.2) else (e0.1, (e0.2 + e1.2) / 2)
            some ((n + t, mid.1, mid.2) :: nodes, leaves)
          else none
        | _, _, _ => none
    some (paths.length == 3 * a.merges.length &&
      ((List.range a.merges.length).foldl step (some ([], []))).isSome)

/-- the whole observation of C20 on a returned string -/
def docMeets (doc : PyStr) (e : Expected) : Bool :=
  wf doc &&
  (match parseDoc doc with
   | some ps => rootName ps == some py!"svg" && observed ps == e
   | none => false)

/-- `why` the observation fails (for the replay files) -/
def docReport (doc : PyStr) (e : Expected) : String :=
  match parseDoc doc with
  | none => "not-well-formed(lexical)"
  | some ps =>
    if !balanced ps [] false then "not-well-formed(nesting)"
    else if rootName ps != some py!"svg" then "root-not-svg"
    else
      let o := observed ps
      s!"circles={o.circles}/{e.circles} sectors={o.sectors}/{e.sectors} edgePaths={o.edgePaths}/{e.edgePaths} " ++
      s!"texts={o.texts.length}/{e.texts.length} textsEqual={o.texts == e.texts}"

end SkNet.Svg
