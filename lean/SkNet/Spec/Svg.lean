/-
What a drawing must contain, stated from the *input* alone (independent of the templates and of the order in which
the code appends): how many node shapes, edge paths and names, and which text each name is displayed as.
A "displayed edge" is a stored entry of the (bi)adjacency matrix with a non-zero weight, plus every edge label put
on a pair of nodes that has no edge (`edge_labels` draws those as extra edges).
-/
import SkNet.Model.Svg
import SkNet.Spec.Xml

namespace SkNet.Svg

structure Expected where
  /-- `circle` elements -/
  circles : Nat
  /-- pie sectors: `path` elements with a `style` attribute -/
  sectors : Nat
  /-- edge paths: `path` elements with a `stroke` attribute, outside `defs` -/
  edgePaths : Nat
  /-- plain characters of the displayed text of the `text` elements, in document order -/
  texts : List PyStr
deriving Repr, DecidableEq

/-- a pie sector is a `path` with a `style` attribute, an edge a `path` with a `stroke` attribute -/
def hasStyle (as : List Attr) : Bool := (attrVal? as py!"style").isSome
def hasStroke (as : List Attr) : Bool := (attrVal? as py!"stroke").isSome

/-- what a parsed document contains -/
def observed (ps : List Piece) : Expected :=
  let body := dropDefs ps 0
  { circles := countElems py!"circle" (fun _ => true) body
    sectors := countElems py!"path" hasStyle body
    edgePaths := countElems py!"path" hasStroke body
    texts := (textContents body).map plainOf }

/-- is node `i` drawn as a pie chart (else as one circle)? -/
def isPie (probs : Option Probs) (i : Nat) : Bool :=
  match probs with
  | none => false
  | some p =>
    let row := p.rows.getD i []
    row.length ≠ 1 && row.foldl (fun a e => a + e.2) 0 ≠ 0

def ncolsOf (probs : Option Probs) : Nat := (probs.map (·.ncols)).getD 0

/-- the adjacency is symmetric: `A[i,j] = A[j,i]` for all pairs -/
def symmetricSpec (n : Nat) (es : List Entry) : Bool :=
  (List.range n).all fun i => (List.range n).all fun j => entryAt es i j = entryAt es j i

/-- number of nodes, and the displayed stored entries (non-zero weight), of a `visualize_graph` call -/
def specN (a : GraphArgs) : Nat := if a.hasAdj then a.n else a.pos.length
def specEs (a : GraphArgs) : List Entry := (if a.hasAdj then a.entries else []).filter fun e => e.2.2 ≠ 0
/-- the graph is drawn with arrows when asked to, by default when its adjacency matrix is not symmetric -/
def specDirected (a : GraphArgs) : Bool := a.directed.getD (!symmetricSpec (specN a) (specEs a))
/-- an edge `i → j` is shown unless it is an arrow between two nodes given the same position -/
def shownSpec (a : GraphArgs) (i j : Nat) : Bool := !specDirected a || a.pos.getD i (0, 0) != a.pos.getD j (0, 0)
def specOrder (a : GraphArgs) : List Nat := a.nodeOrder.getD (List.range (specN a))

/-- expected content of `visualize_graph` on a non-degenerate canvas (`width` or `height` non-zero, `scale ≠ 0`) -/
def expectedGraph (a : GraphArgs) : Expected :=
  { circles := ((specOrder a).filter fun i => !isPie a.probs i).length
    sectors := ((specOrder a).filter fun i => isPie a.probs i).length * ncolsOf a.probs
    edgePaths :=
      if a.displayEdges then
        ((specEs a).filter fun e => shownSpec a e.1 e.2.1).length +
        (a.edgeLabels.filter fun l =>
          entryAt (specEs a) l.1.toNat l.2.1.toNat = 0 && shownSpec a l.1.toNat l.2.1.toNat).length
      else 0
    texts := match a.names with
      | none => []
      | some names => (List.range (specN a)).map fun i => plainOf (names.getD i []) }

/-- expected content of `visualize_bigraph` -/
def expectedBigraph (a : BigraphArgs) : Expected :=
  let rows := List.range a.nRow
  let cols := List.range a.nCol
  let es := a.entries.filter fun e => e.2.2 ≠ 0
  let extra := (a.edgeLabels.filter fun l => entryAt es l.1.toNat l.2.1.toNat = 0).length
  { circles := (rows.filter fun i => !isPie a.probsRow i).length + (cols.filter fun i => !isPie a.probsCol i).length
    sectors := (rows.filter fun i => isPie a.probsRow i).length * ncolsOf a.probsRow +
               (cols.filter fun i => isPie a.probsCol i).length * ncolsOf a.probsCol
    edgePaths := if a.displayEdges then es.length + extra else 0
    texts := (match a.namesRow with
        | none => []
        | some names => rows.map fun i => plainOf (names.getD i [])) ++
      (match a.namesCol with
        | none => []
        | some names => cols.map fun i => plainOf (names.getD i [])) }

/-- expected content of a dendrogram drawing with `n` leaves -/
def expectedDendrogram (a : DendroArgs) : Expected :=
  let n := a.merges.length + 1
  { circles := 0, sectors := 0
    edgePaths := 3 * a.merges.length
    texts := match a.names with
      | none => []
      | some names => (List.range n).map fun i => plainOf (names.getD i []) }

/-! ### geometry: every edge path joins the shapes of its two end nodes -/

/-- blank-separated tokens -/
def splitBlank (s : PyStr) : List PyStr :=
  let (acc, cur) := s.foldl (fun (st : List PyStr × PyStr) c =>
    if c = 32 then (if st.2.isEmpty then st.1 else st.1 ++ [st.2], []) else (st.1, st.2 ++ [c])) ([], [])
  if cur.isEmpty then acc else acc ++ [cur]

/-- `[-]digits[.digits]` as a rational -/
def parseDec (s : PyStr) : Option Rat :=
  let (neg, body) := match s with
    | 45 :: r => (true, r)
    | r => (false, r)
  let (ip, rest) := spanP isDigit body
  let frac : Option PyStr := match rest with
    | [] => some []
    | 46 :: f => if f.all isDigit then some f else none
    | _ => none
  match frac with
  | none => none
  | some f =>
    if ip.isEmpty && f.isEmpty then none
    else
      let v : Rat := (decVal ip : Rat) + (decVal f : Rat) / ((10 ^ f.length : Nat) : Rat)
      some (if neg then -v else v)

/-- `(cx, cy, r)` of the circles, in document order -/
def circlesOf : List Piece → List (PyStr × PyStr × PyStr)
  | [] => []
  | .etag m as _ :: r =>
    if m == py!"circle" then
      ((attrVal? as py!"cx").getD [], (attrVal? as py!"cy").getD [], (attrVal? as py!"r").getD []) :: circlesOf r
    else circlesOf r
  | _ :: r => circlesOf r

/-- `M x1 y1 x2 y2` of the edge paths (those with a `stroke` attribute), in document order -/
def strokePathsOf : List Piece → List (List PyStr)
  | [] => []
  | .etag m as _ :: r =>
    if m == py!"path" && (attrVal? as py!"stroke").isSome then
      splitBlank ((attrVal? as py!"d").getD []) :: strokePathsOf r
    else strokePathsOf r
  | _ :: r => strokePathsOf r

/-- does the path `M x1 y1 x2 y2` start at the centre of `ci` and end at (undirected) / near (directed: within the
    radius of the target plus rounding) the centre of `cj`? -/
def joins (directed : Bool) (ci cj : PyStr × PyStr × PyStr) (path : List PyStr) : Bool :=
  match path with
  | [m, x1, y1, x2, y2] =>
    m == py!"M" && x1 == ci.1 && y1 == ci.2.1 &&
    (if directed then
      match parseDec x2, parseDec y2, parseDec cj.1, parseDec cj.2.1, parseDec cj.2.2 with
      | some a, some b, some c, some d, some r =>
        let r := if r < 0 then -r else r        -- signed node weights can give a negative printed radius
        (a - c) * (a - c) + (b - d) * (b - d) ≤ (r + 2) * (r + 2)
      | _, _, _, _, _ => false
     else x2 == cj.1 && y2 == cj.2.1)
  | _ => false

/-- remove the first element satisfying `p` -/
def removeFirst (p : α → Bool) : List α → Option (List α)
  | [] => none
  | x :: xs => if p x then some xs else (removeFirst p xs).map (x :: ·)

/-- undirected (exact tokens): every expected edge is matched by a path of its own, and no path is left -/
def matchExact (centre : Nat → Option (PyStr × PyStr × PyStr)) : List (Nat × Nat) → List (List PyStr) → Bool
  | [], paths => paths.isEmpty
  | (i, j) :: es, paths =>
    match centre i, centre j with
    | some ci, some cj =>
      (match removeFirst (joins false ci cj) paths with
       | some rest => matchExact centre es rest
       | none => false)
    | _, _ => false

/-- directed (the arrow stops at the rim of the target, so the end point is only near its centre): as many paths as
    expected edges, every expected edge has a path that joins its end nodes, every path joins the end nodes of an
    expected edge -/
def matchNear (centre : Nat → Option (PyStr × PyStr × PyStr)) (es : List (Nat × Nat)) (paths : List (List PyStr)) :
    Bool :=
  let ok := fun (e : Nat × Nat) (p : List PyStr) =>
    match centre e.1, centre e.2 with
    | some ci, some cj => joins true ci cj p
    | _, _ => false
  es.length == paths.length && es.all (fun e => paths.any (ok e)) && paths.all (fun p => es.any (fun e => ok e p))

def matchEdges (directed : Bool) (centre : Nat → Option (PyStr × PyStr × PyStr))
    (es : List (Nat × Nat)) (paths : List (List PyStr)) : Bool :=
  if directed then matchNear centre es paths else matchExact centre es paths

/-- `visualize_graph` without pie charts, `node_order` a permutation: the edge paths are exactly the displayed edges,
    each joining the circles of its end nodes -/
def geomGraph (a : GraphArgs) (ps : List Piece) : Bool :=
  let n := if a.hasAdj then a.n else a.pos.length
  let order := a.nodeOrder.getD (List.range n)
  let isPerm := order.length == n && (List.range n).all order.contains
  if a.probs.isSome || !isPerm || !a.displayEdges then true
  else
    let body := dropDefs ps 0
    let circles := circlesOf body
    let centre := fun i => (order.idxOf? i).bind fun k => circles[k]?
    let es := (if a.hasAdj then a.entries else []).filter fun e => e.2.2 ≠ 0
    let directed := a.directed.getD (!symmetricSpec n es)
    let shown := fun (i j : Nat) => !directed || a.pos.getD i (0, 0) != a.pos.getD j (0, 0)
    let expected := ((es.filter fun e => shown e.1 e.2.1).map fun e => (e.1, e.2.1)) ++
      ((a.edgeLabels.filter fun l => entryAt es l.1.toNat l.2.1.toNat = 0 && shown l.1.toNat l.2.1.toNat).map
        fun l => (l.1.toNat, l.2.1.toNat))
    matchEdges directed centre expected (strokePathsOf body)

/-- `visualize_bigraph` without pie charts: row circles first, then column circles -/
def geomBigraph (a : BigraphArgs) (ps : List Piece) : Bool :=
  if a.probsRow.isSome || a.probsCol.isSome || !a.displayEdges then true
  else
    let circles := circlesOf ps
    let centre := fun i => circles[i]?
    let es := a.entries.filter fun e => e.2.2 ≠ 0
    let expected := (es.map fun e => (e.1, a.nRow + e.2.1)) ++
      ((a.edgeLabels.filter fun l => entryAt es l.1.toNat l.2.1.toNat = 0).map
        fun l => (l.1.toNat, a.nRow + l.2.1.toNat))
    matchEdges false centre expected (strokePathsOf ps)

/-- the whole observation of C20 on a returned string -/
def docMeets (doc : PyStr) (e : Expected) : Bool :=
  wf doc &&
  (match parseDoc doc with
   | some ps => rootName ps == some py!"svg" && observed ps == e
   | none => false)

/-- `why` the observation fails (for the replay files) -/
def docReport (doc : PyStr) (e : Expected) : String :=
  match parseDoc doc with
  | none => "not-well-formed(lexical)"
  | some ps =>
    if !balanced ps [] false then "not-well-formed(nesting)"
    else if rootName ps != some py!"svg" then "root-not-svg"
    else
      let o := observed ps
      s!"circles={o.circles}/{e.circles} sectors={o.sectors}/{e.sectors} edgePaths={o.edgePaths}/{e.edgePaths} " ++
      s!"texts={o.texts.length}/{e.texts.length} textsEqual={o.texts == e.texts}"

end SkNet.Svg
