/-
What a drawing must contain, stated from the *input* alone (independent of the templates and of the order in which
the code appends): how many node shapes, edge paths and names, and which text each name is displayed as.
A "displayed edge" is a stored entry of the (bi)adjacency matrix with a non-zero weight, plus every edge label put
on a pair of nodes that has no edge (`edge_labels` draws those as extra edges).
-/
import SkNet.Model.Svg
import SkNet.Spec.Xml

namespace SkNet.Svg

structure Expected where
  /-- `circle` elements -/
  circles : Nat
  /-- pie sectors: `path` elements with a `style` attribute -/
  sectors : Nat
  /-- edge paths: `path` elements with a `stroke` attribute, outside `defs` -/
  edgePaths : Nat
  /-- plain characters of the displayed text of the `text` elements, in document order -/
  texts : List PyStr
deriving Repr, DecidableEq

/-- what a parsed document contains -/
def observed (ps : List Piece) : Expected :=
  let body := dropDefs ps 0
  { circles := countElems py!"circle" (fun _ => true) body
    sectors := countElems py!"path" (fun as => (attrVal? as py!"style").isSome) body
    edgePaths := countElems py!"path" (fun as => (attrVal? as py!"stroke").isSome) body
    texts := (textContents body).map plainOf }

/-- is node `i` drawn as a pie chart (else as one circle)? -/
def isPie (probs : Option Probs) (i : Nat) : Bool :=
  match probs with
  | none => false
  | some p =>
    let row := p.rows.getD i []
    row.length ≠ 1 && row.foldl (fun a e => a + e.2) 0 ≠ 0

def ncolsOf (probs : Option Probs) : Nat := (probs.map (·.ncols)).getD 0

/-- the adjacency is symmetric: `A[i,j] = A[j,i]` for all pairs -/
def symmetricSpec (n : Nat) (es : List Entry) : Bool :=
  (List.range n).all fun i => (List.range n).all fun j => entryAt es i j = entryAt es j i

/-- expected content of `visualize_graph` on a non-degenerate canvas (`width` or `height` non-zero, `scale ≠ 0`),
    all stored weights `≥ 0` -/
def expectedGraph (a : GraphArgs) : Expected :=
  let n := if a.hasAdj then a.n else a.pos.length
  let es := (if a.hasAdj then a.entries else []).filter fun e => e.2.2 ≠ 0
  let directed := a.directed.getD (!symmetricSpec n es)
  let order := a.nodeOrder.getD (List.range n)
  let shown := fun (i j : Nat) => !directed || a.pos.getD i (0, 0) != a.pos.getD j (0, 0)
  let stored := (es.filter fun e => shown e.1 e.2.1).length
  let extra := (a.edgeLabels.filter fun l =>
      entryAt es l.1.toNat l.2.1.toNat = 0 && shown l.1.toNat l.2.1.toNat).length
  { circles := (order.filter fun i => !isPie a.probs i).length
    sectors := (order.filter fun i => isPie a.probs i).length * ncolsOf a.probs
    edgePaths := if a.displayEdges then stored + extra else 0
    texts := match a.names with
      | none => []
      | some names => (List.range n).map fun i => plainOf (names.getD i []) }

/-- expected content of `visualize_bigraph`, all stored weights `≥ 0` -/
def expectedBigraph (a : BigraphArgs) : Expected :=
  let rows := List.range a.nRow
  let cols := List.range a.nCol
  let extra := (a.edgeLabels.filter fun l => entryAt a.entries l.1.toNat l.2.1.toNat = 0).length
  { circles := (rows.filter fun i => !isPie a.probsRow i).length + (cols.filter fun i => !isPie a.probsCol i).length
    sectors := (rows.filter fun i => isPie a.probsRow i).length * ncolsOf a.probsRow +
               (cols.filter fun i => isPie a.probsCol i).length * ncolsOf a.probsCol
    edgePaths := if a.displayEdges then (a.entries.filter fun e => e.2.2 ≠ 0).length + extra else 0
    texts := (match a.namesRow with
        | none => []
        | some names => rows.map fun i => plainOf (names.getD i [])) ++
      (match a.namesCol with
        | none => []
        | some names => cols.map fun i => plainOf (names.getD i [])) }

/-- expected content of a dendrogram drawing with `n` leaves -/
def expectedDendrogram (a : DendroArgs) : Expected :=
  let n := a.merges.length + 1
  { circles := 0, sectors := 0
    edgePaths := 3 * a.merges.length
    texts := match a.names with
      | none => []
      | some names => (List.range n).map fun i => plainOf (names.getD i []) }

/-- the whole observation of C20 on a returned string -/
def docMeets (doc : PyStr) (e : Expected) : Bool :=
  wf doc &&
  (match parseDoc doc with
   | some ps => rootName ps == some py!"svg" && observed ps == e
   | none => false)

/-- `why` the observation fails (for the replay files) -/
def docReport (doc : PyStr) (e : Expected) : String :=
  match parseDoc doc with
  | none => "not-well-formed(lexical)"
  | some ps =>
    if !balanced ps [] false then "not-well-formed(nesting)"
    else if rootName ps != some py!"svg" then "root-not-svg"
    else
      let o := observed ps
      s!"circles={o.circles}/{e.circles} sectors={o.sectors}/{e.sectors} edgePaths={o.edgePaths}/{e.edgePaths} " ++
      s!"texts={o.texts.length}/{e.texts.length} textsEqual={o.texts == e.texts}"

end SkNet.Svg
