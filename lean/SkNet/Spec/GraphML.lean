/-
Specification of GraphML ingestion (property C18): nodes, edges, weights and direction are preserved.
-/
import SkNet.Model.GraphML

namespace SkNet.GraphML
open SkNet.Ingest

/-- an edge of the document, resolved: end points (node numbers in document order), weight, and whether it
    is undirected (its own `directed` attribute, else the default of the graph) -/
structure REdge where
  source : Nat
  target : Nat
  weight : Rat
  undirected : Bool
deriving Repr

/-- the values entry (i, j) receives: the weight of every edge i → j, and of every undirected edge j → i -/
def contributions (es : List REdge) (i j : Nat) : List Rat :=
  es.flatMap fun e =>
    (if e.source = i ∧ e.target = j then [e.weight] else []) ++
    (if e.undirected = true ∧ e.target = i ∧ e.source = j then [e.weight] else [])

/-- entry (i, j) of the adjacency matrix: the sum of the contributions (their `or` when there is no weight key) -/
def specEntry (k : Kind) (es : List REdge) (i j : Nat) : Rat := combine k (contributions es i j)

end SkNet.GraphML
