/-
Specification of GraphML ingestion (property C18): nodes, edges, weights and direction are preserved.
-/
import SkNet.Model.GraphML

namespace SkNet.GraphML
open SkNet.Ingest

/-- an edge of the document, resolved: end points (node numbers in document order), weight, and whether it
    is undirected (its own `directed` attribute, else the default of the graph) -/
structure REdge where
  source : Nat
  target : Nat
  weight : Rat
  undirected : Bool
deriving Repr

/-- the values entry (i, j) receives: the weight of every edge i → j, and of every undirected edge j → i -/
def contributions (es : List REdge) (i j : Nat) : List Rat :=
  es.flatMap fun e =>
    (if e.source = i ∧ e.target = j then [e.weight] else []) ++
    (if e.undirected = true ∧ e.target = i ∧ e.source = j then [e.weight] else [])

/-- entry (i, j) of the adjacency matrix: the sum of the contributions (their `or` when there is no weight key) -/
def specEntry (k : Kind) (es : List REdge) (i j : Nat) : Rat := combine k (contributions es i j)

/-- **what it means to read the edge element `c` as the resolved edge `e`**, clause by clause, in terms of the
    document only (`wid`, `wtype`, `wdefault`: id, declared type and default of the weight key):
    * named nodes: the node ids at positions `e.source`, `e.target` are the `source`, `target` attributes;
      canonical node ids (`parse.nodeids="canonical"`): the attributes are `n<source>`, `n<target>`;
    * weight: the declared default when no `<data>` child carries the weight key, else the value of the text of
      the last one that does, converted to the declared type;
    * undirected iff the element's own `directed` attribute is not "true", or it has none and the graph's
      `edgedefault` is "undirected". -/
structure ReadsAs (num : String → Option Rat) (parseNat : String → Option Nat) (nodeids edgedefault : Option String)
    (nodeIds : List String) (wid : Option String) (wtype : Option PType) (wdefault : Rat)
    (c : Child) (e : REdge) : Prop where
  source_named : nodeids ≠ some "canonical" → ∃ s, c.source = some s ∧ nodeIds[e.source]? = some s
  target_named : nodeids ≠ some "canonical" → ∃ s, c.target = some s ∧ nodeIds[e.target]? = some s
  source_canonical : nodeids = some "canonical" →
    ∃ s, c.source = some s ∧ parseNat (String.ofList (s.toList.drop 1)) = some e.source
  target_canonical : nodeids = some "canonical" →
    ∃ s, c.target = some s ∧ parseNat (String.ofList (s.toList.drop 1)) = some e.target
  weight_default : (∀ d ∈ c.data, some d.1 ≠ wid) → e.weight = wdefault
  weight_data : ∀ pre k t post, c.data = pre ++ (k, t) :: post → some k = wid → (∀ d ∈ post, some d.1 ≠ wid) →
    convert num wtype t = .ok e.weight
  direction : e.undirected = true ↔
    (∃ d, c.directed = some d ∧ d ≠ "true") ∨ (c.directed = none ∧ edgedefault = some "undirected")

/-! ### well-formed documents (for the non-refusal theorem), in terms of the document only -/

/-- a `key` element that is read without error: it has an id and its `<default>` texts are of its type -/
def KeyOk (num : String → Option Rat) (k : Key) : Prop :=
  k.id.isSome = true ∧ ∀ t ∈ k.defaults, ∃ v, convert num (ptypeOf k.typeD) t = .ok v

/-- what `keys[id]` holds for a key that is not the weight key -/
def regKey (k : Key) : OtherKey := ⟨k.id.getD "", k.nameD, ptypeOf k.typeD, k.forD⟩

/-- the registered keys of a document: those that are not the weight key, in order -/
def registered (weightKey : String) (keys : List Key) : List OtherKey :=
  (keys.filter fun k => !isWeightKey weightKey k).map regKey

/-- a `<data key=k>text</data>` child of an element of kind `kind` ("node" / "edge") that is stored without
    error: `k` is a registered key, and every registered key of that id is declared for that kind of element
    (or for all) and the text is of its type -/
def DataOk (num : String → Option Rat) (reg : List OtherKey) (kind : String) (d : String × String) : Prop :=
  (∃ o ∈ reg, o.id = d.1) ∧ ∀ o ∈ reg, o.id = d.1 → holds o.for_ kind = true ∧ ∃ v, convert num o.ptype d.2 = .ok v

end SkNet.GraphML
