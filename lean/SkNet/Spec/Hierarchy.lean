/-
Executable specification of the C07 statement, evaluated on implementation outputs:
`dendroSpec`  : a valid dendrogram over `n` leaves (n-1 rows, row t merges two distinct live clusters, sizes are
                leaf counts, `n` in the last row) whose heights never decrease when reordering is on;
`splitSpec`   : the row (column) dendrogram is valid over the rows (columns) and every one of its merges is the
                restriction to that side of a merge of the full dendrogram, at the same height.
-/
import SkNet.Spec.Dendro
import SkNet.Model.Hierarchy

namespace SkNet.Hier
open SkNet SkNet.Dendro

def need (b : Bool) (msg : String) : Except String Unit := if b then .ok () else .error msg

section
variable {α : Type} [LT α] [DecidableLT α] [DecidableEq α]

def dendroSpec (n : Nat) (D : Dendro α) (sorted : Bool) : Except String Unit := do
  need (D.length + 1 == n) "row-count"
  need (ValidDendro n D) "not-a-valid-dendrogram"
  need (lastSizeIs n D) "last-size-is-not-n"
  if sorted then need (heightsSorted D) "heights-decrease"

/-- one side: `lo ≤ leaf < hi` are the leaves of the side in the full numbering -/
def sideSpec (n : Nat) (D : Dendro α) (lo hi : Nat) (S : Dendro α) (name : String) : Except String Unit := do
  let k := hi - lo
  need (S.length + 1 == k || (k == 0 && S.isEmpty)) (name ++ "-row-count")
  if k ≥ 1 then
    need (ValidDendro k S) (name ++ "-not-valid")
    need (lastSizeIs k S) (name ++ "-last-size")
  need ((List.range S.length).all fun u =>
    match S[u]? with
    | none => false
    | some r => (List.range D.length).any fun t =>
        match D[t]? with
        | some d => d.h == r.h &&
            sameSet ((leaves n D (n + t)).filter fun x => lo ≤ x && x < hi) ((leaves k S (k + u)).map (· + lo))
        | none => false) (name ++ "-row-is-not-a-restricted-merge")

def splitSpec (D : Dendro α) (n1 n2 : Nat) (R C : Dendro α) : Except String Unit := do
  sideSpec (n1 + n2) D 0 n1 R "row"
  sideSpec (n1 + n2) D n1 (n1 + n2) C "col"

end


section
variable {α : Type} [LT α] [DecidableLT α] [DecidableEq α]

/-- `reorder_dendrogram`: a valid dendrogram with non-decreasing heights and the same merges
    (every row of the result is a row of the input: same leaf set, same height, same size; and conversely) -/
def reorderSpec (n : Nat) (D R : Dendro α) : Except String Unit := do
  dendroSpec n R true
  let same := fun (A B : Dendro α) => (List.range A.length).all fun u =>
    match A[u]? with
    | none => false
    | some a => (List.range B.length).any fun t =>
        match B[t]? with
        | some b => b.h == a.h && b.s == a.s && sameSet (leaves n B (n + t)) (leaves n A (n + u))
        | none => false
  need (same R D) "a-row-of-the-result-is-not-a-merge-of-the-input"
  need (same D R) "a-merge-of-the-input-is-missing"

end


/-! ### trees (nested lists of the Louvain hierarchies) -/

mutual
/-- the leaves of a tree, left to right -/
def tleaves : Tree → List Nat
  | .leaf k => [k]
  | .node ts => tleavesL ts
def tleavesL : List Tree → List Nat
  | [] => []
  | t :: ts => tleaves t ++ tleavesL ts
end

mutual
/-- every inner list has at least two elements (what both Louvain builders produce below the top) -/
def WF : Tree → Prop
  | .leaf _ => True
  | .node ts => 2 ≤ ts.length ∧ WFL ts
def WFL : List Tree → Prop
  | [] => True
  | t :: ts => WF t ∧ WFL ts
end

end SkNet.Hier
