/-
Executable specification of the C07 statement, evaluated on implementation outputs:
`dendroSpec`  : a valid dendrogram over `n` leaves (n-1 rows, row t merges two distinct live clusters, sizes are
                leaf counts, `n` in the last row) whose heights never decrease when reordering is on;
`splitSpec`   : the row (column) dendrogram is valid over the rows (columns), its merges are exactly the merges of the
                full dendrogram that join two clusters both meeting that side (same height, restricted leaf set),
                and its heights never decrease when those of the full dendrogram do not.
-/
import SkNet.Spec.Dendro
import SkNet.Model.Hierarchy

namespace SkNet.Hier
open SkNet SkNet.Dendro

def need (b : Bool) (msg : String) : Except String Unit := if b then .ok () else .error msg

section
variable {α : Type} [LT α] [DecidableLT α] [DecidableEq α]

def dendroSpec (n : Nat) (D : Dendro α) (sorted : Bool) : Except String Unit := do
  need (D.length + 1 == n) "row-count"
  need (ValidDendro n D) "not-a-valid-dendrogram"
  need (lastSizeIs n D) "last-size-is-not-n"
  if sorted then need (heightsSorted D) "heights-decrease"

/-- one side: `lo ≤ leaf < hi` are the leaves of the side in the full numbering.  The merges of the side dendrogram
    are exactly the merges of the full one that join two clusters both meeting the side, at the same height
    (a merge that only adds nodes of the other side has the same restriction but is *not* a witness), and the
    heights do not decrease when those of the full dendrogram do not (`sorted`). -/
def sideSpec (n : Nat) (D : Dendro α) (lo hi : Nat) (S : Dendro α) (name : String) (sorted : Bool) :
    Except String Unit := do
  let k := hi - lo
  need (S.length + 1 == k || (k == 0 && S.isEmpty)) (name ++ "-row-count")
  if k ≥ 1 then
    need (ValidDendro k S) (name ++ "-not-valid")
    need (lastSizeIs k S) (name ++ "-last-size")
  if sorted then need (heightsSorted S) (name ++ "-heights-decrease")
  let inSide := fun (x : Nat) => decide (lo ≤ x) && decide (x < hi)
  let meets := fun (x : Nat) => !((leaves n D x).filter inSide).isEmpty
  need ((List.range S.length).all fun u =>
    match S[u]? with
    | none => false
    | some r => (List.range D.length).any fun t =>
        match D[t]? with
        | some d => d.h == r.h && meets d.i && meets d.j &&
            sameSet ((leaves n D (n + t)).filter inSide) ((leaves k S (k + u)).map (· + lo))
        | none => false) (name ++ "-row-is-not-a-restricted-merge")
  need ((List.range D.length).all fun t =>
    match D[t]? with
    | none => false
    | some d =>
      if meets d.i && meets d.j then
        (List.range S.length).any fun u =>
          match S[u]? with
          | some r => r.h == d.h &&
              sameSet ((leaves n D (n + t)).filter inSide) ((leaves k S (k + u)).map (· + lo))
          | none => false
      else true) (name ++ "-merge-of-the-full-dendrogram-missing")

def splitSpec (D : Dendro α) (n1 n2 : Nat) (R C : Dendro α) (sorted : Bool) : Except String Unit := do
  sideSpec (n1 + n2) D 0 n1 R "row" sorted
  sideSpec (n1 + n2) D n1 (n1 + n2) C "col" sorted

end


section
variable {α : Type} [LT α] [DecidableLT α] [DecidableEq α]

/-- `reorder_dendrogram`: a valid dendrogram with non-decreasing heights and the same merges
    (every row of the result is a row of the input: same leaf set, same height, same size; and conversely) -/
def reorderSpec (n : Nat) (D R : Dendro α) : Except String Unit := do
  dendroSpec n R true
  let same := fun (A B : Dendro α) => (List.range A.length).all fun u =>
    match A[u]? with
    | none => false
    | some a => (List.range B.length).any fun t =>
        match B[t]? with
        | some b => b.h == a.h && b.s == a.s && sameSet (leaves n B (n + t)) (leaves n A (n + u))
        | none => false
  need (same R D) "a-row-of-the-result-is-not-a-merge-of-the-input"
  need (same D R) "a-merge-of-the-input-is-missing"

end


/-! ### trees (nested lists of the Louvain hierarchies) -/

mutual
/-- the leaves of a tree, left to right -/
def tleaves : Tree → List Nat
  | .leaf k => [k]
  | .node ts => tleavesL ts
def tleavesL : List Tree → List Nat
  | [] => []
  | t :: ts => tleaves t ++ tleavesL ts
end

mutual
/-- every inner list has at least two elements (what both Louvain builders produce below the top) -/
def WF : Tree → Prop
  | .leaf _ => True
  | .node ts => 2 ≤ ts.length ∧ WFL ts
def WFL : List Tree → Prop
  | [] => True
  | t :: ts => WF t ∧ WFL ts
end

end SkNet.Hier
