/-
Specification side of property C13, independent of the loops of the code.  Everything here is an
executable predicate (used by the `spec` lines of the driver on the implementation's own outputs) and is the
vocabulary of the theorems in `SkNet/Properties/C13.lean`.
-/
import SkNet.Model.Basic
import SkNet.Model.Classify

namespace SkNet.Classify.Spec
open SkNet SkNet.Classify

/-! ### labels and probability rows -/

/-- every predicted label is a seed label or `-1` -/
def labelsOK (values labels : List Int) : Bool :=
  labels.all fun l => l == -1 || (decide (0 ≤ l) && values.contains l)

/-- every seed (non-negative given value) keeps its label -/
def seedsKept (values labels : List Int) : Bool :=
  labels.length == values.length &&
  (List.range values.length).all fun i => values.getD i (-1) < 0 || labels.getD i (-1) == values.getD i (-1)

/-- a probability row: non-negative, summing to 1 or to 0 (within `eps`, 0 for exact rows) -/
def rowOK (eps : Rat) (row : List Rat) : Bool :=
  row.all (fun x => decide (0 ≤ x)) &&
  (decide (rabs (rsum row - 1) ≤ eps) || decide (rabs (rsum row) ≤ eps))

/-- the strong form of the row clause: non-negative, summing to 1 when a label reaches the node and to 0 when
    none does (within `eps`) -/
def rowStrong (eps : Rat) (reaches : Bool) (row : List Rat) : Bool :=
  row.all (fun x => decide (0 ≤ x)) &&
  (if reaches then decide (rabs (rsum row - 1) ≤ eps) else decide (rabs (rsum row) ≤ eps))

/-- a label reaches node `i` of `Propagation`'s probabilities: a neighbour with a non-negative label through an
    entry of positive weight -/
def propReaches (c : Csr Rat) (labels : List Int) (i : Nat) : Bool :=
  (c.row i).any fun e => decide (0 ≤ labels.getD e.1 (-1)) && decide (0 < e.2)

/-! ### the local evidence of label propagation -/

/-- total vote of label `l` among the neighbours of `i` (edge weights; counts when the data are ones) -/
def score (c : Csr Rat) (labels : List Int) (i : Nat) (l : Int) : Rat :=
  rsum (((c.row i).filter fun e => labels.getD e.1 (-1) == l).map (·.2))

def hasLabelledNeighbour (c : Csr Rat) (labels : List Int) (i : Nat) : Bool :=
  (c.row i).any fun e => decide (0 ≤ labels.getD e.1 (-1))

/-- node `i` holds a (non-negative) label carried by one of its neighbours whose total vote is maximal -/
def localMax (c : Csr Rat) (labels : List Int) (i : Nat) : Bool :=
  let li := labels.getD i (-1)
  decide (0 ≤ li) && (c.row i).any (fun e => labels.getD e.1 (-1) == li) &&
  (c.row i).all fun e =>
    let l := labels.getD e.1 (-1)
    decide (l < 0) || decide (score c labels i l ≤ score c labels i li)

/-- the fixed-point clause: every node that is updated (`upd`) and has a labelled neighbour is a local maximum -/
def fixedPointOK (c : Csr Rat) (labels : List Int) (upd : List Nat) : Bool :=
  upd.all fun i => !hasLabelledNeighbour c labels i || localMax c labels i

/-! ### components (undirected graphs) -/

/-- a walk from a source to `v` along edges -/
inductive Reach (n : Nat) (edge : Nat → Nat → Bool) (src : Nat → Bool) : Nat → Prop
  | base {v : Nat} : v < n → src v = true → Reach n edge src v
  | step {u v : Nat} : Reach n edge src u → edge u v = true → v < n → Reach n edge src v

/-- `v` is in the component of `s`: joined by a chain of edges taken in either direction -/
inductive Conn (n : Nat) (edge : Nat → Nat → Bool) (s : Nat) : Nat → Prop
  | refl : s < n → Conn n edge s s
  | step {u v : Nat} : Conn n edge s u → (edge u v = true ∨ edge v u = true) → v < n → Conn n edge s v

/-- `-1` exactly on the nodes that no seed reaches -/
def minusOneIff (labels : List Int) (reach : List Bool) : Bool :=
  (List.range labels.length).all fun i => (labels.getD i 0 == -1) == !(reach.getD i false)

/-! ### NNLinker rows -/

/-- a row of `links_` against the similarities of all candidates: at most `k` links, on distinct candidate
    columns, every stored value at or above the threshold and equal to the similarity, and no discarded
    candidate stronger than a kept one -/
def linkerRowOK (sims : List Rat) (k : Nat) (thr eps : Rat) (kept : List (Nat × Rat)) : Bool :=
  let cols := kept.map (·.1)
  decide (kept.length ≤ k) && cols.Nodup && cols.all (· < sims.length) &&
  kept.all (fun e => decide (thr ≤ e.2)) &&
  kept.all (fun e => decide (rabs (e.2 - sims.getD e.1 0) ≤ eps)) &&
  kept.all fun e => (List.range sims.length).all fun j =>
    cols.contains j || decide (sims.getD j 0 ≤ sims.getD e.1 0 + eps)

/-! ### NNClassifier rows -/

/-- number of labelled nodes at distance at most `v` -/
def cntLe (ds : List Rat) (v : Rat) : Nat :=
  ((List.range ds.length).filter fun j => decide (ds.getD j 0 ≤ v)).length

/-- the `k`-th smallest distance: the least distance `v` with at least `k` labelled nodes at distance `≤ v` -/
def kthSmallest (ds : List Rat) (k : Nat) : Rat :=
  let cand := ds.filter fun v => decide (k ≤ cntLe ds v)
  cand.foldl min (cand.headD 0)

/-- a probability row of a test node is explained by *some* choice of `k` nearest labelled nodes: `counts` (the
    row times `k`, rounded by the harness) are natural numbers summing to `k`, and with `τ` the `k`-th smallest
    distance the count of label `q` lies between the number of labelled nodes of label `q` strictly closer than
    `τ` and that number plus those at distance `τ` (within `eps`). -/
def knnRowOK (ds : List Rat) (trainLabels : List Int) (k : Nat) (eps : Rat) (row : List Rat) (counts : List Nat) :
    Bool :=
  if k == 0 then row.all (· == 0) else
  let tau := kthSmallest ds k
  counts.length == row.length && counts.sum == k &&
  (List.range row.length).all fun q =>
    let cq := counts.getD q 0
    let mand := ((List.range ds.length).filter fun j =>
      decide (ds.getD j 0 < tau - eps) && trainLabels.getD j (-1) == (q : Int)).length
    let opt := ((List.range ds.length).filter fun j =>
      decide (rabs (ds.getD j 0 - tau) ≤ eps) && trainLabels.getD j (-1) == (q : Int)).length
    decide (rabs (row.getD q 0 * (k : Rat) - (cq : Rat)) ≤ eps) && decide (mand ≤ cq) && decide (cq ≤ mand + opt)

/-! ### metrics from the confusion matrix -/

/-- the confusion matrix by definition: `C i j` = number of samples with true label `i`, predicted label `j` -/
def conf (t p : List Int) (i j : Nat) : Nat :=
  ((t.zip p).filter fun x => x.1 == (i : Int) && x.2 == (j : Int)).length

def rowSum (C : Nat → Nat → Nat) (k i : Nat) : Nat := ((List.range k).map fun j => C i j).sum
def colSum (C : Nat → Nat → Nat) (k j : Nat) : Nat := ((List.range k).map fun i => C i j).sum
def total (C : Nat → Nat → Nat) (k : Nat) : Nat := ((List.range k).map fun i => rowSum C k i).sum
def trace (C : Nat → Nat → Nat) (k : Nat) : Nat := ((List.range k).map fun i => C i i).sum

def accuracyDef (C : Nat → Nat → Nat) (k : Nat) : Rat := (trace C k : Rat) / (total C k : Rat)
def precisionDef (C : Nat → Nat → Nat) (k l : Nat) : Rat :=
  if colSum C k l = 0 then 0 else (C l l : Rat) / (colSum C k l : Rat)
def recallDef (C : Nat → Nat → Nat) (k l : Nat) : Rat :=
  if rowSum C k l = 0 then 0 else (C l l : Rat) / (rowSum C k l : Rat)
/-- harmonic mean of precision and recall, `2·TP / (2·TP + FP + FN)`, 0 when there is no true positive -/
def f1Def (C : Nat → Nat → Nat) (k l : Nat) : Rat :=
  if C l l = 0 then 0 else (2 * (C l l : Rat)) / ((rowSum C k l : Rat) + (colSum C k l : Rat))
def macroDef (C : Nat → Nat → Nat) (k : Nat) : Rat :=
  rsum ((List.range k).map fun l => f1Def C k l) / (k : Rat)
def weightedDef (C : Nat → Nat → Nat) (k : Nat) : Rat :=
  rsum ((List.range k).map fun l => f1Def C k l * (rowSum C k l : Rat)) / (total C k : Rat)

end SkNet.Classify.Spec
