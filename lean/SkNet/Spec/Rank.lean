/-
Specifications of the centrality scores (property C04), independent of the solvers of the code.
Everything is over `Rat`, on a dense weight function `w i j` (entry (i,j) of the adjacency matrix,
non-negative) or an edge predicate, with sums written as `sumTo n f = f 0 + … + f (n-1)`.

* `IsPageRank n w a y x`   : `x` is the probability vector proportional to the solution of
                             `x = a Pᵀ x + (1-a) y`  (`P` = `transP`, null rows on sinks)
* `IsSurferStationary`     : `x` is a stationary distribution of the random surfer (restart from `y` with
                             probability `1-a`, always from a sink)
* `katzSpec`               : `Σ_{k=1..K} aᵏ · #walks of length k ending at i` on the boolean adjacency
* `closenessSpec`          : `(n-1) / Σ_j d(i,j)`, `0` when some node is unreachable (`hopDist` of Spec/Path)
* `betweennessSpec`        : `½ Σ_{s≠v≠t} σ_st(v)/σ_st` by counting walks of length `d(s,t)`
* `gaussSolve`, `pagerank` : an executable solver used by the driver; its answer is *checked* with `isPageRankB`
                             before it is used, so it is not part of what a spec line trusts.
-/
import SkNet.Model.Basic
import SkNet.Spec.Path

namespace SkNet.RankSpec
open SkNet

/-- `f 0 + f 1 + … + f (n-1)` -/
def sumTo (n : Nat) (f : Nat → Rat) : Rat := ((List.range n).map f).sum

/-- out-weight of node `i` -/
def outW (n : Nat) (w : Nat → Nat → Rat) (i : Nat) : Rat := sumTo n (w i)

/-- transition probability `P i j`; the row of a node without out-links is null -/
def transP (n : Nat) (w : Nat → Nat → Rat) (i j : Nat) : Rat :=
  if outW n w i = 0 then 0 else w i j / outW n w i

/-- the restart distribution given by non-negative weights -/
def restartDist (n : Nat) (wt : Nat → Rat) (i : Nat) : Rat := wt i / sumTo n wt

/-- `(a Pᵀ x) i` -/
def dampedPT (n : Nat) (w : Nat → Nat → Rat) (a : Rat) (x : Nat → Rat) (i : Nat) : Rat :=
  a * sumTo n fun j => transP n w j i * x j

/-- `x` is the probability vector proportional to the solution of `x = a Pᵀ x + (1-a) y` -/
def IsPageRank (n : Nat) (w : Nat → Nat → Rat) (a : Rat) (y x : Nat → Rat) : Prop :=
  (∀ i, i < n → 0 ≤ x i) ∧ sumTo n x = 1 ∧ ∃ c : Rat, ∀ i, i < n → x i = dampedPT n w a x i + c * y i

/-- executable form of `IsPageRank` when `y` sums to 1: the constant is then `Σ_i (x - a Pᵀ x) i` -/
def isPageRankB (n : Nat) (w : Nat → Nat → Rat) (a : Rat) (y x : Nat → Rat) : Bool :=
  let c := sumTo n fun i => x i - dampedPT n w a x i
  (List.range n).all (fun i => decide (0 ≤ x i)) && sumTo n x == 1 &&
  (List.range n).all (fun i => x i == dampedPT n w a x i + c * y i)

/-- one step of the random surfer from `i`: follow an out-link with probability `a`, otherwise restart from `y`;
    always restart from a node without out-links -/
def surferM (n : Nat) (w : Nat → Nat → Rat) (a : Rat) (y : Nat → Rat) (i j : Nat) : Rat :=
  if outW n w i = 0 then y j else a * transP n w i j + (1 - a) * y j

def IsSurferStationary (n : Nat) (w : Nat → Nat → Rat) (a : Rat) (y x : Nat → Rat) : Prop :=
  (∀ i, i < n → 0 ≤ x i) ∧ sumTo n x = 1 ∧ ∀ j, j < n → x j = sumTo n fun i => x i * surferM n w a y i j

/-! ### an executable solver (Gauss–Jordan over `Rat`) -/

def gaussSolve (n : Nat) (A : Array (Array Rat)) (b : Array Rat) : Option (Array Rat) := Id.run do
  let mut M : Array (Array Rat) := (Array.range n).map fun i =>
    ((Array.range n).map fun j => (A.getD i #[]).getD j 0).push (b.getD i 0)
  for c in [0:n] do
    match (List.range n).find? (fun r => decide (c ≤ r) && (M.getD r #[]).getD c 0 != 0) with
    | none => return none
    | some p =>
      let rp := M.getD p #[]
      let rc := M.getD c #[]
      let piv := rp.getD c 0
      let rowc := rp.map (· / piv)
      M := (M.setIfInBounds p rc).setIfInBounds c rowc
      for r in [0:n] do
        if r != c then
          let f := (M.getD r #[]).getD c 0
          if f != 0 then
            M := M.setIfInBounds r ((Array.range (n+1)).map fun k => (M.getD r #[]).getD k 0 - f * rowc.getD k 0)
  return some ((Array.range n).map fun i => (M.getD i #[]).getD n 0)

/-- the PageRank vector by elimination: solve `(I - a Pᵀ) x = (1-a) y`, divide by the sum -/
def pagerank (n : Nat) (w : Nat → Nat → Rat) (a : Rat) (y : Nat → Rat) : Option (List Rat) := do
  let A : Array (Array Rat) := (Array.range n).map fun i => (Array.range n).map fun j =>
    (if i = j then 1 else 0) - a * transP n w j i
  let b : Array Rat := (Array.range n).map fun i => (1 - a) * y i
  let x ← gaussSolve n A b
  let s := x.foldl (· + ·) 0
  if s = 0 then none else some (x.toList.map (· / s))

/-! ### matrix polynomials -/

/-- `(M x) i = Σ_j M i j · x j` -/
def matVec (n : Nat) (M : Nat → Nat → Rat) (x : Nat → Rat) (i : Nat) : Rat := sumTo n fun j => M i j * x j

/-- `(Mᵏ x) i` -/
def matPow (n : Nat) (M : Nat → Nat → Rat) : Nat → (Nat → Rat) → Nat → Rat
  | 0, x => x
  | k+1, x => matVec n M (matPow n M k x)

/-- `(Σ_k c_k Mᵏ x) i` for the coefficient list `c` (increasing powers) -/
def polyApply (n : Nat) (M : Nat → Nat → Rat) (c : List Rat) (x : Nat → Rat) (i : Nat) : Rat :=
  ((List.range c.length).map fun k => c.getD k 0 * matPow n M k x i).sum

/-! ### Katz -/

/-- number of walks of length `k` that end at `i` (start anywhere): `((Aᵀ)ᵏ 1) i` -/
def walksTo (n : Nat) (edge : Nat → Nat → Bool) : Nat → Nat → Nat
  | 0, _ => 1
  | k+1, i => ((List.range n).map fun j => if edge j i then walksTo n edge k j else 0).sum

def katzSpec (n : Nat) (edge : Nat → Nat → Bool) (a : Rat) (K : Nat) (i : Nat) : Rat :=
  ((List.range K).map fun k => a ^ (k+1) * (walksTo n edge (k+1) i : Rat)).sum

/-! ### closeness -/

def closenessSpec (n : Nat) (edge : Nat → Nat → Bool) (i : Nat) : Rat :=
  let d := fun j => SkNet.Path.hopDist n edge (fun v => v == i) j
  if (List.range n).any (fun j => d j < 0) then 0
  else ((n : Rat) - 1) / (((List.range n).map fun j => ((d j : Int) : Rat)).sum)

/-! ### betweenness -/

/-- number of walks of length exactly `d` from `s` to `t` -/
def walkCount (n : Nat) (edge : Nat → Nat → Bool) : Nat → Nat → Nat → Nat
  | 0, s, t => if s = t then 1 else 0
  | d+1, s, t => ((List.range n).map fun u => if edge u t then walkCount n edge d s u else 0).sum

def dist (n : Nat) (edge : Nat → Nat → Bool) (s t : Nat) : Int :=
  SkNet.Path.hopDist n edge (fun v => v == s) t

/-- number of shortest paths from `s` to `t` (0 if unreachable) -/
def sigmaSpec (n : Nat) (edge : Nat → Nat → Bool) (s t : Nat) : Nat :=
  if dist n edge s t < 0 then 0 else walkCount n edge (dist n edge s t).toNat s t

/-- `σ_st(v) / σ_st` : fraction of the shortest `s`–`t` paths through `v` -/
def pairDep (n : Nat) (edge : Nat → Nat → Bool) (s t v : Nat) : Rat :=
  let dst := dist n edge s t
  let dsv := dist n edge s v
  let dvt := dist n edge v t
  if dst < 0 ∨ dsv < 0 ∨ dvt < 0 then 0
  else if dsv + dvt = dst then
    ((sigmaSpec n edge s v * sigmaSpec n edge v t : Nat) : Rat) / (sigmaSpec n edge s t : Rat)
  else 0

/-- `Σ_{s ≠ v ≠ t, s ≠ t} σ_st(v)/σ_st` over ordered pairs -/
def dependencySum (n : Nat) (edge : Nat → Nat → Bool) (v : Nat) : Rat :=
  ((List.range n).map fun s => ((List.range n).map fun t =>
    if s = v ∨ t = v ∨ s = t then 0 else pairDep n edge s t v).sum).sum

/-- betweenness of an undirected graph: every unordered pair once -/
def betweennessSpec (n : Nat) (edge : Nat → Nat → Bool) (v : Nat) : Rat := dependencySum n edge v / 2

/-- betweenness of an undirected graph, textbook form: every unordered pair `{s, t}` (both different from `v`) once -/
def betweennessUndirected (n : Nat) (edge : Nat → Nat → Bool) (v : Nat) : Rat :=
  ((List.range n).map fun s => ((List.range n).map fun t =>
    if s < t ∧ s ≠ v ∧ t ≠ v then pairDep n edge s t v else 0).sum).sum

end SkNet.RankSpec
