/-
Specification of a valid dendrogram (C07 statement, hypothesis of C08), executable.

`ValidDendroW w D`: the leaves `0 … |w|-1` carry the sizes `w`; row `t` merges two *distinct* clusters that
*exist* at step `t` (leaves or earlier merges, each merged once: a merged cluster is removed from the live
set), creates node `|w| + t`, and its size column is the sum of the two sizes; there are `|w| - 1` rows.
`ValidDendro n D` is the case of unit leaves.  (That the last size is the total is a theorem:
`SkNet.C07.valid_last_size`; the executable predicate used on implementation outputs checks it anyway.)

`MonoPaths`: heights never decrease from a node to its parent.  `HeightsSorted`: row heights non-decreasing.
-/
import SkNet.Model.Dendro

namespace SkNet.Dendro

/-- the replay of the rows on the live set (`node ↦ size`), from step `t` -/
def validLoop (n : Nat) : Nat → List (Row α) → Dict Nat → Bool
  | _, [], _ => true
  | t, r :: rs, live =>
    match live.get? r.i, live.get? r.j with
    | some si, some sj =>
      r.i != r.j && r.s == si + sj && validLoop n (t + 1) rs (((live.erase r.i).erase r.j).set (n + t) r.s)
    | _, _ => false

/-- initial live set: leaf `x` with size `w[x]` -/
def liveInit (w : List Nat) : Dict Nat := (List.range w.length).map fun x => (x, w.getD x 0)

def ValidDendroW (w : List Nat) (D : Dendro α) : Bool :=
  D.length + 1 == w.length && validLoop w.length 0 D (liveInit w)

def ValidDendro (n : Nat) (D : Dendro α) : Bool := ValidDendroW (List.replicate n 1) D

/-- the size column of the last row is the total size (checked on outputs; a theorem for valid inputs) -/
def lastSizeIs (total : Nat) (D : Dendro α) : Bool :=
  match D.getLast? with
  | none => true
  | some r => r.s == total

section heights
variable {α : Type} [LT α] [DecidableLT α]

/-- heights never decrease from a child merge to its parent merge -/
def MonoPaths (n : Nat) (D : Dendro α) : Bool :=
  D.all fun r =>
    (if r.i < n then true else match D[r.i - n]? with | some c => !decide (r.h < c.h) | none => false) &&
    (if r.j < n then true else match D[r.j - n]? with | some c => !decide (r.h < c.h) | none => false)

/-- all heights pairwise different -/
def DistinctHeights (D : Dendro α) : Bool :=
  (List.range D.length).all fun a => (List.range D.length).all fun b =>
    a == b || match D[a]?, D[b]? with
      | some x, some y => decide (x.h < y.h) || decide (y.h < x.h)
      | _, _ => true

end heights

/-- the nodes of the subtree hanging from node `x` that are merges (row numbers), by fuel -/
def subtreeRows (n : Nat) (D : Dendro α) : Nat → Nat → List Nat
  | 0, _ => []
  | fuel + 1, x =>
    if x < n then [] else
      match D[x - n]? with
      | none => []
      | some r => (x - n) :: (subtreeRows n D fuel r.i ++ subtreeRows n D fuel r.j)

/-- `a ⊆ b ∧ b ⊆ a` on lists of naturals -/
def sameSet (a b : List Nat) : Bool := a.all b.contains && b.all a.contains

end SkNet.Dendro
