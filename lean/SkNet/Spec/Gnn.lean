/-
Specification of property C19, independent of the order of operations of the code:
* the documented message passing `σ(N(A) X W + b)` with `N(A)` given entry by entry;
* the Jacobians of the activations and `Jᵀ d`;
* the textbook soft-max / sigmoid, the closed forms of the loss gradients;
* what a prediction, a probability matrix and a neighbour sample must satisfy.
Executable (the driver evaluates these on the implementation's own outputs, at float64).
-/
import SkNet.Model.Gnn

namespace SkNet.Gnn.Spec
open SkNet SkNet.Gnn SkNet.Gnn.Num

variable {α : Type} [Num α]

/-- weight of node `i`: the sum of row `i` -/
def weight (A : Mat α) (i : Nat) : α := sumTo A.c fun j => A.get i j

/-- entry `(i, j)` of the normalised adjacency `N(A)`, with the optional self-embedding -/
def normEntry (norm : Norm) (selfEmb : Bool) (A : Mat α) (i j : Nat) : α :=
  let base : α := match norm with
    | .left => pinv (weight A i) * A.get i j
    | .right => A.get i j * pinv (weight A j)
    | .both => pinv (sqrt (weight A i)) * A.get i j * pinv (sqrt (weight A j))
    | .none => A.get i j
  if selfEmb && i == j then 1 + base else base

/-- `(N(A) X W + b)[i, k]`, associated as `N(A) (X W)` -/
def preAct (norm : Norm) (selfEmb : Bool) (A X W : Mat α) (b : Option (List α)) (i k : Nat) : α :=
  let z := sumTo A.c fun j => normEntry norm selfEmb A i j * sumTo X.c fun l => X.get j l * W.get l k
  match b with
  | some b => z + b.getD k 0
  | none => z

/-- textbook soft-max of a row given as a function on `0 … c-1` -/
def softmaxFn (c : Nat) (s : Nat → α) (k : Nat) : α := exp (s k) / sumTo c fun l => exp (s l)

/-- the activation applied to row `s` (length `c`), channel `k` -/
def actFn (a : Act) (c : Nat) (s : Nat → α) (k : Nat) : α :=
  match a with
  | .identity => s k
  | .relu => if lt 0 (s k) then s k else 0
  | .sigmoid => 1 / (1 + exp (- s k))
  | .softmax => softmaxFn c s k

/-- the documented output of a graph-convolution layer -/
def forward (cfg : LayerCfg) (A X W : Mat α) (b : Option (List α)) : Mat α :=
  Mat.mk' A.r W.c fun i k => actFn cfg.act W.c (fun k' => preAct cfg.norm cfg.selfEmb A X W b i k') k

/-- the shapes for which the layer is defined (otherwise a product raises) -/
def shapesOk (norm : Norm) (A X W : Mat α) (b : Option (List α)) : Bool :=
  A.c == X.r && X.c == W.r &&
  (match b with | some b => b.length == W.c | none => true) &&
  (match norm with | .right | .both => A.r == A.c | _ => true)

/-- the documented network: the documented layers composed, one adjacency per layer (`none`: some shape does not fit) -/
def gnnForward : List (Layer α × Mat α) → Mat α → Option (Mat α)
  | [], h => some h
  | (l, A) :: rest, h =>
    if shapesOk l.cfg.norm A h l.W l.b then gnnForward rest (forward l.cfg A h l.W l.b) else none

/-- Jacobian entry `∂ out_l / ∂ s_k` of an activation on a row -/
def jac (a : Act) (c : Nat) (s : Nat → α) (l k : Nat) : α :=
  match a with
  | .identity => if l = k then 1 else 0
  | .relu => if l = k then (if lt 0 (s k) then 1 else 0) else 0
  | .sigmoid => if l = k then actFn .sigmoid c s k * (1 - actFn .sigmoid c s k) else 0
  | .softmax => softmaxFn c s l * ((if l = k then 1 else 0) - softmaxFn c s k)

/-- `(Jᵀ d)[i, k]` row by row -/
def actGradient (a : Act) (S D : Mat α) : Mat α :=
  Mat.mk' S.r S.c fun i k => sumTo S.c fun l => jac a S.c (fun j => S.get i j) l k * D.get i l

/-- `n · ∂(mean cross-entropy)/∂ signal[i, k]` = soft-max minus one-hot -/
def ceGradient (S : Mat α) (labels : List Nat) : Mat α :=
  Mat.mk' S.r S.c fun i k => softmaxFn S.c (fun j => S.get i j) k - (if labels.getD i 0 = k then 1 else 0)

/-- `n · ∂(mean binary cross-entropy)/∂ signal[i, k]`: sigmoid minus the target of channel `k`
    (the label itself with one channel, its indicator with several) -/
def bceGradient (S : Mat α) (labels : List Nat) : Mat α :=
  Mat.mk' S.r S.c fun i k =>
    actFn .sigmoid S.c (fun j => S.get i j) k -
      (if S.c = 1 then (if labels.getD i 0 > 0 then 1 else 0) else (if labels.getD i 0 = k then 1 else 0))

/-- mean cross-entropy without the numerical clipping -/
def ceLoss (S : Mat α) (labels : List Nat) : α :=
  (- sumTo S.r fun i => log (softmaxFn S.c (fun j => S.get i j) (labels.getD i 0))) / nat S.r

/-- mean binary cross-entropy (one-versus-rest with several channels) without the numerical clipping -/
def bceLoss (S : Mat α) (labels : List Nat) : α :=
  (sumTo S.r fun i => sumTo S.c fun k =>
    let p := actFn .sigmoid S.c (fun j => S.get i j) k
    let target : Bool := if S.c = 1 then labels.getD i 0 > 0 else labels.getD i 0 = k
    if target then - log p else - log (1 - p)) / nat S.r

/-- `l` is a legal prediction for the output row `o` of `c` channels: threshold 0.5 with one channel,
    a maximiser below `c` otherwise -/
def predictionOk (c : Nat) (o : Nat → α) (l : Nat) : Bool :=
  if c = 1 then l == (if lt (frac 1 2) (o 0) then 1 else 0)
  else decide (l < c) && (List.range c).all fun k => !(lt (o l) (o k))

/-! ### comparisons at float64 (section 8 of DESIGN.md: `1e-9·(1+|x|)`) -/

def absF (x : Float) : Float := if x < 0 then -x else x

def closeF (x y : Float) : Bool :=
  (x.isNaN && y.isNaN) || x == y || absF (x - y) ≤ 1e-9 * (1 + absF y)

/-- first position where two float matrices differ by more than the tolerance -/
def firstDiff (G W : Mat Float) : Option (Nat × Nat) :=
  if G.r ≠ W.r ∨ G.c ≠ W.c then some (G.r, G.c)
  else
    (List.range W.r).findSome? fun i =>
      (List.range W.c).findSome? fun j => if closeF (G.get i j) (W.get i j) then none else some (i, j)

/-- probability matrix: shape, entries in [0, 1], rows summing to 1 -/
def probaOk (n cols : Nat) (P : Mat Float) : Bool :=
  P.r == n && P.c == cols &&
  (List.range n).all fun i =>
    ((List.range cols).all fun k => 0 ≤ P.get i k && P.get i k ≤ 1) &&
    closeF (sumTo cols fun k => P.get i k) 1

/-- a sampled row: a sublist of the original row, of size `min(deg, sampleSize)` -/
def sampleRowOk (orig sampled : List Nat) (sampleSize : Nat) : Bool :=
  sampled.isSublist orig && sampled.length == min orig.length sampleSize

end SkNet.Gnn.Spec
