/-
Specifications of the conversion utilities of C15, written on entries (no pseudo-inverse, no CSR arrays):
evaluated by `spec` lines on the implementation's own outputs, and related to the models in Properties/C15.lean.
-/
import SkNet.Model.Basic
import SkNet.Model.LinOp
import SkNet.Model.Convert
import SkNet.Spec.LinOp

namespace SkNet.Convert
open SkNet SkNet.LinOp

def rowAll (a : Mat) (p : Nat → Bool) : Bool := (List.range a.nRow).all p
def colAll (a : Mat) (p : Nat → Bool) : Bool := (List.range a.nCol).all p

/-- rows of `out` are the rows of `a` divided by their 1-norm and have 1-norm 1, whatever the magnitude of the row
(a row of total weight 1e-9 is not a null row); null rows stay null -/
def NormalizeSpec1 (tol : Rat) (a out : Mat) : Bool :=
  a.nRow == out.nRow && a.nCol == out.nCol &&
  rowAll a fun i =>
    let s := sumTo a.nCol fun j => rabs (a.get i j)
    let sc := 1 + s
    if s = 0 then colAll a fun j => out.get i j == 0
    else close tol 1 (sumTo a.nCol fun j => rabs (out.get i j)) 1 &&
      colAll a fun j => close tol sc (out.get i j * s) (a.get i j)

/-- rows of `out` are non-negative multiples of the rows of `a` with unit 2-norm; null rows stay null -/
def NormalizeSpec2 (tol : Rat) (a out : Mat) : Bool :=
  a.nRow == out.nRow && a.nCol == out.nCol &&
  rowAll a fun i =>
    let q := sumTo a.nCol fun j => a.get i j * a.get i j
    let sc := 1 + q
    if q = 0 then colAll a fun j => out.get i j == 0
    else close tol 1 (sumTo a.nCol fun j => out.get i j * out.get i j) 1 &&
      (colAll a fun j => decide (0 ≤ out.get i j * a.get i j) &&
        colAll a fun k => close tol sc (out.get i j * a.get i k) (out.get i k * a.get i j))

/-- `L = D - A`: rows of `out` sum to zero and the off-diagonal entries are `-a` -/
def LaplacianSpec (tol : Rat) (a out : Mat) : Bool :=
  a.nRow == a.nCol && out.nRow == a.nRow && out.nCol == a.nCol &&
  let sc := matMaxAbs a * (a.nCol : Rat)
  rowAll a fun i =>
    close tol sc (sumTo a.nCol fun j => out.get i j) 0 &&
    colAll a fun j => i == j || close tol sc (out.get i j) (- a.get i j)

/-- pseudo-inverse of a diagonal: null weights stay null, the others are inverted -/
def PinvSpec (tol : Rat) (w out : Vec) : Bool :=
  w.length == out.length &&
  (List.range w.length).all fun i =>
    if vget w i = 0 then vget out i == 0 else close tol 0 (vget out i * vget w i) 1

/-- documented definition of `directed2undirected`: `A + Aᵀ`, or the indicator of `max(A, Aᵀ) > 0`
(an entry is 1 exactly when one of the two directions carries a positive weight); square input -/
def D2USpec (tol : Rat) (a : Mat) (weighted : Bool) (out : Mat) : Bool :=
  a.nRow == a.nCol && out.nRow == a.nRow && out.nCol == a.nCol &&
  let sc := 2 * matMaxAbs a
  rowAll a fun i => colAll a fun j =>
    if weighted then close tol sc (out.get i j) (a.get i j + a.get j i)
    else out.get i j == (if 0 < a.get i j || 0 < a.get j i then 1 else 0)

/-- `bipartite2directed`: the adjacency `[[0, B], [0, 0]]` of the directed graph rows → columns -/
def B2DSpec (tol : Rat) (b out : Mat) : Bool :=
  let n := b.nRow + b.nCol
  out.nRow == n && out.nCol == n &&
  let sc := matMaxAbs b
  (List.range n).all fun i => (List.range n).all fun j =>
    close tol sc (out.get i j) (if i < b.nRow && b.nRow ≤ j then b.get i (j - b.nRow) else 0)

/-- `bipartite2undirected`: the adjacency `[[0, B], [Bᵀ, 0]]` -/
def B2USpec (tol : Rat) (b out : Mat) : Bool :=
  let n := b.nRow + b.nCol
  out.nRow == n && out.nCol == n &&
  let sc := matMaxAbs b
  (List.range n).all fun i => (List.range n).all fun j =>
    close tol sc (out.get i j)
      (if i < b.nRow && b.nRow ≤ j then b.get i (j - b.nRow)
       else if b.nRow ≤ i && j < b.nRow then b.get j (i - b.nRow) else 0)

/-- tf-idf, multiplicative form: `out[i, j] · Σ_k |count[i, k]| = count[i, j] · idf_j`, empty documents stay null;
`idf_j = log(N / df_j)` (`logTable[df_j - 1]`), 0 for a word of no document, `df_j` = number of documents with a
positive count of the word -/
def TfidfSpec (tol : Rat) (count : Mat) (logTable : List Rat) (out : Mat) : Bool :=
  out.nRow == count.nRow && out.nCol == count.nCol &&
  rowAll count fun i =>
    let s := sumTo count.nCol fun k => rabs (count.get i k)
    colAll count fun j =>
      let df := ((List.range count.nRow).filter fun i' => 0 < count.get i' j).length
      let idf := if 0 < df then logTable.getD (df - 1) 0 else 0
      if s = 0 then out.get i j == 0
      else close tol (s * rabs idf) (out.get i j * s) (count.get i j * idf)

def insertNat (x : Nat) : List Nat → List Nat
  | [] => [x]
  | y :: ys => if x ≤ y then x :: y :: ys else y :: insertNat x ys

def sortNat (l : List Nat) : List Nat := l.foldr insertNat []

/-- neighbours of `node` in a matrix without explicit zeros: the columns of its non-zero entries -/
def NeighborsSpec (d : Mat) (node : Nat) (out : List Nat) : Bool :=
  sortNat out == (List.range d.nCol).filter fun j => d.get node j != 0

/-- degrees in a matrix without explicit zeros: the number of non-zero entries of every row -/
def DegreesSpec (d : Mat) (out : List Nat) : Bool :=
  out == tab d.nRow fun i => ((List.range d.nCol).filter fun j => d.get i j != 0).length

/-- number of columns of the membership matrix: `n_labels` when given, else the largest label plus one -/
def membershipNCol (labels : List Int) (nLabels : Option Nat) : Nat :=
  match nLabels with
  | some k => k
  | none => (labels.foldl max (labels.headD 0) + 1).toNat

/-- membership matrix: one row per label, `n_labels` (or `max + 1`) columns, entry `(i, j)` is 1 exactly when `labels[i] = j` -/
def MembershipSpec (labels : List Int) (nLabels : Option Nat) (d : Mat) : Bool :=
  d.nRow == labels.length && d.nCol == membershipNCol labels nLabels &&
  rowAll d fun i => colAll d fun j =>
    d.get i j == (if labels.getD i (-1) = (j : Int) then 1 else 0)

end SkNet.Convert
