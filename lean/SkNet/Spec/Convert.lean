/-
Specifications of the conversion utilities of C15, written on entries (no pseudo-inverse, no CSR arrays):
evaluated by `spec` lines on the implementation's own outputs, and related to the models in Properties/C15.lean.
-/
import SkNet.Model.Basic
import SkNet.Model.LinOp
import SkNet.Model.Convert
import SkNet.Spec.LinOp

namespace SkNet.Convert
open SkNet SkNet.LinOp

def rowAll (a : Mat) (p : Nat → Bool) : Bool := (List.range a.nRow).all p
def colAll (a : Mat) (p : Nat → Bool) : Bool := (List.range a.nCol).all p

/-- rows of `out` are the rows of `a` divided by their 1-norm; null rows stay null -/
def NormalizeSpec1 (tol : Rat) (a out : Mat) : Bool :=
  a.nRow == out.nRow && a.nCol == out.nCol &&
  rowAll a fun i =>
    let s := sumTo a.nCol fun j => rabs (a.get i j)
    let sc := 1 + s
    if s = 0 then colAll a fun j => out.get i j == 0
    else colAll a fun j => close tol sc (out.get i j * s) (a.get i j)

/-- rows of `out` are non-negative multiples of the rows of `a` with unit 2-norm; null rows stay null -/
def NormalizeSpec2 (tol : Rat) (a out : Mat) : Bool :=
  a.nRow == out.nRow && a.nCol == out.nCol &&
  rowAll a fun i =>
    let q := sumTo a.nCol fun j => a.get i j * a.get i j
    let sc := 1 + q
    if q = 0 then colAll a fun j => out.get i j == 0
    else close tol 1 (sumTo a.nCol fun j => out.get i j * out.get i j) 1 &&
      (colAll a fun j => decide (0 ≤ out.get i j * a.get i j) &&
        colAll a fun k => close tol sc (out.get i j * a.get i k) (out.get i k * a.get i j))

/-- `L = D - A`: rows of `out` sum to zero and the off-diagonal entries are `-a` -/
def LaplacianSpec (tol : Rat) (a out : Mat) : Bool :=
  a.nRow == a.nCol && out.nRow == a.nRow && out.nCol == a.nCol &&
  let sc := matMaxAbs a * (a.nCol : Rat)
  rowAll a fun i =>
    close tol sc (sumTo a.nCol fun j => out.get i j) 0 &&
    colAll a fun j => i == j || close tol sc (out.get i j) (- a.get i j)

/-- pseudo-inverse of a diagonal: null weights stay null, the others are inverted -/
def PinvSpec (tol : Rat) (w out : Vec) : Bool :=
  w.length == out.length &&
  (List.range w.length).all fun i =>
    if vget w i = 0 then vget out i == 0 else close tol 0 (vget out i * vget w i) 1

def insertNat (x : Nat) : List Nat → List Nat
  | [] => [x]
  | y :: ys => if x ≤ y then x :: y :: ys else y :: insertNat x ys

def sortNat (l : List Nat) : List Nat := l.foldr insertNat []

/-- neighbours of `node` in a matrix without explicit zeros: the columns of its non-zero entries -/
def NeighborsSpec (d : Mat) (node : Nat) (out : List Nat) : Bool :=
  sortNat out == (List.range d.nCol).filter fun j => d.get node j != 0

/-- degrees in a matrix without explicit zeros: the number of non-zero entries of every row -/
def DegreesSpec (d : Mat) (out : List Nat) : Bool :=
  out == tab d.nRow fun i => ((List.range d.nCol).filter fun j => d.get i j != 0).length

/-- membership matrix: entry `(i, j)` is 1 exactly when `labels[i] = j` -/
def MembershipSpec (labels : List Int) (d : Mat) : Bool :=
  d.nRow == labels.length &&
  rowAll d fun i => colAll d fun j =>
    d.get i j == (if labels.getD i (-1) = (j : Int) then 1 else 0)

end SkNet.Convert
