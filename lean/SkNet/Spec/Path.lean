/-
Specification of hop distance, independent of the frontier loop of the code:
`Walk n edge src d v` : there is a walk of exactly `d` edges from a source to `v`.
`walkLayer` is its executable form (no visited set), used by `spec` lines of the driver.
-/
import SkNet.Model.Basic

namespace SkNet.Path

/-- a walk of length exactly `d` from some source to `v`, inside the `n` nodes -/
inductive Walk (n : Nat) (edge : Nat → Nat → Bool) (src : Nat → Bool) : Nat → Nat → Prop
  | zero {v : Nat} : v < n → src v = true → Walk n edge src 0 v
  | succ {d u v : Nat} : Walk n edge src d u → edge u v = true → v < n → Walk n edge src (d+1) v

/-- `d` is the hop distance of `v` from the sources -/
def IsDist (n : Nat) (edge : Nat → Nat → Bool) (src : Nat → Bool) (v d : Nat) : Prop :=
  Walk n edge src d v ∧ ∀ d', d' < d → ¬ Walk n edge src d' v

/-- no walk of any length reaches `v` -/
def Unreachable (n : Nat) (edge : Nat → Nat → Bool) (src : Nat → Bool) (v : Nat) : Prop :=
  ∀ d, ¬ Walk n edge src d v

/-- executable: the set of end points of walks of length exactly `d` -/
def walkLayer (n : Nat) (edge : Nat → Nat → Bool) (src : Nat → Bool) : Nat → List Bool
  | 0 => tab n src
  | d+1 =>
    let prev := walkLayer n edge src d
    tab n fun v => (List.range n).any fun u => prev.getD u false && edge u v

/-- least `d` in `[s, s+c)` with `f d`, scanning upwards -/
def findFirst (f : Nat → Bool) : Nat → Nat → Option Nat
  | _, 0 => none
  | s, c+1 => if f s then some s else findFirst f (s+1) c

/-- executable hop distance: least `d < n` with `v` in layer `d`, else `-1`
    (a hop distance is always `< n`: `Properties.C10.isDist_lt`) -/
def hopDist (n : Nat) (edge : Nat → Nat → Bool) (src : Nat → Bool) (v : Nat) : Int :=
  match findFirst (fun d => (walkLayer n edge src d).getD v false) 0 n with
  | some d => d
  | none => -1

end SkNet.Path
