/-
Specifications for C11, independent of the kernels of sknetwork/topology:
* `cliqueCount n adj k`   : number of `k`-subsets of `{0..n-1}` that are pairwise adjacent (brute force over
                            all increasing `k`-tuples); `cliqueCountIn` is the same count with pruning
                            (`Properties.C11.cliqueCountIn_eq`), used for the larger graphs of the harness
* `InCore`, `IsCoreNumber`: the core number of a node = the largest `k` such that the node belongs to a set of
                            nodes that all have at least `k` neighbours inside the set;
                            `coreNumberSpec` computes it by exhaustive pruning (`kCore`), no heap, no peeling order
* `tripleCount`           : number of connected triples (paths of length two, counted by their centre)
* `clusteringSpec`        : 3 · triangles / connected triples
The graph is `n` and a boolean adjacency predicate `adj`. The theorems about cliques and cores assume `adj` symmetric;
none needs irreflexivity, but on a graph with loops `degIn`, `nbrs`, `tripleCount` count the loop as a neighbour, so
`IsCoreNumber` / `clusteringSpec` are the named quantities (core number, clustering coefficient) only for loop-free
`adj` — `C11_model` carries that hypothesis.
-/
import SkNet.Model.Basic

namespace SkNet.Topology

/-- all sub-lists of length `k`, in the order of the list -/
def choose : Nat → List Nat → List (List Nat)
  | 0, _ => [[]]
  | _+1, [] => []
  | k+1, x :: xs => (choose k xs).map (x :: ·) ++ choose (k+1) xs

/-- every earlier element is adjacent to every later one -/
def isClique (adj : Nat → Nat → Bool) : List Nat → Bool
  | [] => true
  | x :: xs => xs.all (adj x) && isClique adj xs

/-- number of `k`-cliques among the nodes of the (duplicate-free) list `l` -/
def cliqueCountOn (adj : Nat → Nat → Bool) (k : Nat) (l : List Nat) : Nat :=
  ((choose k l).filter (isClique adj)).length

/-- number of `k`-cliques of the graph -/
def cliqueCount (n : Nat) (adj : Nat → Nat → Bool) (k : Nat) : Nat :=
  cliqueCountOn adj k (List.range n)

/-- `Σ f x xs` over the decompositions `l = _ ++ x :: xs` -/
def sumTails (f : Nat → List Nat → Nat) : List Nat → Nat
  | [] => 0
  | x :: xs => f x xs + sumTails f xs

/-- the same count, restricting the candidates to the later neighbours of the chosen node at every step:
    `#k-cliques = Σ_x #(k-1)-cliques among the later neighbours of x` -/
def cliqueCountIn (adj : Nat → Nat → Bool) : Nat → List Nat → Nat
  | 0, _ => 1
  | k+1, l => sumTails (fun x xs => cliqueCountIn adj k (xs.filter (adj x))) l

/-- number of neighbours of `v` inside the set `S` -/
def degIn (n : Nat) (adj : Nat → Nat → Bool) (S : Nat → Bool) (v : Nat) : Nat :=
  ((List.range n).filter fun u => S u && adj v u).length

/-- `v` belongs to a set of nodes each of which has at least `k` neighbours in the set -/
def InCore (n : Nat) (adj : Nat → Nat → Bool) (k v : Nat) : Prop :=
  ∃ S : Nat → Bool, S v = true ∧ ∀ u, S u = true → u < n ∧ k ≤ degIn n adj S u

/-- `c` is the core number of `v` -/
def IsCoreNumber (n : Nat) (adj : Nat → Nat → Bool) (v c : Nat) : Prop :=
  InCore n adj c v ∧ ¬ InCore n adj (c+1) v

/-- one round of pruning at threshold `k`: keep the nodes with at least `k` kept neighbours -/
def pruneStep (n : Nat) (adj : Nat → Nat → Bool) (k : Nat) (S : Array Bool) : Array Bool :=
  (tab n fun v => S.getD v false && decide (k ≤ degIn n adj (fun u => S.getD u false) v)).toArray

/-- pruning rounds until nothing changes (at most `fuel` rounds) -/
def pruneFix (n : Nat) (adj : Nat → Nat → Bool) (k : Nat) : Nat → Array Bool → Array Bool
  | 0, S => S
  | fuel+1, S =>
    let S' := pruneStep n adj k S
    if S' = S then S else pruneFix n adj k fuel S'

/-- the `k`-core: pruning from the full node set (`n + 1` rounds always reach the fixed point:
    `Properties.C11.kCore_spec`) -/
def kCore (n : Nat) (adj : Nat → Nat → Bool) (k : Nat) : Array Bool :=
  pruneFix n adj k (n + 1) (tab n fun _ => true).toArray

/-- the core number by exhaustive pruning: the number of thresholds `1..n` whose core contains `v`, given the
    table of cores -/
def coreNumberFrom (cores : List (Array Bool)) (v : Nat) : Nat :=
  (cores.filter fun c => c.getD v false).length

/-- the table of the `k`-cores for `k = 1..n` -/
def coreTable (n : Nat) (adj : Nat → Nat → Bool) : List (Array Bool) := tab n fun k => kCore n adj (k+1)

/-- the core number of `v` by exhaustive pruning -/
def coreNumberSpec (n : Nat) (adj : Nat → Nat → Bool) (v : Nat) : Nat := coreNumberFrom (coreTable n adj) v

/-- neighbours of `v` -/
def nbrs (n : Nat) (adj : Nat → Nat → Bool) (v : Nat) : List Nat := (List.range n).filter (adj v)

/-- number of connected triples: unordered pairs of distinct neighbours, summed over the centre -/
def tripleCount (n : Nat) (adj : Nat → Nat → Bool) : Nat :=
  ((List.range n).map fun v => (choose 2 (nbrs n adj v)).length).foldl (· + ·) 0

/-- the clustering coefficient, `none` when there is no connected triple -/
def clusteringSpec (n : Nat) (adj : Nat → Nat → Bool) : Option Rat :=
  if tripleCount n adj = 0 then none
  else some (((3 * cliqueCount n adj 3 : Nat) : Rat) / (tripleCount n adj : Rat))

/-- the same coefficient from the triangle count and the degree sequence alone (`#triples = Σ_v C(deg v, 2)`,
    `Properties.C11.clusteringSpec_from_degrees`); used by the spec lines on graphs too large for the brute-force
    counts (hubs of degree ≥ 46342) -/
def clusteringFromDegrees (triangles : Nat) (degrees : List Nat) : Option Rat :=
  let twice : Nat := (degrees.map fun d => d * (d - 1)).foldl (fun a b => a + b) 0
  if twice = 0 then none else some (((3 * triangles : Nat) : Rat) / ((twice : Rat) / 2))

end SkNet.Topology
