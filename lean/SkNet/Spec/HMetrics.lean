/-
Specification of Dasgupta's cost, independent of the replay of merges (C08):

  cost = Σ_{u,v} p(u,v) · π(lca(u,v))

where p(u,v) = (A + Aᵀ)[u,v] / total is the edge sampling distribution of the symmetrised graph,
lca(u,v) is the first merge whose leaf set contains both u and v (for u = v: the first merge containing u —
clusters are the merges of the dendrogram), and π(C) = Σ_{x∈C} (w_out(x) + w_in(x)) / 2 is the weight of the
cluster (its relative size for uniform weights, its relative volume for degree weights).
The un-normalised cost multiplies by n (uniform) or by the total weight (degree).
-/
import SkNet.Model.HMetrics
import SkNet.Spec.Dendro

namespace SkNet.HMetrics
open SkNet SkNet.Dendro

/-- the first row whose leaf set contains both `u` and `v` -/
def lcaRow (n : Nat) (D : Dendro α) (u v : Nat) : Option Nat :=
  (List.range D.length).find? fun t =>
    let l := leaves n D (n + t)
    l.contains u && l.contains v

/-- weight of the cluster created by row `t` -/
def clusterWeight (degree : Bool) (n : Nat) (a : Mat) (D : Dendro α) (t : Nat) : Rat :=
  let wr := probsRow degree n a
  let wc := probsCol degree n a
  sumR ((leaves n D (n + t)).map fun x => (wr.getD x 0 + wc.getD x 0) / 2)

/-- Dasgupta's cost by its definition (normalised) -/
def dasguptaDef (degree : Bool) (n : Nat) (a : Mat) (D : Dendro α) : Rat :=
  let s := symmetrize n a
  let tot := s.total
  sumR ((List.range n).flatMap fun u => (List.range n).map fun v =>
    match lcaRow n D u v with
    | some t => s.get u v / tot * clusterWeight degree n a D t
    | none => 0)

def dasguptaDefCost (degree normalized : Bool) (n : Nat) (a : Mat) (D : Dendro α) : Rat :=
  let c := dasguptaDef degree n a D
  if normalized then c else if degree then c * a.total else c * (n : Rat)

def absR (x : Rat) : Rat := if x < 0 then -x else x

/-- `|x - y| ≤ tol · (1 + |y|)` -/
def close (tol x y : Rat) : Bool := absR (x - y) ≤ tol * (1 + absR y)

/-! ### renumbering the nodes (= the leaves of the dendrogram) by a permutation -/

/-- the new id of node `x`: leaves are renumbered by `π`, internal nodes keep their id -/
def renLeaf (n : Nat) (π : Nat → Nat) (x : Nat) : Nat := if x < n then π x else x

def relabelRow (n : Nat) (π : Nat → Nat) (r : Row α) : Row α :=
  { r with i := renLeaf n π r.i, j := renLeaf n π r.j }

/-- the same dendrogram over the renumbered leaves -/
def relabelDendro (n : Nat) (π : Nat → Nat) (D : Dendro α) : Dendro α := D.map (relabelRow n π)

/-- the adjacency matrix of the renumbered graph: entry `(i, j)` is the old entry `(πinv i, πinv j)` -/
def relabelMat (n : Nat) (πinv : Nat → Nat) (a : Mat) : Mat :=
  tab n fun i => tab n fun j => a.get (πinv i) (πinv j)

end SkNet.HMetrics
