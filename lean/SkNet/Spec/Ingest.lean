/-
Specification of graph ingestion (property C18), independent of how the code builds the matrix:
the value of entry (a, b) — `a`, `b` identifiers, not indices — read off the list of edges.
-/
import SkNet.Model.Ingest

namespace SkNet.Ingest

/-- the listed weights of edge (a, b), in the order of the list -/
def listed [DecidableEq α] (es : List ((α × α) × Rat)) (a b : α) : List Rat :=
  (es.filter fun e => e.1 = (a, b)).map (·.2)

/-- the value the listed weights `l` of one ordered pair give: their sum (the first one if `sum_duplicates`
    is off); when `weighted` is off, 1 iff one of the weights taken into account is non-zero -/
def baseEntry (f : Flags) (l : List Rat) : Rat :=
  let l := if f.sumDuplicates then l else l.take 1
  if f.weighted then rsum l else (if l.any (· != 0) then 1 else 0)

/-- entry (a, b) of the matrix of the graph: the value of (a, b); for an undirected graph (not bipartite)
    the sum with the value of (b, a) — `A + Aᵀ`, the convention of `directed2undirected`, a self-loop
    counts twice — and their `or` when `weighted` is off. -/
def specEntry [DecidableEq α] (f : Flags) (es : List ((α × α) × Rat)) (a b : α) : Rat :=
  let d := baseEntry f (listed es a b)
  if f.bipartite || f.directed then d
  else
    let t := baseEntry f (listed es b a)
    if f.weighted then d + t else (if d != 0 || t != 0 then 1 else 0)

/-- expected number of rows/columns of an axis that is not reindexed: `max(shape, max id + 1)` -/
def specDim (shapeDim : Option Nat) (ids : List Int) : Nat :=
  let mx := (ids.map Int.toNat).foldl max 0
  match shapeDim with
  | some s => max s (mx + 1)
  | none => mx + 1

/-- the weights `from_edge_array` works with: the given ones, or ones -/
def weightsOf (rows : List (α × α)) (weights : Option (List Rat)) : List Rat :=
  weights.getD (List.replicate rows.length 1)

/-- the identifiers of the row indices / of the column indices, when the graph carries names -/
def Graph.rowNames (g : Graph α) : Option (List α) := if g.bipartite then g.namesRow else g.names
def Graph.colNames (g : Graph α) : Option (List α) := if g.bipartite then g.namesCol else g.names

end SkNet.Ingest
