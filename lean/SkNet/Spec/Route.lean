/-
Specification of the argument routing of `get_distances` (C10, shared with C03), read off the arguments alone:
which graph the loop runs on, how many nodes it has, which nodes are sources, and which refusal comes first.
-/
import SkNet.Model.Path

namespace SkNet.Path

/-- the documented routing of `get_distances`, read off the arguments alone -/
structure RouteSpec where
  nRow : Nat
  nCol : Nat
  bipartite : Bool
  nNodes : Nat
  rowSrc : Option (List Nat)
  colSrc : Option (List Nat)

def routeSpec (nRow0 nCol0 : Nat) (a : DistArgs) : RouteSpec :=
  let nRow := if a.transpose then nCol0 else nRow0
  let nCol := if a.transpose then nRow0 else nCol0
  let bip := a.forceBipartite || a.sourceRow.isSome || a.sourceCol.isSome || nRow != nCol
  { nRow := nRow, nCol := nCol, bipartite := bip, nNodes := if bip then nRow + nCol else nRow,
    rowSrc := if bip then (if a.source.isSome then a.source else a.sourceRow) else a.source,
    colSrc := if bip then a.sourceCol else none }

def RouteSpec.ValueError (s : RouteSpec) (a : DistArgs) : Prop :=
  (s.bipartite = true ∧ a.source.isSome = true ∧ a.sourceRow.isSome = true) ∨ (s.rowSrc = none ∧ s.colSrc = none)

instance (s : RouteSpec) (a : DistArgs) : Decidable (s.ValueError a) := by
  unfold RouteSpec.ValueError; infer_instance

def RouteSpec.IndexError (s : RouteSpec) : Prop :=
  (∃ i ∈ s.rowSrc.getD [], s.nNodes ≤ i) ∨ (∃ j ∈ s.colSrc.getD [], s.nNodes ≤ s.nRow + j)

def RouteSpec.isSource (s : RouteSpec) (v : Nat) : Bool :=
  (s.rowSrc.getD []).contains v || (decide (s.nRow ≤ v) && (s.colSrc.getD []).contains (v - s.nRow))

instance (s : RouteSpec) : Decidable s.IndexError := by
  unfold RouteSpec.IndexError; infer_instance

/-- the arguments `get_shortest_path` hands to `get_distances` (no transposition) -/
def PathArgs.toDist (a : PathArgs) : DistArgs :=
  { source := a.source, sourceRow := a.sourceRow, sourceCol := a.sourceCol, forceBipartite := a.forceBipartite }

end SkNet.Path
