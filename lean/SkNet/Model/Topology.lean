/-
Model of sknetwork/topology: triangles.pyx, cliques.pyx, core.pyx, minheap.pyx (property C11),
together with the two helpers the pipelines go through: path/dag.py:get_dag and
utils/format.py:directed2undirected.

Mirrors the code loop for loop:
* `getDag`                 : the mask `(order_row < 0) | (order_col <= order_row)` zeroing COO entries, `eliminate_zeros`, `tocsr`
* `mergeLoop`              : the `while (i < indptr[node+1]) and (j < indptr[neighbor+1])` loop
* `countLocal`             : `count_local_triangles_from_dag` (loop over the out-list of `node`)
* `countFromDagSeq/Par`    : `count_triangles_from_dag` — `range` loop / `prange` loop with `+` reduction
                             (a `Schedule` = which thread runs which iterations, in which order, and the tree in
                             which the private partial sums are combined)
* `countTriangles`, `clusteringCoefficient` : the Python entry points
* `Heap`, `swap`, `siftUp`, `insertKey`, `decreaseKey`, `minHeapify`, `popMin` : `MinHeap`
* `computeCore`            : `compute_core` (`coreLoop` = the `while not mh.empty()` loop)
* `Box`, `boxInit`, `cliquesFrom` : `ListingBox.__cinit__`, `count_cliques_from_dag` (the `indices` vector and the box
                             are shared by all the recursive calls — by reference since /repo 63da5b43 — modelled so)
* `countCliques`           : the Python entry point (`np.argsort` is a parameter: any permutation)

Arrays are lists read with `getD` (default 0) and written with `List.set`; C `int` degrees are `Int`
(they do become negative on non-symmetric inputs), everything else is `Nat`.
-/
import SkNet.Model.Basic

namespace SkNet.Topology

inductive PyErr
  | valueError | typeError
deriving DecidableEq, Repr

def PyErr.show : PyErr → String
  | .valueError => "ValueError" | .typeError => "TypeError"

/-- `range(lo, hi)` -/
def rangeFrom (lo hi : Nat) : List Nat := (List.range (hi - lo)).map (· + lo)

/-! ### `get_dag` (sknetwork/path/dag.py) and `tocsr` -/

/-- one COO entry of `adjacency.astype(bool).tocoo()` -/
structure Entry where
  row : Nat
  col : Nat
  keep : Bool
deriving Repr, DecidableEq

/-- `dag.data[(order_row < 0) | (order_col <= order_row)] = 0` on one entry (one pass over the edges since the
    repair 25e6718d of /repo; the pinned code looped over `np.unique(order)` with the same effect) -/
def dagMask (order : List Int) (e : Entry) : Entry :=
  if decide (order.getD e.row 0 < 0) || decide (order.getD e.col 0 ≤ order.getD e.row 0) then { e with keep := false }
  else e

/-- all stored non-zero entries of an `n × n` edge predicate, row-major -/
def entriesOf (n : Nat) (edge : Nat → Nat → Bool) : List Entry :=
  (List.range n).flatMap fun i => ((List.range n).filter (edge i)).map fun j => ⟨i, j, true⟩

/-- CSR structure: `indptr` (length `n+1`) and `indices` -/
structure Dag where
  indptr : List Nat
  indices : List Nat
deriving Repr, DecidableEq

/-- rows of the surviving entries -/
def rowsOf (n : Nat) (es : List Entry) : List (List Nat) :=
  tab n fun i => (es.filter fun e => e.row == i).map (·.col)

/-- `indptr` of a list of rows: running sums of the lengths -/
def indptrOf : List (List Nat) → List Nat
  | [] => [0]
  | r :: rs => 0 :: (indptrOf rs).map (· + r.length)

/-- `coo.tocsr()` of entries that are already row-major, sorted and duplicate-free -/
def csrOfRows (rows : List (List Nat)) : Dag := ⟨indptrOf rows, rows.flatten⟩

/-- canonical CSR structure (rows sorted, no duplicate, no stored zero) of an edge predicate -/
def csrOfEdge (n : Nat) (edge : Nat → Nat → Bool) : Dag :=
  csrOfRows (tab n fun i => (List.range n).filter (edge i))

/-- the entries that survive the mask and `eliminate_zeros` -/
def dagEntries (n : Nat) (edge : Nat → Nat → Bool) (order : List Int) : List Entry :=
  ((entriesOf n edge).map (dagMask order)).filter (·.keep)

/-- `get_dag(adjacency, order=order)` : the mask, `eliminate_zeros`, `tocsr` -/
def getDag (n : Nat) (edge : Nat → Nat → Bool) (order : List Int) : Dag :=
  csrOfRows (rowsOf n (dagEntries n edge order))

/-! ### triangles.pyx -/

/-- the `while` loop of `count_local_triangles_from_dag`; `acc` is `n_triangles` -/
def mergeLoop (indices : List Nat) (iEnd jEnd : Nat) (i j acc : Nat) : Nat :=
  if i < iEnd ∧ j < jEnd then
    if indices.getD i 0 = indices.getD j 0 then mergeLoop indices iEnd jEnd (i+1) (j+1) (acc+1)
    else if indices.getD i 0 < indices.getD j 0 then mergeLoop indices iEnd jEnd (i+1) j acc
    else mergeLoop indices iEnd jEnd i (j+1) acc
  else acc
termination_by (iEnd - i) + (jEnd - j)

/-- `count_local_triangles_from_dag(node, indptr, indices)` -/
def countLocal (indptr indices : List Nat) (node : Nat) : Nat :=
  (rangeFrom (indptr.getD node 0) (indptr.getD (node+1) 0)).foldl (fun acc k =>
    let neighbor := indices.getD k 0
    mergeLoop indices (indptr.getD (node+1) 0) (indptr.getD (neighbor+1) 0)
      (indptr.getD node 0) (indptr.getD neighbor 0) acc) 0

/-- `count_triangles_from_dag(indptr, indices, parallelize=False)` -/
def countFromDagSeq (indptr indices : List Nat) : Nat :=
  (List.range (indptr.length - 1)).foldl (fun acc node => acc + countLocal indptr indices node) 0

/-- the tree in which the threads' private copies of the reduction variable are combined -/
inductive Comb
  | leaf (thread : Nat)
  | node (l r : Comb)
deriving Repr

def Comb.eval (part : Nat → Nat) : Comb → Nat
  | .leaf t => part t
  | .node l r => l.eval part + r.eval part

def Comb.leaves : Comb → List Nat
  | .leaf t => [t]
  | .node l r => l.leaves ++ r.leaves

/-- A schedule of a `prange` loop with a `+` reduction: `parts[t]` = the iterations thread `t` executes, in
    the order it executes them; `comb` = how the private sums are combined into the shared variable. -/
structure Schedule where
  parts : List (List Nat)
  comb : Comb
deriving Repr

/-- the private copy of thread `t` after its iterations (OpenMP initialises it with 0) -/
def partialSum (f : Nat → Nat) (its : List Nat) : Nat := its.foldl (fun acc i => acc + f i) 0

/-- value of the reduction variable after the parallel loop: initial value `+` the combined private copies -/
def parReduce (f : Nat → Nat) (s : Schedule) (init : Nat) : Nat :=
  init + s.comb.eval fun t => partialSum f (s.parts.getD t [])

/-- `count_triangles_from_dag(indptr, indices, parallelize=True)` under a schedule -/
def countFromDagPar (indptr indices : List Nat) (s : Schedule) : Nat :=
  parReduce (countLocal indptr indices) s 0

/-- OpenMP `schedule(static)` with `t` threads over `n` iterations, private copies combined left to right -/
def staticSchedule (n t : Nat) : Schedule :=
  let t := if t = 0 then 1 else t
  let chunk := (n + t - 1) / t
  { parts := tab t fun k => rangeFrom (k * chunk) (min n ((k+1) * chunk)),
    comb := (List.range t).foldl (fun c k => if k = 0 then c else .node c (.leaf k)) (.leaf 0) }

/-! #### the `prange` loop as the translator sees it (tools/harness/c11_prange.py, Cython's parser) -/

/-- a function called from the body of a `prange` loop -/
structure Callee where
  name : String
  known : Bool            -- defined in the same file
  nogil : Bool
  nonlocalStores : Nat    -- stores to anything but its own local variables / by-value arguments
  unknownCalls : Nat      -- calls it makes to functions that are not pure builtins
deriving Repr, DecidableEq

/-- descriptor of one `prange` loop -/
structure PrangeDesc where
  function : String
  loopVar : String
  reductions : List (String × String)   -- (operator, variable) of every in-place update of a plain name
  reductionTypes : List String          -- declared C type of each of these variables ("?" if not a C variable)
  otherStores : List (String × String)  -- every other store of the body (kind, base name)
  reductionReads : Nat                  -- reads of a reduction variable inside the body
  callees : List Callee
deriving Repr, DecidableEq

/-- C integer types: `+` on them is associative and commutative (modulo 2^w), unlike `+` on `double` -/
def integerCTypes : List String :=
  ["int", "long", "short", "char", "long long", "Py_ssize_t", "size_t", "ssize_t", "unsigned int", "unsigned long",
   "unsigned long long", "unsigned short", "unsigned char"]

/-- The loop is a pure integer `+` reduction: one reduction variable of a C integer type updated with `+=`
    exactly once and not read otherwise, no other store in the body, every callee defined here, `nogil`, storing
    only to its locals and calling nothing unknown. *Reading* (not a theorem: the compiled loop and the OpenMP
    runtime are outside the model): iterations then communicate only through the reduction, and the loop's value is
    taken to be `parReduce` of some valid schedule. -/
def PrangeDesc.raceFree (d : PrangeDesc) : Bool :=
  (match d.reductions with
   | [(op, _)] => op == "+"
   | _ => false) &&
  (match d.reductionTypes with
   | [t] => integerCTypes.contains t
   | _ => false) &&
  d.otherStores.isEmpty && d.reductionReads == 0 &&
  d.callees.all fun c => c.known && c.nogil && c.nonlocalStores == 0 && c.unknownCalls == 0

/-- `directed2undirected(adjacency)` (weighted): the stored entries of `A + Aᵀ` (scipy drops the zero sums) -/
def symEdge (val : Nat → Nat → Rat) (i j : Nat) : Bool := val i j + val j i != 0

/-- `get_dag(directed2undirected(adjacency))`: order = `np.arange(n)` -/
def triangleDag (n : Nat) (val : Nat → Nat → Rat) : Dag :=
  getDag n (symEdge val) (tab n fun i => (i : Int))

/-- `count_triangles(adjacency, parallelize)`; `sched = none` is `parallelize=False` -/
def countTriangles (nRow nCol : Nat) (val : Nat → Nat → Rat) (sched : Option Schedule) : Except PyErr Nat :=
  if nRow != nCol then .error .valueError
  else
    let dag := triangleDag nRow val
    match sched with
    | none => .ok (countFromDagSeq dag.indptr dag.indices)
    | some s => .ok (countFromDagPar dag.indptr dag.indices s)

/-- `get_degrees(directed2undirected(adjacency))` -/
def symDegrees (n : Nat) (val : Nat → Nat → Rat) : List Nat :=
  tab n fun i => ((List.range n).filter (symEdge val i)).length

/-- `(degrees * (degrees - 1)).sum()` over `degrees[degrees > 1].astype(np.int64)` (twice `n_edge_pairs`). Exact in
    int64 for int32 degrees (`d (d - 1) < 2^62`, and `Σ d < 2^31` stored entries bounds the sum by `2^62`); before the
    repair dc1060d3 of /repo the product was taken in int32 and wrapped at degree 46342. -/
def twiceEdgePairs (degrees : List Nat) : Nat :=
  ((degrees.filter (1 < ·)).map fun d => d * (d - 1)).foldl (· + ·) 0

/-- `get_clustering_coefficient`; the inner `none` is numpy's `nan` (0/0) -/
def clusteringCoefficient (nRow nCol : Nat) (val : Nat → Nat → Rat) (sched : Option Schedule) :
    Except PyErr (Option Rat) := do
  let t ← countTriangles nRow nCol val sched
  let pairs2 := twiceEdgePairs (symDegrees nRow val)
  if pairs2 = 0 then pure none
  else pure (some (((3 * t : Nat) : Rat) / ((pairs2 : Rat) / 2)))

/-! ### minheap.pyx -/

structure Heap where
  val : List Nat
  pos : List Nat
  size : Nat
deriving Repr, DecidableEq

/-- `MinHeap.__cinit__(n)`: `resize(n)` on both vectors (value-initialised cells; the pinned tree used
    `reserve(n)`, repaired in /repo by the owner of C17) -/
def Heap.empty (n : Nat) : Heap := ⟨List.replicate n 0, List.replicate n 0, 0⟩

/-- `swap(x, y)` -/
def Heap.swap (h : Heap) (x y : Nat) : Heap :=
  let tmp := h.val.getD x 0
  let val1 := h.val.set x (h.val.getD y 0)
  let val2 := val1.set y tmp
  let pos1 := h.pos.set (val2.getD x 0) x
  let pos2 := pos1.set (val2.getD y 0) y
  { h with val := val2, pos := pos2 }

/-- `parent(i) = (i - 1) // 2` for `i > 0` (for `i = 0` it is `-1` and both loops stop) -/
def parent (i : Nat) : Nat := (i - 1) / 2

/-- the sift-up loop shared by `insert_key` (`while p >= 0 and scores[val[p]] > scores[val[i]]`) and
    `decrease_key` (`while pos != 0 and scores[val[p]] > scores[val[pos]]`) -/
def Heap.siftUp (scores : List Int) (h : Heap) (i : Nat) : Heap :=
  if i = 0 then h
  else if scores.getD (h.val.getD (parent i) 0) 0 > scores.getD (h.val.getD i 0) 0 then
    Heap.siftUp scores (h.swap i (parent i)) (parent i)
  else h
termination_by i
decreasing_by unfold parent; omega

/-- `insert_key(k, scores)` -/
def Heap.insertKey (h : Heap) (k : Nat) (scores : List Int) : Heap :=
  let h1 : Heap := { val := h.val.set h.size k, pos := h.pos.set k h.size, size := h.size + 1 }
  h1.siftUp scores h.size

/-- `decrease_key(i, scores)` -/
def Heap.decreaseKey (h : Heap) (i : Nat) (scores : List Int) : Heap :=
  let pos := h.pos.getD i 0
  if pos < h.size then h.siftUp scores pos else h

/-- the choice of `smallest` among `i`, `left(i)`, `right(i)` in `min_heapify` -/
def Heap.smallest (scores : List Int) (h : Heap) (i : Nat) : Nat :=
  let s1 := if 2 * i + 1 < h.size ∧ scores.getD (h.val.getD (2 * i + 1) 0) 0 < scores.getD (h.val.getD i 0) 0
    then 2 * i + 1 else i
  if 2 * i + 2 < h.size ∧ scores.getD (h.val.getD (2 * i + 2) 0) 0 < scores.getD (h.val.getD s1 0) 0
    then 2 * i + 2 else s1

theorem Heap.smallest_cases (scores : List Int) (h : Heap) (i : Nat) :
    h.smallest scores i = i ∨ (h.smallest scores i = 2 * i + 1 ∧ 2 * i + 1 < h.size)
      ∨ (h.smallest scores i = 2 * i + 2 ∧ 2 * i + 2 < h.size) := by
  unfold Heap.smallest
  by_cases h2 : 2 * i + 2 < h.size ∧ scores.getD (h.val.getD (2 * i + 2) 0) 0 <
      scores.getD (h.val.getD (if 2 * i + 1 < h.size ∧ scores.getD (h.val.getD (2 * i + 1) 0) 0 <
        scores.getD (h.val.getD i 0) 0 then 2 * i + 1 else i) 0) 0
  · rw [if_pos h2]; exact Or.inr (Or.inr ⟨rfl, h2.1⟩)
  · rw [if_neg h2]
    by_cases h1 : 2 * i + 1 < h.size ∧ scores.getD (h.val.getD (2 * i + 1) 0) 0 < scores.getD (h.val.getD i 0) 0
    · rw [if_pos h1]; exact Or.inr (Or.inl ⟨rfl, h1.1⟩)
    · rw [if_neg h1]; exact Or.inl rfl

/-- `min_heapify(i, scores)` -/
def Heap.minHeapify (scores : List Int) (h : Heap) (i : Nat) : Heap :=
  if h.smallest scores i ≠ i then Heap.minHeapify scores (h.swap i (h.smallest scores i)) (h.smallest scores i)
  else h
termination_by h.size - i
decreasing_by
  have := Heap.smallest_cases scores h i
  simp only [Heap.swap]
  omega

/-- `pop_min(scores)`: the root and the heap afterwards (only called on a non-empty heap) -/
def Heap.popMin (h : Heap) (scores : List Int) : Nat × Heap :=
  if h.size = 1 then (h.val.getD 0 0, { h with size := 0 })
  else
    let root := h.val.getD 0 0
    let val1 := h.val.set 0 (h.val.getD (h.size - 1) 0)
    let pos1 := h.pos.set (val1.getD 0 0) 0
    let h1 : Heap := { val := val1, pos := pos1, size := h.size - 1 }
    (root, Heap.minHeapify scores h1 0)

/-! ### core.pyx -/

structure CoreState where
  heap : Heap
  degrees : List Int
  labels : List Int
  coreValue : Int
deriving Repr

/-- the `for k in range(indptr[min_node], indptr[min_node+1])` loop -/
def relaxNeighbors (indptr indices : List Nat) (minNode : Nat) (heap : Heap) (degrees : List Int) :
    Heap × List Int :=
  (rangeFrom (indptr.getD minNode 0) (indptr.getD (minNode+1) 0)).foldl (fun (hd : Heap × List Int) k =>
    let j := indices.getD k 0
    let degrees := hd.2.set j (hd.2.getD j 0 - 1)
    (hd.1.decreaseKey j degrees, degrees)) (heap, degrees)

/-- one round of `while not mh.empty()` -/
def coreStep (indptr indices : List Nat) (s : CoreState) : CoreState :=
  let (minNode, heap1) := s.heap.popMin s.degrees
  let coreValue := max s.coreValue (s.degrees.getD minNode 0)
  let (heap2, degrees2) := relaxNeighbors indptr indices minNode heap1 s.degrees
  { heap := heap2, degrees := degrees2, labels := s.labels.set minNode coreValue, coreValue := coreValue }

/-- the `while not mh.empty()` loop; `fuel` rounds are allowed (`n` suffice: `Properties.C11.coreLoop_fuel`) -/
def coreLoop (indptr indices : List Nat) : Nat → CoreState → Option CoreState
  | 0, s => if s.heap.size = 0 then some s else none
  | fuel+1, s => if s.heap.size = 0 then some s else coreLoop indptr indices fuel (coreStep indptr indices s)

/-- the state after `for i in range(n): mh.insert_key(i, degrees)` -/
def coreInit (indptr : List Nat) : CoreState :=
  let n := indptr.length - 1
  let degrees : List Int := tab n fun i => (indptr.getD (i+1) 0 : Int) - (indptr.getD i 0 : Int)
  { heap := (List.range n).foldl (fun h i => h.insertKey i degrees) (Heap.empty n),
    degrees := degrees, labels := List.replicate n 0, coreValue := 0 }

/-- `compute_core(indptr, indices)`; `none` = the loop ran out of fuel (never happens) -/
def computeCore (indptr indices : List Nat) : Option (List Int) :=
  (coreLoop indptr indices (indptr.length - 1) (coreInit indptr)).map (·.labels)

/-- the edges `get_core_decomposition` works on since the repair 00914a54 of /repo: duplicate entries summed
    (`val i j` is the sum of the stored entries `(i, j)`), zeros dropped -/
def coreEdge (val : Nat → Nat → Rat) (i j : Nat) : Bool := val i j != 0

/-- `get_core_decomposition(adjacency)`: `check_format`, `check_square` (a non-square matrix is refused), then
    `sum_duplicates` / `eliminate_zeros` on a copy when the matrix is not canonical or stores a zero (a canonical
    matrix without stored zero is its own `csrOfEdge`), then `compute_core` on the CSR arrays -/
def getCoreDecomposition (nRow nCol : Nat) (val : Nat → Nat → Rat) : Except PyErr (Option (List Int)) :=
  if nRow != nCol then .error .valueError
  else .ok (computeCore (csrOfEdge nRow (coreEdge val)).indptr (csrOfEdge nRow (coreEdge val)).indices)

/-! ### cliques.pyx -/

structure Box where
  ns : List Nat
  degrees : List (List Nat)
  subs : List (List Nat)
  lab : List Nat
deriving Repr, DecidableEq

/-- `ListingBox.__cinit__(indptr, k)` (`np.empty` cells are modelled as 0 / the empty array) -/
def boxInit (indptr : List Nat) (k : Nat) : Box :=
  let n := indptr.length - 1
  let deg := tab n fun i => indptr.getD (i+1) 0 - indptr.getD i 0
  let maxDeg := deg.foldl max 0
  let sub := tab n fun i => i
  { ns := (List.replicate (k+1) 0).set k n,
    lab := List.replicate n k,
    degrees := tab (k+1) fun i => if i = k then deg else if 2 ≤ i then List.replicate n 0 else [],
    subs := tab (k+1) fun i => if i = k then sub else if 2 ≤ i then List.replicate maxDeg 0 else [] }

def Box.deg (b : Box) (l v : Nat) : Nat := (b.degrees.getD l []).getD v 0
def Box.sub (b : Box) (l i : Nat) : Nat := (b.subs.getD l []).getD i 0
def Box.setDeg (b : Box) (l v x : Nat) : Box := { b with degrees := b.degrees.set l ((b.degrees.getD l []).set v x) }
def Box.setSub (b : Box) (l i x : Nat) : Box := { b with subs := b.subs.set l ((b.subs.getD l []).set i x) }
def Box.setNs (b : Box) (l x : Nat) : Box := { b with ns := b.ns.set l x }
def Box.setLab (b : Box) (v x : Nat) : Box := { b with lab := b.lab.set v x }

/-- first inner loop: `for j in range(indptr[u], indptr[u] + degree_[u])` collecting the sub-graph of level `c-1` -/
def collectSub (indptr indices : List Nat) (c u : Nat) (b : Box) : Box :=
  (rangeFrom (indptr.getD u 0) (indptr.getD u 0 + b.deg c u)).foldl (fun b j =>
    let v := indices.getD j 0
    if b.lab.getD v 0 = c then
      let b := b.setLab v (c - 1)
      let b := b.setSub (c - 1) (b.ns.getD (c - 1) 0) v
      let b := b.setNs (c - 1) (b.ns.getD (c - 1) 0 + 1)
      b.setDeg (c - 1) v 0
    else b) b

/-- the `while k < k_max` loop: count the neighbours of `v` that are in the new sub-graph and move the others
    behind them. State: `indices`, `deg_prev[v]` (inside the box), `k`, `k_max`. -/
def partitionLoop (c v : Nat) (indices : List Nat) (b : Box) (k kMax : Nat) : List Nat × Box :=
  if k < kMax then
    let w := indices.getD k 0
    if b.lab.getD w 0 = c - 1 then
      partitionLoop c v indices (b.setDeg (c - 1) v (b.deg (c - 1) v + 1)) (k + 1) kMax
    else
      let indices1 := indices.set k (indices.getD (kMax - 1) 0)
      let indices2 := indices1.set (kMax - 1) w
      partitionLoop c v indices2 b k (kMax - 1)
  else (indices, b)
termination_by kMax - k

/-- second inner loop: `for j in range(box.ns[c-1])` -/
def restrictSub (indptr : List Nat) (c : Nat) (indices : List Nat) (b : Box) : List Nat × Box :=
  (List.range (b.ns.getD (c - 1) 0)).foldl (fun (ib : List Nat × Box) j =>
    let v := ib.2.sub (c - 1) j
    partitionLoop c v ib.1 ib.2 (indptr.getD v 0) (indptr.getD v 0 + ib.2.deg c v)) (indices, b)

/-- last inner loop: `for j in range(box.ns[c-1]): box.lab[sub_prev[j]] = c` -/
def restoreLab (c : Nat) (b : Box) : Box :=
  (List.range (b.ns.getD (c - 1) 0)).foldl (fun b j => b.setLab (b.sub (c - 1) j) c) b

/-- `count_cliques_from_dag(indptr, indices, clique_size, box)`: the count, and `indices` and the box afterwards.
    Since the repair 63da5b43 of /repo `indices` is a C++ vector passed **by reference** (as in the kClist
    algorithm): the callee's reordering of the segments is seen by the caller; the box is a Python object, shared
    as well. (`clique_size < 2` is excluded by `count_cliques`.) -/
def cliquesFrom (indptr : List Nat) : Nat → List Nat → Box → Nat × List Nat × Box
  | 0, ix, b => (0, ix, b)
  | 1, ix, b => (0, ix, b)
  | 2, ix, b =>
    ((List.range (b.ns.getD 2 0)).foldl (fun acc i => acc + b.deg 2 (b.sub 2 i)) 0, ix, b)
  | c+3, indices, b =>
    (List.range (b.ns.getD (c+3) 0)).foldl (fun (st : Nat × List Nat × Box) i =>
      let u := st.2.2.sub (c+3) i
      let b1 := st.2.2.setNs (c+2) 0
      let b2 := collectSub indptr st.2.1 (c+3) u b1
      let ib3 := restrictSub indptr (c+3) st.2.1 b2
      let r4 := cliquesFrom indptr (c+2) ib3.1 ib3.2
      (st.1 + r4.1, r4.2.1, restoreLab (c+3) r4.2.2)) (0, indices, b)

/-- `count_cliques(adjacency, clique_size)` given the permutation `perm = np.argsort(core values)`;
    `edge` = stored non-zero entries of `adjacency`. -/
def countCliquesWith (n : Nat) (edge : Nat → Nat → Bool) (k : Nat) (perm : List Nat) : Except PyErr Nat :=
  if k < 2 then .error .valueError
  else
    let dag := getDag n edge (perm.map fun x => Int.ofNat x)
    .ok (cliquesFrom dag.indptr k dag.indices (boxInit dag.indptr k)).1

/-- insertion of `v` into a list of nodes sorted by `key`, before equal keys -/
def insertBy (key : Nat → Int) (v : Nat) : List Nat → List Nat
  | [] => [v]
  | w :: ws => if key v ≤ key w then v :: w :: ws else w :: insertBy key v ws

/-- a concrete stable argsort standing for `np.argsort` (the count does not depend on the permutation) -/
def argsort (d : List Int) : List Nat :=
  (List.range d.length).foldr (insertBy (fun i => d.getD i 0)) []

/-- `count_cliques(adjacency, clique_size)` on a matrix of shape `nRow × nCol`: the clique size is checked first,
    then `check_format` / `check_square`, then — as `count_triangles` does — the matrix is symmetrised
    (`directed2undirected`: the stored entries of `A + Aᵀ`, a canonical matrix), and both the core values and the
    DAG are computed on that graph `symEdge val` -/
def countCliquesEntry (nRow nCol : Nat) (val : Nat → Nat → Rat) (k : Int) : Except PyErr (Option Nat) :=
  if k < 2 then .error .valueError
  else if nRow != nCol then .error .valueError
  else
    match computeCore (csrOfEdge nRow (symEdge val)).indptr (csrOfEdge nRow (symEdge val)).indices with
    | none => .ok none
    | some values => (countCliquesWith nRow (symEdge val) k.toNat (argsort values)).map some

/-- `count_cliques(adjacency, clique_size)`: `g` is the CSR structure `get_core_decomposition` receives
    (all stored entries), `edge` the stored non-zero entries (`astype(bool)` in `get_dag`). -/
def countCliques (n : Nat) (g : Dag) (edge : Nat → Nat → Bool) (k : Nat) : Except PyErr (Option Nat) :=
  if k < 2 then .error .valueError
  else
    match computeCore g.indptr g.indices with
    | none => .ok none
    | some values => (countCliquesWith n edge k (argsort values)).map some

end SkNet.Topology
