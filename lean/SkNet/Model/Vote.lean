/-
Model of sknetwork/classification/vote.pyx (`vote_update`) and of the part of
sknetwork/classification/propagation.py that drives it (property C13).

Mirrors the code loop for loop, array for array:
* `neigh`       : first inner loop of a node  — `labels_neigh.push_back(labels[indices[j]])`,
                  `votes_neigh.push_back(data[j])` for the stored entries `j` of row `i`
                  (both vectors are cleared at the start of the node: they are local here);
* `accumulate`  : second inner loop — `labels_unique.insert(label); votes[label] += votes_neigh[jj]`
                  for the non-negative labels (`labels_unique` is a C++ `std::set<int>`: `setInsert`
                  keeps the ascending duplicate-free list; `votes` is the scratch vector indexed by label,
                  threaded through the whole sweep exactly as in the kernel);
* `select`      : third inner loop — ascending over `labels_unique`, strict `>` against `best_score = -1`,
                  `votes[label] = 0` after use;
* `voteNode`    : one iteration of the outer loop (`labels[i]` is written in place: later nodes of the
                  same sweep see it);
* `voteUpdate`  : the kernel: `votes` sized by the largest label + 1, then the sweep over `index`;
* `instantiateVars`, `reorder`, `propLoop`, `fit` : `Propagation._instantiate_vars`, the node orders,
                  the stopping loop and `Propagation.fit` (`propLoop` is stated for any bound `nIter : Option Nat`, `none` = no bound;
                  the code calls it with `some (sweepLimit n_iter n)`).
`Propagation.fit` runs the sweeps on the seed labels compacted to `0 … k-1` (`np.unique(…, return_inverse=True)`, repo commit
b75478a7) and maps them back before `labels_` / `probs_`; the relabelling preserves the order of the labels, hence the tie rule
(`vote_update_node_exact`: smallest label of maximal vote), so the model iterates on the given label values.
The scalar is `Rat`: the harness sends integer / dyadic weights, for which the kernel's float32 sums are exact.

`Pinned.voteUpdate?` is the kernel as it was before the repair of defect F2 (kept for the witness of
`SkNet.C13.pinned_vote_not_fixed_point`): `data[jj]` indexed by the neighbour, `votes_neigh` never cleared,
`votes` sized by the number of nodes; reads and writes are checked (`none` = out of bounds).
-/
import SkNet.Model.Basic

namespace SkNet.Vote

/-! ### the kernel -/

/-- C++ `std::set<int>::insert` on the ascending duplicate-free list of the elements -/
def setInsert (x : Int) : List Int → List Int
  | [] => [x]
  | y :: ys => if x < y then x :: y :: ys else if x = y then y :: ys else y :: setInsert x ys

/-- `labels_neigh` and `votes_neigh` (zipped) after the first inner loop of node `i`, in storage order -/
def neigh (c : Csr Rat) (labels : List Int) (i : Nat) : List (Int × Rat) :=
  (c.rowRange i).map fun p => (labels.getD (c.indices.getD p 0) (-1), c.data.getD p 0)

/-- state of the second inner loop: `labels_unique`, `votes` -/
structure Acc where
  uniq : List Int
  votes : List Rat
deriving Repr

/-- `if label >= 0: labels_unique.insert(label); votes[label] += votes_neigh[jj]` -/
def accStep (a : Acc) (p : Int × Rat) : Acc :=
  if 0 ≤ p.1 then
    { uniq := setInsert p.1 a.uniq,
      votes := a.votes.set p.1.toNat (a.votes.getD p.1.toNat 0 + p.2) }
  else a

def accumulate (ps : List (Int × Rat)) (votes : List Rat) : Acc :=
  ps.foldl accStep ⟨[], votes⟩

/-- state of the third inner loop: `labels[i]`, `best_score`, `votes` -/
structure Sel where
  label : Int
  best : Rat
  votes : List Rat
deriving Repr

/-- `if votes[label] > best_score: labels[i] = label; best_score = votes[label]` then `votes[label] = 0` -/
def selStep (s : Sel) (l : Int) : Sel :=
  let v := s.votes.getD l.toNat 0
  { label := if s.best < v then l else s.label,
    best := if s.best < v then v else s.best,
    votes := s.votes.set l.toNat 0 }

/-- `best_score = -1; for label in labels_unique: …` (`cur` is the value of `labels[i]` on entry) -/
def select (uniq : List Int) (votes : List Rat) (cur : Int) : Sel :=
  uniq.foldl selStep ⟨cur, -1, votes⟩

/-- state of the sweep: the label array (updated in place) and the scratch vector `votes` -/
structure St where
  labels : List Int
  votes : List Rat
deriving Repr

/-- one iteration `ii` of the outer loop, `i = index[ii]` -/
def voteNode (c : Csr Rat) (st : St) (i : Nat) : St :=
  let a := accumulate (neigh c st.labels i) st.votes
  let s := select a.uniq a.votes (st.labels.getD i (-1))
  ⟨st.labels.set i s.label, s.votes⟩

/-- size of `votes`: largest label + 1 (0 if there is no non-negative label) -/
def nLabelsStep (m : Nat) (l : Int) : Nat := if (m : Int) ≤ l then (l + 1).toNat else m

def nLabels (labels : List Int) : Nat := labels.foldl nLabelsStep 0

def sweep (c : Csr Rat) (st : St) (index : List Nat) : St := index.foldl (voteNode c) st

/-- `vote_update(indptr, indices, data, labels, index)` -/
def voteUpdate (c : Csr Rat) (labels : List Int) (index : List Nat) : List Int :=
  (sweep c ⟨labels, List.replicate (nLabels labels) 0⟩ index).labels

/-! ### `Propagation` -/

/-- `len(set(labels))` -/
def nDistinct (l : List Int) : Nat := l.eraseDups.length

/-- `values[values >= 0]` has exactly one distinct element (`which='labels'` of `get_adjacency_values`) -/
def singleClass (values : List Int) : Bool := nDistinct (values.filter (0 ≤ ·)) == 1

/-- positions of the entries satisfying `p` (`np.argwhere(…).ravel()`) -/
def argwhere (p : Int → Bool) (l : List Int) : List Nat :=
  (List.range l.length).filter fun i => p (l.getD i (-1))

/-- What `Propagation.fit` does with the values returned by `get_adjacency_values` before the loop:
    with no labels or a single class every node starts with its own label and every node is updated;
    otherwise the seeds keep their labels and only the other nodes are updated.
    Returns (initial `labels`, `index_remain`). -/
def instantiateVars (values : List Int) : List Int × List Nat :=
  if singleClass values then
    (tab values.length fun i => (i : Int), List.range values.length)
  else
    (values.map fun v => if 0 ≤ v then v else -1, argwhere (· < 0) values)

/-- `index_remain[sigma]` : the order chosen by `np.random.shuffle` / `np.argsort` of the (in-)weights;
    `none` = index order -/
def reorder (indexRemain : List Nat) (sigma : Option (List Nat)) : List Nat :=
  match sigma with
  | none => indexRemain
  | some s => s.map fun k => indexRemain.getD k 0

/-- `adjacency.data` if weighted, otherwise `np.ones(nnz)` -/
def withWeights (c : Csr Rat) (weighted : Bool) : Csr Rat :=
  if weighted then c else { c with data := Array.replicate c.indices.size 1 }

/-- the configuration the loop compares: `labels[index_remain]` -/
def config (labels : List Int) (index : List Nat) : List Int := index.map fun i => labels.getD i (-1)

/-- `while t < n_iter and labels[index_remain] not in seen: t += 1; seen.add(…); labels = vote_update(…)`;
    `nIter = none` is `np.inf`; outer `none` = fuel exhausted. Returns the labels and the number of sweeps. -/
def propLoop (step : List Int → List Int) (key : List Int → List Int) :
    Nat → Option Nat → Nat → List (List Int) → List Int → Option (List Int × Nat)
  | 0, _, _, _, _ => none
  | fuel+1, nIter, t, seen, labels =>
    if nIter == some 0 || seen.contains (key labels) then some (labels, t)
    else propLoop step key fuel (nIter.map (· - 1)) (t+1) (key labels :: seen) (step labels)

/-- the number of sweeps `fit` allows: `n_iter` if it is non-negative, `n + 1` for a negative `n_iter` (`none`), `n` the
    number of nodes of the routed adjacency (repo commit be74e3a8: "until the labels stop changing, at most n + 1 sweeps") -/
def sweepLimit (nIterArg : Option Nat) (n : Nat) : Nat :=
  match nIterArg with
  | none => n + 1
  | some k => k

structure PropArgs where
  weighted : Bool := true
  nIter : Option Nat := none
  sigma : Option (List Nat) := none
deriving Repr

/-- `Propagation.fit` from the value vector to `labels_` (and the number of sweeps made) -/
def fit (c : Csr Rat) (values : List Int) (a : PropArgs) (fuel : Nat) : Option (List Int × Nat) :=
  let (labels0, indexRemain0) := instantiateVars values
  let index := reorder indexRemain0 a.sigma
  let cw := withWeights c a.weighted
  propLoop (fun l => voteUpdate cw l index) (fun l => config l index) fuel a.nIter 0 [] labels0

/-! ### the repaired kernel with checked accesses (`none` = a read or write outside a buffer) -/
namespace Checked

/-- first inner loop with every array read checked: `indptr[i]`, `indptr[i+1]`, `indices[j]`, `labels[jj]`, `data[j]` -/
def neigh? (c : Csr Rat) (labels : List Int) (i : Nat) : Option (List (Int × Rat)) := do
  let lo ← c.indptr[i]?
  let hi ← c.indptr[i+1]?
  (List.range (hi - lo)).mapM fun d => do
    let jj ← c.indices[d + lo]?
    let l ← labels[jj]?
    let w ← c.data[d + lo]?
    pure (l, w)

/-- `votes[label] += …` needs a cell for the label -/
def accStep? (a : Acc) (p : Int × Rat) : Option Acc :=
  if 0 ≤ p.1 then (if p.1.toNat < a.votes.length then some (accStep a p) else none) else some a

/-- `votes[label]` is read and reset -/
def selStep? (s : Sel) (l : Int) : Option Sel :=
  if 0 ≤ l ∧ l.toNat < s.votes.length then some (selStep s l) else none

def voteNode? (c : Csr Rat) (st : St) (i : Nat) : Option St := do
  let ps ← neigh? c st.labels i
  let a ← ps.foldlM accStep? ⟨[], st.votes⟩
  if i < st.labels.length then
    let s ← a.uniq.foldlM selStep? ⟨st.labels.getD i (-1), -1, a.votes⟩
    pure ⟨st.labels.set i s.label, s.votes⟩
  else none

/-- `vote_update` with every access checked -/
def voteUpdate? (c : Csr Rat) (labels : List Int) (index : List Nat) : Option (List Int) :=
  (index.foldlM (voteNode? c) ⟨labels, List.replicate (nLabels labels) 0⟩).map (·.labels)

end Checked

/-! ### the kernel before the repair of F2 (checked accesses) -/
namespace Pinned

/-- first inner loop as pinned: `votes_neigh.push_back(data[jj])`, `jj = indices[j]` (a node, not a position) -/
def neigh? (c : Csr Rat) (labels : List Int) (i : Nat) : Option (List (Int × Rat)) :=
  (c.rowRange i).mapM fun p => do
    let jj ← c.indices[p]?
    let l ← labels[jj]?
    let w ← c.data[jj]?
    pure (l, w)

structure St where
  labels : List Int
  votes : List Rat
  votesNeigh : List Rat      -- never cleared: grows over the whole sweep
deriving Repr

/-- second loop as pinned: `votes[label] += votes_neigh[jj]` with `jj` the position inside the node's
    neighbour list but `votes_neigh` holding the values of all earlier nodes too -/
def accumulate? (ls : List Int) (votesNeigh votes : List Rat) : Option Acc :=
  (List.range ls.length).foldlM (fun (a : Acc) jj => do
    let l := ls.getD jj (-1)
    if 0 ≤ l then
      let w ← votesNeigh[jj]?
      let old ← a.votes[l.toNat]?
      pure { uniq := setInsert l a.uniq, votes := a.votes.set l.toNat (old + w) }
    else pure a) ⟨[], votes⟩

def voteNode? (c : Csr Rat) (st : St) (i : Nat) : Option St := do
  let ps ← neigh? c st.labels i
  let vn := st.votesNeigh ++ ps.map (·.2)
  let a ← accumulate? (ps.map (·.1)) vn st.votes
  let cur ← st.labels[i]?
  let s := select a.uniq a.votes cur
  pure ⟨st.labels.set i s.label, s.votes, vn⟩

/-- the pinned kernel: `votes` has one cell per node -/
def voteUpdate? (c : Csr Rat) (labels : List Int) (index : List Nat) : Option (List Int) :=
  (index.foldlM (voteNode? c) ⟨labels, List.replicate labels.length 0, []⟩).map (·.labels)

end Pinned

end SkNet.Vote
