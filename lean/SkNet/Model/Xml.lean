/-
Vocabulary of the SVG models (property C20): Python strings, the pieces a drawing is concatenated from,
their rendering, and the sanitising of names.

* `PyStr`  : a Python `str` as its list of code points (Python strings may hold lone surrogates, which a Lean
             `String` cannot; the sanitiser must cope with them, so the model works on code points).
* `Piece`  : what one `svg += …` of the code appends — a start tag, an empty-element tag, an end tag, one character
             of character data, or one entity reference.  `render` is the string the code returns.
             The formatting of the templates (blanks between attributes, blank before `/>`, quote character) is part
             of the piece, so that `render` reproduces the code's string character for character.
* `escape` : `svg_escape` of sknetwork/visualization/graphs.py (after the repair of F15).
-/
import SkNet.Model.Basic

namespace SkNet.Svg

/-- a Python `str`: its code points -/
abbrev PyStr := List Nat

open Lean in
/-- `py!"abc"` : the code points of a literal, as an explicit list of numerals -/
macro:max "py!" s:str : term => do
  let cs : Array (TSyntax `term) :=
    (s.getString.toList.map (fun c => (Syntax.mkNumLit (toString c.toNat) : TSyntax `term))).toArray
  `(([$cs,*] : List Nat))

/-- decimal digits of a natural number, as a Python string (`str(k)`) -/
def natStr (k : Nat) : PyStr := (toString k).toList.map Char.toNat

/-- `sep key=q value q` -/
structure Attr where
  sep : PyStr
  key : PyStr
  q : Nat
  val : PyStr
deriving Repr, DecidableEq

inductive Piece
  /-- `<name attrs trail>` -/
  | otag (name : PyStr) (attrs : List Attr) (trail : PyStr)
  /-- `<name attrs trail/>` -/
  | etag (name : PyStr) (attrs : List Attr) (trail : PyStr)
  /-- `</name trail>` -/
  | ctag (name : PyStr) (trail : PyStr)
  /-- one character of character data -/
  | chr (c : Nat)
  /-- `&body;` -/
  | ref (body : PyStr)
deriving Repr, DecidableEq

def renderAttr (a : Attr) : PyStr := a.sep ++ (a.key ++ (61 :: a.q :: (a.val ++ [a.q])))

def renderAttrs : List Attr → PyStr
  | [] => []
  | a :: as => renderAttr a ++ renderAttrs as

def renderPiece : Piece → PyStr
  | .otag n as t => 60 :: (n ++ (renderAttrs as ++ (t ++ [62])))
  | .etag n as t => 60 :: (n ++ (renderAttrs as ++ (t ++ [47, 62])))
  | .ctag n t => 60 :: 47 :: (n ++ (t ++ [62]))
  | .chr c => [c]
  | .ref b => 38 :: (b ++ [59])

/-- the returned string -/
def render : List Piece → PyStr
  | [] => []
  | p :: ps => renderPiece p ++ render ps

/-! ### characters -/

/-- `Char` of XML 1.0: `#x9 | #xA | #xD | [#x20-#xD7FF] | [#xE000-#xFFFD] | [#x10000-#x10FFFF]` -/
def isXmlChar (c : Nat) : Bool :=
  c == 9 || c == 10 || c == 13 || (32 ≤ c && c ≤ 0xD7FF) || (0xE000 ≤ c && c ≤ 0xFFFD) ||
  (0x10000 ≤ c && c ≤ 0x10FFFF)

/-! ### what `open(path, 'w', encoding='utf-8').write(s)` puts on disk -/

/-- UTF-8 bytes of one code point (Python's strict `utf-8` codec: a surrogate cannot be encoded) -/
def utf8Cp (c : Nat) : Option (List Nat) :=
  if c < 0x80 then some [c]
  else if c < 0x800 then some [0xC0 + c / 64, 0x80 + c % 64]
  else if 0xD800 ≤ c ∧ c ≤ 0xDFFF then none
  else if c < 0x10000 then some [0xE0 + c / 4096, 0x80 + c / 64 % 64, 0x80 + c % 64]
  else if c < 0x110000 then some [0xF0 + c / 262144, 0x80 + c / 4096 % 64, 0x80 + c / 64 % 64, 0x80 + c % 64]
  else none

/-- `s.encode('utf-8')`; `none` = UnicodeEncodeError -/
def utf8Encode : PyStr → Option (List Nat)
  | [] => some []
  | c :: s =>
    match utf8Cp c, utf8Encode s with
    | some b, some r => some (b ++ r)
    | _, _ => none

/-! ### `svg_escape` (graphs.py) -/

/-- one iteration of the loop of `svg_escape` -/
def escapeCp (c : Nat) : List Piece :=
  if c = 38 then [.ref py!"amp"]
  else if c = 60 then [.ref py!"lt"]
  else if c = 62 then [.ref py!"gt"]
  else if c = 34 then [.ref py!"quot"]
  else if c = 39 then [.ref py!"apos"]
  else if isXmlChar c then [.chr c]
  else [.chr 0xFFFD]

/-- `svg_escape(text)` for `str(text) = s`, as pieces (its string is `render (escape s)`) -/
def escape : PyStr → List Piece
  | [] => []
  | c :: s => escapeCp c ++ escape s

/-- `svg_escape(colour)` as the string put into an attribute value -/
def escAttr (s : PyStr) : PyStr := render (escape s)

/-- a string read back from a numpy `str` array: at most `k` code points (dtype `U<k>`), trailing NULs dropped -/
def npU (k : Option Nat) (s : PyStr) : PyStr :=
  let t := match k with
    | some k => s.take k
    | none => s
  (t.reverse.dropWhile (· == 0)).reverse

/-! ### the sanitisers of the pinned tree (before the repair of F15), kept for the negative results -/

/-- `svg_text` before the repair: `&`, `<`, `>` replaced by a blank, everything else kept -/
def oldSanitiseGraph (s : PyStr) : List Piece :=
  s.map fun c => .chr (if c = 38 ∨ c = 60 ∨ c = 62 then 32 else c)

/-- `svg_dendrogram_top/left` before the repair: only `&` replaced by a blank -/
def oldSanitiseDendro (s : PyStr) : List Piece :=
  s.map fun c => .chr (if c = 38 then 32 else c)

end SkNet.Svg
