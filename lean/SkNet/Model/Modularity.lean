/-
Model of `sknetwork/clustering/metrics.py: get_modularity` (property C06, metric part), with the helpers it
goes through: `get_adjacency` (square -> the matrix itself, rectangular -> the undirected block matrix
[[0,B],[Bᵀ,0]]), `get_probs` / `check_weights` / `make_weights` (`sknetwork/utils/check.py`) and
`get_membership` (negative labels are ignored, the membership matrix has `max(labels)+1` columns).

The code computes
    fit = (Mᵀ (A M)).diagonal().sum() / A.data.sum()
    div = (Mᵀ probs_col) · (Mᵀ probs_row)
    mod = fit - resolution * div
and the model does exactly that, in ℚ, with the three matrix products written as the sums they are.
The matrix enters as a dense function `B i j` (= sum of the stored entries at (i,j): scipy sums duplicates)
plus the number `nnz` of stored entries (only `check_format` looks at it).
-/
import SkNet.Model.Basic

namespace SkNet.Modularity

inductive PyErr
  | valueError   -- a `raise ValueError` of the code
  | nonFinite    -- numpy divides by zero without raising: the result is nan / inf
deriving DecidableEq, Repr

def PyErr.show : PyErr → String
  | .valueError => "ValueError" | .nonFinite => "nonfinite"

/-- `Σ_{i<n} f i`, as the left fold a loop performs -/
def sumTo (n : Nat) (f : Nat → Rat) : Rat := (List.range n).foldl (fun acc i => acc + f i) 0

/-- the `weights` argument: `'degree'`, `'uniform'`, a custom vector, or any other string -/
inductive Weights
  | degree | uniform | custom (w : List Rat) | unknown
deriving Repr

/-- `bipartite2undirected`: the block matrix `[[0,B],[Bᵀ,0]]` of an `nRow × nCol` biadjacency matrix -/
def blockAdj (nRow : Nat) (B : Nat → Nat → Rat) (i j : Nat) : Rat :=
  if i < nRow then (if j < nRow then 0 else B i (j - nRow))
  else (if j < nRow then B j (i - nRow) else 0)

/-- tail of `check_weights` + `get_probs`: non-negative with positive sum, then normalised -/
def normalise (n : Nat) (v : Nat → Rat) : Except PyErr (Nat → Rat) :=
  if (List.range n).any (fun i => decide (v i < 0)) || decide (sumTo n v ≤ 0) then .error .valueError
  else .ok fun i => v i / sumTo n v

/-- `get_probs(weights, M)` where `M` is `adjacency` or `adjacency.T` (`n × n`) -/
def getProbs (n : Nat) (weights : Weights) (M : Nat → Nat → Rat) : Except PyErr (Nat → Rat) :=
  match weights with
  | .degree => normalise n fun i => sumTo n (M i)      -- `adjacency.dot(np.ones(n))`
  | .uniform => normalise n fun _ => 1                -- `np.ones(n)`
  | .custom w => if w.length != n then .error .valueError else normalise n fun i => w.getD i 0
  | .unknown => .error .valueError

/-- `get_membership(labels)[i, k]` -/
def member (labels : List Int) (i k : Nat) : Rat :=
  if labels.getD i (-1) == (k : Int) then 1 else 0

/-- `max(labels)` of a non-empty list -/
def maxLabel (labels : List Int) : Int := labels.foldl max (labels.headD 0)

structure ModOut where
  mod : Rat
  fit : Rat
  div : Rat
deriving Repr

/-- `get_modularity(input_matrix, labels, labels_col, weights, resolution, return_all=True)`.
    `nRow nCol nnz B` describe `input_matrix`. -/
def getModularity (nRow nCol nnz : Nat) (B : Nat → Nat → Rat) (labels : List Int)
    (labelsCol : Option (List Int)) (weights : Weights) (γ : Rat) : Except PyErr ModOut := do
  -- get_adjacency -> check_format
  if nnz == 0 then throw .valueError
  let bip := nRow != nCol
  let n := if bip then nRow + nCol else nRow
  let A : Nat → Nat → Rat := if bip then blockAdj nRow B else B
  let labels ← if bip then
      (match labelsCol with
       | none => throw PyErr.valueError
       | some lc => pure (labels ++ lc))
    else pure labels
  if labels.length != n then throw .valueError
  let pr ← getProbs n weights A
  let pc ← getProbs n weights (fun i j => A j i)
  -- get_membership: shape (n, max(labels)+1); a negative number of columns is refused by scipy
  let mx := maxLabel labels
  if mx < -1 then throw .valueError
  let k := (mx + 1).toNat
  let m := member labels
  let w := sumTo n fun i => sumTo n (A i)                  -- adjacency.data.sum()
  let fitNum := sumTo k fun c => sumTo n fun i => m i c * sumTo n fun j => A i j * m j c
  if w == 0 then throw .nonFinite
  let fit := fitNum / w
  let div := sumTo k fun c => (sumTo n fun i => m i c * pc i) * (sumTo n fun i => m i c * pr i)
  pure { mod := fit - γ * div, fit := fit, div := div }

end SkNet.Modularity
