/-
Model of `sknetwork/clustering/metrics.py: get_modularity` (property C06, metric part), with the helpers it
goes through: `get_adjacency` (square -> the matrix itself, rectangular -> the undirected block matrix
[[0,B],[Bᵀ,0]]), `get_probs` / `check_weights` / `make_weights` (`sknetwork/utils/check.py`) and
`get_membership` (negative labels are ignored, the membership matrix has `max(labels)+1` columns).

The code computes
    fit = (Mᵀ (A M)).diagonal().sum() / A.data.sum()
    div = (Mᵀ probs_col) · (Mᵀ probs_row)
    mod = fit - resolution * div
and the model does exactly that, in ℚ, with the three matrix products written as the sums they are.
The matrix enters as a dense function `B i j` (= sum of the stored entries at (i,j): scipy sums duplicates)
plus the number `nnz` of stored entries (only `check_format` looks at it).
-/
import SkNet.Model.Basic

namespace SkNet.Modularity

inductive PyErr
  | valueError   -- a `raise ValueError` of the code
  | nonFinite    -- numpy divides by zero without raising: the result is nan / inf
deriving DecidableEq, Repr

def PyErr.show : PyErr → String
  | .valueError => "ValueError" | .nonFinite => "nonfinite"

/-- `Σ_{i<n} f i`, as the left fold a loop performs -/
def sumTo (n : Nat) (f : Nat → Rat) : Rat := (List.range n).foldl (fun acc i => acc + f i) 0

/-- the `weights` argument: `'degree'`, `'uniform'`, a custom vector, or any other string -/
inductive Weights
  | degree | uniform | custom (w : List Rat) | unknown
deriving Repr

/-- `bipartite2undirected`: the block matrix `[[0,B],[Bᵀ,0]]` of an `nRow × nCol` biadjacency matrix -/
def blockAdj (nRow : Nat) (B : Nat → Nat → Rat) (i j : Nat) : Rat :=
  if i < nRow then (if j < nRow then 0 else B i (j - nRow))
  else (if j < nRow then B j (i - nRow) else 0)

/-- tail of `check_weights` + `get_probs`: non-negative with positive sum, then normalised -/
def normalise (n : Nat) (v : Nat → Rat) : Except PyErr (Nat → Rat) :=
  if (List.range n).any (fun i => decide (v i < 0)) || decide (sumTo n v ≤ 0) then .error .valueError
  else
    let total := sumTo n v          -- computed once
    .ok fun i => v i / total

/-- `get_probs(weights, M)` where `M` is `adjacency` or `adjacency.T` (`n × n`) -/
def getProbs (n : Nat) (weights : Weights) (M : Nat → Nat → Rat) : Except PyErr (Nat → Rat) :=
  match weights with
  | .degree => normalise n fun i => sumTo n (M i)      -- `adjacency.dot(np.ones(n))`
  | .uniform => normalise n fun _ => 1                -- `np.ones(n)`
  | .custom w => if w.length != n then .error .valueError else normalise n fun i => w.getD i 0
  | .unknown => .error .valueError

/-- `get_membership(labels)[i, k]` -/
def member (labels : List Int) (i k : Nat) : Rat :=
  if labels.getD i (-1) == (k : Int) then 1 else 0

/-- `max(labels)` of a non-empty list -/
def maxLabel (labels : List Int) : Int := labels.foldl max (labels.headD 0)

structure ModOut where
  mod : Rat
  fit : Rat
  div : Rat
deriving Repr

/-- the three figures, from the membership products:
    `fit = (Mᵀ (A M)).diagonal().sum() / A.data.sum()`, `div = (Mᵀ probs_col)·(Mᵀ probs_row)`, `mod = fit − γ·div` -/
def modTerms (n : Nat) (A : Nat → Nat → Rat) (labels : List Int) (pr pc : Nat → Rat) (γ : Rat) : ModOut :=
  let k := (maxLabel labels + 1).toNat               -- number of columns of the membership matrix
  let m := member labels
  let w := sumTo n fun i => sumTo n (A i)              -- adjacency.data.sum()
  let fit := (sumTo k fun c => sumTo n fun i => m i c * sumTo n fun j => A i j * m j c) / w
  let div := sumTo k fun c => (sumTo n fun i => m i c * pc i) * (sumTo n fun i => m i c * pr i)
  { mod := fit - γ * div, fit := fit, div := div }

/-- the adjacency matrix `get_modularity` works on and its size (`get_adjacency` without options) -/
def modAdj (nRow nCol : Nat) (B : Nat → Nat → Rat) : Nat × (Nat → Nat → Rat) :=
  if nRow != nCol then (nRow + nCol, blockAdj nRow B) else (nRow, B)

/-- the label vector `get_modularity` works on -/
def modLabels (nRow nCol : Nat) (labels : List Int) (labelsCol : Option (List Int)) : Except PyErr (List Int) :=
  if nRow != nCol then
    (match labelsCol with
     | none => .error .valueError
     | some lc => .ok (labels ++ lc))
  else .ok labels

/-- `get_modularity(input_matrix, labels, labels_col, weights, resolution, return_all=True)`.
    `nRow nCol nnz B` describe `input_matrix`. -/
def getModularity (nRow nCol nnz : Nat) (B : Nat → Nat → Rat) (labels : List Int)
    (labelsCol : Option (List Int)) (weights : Weights) (γ : Rat) : Except PyErr ModOut :=
  -- get_adjacency -> check_format
  if nnz == 0 then .error .valueError else
  let n := (modAdj nRow nCol B).1
  let A := (modAdj nRow nCol B).2
  match modLabels nRow nCol labels labelsCol with
  | .error e => .error e
  | .ok labels =>
    if labels.length != n then .error .valueError else
    match getProbs n weights A with
    | .error e => .error e
    | .ok pr =>
      match getProbs n weights (fun i j => A j i) with
      | .error e => .error e
      | .ok pc =>
        -- get_membership: shape (n, max(labels)+1); a negative number of columns is refused by scipy
        if maxLabel labels < -1 then .error .valueError
        -- numpy divides by `adjacency.data.sum()` without raising
        else if (sumTo n fun i => sumTo n (A i)) == 0 then .error .nonFinite
        else .ok (modTerms n A labels pr pc γ)

end SkNet.Modularity
