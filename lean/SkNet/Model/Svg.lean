/-
Model of sknetwork/visualization: graphs.py (`visualize_graph`, `visualize_bigraph` and their helpers) and
dendrograms.py (`get_index`, `svg_dendrogram_top`, `svg_dendrogram_left`, `visualize_dendrogram`), property C20.

The code builds its result with `svg += template.format(...)`; the model builds the same document as a list of
`Piece`s (Model/Xml.lean) whose `render` is the returned string, statement for statement:
* the templates (`svgNode`, `svgPieChartNode`, `svgEdge`, `svgEdgeDirected`, `svgText`, the marker definitions, the
  headers) with their exact blanks, quotes and line feeds;
* the decision logic that selects what is drawn: `eliminate_zeros`, the default of `directed` (`is_symmetric`),
  node colours from labels / scores / membership (`getNodeColors`, `getLabelColors`), edge colours, edge order and
  residual edge labels (`getEdgeColors`), the circle-or-pie decision per node, `node_order`, the name loop, the
  ValueError / TypeError / IndexError / KeyError exits;
* `rescale` in exact rational arithmetic — used only for the one decision taken on numbers: `svg_edge_directed`
  returns the empty string when the end points coincide;
* every *printed* number is an abstract token supplied by `ν : Nums` (slot, indices) — the theorems hold for every
  way of printing numbers that yields attribute-safe tokens;
* external: `Spring().fit_transform` (the layout is an input), `cut_straight` (its labels are an input),
  `Louvain` in `visualize_bigraph` (it only moves nodes), scipy's sparse containers.
-/
import SkNet.Model.Xml

namespace SkNet.Svg

inductive PyErr
  | valueError | indexError | typeError | keyError | zeroDivisionError | unicodeEncodeError
  /-- the input is outside what the model describes: duplicate stored entries `(i, j)` in the (bi)adjacency matrix
      (scipy sums them in some operations and not in others) -/
  | outOfModel
deriving DecidableEq, Repr

def PyErr.show : PyErr → String
  | .valueError => "ValueError" | .indexError => "IndexError" | .typeError => "TypeError"
  | .keyError => "KeyError" | .zeroDivisionError => "ZeroDivisionError" | .outOfModel => "OutOfModel"
  | .unicodeEncodeError => "UnicodeEncodeError"

/-- places of the templates where a number is printed -/
inductive Slot
  | w | h | cx | cy | r | sw
  | pie (t : Nat) | edge (t : Nat) | redge (t : Nat) | text (t : Nat) | score
  | dtext (t : Nat) | dpath (t : Nat)
deriving DecidableEq, Repr

/-- a stable argsort (any sorting permutation gives the same document: equal keys have equal colours) -/
def insertByKey (key : Nat → Int) (v : Nat) : List Nat → List Nat
  | [] => [v]
  | w :: ws => if key v ≤ key w then v :: w :: ws else w :: insertByKey key v ws

def argsort (d : List Int) : List Nat :=
  (List.range d.length).foldr (insertByKey (fun i => d.getD i 0)) []

/-- what the drawing code takes from outside the model: how a number is printed at a slot (with two indices), and
    which sorting permutation `np.argsort` returns (any permutation of the positions is allowed by the theorems; the
    correspondence runs use the stable `argsort` above — equal keys have equal colours, so the masked document does not
    depend on the choice) -/
structure Nums where
  tok : Slot → Nat → Nat → PyStr
  argsort : List Int → List Nat := SkNet.Svg.argsort

instance : CoeFun Nums (fun _ => Slot → Nat → Nat → PyStr) := ⟨Nums.tok⟩

/-! ### templates -/

/-- ` key="val"` -/
def att (k v : PyStr) : Attr := ⟨[32], k, 34, v⟩
/-- `  key="val"` (two blanks, as some templates have) -/
def att2 (k v : PyStr) : Attr := ⟨[32, 32], k, 34, v⟩

def styleVal (fill stroke sw : PyStr) : PyStr :=
  py!"fill:" ++ (fill ++ (py!";stroke:" ++ (stroke ++ (py!";stroke-width:" ++ sw))))

/-- `svg_node` : `<circle cx="{}" cy="{}" r="{}" style="fill:{};stroke:{};stroke-width:{}"/>\n` -/
def svgNode (x y size color sw : PyStr) : List Piece :=
  [.etag py!"circle" [att py!"cx" x, att py!"cy" y, att py!"r" size,
      att py!"style" (styleVal (escAttr color) py!"black" sw)] [],
   .chr 10]

/-- one sector of `svg_pie_chart_node`:
    `<path d="M {} {} A {} {} 0 {} 1 {} {} L {} {}" style="fill:{};stroke:{};stroke-width:{}" />\n` -/
def svgPieSector (t : Nat → PyStr) (color sw : PyStr) : List Piece :=
  [.etag py!"path"
     [att py!"d" (py!"M " ++ (t 0 ++ (32 :: (t 1 ++ (py!" A " ++ (t 2 ++ (32 :: (t 3 ++ (py!" 0 " ++ (t 4 ++
        (py!" 1 " ++ (t 5 ++ (32 :: (t 6 ++ (py!" L " ++ (t 7 ++ (32 :: t 8))))))))))))))))),
      att py!"style" (styleVal (escAttr color) py!"black" sw)] [32],
   .chr 10]

/-- `colors[index % n_colors]` -/
def modIndex (colors : List PyStr) (index : Nat) : Except PyErr PyStr :=
  if colors.length = 0 then .error .zeroDivisionError
  else .ok (colors.getD (index % colors.length) [])

/-- `colors[l % len(colors)]` with numpy integers (`np.int64 % 0` is 0 with a warning, then the index is out of bounds) -/
def modIndexNp (colors : List PyStr) (index : Nat) : Except PyErr PyStr :=
  if colors.length = 0 then .error .indexError
  else .ok (colors.getD (index % colors.length) [])

/-- `svg_pie_chart_node(pos, size, probs, colors, stroke_width)`; `row` = the dense row, `k` its length -/
def svgPieChartNode (ν : Nums) (i side : Nat) (row : List Rat) (colors : List PyStr) : Except PyErr (List Piece) :=
  if row.foldl (· + ·) 0 = 0 then
    .ok (svgNode (ν .cx i side) (ν .cy i side) (ν .r i side) py!"white" py!"3")
  else
    (List.range row.length).foldlM (fun out index => do
      let c ← modIndex colors index
      pure (out ++ svgPieSector (fun t => ν (.pie t) (2 * i + side) index) c (ν .sw i side))) []

/-- `svg_edge` : `<path stroke-width="{}" stroke="{}" d="M {} {} {} {}"/>\n` -/
def svgEdge (t : Nat → PyStr) (color : PyStr) : List Piece :=
  [.etag py!"path"
     [att py!"stroke-width" (t 0), att py!"stroke" (escAttr color),
      att py!"d" (py!"M " ++ (t 1 ++ (32 :: (t 2 ++ (32 :: (t 3 ++ (32 :: t 4)))))))] [],
   .chr 10]

/-- `svg_edge_directed`: nothing when the end points coincide, else
    `<path stroke-width="{}" stroke="{}" d="M {} {} {} {}" marker-end="url(#arrow-{})"/>\n` -/
def svgEdgeDirected (p1 p2 : Rat × Rat) (t : Nat → PyStr) (color : PyStr) : List Piece :=
  if p2.1 - p1.1 = 0 ∧ p2.2 - p1.2 = 0 then []
  else
    [.etag py!"path"
       [att py!"stroke-width" (t 0), att py!"stroke" (escAttr color),
        att py!"d" (py!"M " ++ (t 1 ++ (32 :: (t 2 ++ (32 :: (t 3 ++ (32 :: t 4))))))),
        att py!"marker-end" (py!"url(#arrow-" ++ (escAttr color ++ py!")"))] [],
     .chr 10]

/-- position of the names -/
inductive NamePos
  | left | right | above | below
  /-- any other string: `svg_text` treats it as 'right', `rescale` as 'below' -/
  | other
deriving DecidableEq, Repr

/-- `svg_text`: `<text text-anchor="{}" x="{}" y="{}" font-size="{}">{}</text>` with the escaped text -/
def svgText (t : Nat → PyStr) (text : PyStr) (position : NamePos) : List Piece :=
  let anchor := match position with
    | .left => py!"end" | .above => py!"middle" | .below => py!"middle" | .right => py!"start"
    | .other => py!"start"
  [.otag py!"text" [att py!"text-anchor" anchor, att py!"x" (t 0), att py!"y" (t 1), att py!"font-size" (t 2)] []]
    ++ (escape text ++ [.ctag py!"text" []])

/-- the two appends of the marker definition for one edge colour -/
def svgMarker (color : PyStr) : List Piece :=
  [.otag py!"defs" [] [],
   .otag py!"marker"
     [att py!"id" (py!"arrow-" ++ escAttr color), att py!"markerWidth" py!"10", att py!"markerHeight" py!"10",
      att py!"refX" py!"9", att py!"refY" py!"3",
      ⟨10 :: List.replicate 16 32, py!"orient", 34, py!"auto"⟩] [32],
   .chr 10,
   .etag py!"path" [att py!"d" py!"M0,0 L0,6 L9,3 z", att py!"fill" (escAttr color)] [],
   .ctag py!"marker" [], .ctag py!"defs" [], .chr 10]

def xmlns : PyStr := py!"http://www.w3.org/2000/svg"

/-! ### colours -/

def standardColors : List PyStr :=
  [py!"blue", py!"red", py!"green", py!"orange", py!"purple", py!"yellow", py!"fuchsia", py!"olive", py!"aqua",
   py!"brown"]

inductive LabelColors
  | none
  | list (l : List PyStr)
  | dict (kv : List (Nat × PyStr))
deriving Repr

/-- `arr[k] = v` for every `(k, v)` in order -/
def setMany (arr : List α) (kv : List (Nat × α)) : Except PyErr (List α) :=
  kv.foldlM (fun a (k, v) => if k < a.length then .ok (a.set k v) else .error .indexError) arr

/-- `get_label_colors` -/
def getLabelColors : LabelColors → Except PyErr (List PyStr)
  | .none => .ok standardColors
  | .list l => .ok (l.map (npU none))              -- `np.array(label_colors)`
  | .dict kv =>
    match kv with
    | [] => .error .valueError           -- max() of an empty sequence
    | _ => setMany (List.replicate ((kv.map (·.1)).foldl max 0 + 1) py!"black")
             (kv.map fun p => (p.1, npU (some 64) p.2))    -- an array of dtype 'U64'

inductive Labels
  /-- a list (length checked by the code) or an array -/
  | arr (l : List Int) (isList : Bool)
  | dict (kv : List (Nat × Int))
deriving Repr

inductive Scores
  | arr (len : Nat) (isList : Bool)
  | dict (keys : List Nat)
deriving Repr

/-- membership matrix after `check_format`: stored entries `(column, value)` of every row -/
structure Probs where
  ncols : Nat
  rows : List (List (Nat × Rat))
deriving Repr

/-- the colour printed for a score -/
def scoreColor (ν : Nums) (i side : Nat) : PyStr := py!"rgb(" ++ (ν .score i side ++ py!")")

/-- the `labels` argument as an array of length `n` -/
def labelArray (n : Nat) : Labels → Except PyErr (List Int)
  | .dict kv =>
    if kv.isEmpty then .error .indexError     -- `np.array([])` is a float array: not an index
    else setMany (List.replicate n (-1 : Int)) kv
  | .arr l isList =>
    if isList ∧ l.length ≠ n then .error .valueError
    else if l.length ≠ n then .error .indexError
    else .ok l

/-- `node_colors[index] = label_colors[labels[index] % len(label_colors)]` with `index = labels >= 0` -/
def colorsFromLabels (n : Nat) (labs : List Int) (colors : List PyStr) (nodeColor : PyStr) : List PyStr :=
  tab n fun i =>
    let l := labs.getD i (-1)
    if l ≥ 0 then npU (some 64) (colors.getD (l % (colors.length : Int)).toNat []) else npU (some 64) nodeColor

/-- `get_node_colors(n, labels, scores, membership, node_color, label_colors)`;
    `side` distinguishes rows and columns of a bipartite graph in the number slots -/
def getNodeColors (ν : Nums) (side n : Nat) (labels : Option Labels) (scores : Option Scores) (hasMembership : Bool)
    (nodeColor : PyStr) (lc : LabelColors) : Except PyErr (List PyStr) :=
  match labels with
  | some lab =>
    match labelArray n lab with
    | .error e => .error e
    | .ok labs =>
      match getLabelColors lc with
      | .error e => .error e
      | .ok colors =>
        -- `label_colors[labels[index] % len(label_colors)]` is evaluated on the labels `>= 0` only
        if colors.length = 0 ∧ labs.any (fun l => l ≥ 0) then .error .indexError
        else .ok (colorsFromLabels n labs colors nodeColor)
  | none =>
    match scores with
    | some (.dict keys) =>
      if keys.isEmpty then .error .valueError      -- `np.min` of an empty array
      else setMany (List.replicate n (npU (some 64) nodeColor)) (keys.map fun k => (k, scoreColor ν k side))
    | some (.arr len isList) =>
      if isList ∧ len ≠ n then .error .valueError
      else if len = 0 then .error .valueError        -- `np.min` of an empty array
      else .ok (tab len fun i => scoreColor ν i side)
    | none =>
      if hasMembership then
        match lc with
        | .dict _ => .error .typeError
        | _ => getLabelColors lc
      else .ok (List.replicate n (npU (some 64) nodeColor))      -- `np.array(n * [node_color]).astype('U64')`

/-! ### `rescale` (exact arithmetic; decides only whether two nodes are drawn at the same place) -/

def lmin (x : List Rat) : Rat := x.foldl min (x.headD 0)
def lmax (x : List Rat) : Rat := x.foldl max (x.headD 0)

/-- `min_max_scaling(x)` with the default bounds -/
def minMaxScaling (x : List Rat) : List Rat :=
  if lmax x > lmin x then x.map fun v => (v - lmin x) / (lmax x - lmin x)
  else x.map fun _ => 1 / 2

/-- Python truthiness of `width` / `height` (`None` or a number) -/
def truthy : Option Rat → Bool
  | none => false
  | some w => w != 0

structure Layout where
  margin : Rat := 20
  nodeSize : Rat := 7
  nodeSizeMax : Rat := 20
  displayNodeWeight : Bool := false
  fontSize : Rat := 12
  scale : Rat := 1
deriving Repr

/-- the `# rescale` block: a missing (falsy) dimension is derived from the other one and the aspect of the layout -/
def effDims (width height : Option Rat) (spanX spanY : Rat) : Option Rat × Option Rat :=
  if truthy width ∧ ¬ truthy height then
    (width, some ((width.getD 0) * (if spanX ≠ 0 ∧ spanY ≠ 0 then spanY / spanX else 1)))
  else if truthy height ∧ ¬ truthy width then
    (some ((height.getD 0) * (if spanX ≠ 0 ∧ spanY ≠ 0 then spanX / spanY else 1)), height)
  else (width, height)

/-- the `# text` block: what is added to every abscissa and to every ordinate to make room for the names;
    `x` = the abscissas before the shift -/
def nameShift (lens : Option (List Nat)) (namePos : NamePos) (fs : Rat) (x : List Rat) : Rat × Rat :=
  match lens with
  | none => (0, 0)
  | some lens =>
    -- (`lens` has one entry per node, or a single entry that numpy broadcasts)
    let lenAt := fun i => (((if lens.length = 1 then lens.getD 0 0 else lens.getD i 0) : Nat) : Rat)
    let clamp := fun (ml : Rat) => if ml > 0 then ml else 0
    match namePos with
    | .left => (clamp (- lmin (tab x.length fun i => x.getD i 0 - lenAt i * fs)), 0)
    | .right => (0, 0)
    | .above => (clamp (- lmin (tab x.length fun i => x.getD i 0 - lenAt i * fs / 2)), fs)
    | _ => (clamp (- lmin (tab x.length fun i => x.getD i 0 - lenAt i * fs / 2)), 0)   -- 'below', any other string

/-- `lengths * font_size` cannot be broadcast against the abscissas (one node with several names is broadcast the
    other way round: the code returns) -/
def lensMismatch (lens : Option (List Nat)) (n : Nat) : Bool :=
  match lens with
  | some lens => lens.length != n && lens.length != 1 && n != 1      -- numpy: equal, or either side of length 1
  | none => false

/-- the `# margins` block -/
def effMargin (lay : Layout) : Rat :=
  max (max lay.margin (if lay.displayNodeWeight then lay.nodeSizeMax else 0)) lay.nodeSize

/-- `rescale(position, width, height, margin, node_size, node_size_max, display_node_weight, names, name_position,
    font_size)`; `lens` = `len(str(name))` of the names. Returns the positions only (width and height are printed
    numbers). -/
def rescale (pos : List (Rat × Rat)) (width height : Option Rat) (lay : Layout) (lens : Option (List Nat))
    (namePos : NamePos) : Except PyErr (List (Rat × Rat)) :=
  if pos.isEmpty then .error .valueError          -- np.max of an empty array
  else
    let xs := pos.map (·.1)
    let ys := pos.map (·.2)
    match effDims width height (lmax xs - lmin xs) (lmax ys - lmin ys) with
    | (some w, some h) =>
      if lensMismatch lens pos.length then .error .valueError   -- shapes cannot be broadcast
      else
        let x := (minMaxScaling xs).map (· * w)
        let y := (minMaxScaling ys).map fun v => (1 - v) * h
        let shift := nameShift lens namePos lay.fontSize x
        .ok (tab pos.length fun i =>
          (x.getD i 0 + shift.1 + effMargin lay, y.getD i 0 + shift.2 + effMargin lay))
    | _ => .error .typeError                        -- `position * np.array([None, …])`

/-! ### `get_edge_colors` -/

abbrev Entry := Nat × Nat × Rat

/-- `adjacency[i, j]` -/
def entryAt (es : List Entry) (i j : Nat) : Rat :=
  (es.filter fun e => e.1 = i ∧ e.2.1 = j).foldl (fun a e => a + e.2.2) 0

structure EdgeColors where
  colors : List PyStr                       -- one per stored entry
  order : List Nat
  residual : List (Nat × Nat × PyStr)
deriving Repr

/-- state of the loop over `edge_labels`: `adjacency_labels.data` and `edge_colors_residual` -/
structure LabelState where
  data : List Int
  residual : List (Nat × Nat × PyStr)

/-- body of `for i, j, label in edge_labels:` -/
def edgeLabelStep (nRow nCol : Nat) (es : List Entry) (colors : List PyStr) (st : LabelState)
    (lab : Int × Int × Int) : Except PyErr LabelState :=
  let i := lab.1
  let j := lab.2.1
  let label := lab.2.2
  if i < 0 ∨ i ≥ (nRow : Int) ∨ j < 0 ∨ j ≥ (nCol : Int) then .error PyErr.valueError
  else if colors.length = 0 then .error PyErr.zeroDivisionError
  else
    let c := (label % (colors.length : Int)).toNat
    if entryAt es i.toNat j.toNat ≠ 0 then
      match es.findIdx? (fun e => e.1 = i.toNat ∧ e.2.1 = j.toNat) with
      | some k => .ok ⟨st.data.set k (c : Int), st.residual⟩
      | none => .error PyErr.outOfModel       -- cannot happen: a non-zero sum has a stored entry
    else .ok ⟨st.data, st.residual ++ [(i.toNat, j.toNat, colors.getD c [])]⟩

/-- `edge_colors`: the default colour, overwritten where `adjacency_labels.data >= 0` -/
def edgeColorArray (m : Nat) (data : List Int) (colors : List PyStr) (edgeColor : PyStr) : List PyStr :=
  tab m fun k =>
    let v := if k < data.length then data.getD k (-1) else -1
    if v ≥ 0 then npU (some 64) (colors.getD v.toNat []) else npU (some 64) edgeColor   -- an array of dtype 'U64'

/-- two stored entries at the same place -/
def hasDuplicate : List Entry → Bool
  | [] => false
  | e :: r => r.any (fun x => x.1 == e.1 && x.2.1 == e.2.1) || hasDuplicate r

/-- `get_edge_colors(adjacency, edge_labels, edge_color, label_colors)`; `es` = stored entries in storage order.
    `adjacency_labels` has the sparsity structure of `adjacency` (after the repair b9a209f6; before, it was
    `adjacency > 0`, whose entries were numbered differently from the COO arrays read by the caller as soon as a
    stored weight was negative or zero): `data`, `edge_order` and `edge_colors` are all numbered over the stored
    entries. -/
def getEdgeColors (sort : List Int → List Nat) (nRow nCol : Nat) (es : List Entry)
    (edgeLabels : List (Int × Int × Int)) (edgeColor : PyStr) (lc : LabelColors) : Except PyErr EdgeColors :=
  let data0 : List Int := es.map fun _ => -1
  if hasDuplicate es then .error .outOfModel
  else if edgeLabels.isEmpty then
    .ok ⟨edgeColorArray es.length data0 [] edgeColor, sort data0, []⟩
  else
    match getLabelColors lc with
    | .error e => .error e
    | .ok colors =>
      match edgeLabels.foldlM (edgeLabelStep nRow nCol es colors) ⟨data0, []⟩ with
      | .error e => .error e
      | .ok st => .ok ⟨edgeColorArray es.length st.data colors edgeColor, sort st.data, st.residual⟩

/-! ### `visualize_graph` -/

/-- `is_symmetric(adjacency)` -/
def isSymmetric (n : Nat) (es : List Entry) : Bool :=
  (List.range n).all fun i => (List.range n).all fun j => entryAt es i j = entryAt es j i

structure GraphArgs where
  /-- `adjacency` given? its `shape[0]` and stored entries (storage order, explicit zeros included) -/
  hasAdj : Bool := true
  n : Nat
  entries : List Entry := []
  /-- `position` given? -/
  hasPos : Bool := true
  /-- `position`, or what `Spring().fit_transform(adjacency)` returned -/
  pos : List (Rat × Rat)
  names : Option (List PyStr) := none
  namePos : NamePos := .right
  labels : Option Labels := none
  scores : Option Scores := none
  probs : Option Probs := none
  nodeOrder : Option (List Nat) := none
  nodeColor : PyStr := py!"gray"
  displayEdges : Bool := true
  edgeLabels : List (Int × Int × Int) := []
  edgeColor : Option PyStr := none
  labelColors : LabelColors := .none
  directed : Option Bool := none
  width : Option Rat := some 400
  height : Option Rat := some 300
  lay : Layout := {}
  filename : Option PyStr := none
deriving Repr

/-- `list(dict.fromkeys(l))` : distinct elements in order of first occurrence (the code iterates over `set(l)`,
    whose order is unspecified; the harness compares the marker definitions as a multiset) -/
def dedup : List PyStr → List PyStr
  | [] => []
  | c :: r => c :: (dedup r).filter (· != c)

/-- dense row `i` of the membership matrix -/
def denseRow (p : Probs) (i : Nat) : List Rat :=
  tab p.ncols fun j => ((p.rows.getD i []).filter (·.1 = j)).foldl (fun a e => a + e.2) 0

/-- the node loop body: a circle or a pie chart -/
def nodeShape (ν : Nums) (side i : Nat) (probs : Option Probs) (nodeColors : List PyStr) : Except PyErr (List Piece) :=
  match probs with
  | none =>
    if i < nodeColors.length then
      .ok (svgNode (ν .cx i side) (ν .cy i side) (ν .r i side) (nodeColors.getD i []) (ν .sw i side))
    else .error .indexError
  | some p =>
    if p.rows.all (·.isEmpty) then .error .valueError          -- `check_format`: 'The input matrix is empty.'
    else if i ≥ p.rows.length then .error .indexError
    else
      let row := p.rows.getD i []
      if row.length = 1 then
        let index := (row.headD (0, 0)).1
        if index < nodeColors.length then
          .ok (svgNode (ν .cx i side) (ν .cy i side) (ν .r i side) (nodeColors.getD index []) (ν .sw i side))
        else .error .indexError
      else svgPieChartNode ν i side (denseRow p i) nodeColors

/-- the text loop: `for i in range(n): svg += svg_text(position[i], names[i], …)` -/
def textLoop (ν : Nums) (side n : Nat) (names : List PyStr) (np : NamePos) : Except PyErr (List Piece) :=
  (List.range n).foldlM (fun out i =>
    if i < names.length then
      .ok (out ++ svgText (fun t => ν (.text t) i side) (names.getD i []) np)
    else .error PyErr.indexError) []

structure Drawing where
  svg : List Piece
  /-- `(path, bytes)` of the file written -/
  file : Option (PyStr × List Nat)
deriving Repr

/-- `if filename is not None: with open(filename + '.svg', 'w', encoding='utf-8') as f: f.write(svg)`, then
    `return svg` -/
def writeFile (filename : Option PyStr) (svg : List Piece) : Except PyErr Drawing :=
  match filename with
  | none => .ok ⟨svg, none⟩
  | some f =>
    match utf8Encode (render svg) with
    | some bytes => .ok ⟨svg, some (f ++ py!".svg", bytes)⟩
    | none => .error .unicodeEncodeError

/-- `n`, the entries after `adjacency.eliminate_zeros()`, and the resolved `directed` flag -/
def graphN (a : GraphArgs) : Nat := if a.hasAdj then a.n else a.pos.length
def graphEs (a : GraphArgs) : List Entry := (if a.hasAdj then a.entries else []).filter fun e => e.2.2 ≠ 0
def graphDirected (a : GraphArgs) : Bool :=
  match a.directed with
  | some d => d
  | none => !isSymmetric (graphN a) (graphEs a)

/-- `rescale(...)` followed by `position *= scale` -/
def finalPos (a : GraphArgs) : Except PyErr (List (Rat × Rat)) :=
  match rescale a.pos a.width a.height a.lay (a.names.map fun l => l.map List.length) a.namePos with
  | .error e => .error e
  | .ok pos => .ok (pos.map fun p => (p.1 * a.lay.scale, p.2 * a.lay.scale))

/-- `edge_color` when it is `None` -/
def defaultEdgeColor (edgeColor : Option PyStr) (noNames : Bool) : PyStr :=
  match edgeColor with
  | some c => c
  | none => if noNames then py!"black" else py!"gray"

/-- one edge of `visualize_graph` -/
def graphEdge (ν : Nums) (directed : Bool) (pos : List (Rat × Rat)) (slot : Nat → Slot) (k i j : Nat)
    (color : PyStr) : List Piece :=
  if directed then svgEdgeDirected (pos.getD i (0, 0)) (pos.getD j (0, 0)) (fun t => ν (slot t) k 0) color
  else svgEdge (fun t => ν (slot t) k 0) color

/-- `for ix in edge_order:` -/
def storedEdges (ν : Nums) (directed : Bool) (es : List Entry) (pos : List (Rat × Rat)) (ec : EdgeColors) :
    Except PyErr (List Piece) :=
  ec.order.foldlM (fun out ix =>
    if ix ≥ es.length then .error PyErr.indexError
    else
      let e := es.getD ix (0, 0, 0)
      if e.1 ≥ pos.length ∨ e.2.1 ≥ pos.length then .error PyErr.indexError
      else .ok (out ++ graphEdge ν directed pos Slot.edge ix e.1 e.2.1 (ec.colors.getD ix []))) []

/-- `for i, j, color in edge_colors_residual:` -/
def residEdges (ν : Nums) (directed : Bool) (pos : List (Rat × Rat)) (residual : List (Nat × Nat × PyStr)) :
    List Piece :=
  (List.range residual.length).flatMap fun k =>
    let r := residual.getD k (0, 0, [])
    graphEdge ν directed pos Slot.redge k r.1 r.2.1 r.2.2

/-- the `if display_edges:` block of `visualize_graph`: the colours that get a marker definition, and the edges -/
def graphEdgeParts (ν : Nums) (a : GraphArgs) (pos : List (Rat × Rat)) : Except PyErr (List PyStr × List Piece) :=
  if a.displayEdges then
    match getEdgeColors ν.argsort (graphN a) (graphN a) (graphEs a) a.edgeLabels
        (defaultEdgeColor a.edgeColor a.names.isNone) a.labelColors with
    | .error e => .error e
    | .ok ec =>
      match storedEdges ν (graphDirected a) (graphEs a) pos ec with
      | .error e => .error e
      | .ok stored =>
        if ec.residual.any (fun r => r.1 ≥ pos.length ∨ r.2.1 ≥ pos.length) then .error PyErr.indexError
        else .ok (if graphDirected a then dedup ec.colors else [],
                  stored ++ residEdges ν (graphDirected a) pos ec.residual)
  else .ok ([], [])

/-- `for i in node_order:` -/
def graphNodes (ν : Nums) (nodeOrder : List Nat) (npos : Nat) (probs : Option Probs) (nodeColors : List PyStr) :
    Except PyErr (List Piece) :=
  nodeOrder.foldlM (fun out i =>
    if i ≥ npos then .error PyErr.indexError
    else match nodeShape ν 0 i probs nodeColors with
      | .ok s => .ok (out ++ s)
      | .error e => .error e) []

/-- `if names is not None: for i in range(n): …` -/
def namesText (ν : Nums) (side n : Nat) (names : Option (List PyStr)) (np : NamePos) : Except PyErr (List Piece) :=
  match names with
  | some names => textLoop ν side n names np
  | none => pure []

/-- header with one (`graph`) or two (`bigraph`, dendrograms) blanks before `xmlns` -/
def svgHeader (ν : Nums) (twoBlanks : Bool) : List Attr :=
  [att py!"width" (ν .w 0 0), att py!"height" (ν .h 0 0),
   (if twoBlanks then att2 py!"xmlns" xmlns else att py!"xmlns" xmlns)]

/-- `<svg …>\n` body `</svg>\n` -/
def svgDoc (ν : Nums) (twoBlanks newlines : Bool) (body : List Piece) : List Piece :=
  .otag py!"svg" (svgHeader ν twoBlanks) [] ::
    ((if newlines then [.chr 10] else []) ++ (body ++ (.ctag py!"svg" [] :: (if newlines then [.chr 10] else []))))

def visualizeGraph (ν : Nums) (a : GraphArgs) : Except PyErr Drawing := do
  -- check adjacency
  if ¬ a.hasAdj ∧ ¬ a.hasPos then throw .valueError
  let n := graphN a
  let nodeColors ← getNodeColors ν 0 n a.labels a.scores a.probs.isSome a.nodeColor a.labelColors
  let pos ← finalPos a
  let edges ← graphEdgeParts ν a pos
  let nodes ← graphNodes ν (a.nodeOrder.getD (List.range n)) pos.length a.probs nodeColors
  let text ← namesText ν 0 n a.names a.namePos
  writeFile a.filename (svgDoc ν false true (edges.1.flatMap svgMarker ++ (edges.2 ++ (nodes ++ text))))

/-! ### `visualize_bigraph` -/

structure BigraphArgs where
  nRow : Nat
  nCol : Nat
  entries : List Entry := []
  namesRow : Option (List PyStr) := none
  namesCol : Option (List PyStr) := none
  labelsRow : Option Labels := none
  labelsCol : Option Labels := none
  scoresRow : Option Scores := none
  scoresCol : Option Scores := none
  probsRow : Option Probs := none
  probsCol : Option Probs := none
  colorRow : PyStr := py!"gray"
  colorCol : PyStr := py!"gray"
  labelColors : LabelColors := .none
  displayEdges : Bool := true
  edgeLabels : List (Int × Int × Int) := []
  edgeColor : Option PyStr := some py!"black"
  width : Option Rat := some 400
  height : Option Rat := some 300
  /-- when `position_row` and `position_col` are both given: their total number of rows -/
  posLen : Option Nat := none
  filename : Option PyStr := none
deriving Repr

def nodeLoop (ν : Nums) (side n : Nat) (probs : Option Probs) (colors : List PyStr) : Except PyErr (List Piece) :=
  (List.range n).foldlM (fun out i =>
    match nodeShape ν side i probs colors with
    | .ok s => .ok (out ++ s)
    | .error e => .error e) []

/-- `np.array(list(scores.values()))` : when both sides have scores, a dict loses its keys -/
def dictToArray : Option Scores → Option Scores
  | some (.dict keys) => some (.arr keys.length false)
  | s => s

/-- the entries after `biadjacency.eliminate_zeros()` -/
def bigraphEs (a : BigraphArgs) : List Entry := a.entries.filter fun e => e.2.2 ≠ 0

/-- `for ix in edge_order:` of `visualize_bigraph` -/
def bistoredEdges (ν : Nums) (es : List Entry) (ec : EdgeColors) : Except PyErr (List Piece) :=
  ec.order.foldlM (fun out ix =>
    if ix ≥ es.length then .error PyErr.indexError
    else .ok (out ++ svgEdge (fun t => ν (.edge t) ix 0) (ec.colors.getD ix []))) []

def biresidEdges (ν : Nums) (residual : List (Nat × Nat × PyStr)) : List Piece :=
  (List.range residual.length).flatMap fun k =>
    svgEdge (fun t => ν (.redge t) k 0) (residual.getD k (0, 0, [])).2.2

/-- the `if display_edges:` block of `visualize_bigraph` -/
def bigraphEdges (ν : Nums) (a : BigraphArgs) : Except PyErr (List Piece) :=
  if a.displayEdges then do
    let ec ← getEdgeColors ν.argsort a.nRow a.nCol (bigraphEs a) a.edgeLabels
      (defaultEdgeColor a.edgeColor (a.namesRow.isNone && a.namesCol.isNone)) a.labelColors
    let stored ← bistoredEdges ν (bigraphEs a) ec
    pure (stored ++ biresidEdges ν ec.residual)
  else pure []

def visualizeBigraph (ν : Nums) (a : BigraphArgs) : Except PyErr Drawing := do
  let both := a.scoresRow.isSome && a.scoresCol.isSome
  let scoresRow := if both then dictToArray a.scoresRow else a.scoresRow
  let scoresCol := if both then dictToArray a.scoresCol else a.scoresCol
  let colorsRow ← getNodeColors ν 0 a.nRow a.labelsRow scoresRow a.probsRow.isSome a.colorRow a.labelColors
  let colorsCol ← getNodeColors ν 1 a.nCol a.labelsCol scoresCol a.probsCol.isSome a.colorCol a.labelColors
  if ¬ truthy a.width ∧ ¬ truthy a.height then throw .valueError
  -- `rescale` on the stacked positions (given, or one per node): `np.max` of an empty array
  if a.posLen.getD (a.nRow + a.nCol) = 0 then throw .valueError
  -- `text_length = np.max(np.array([len(str(name)) for name in names]))` of an empty list of names
  if a.namesRow = some [] ∨ a.namesCol = some [] then throw .valueError
  -- `position_row[i]` / `position_col[j]` when fewer positions than nodes were given
  if a.posLen.getD (a.nRow + a.nCol) < a.nRow + a.nCol then throw .indexError
  let edges ← bigraphEdges ν a
  let nodesRow ← nodeLoop ν 0 a.nRow a.probsRow colorsRow
  let nodesCol ← nodeLoop ν 1 a.nCol a.probsCol colorsCol
  let textRow ← namesText ν 0 a.nRow a.namesRow .left
  let textCol ← namesText ν 1 a.nCol a.namesCol .right
  writeFile a.filename (svgDoc ν true true (edges ++ (nodesRow ++ (nodesCol ++ (textRow ++ textCol)))))

/-! ### dendrograms -/

/-- a Python dict with insertion order: `pop` -/
def dpop (d : List (Nat × α)) (k : Nat) : Except PyErr (α × List (Nat × α)) :=
  match d.find? (·.1 = k) with
  | some (_, v) => .ok (v, d.filter (·.1 ≠ k))
  | none => .error .keyError

/-- `d[k] = v` -/
def dset (d : List (Nat × α)) (k : Nat) (v : α) : List (Nat × α) :=
  if d.any (·.1 = k) then d.map fun e => if e.1 = k then (k, v) else e else d ++ [(k, v)]

/-- body of `for t in range(n - 1):` in `get_index` -/
def indexStep (n : Nat) (merges : List (Nat × Nat)) (reorder : Bool) (tree : List (Nat × List Nat)) (t : Nat) :
    Except PyErr (List (Nat × List Nat)) :=
  match dpop tree (merges.getD t (0, 0)).1 with
  | .error e => .error e
  | .ok (left, tree1) =>
    match dpop tree1 (merges.getD t (0, 0)).2 with
    | .error e => .error e
    | .ok (right, tree2) =>
      if reorder ∧ left.length < right.length then .ok (dset tree2 (n + t) (right ++ left))
      else .ok (dset tree2 (n + t) (left ++ right))

/-- `get_index(dendrogram, reorder)` : the order of the leaves; `merges` = the first two columns as ints -/
def getIndex (merges : List (Nat × Nat)) (reorder : Bool) : Except PyErr (List Nat) :=
  let n := merges.length + 1
  match (List.range (n - 1)).foldlM (indexStep n merges reorder) (tab n fun i => (i, [i])) with
  | .error e => .error e
  | .ok tree =>
    match tree with
    | (_, l) :: _ => .ok l
    | [] => .error .indexError

structure DendroArgs where
  /-- `int(dendrogram[t, 0]), int(dendrogram[t, 1])` -/
  merges : List (Nat × Nat)
  /-- `cut_straight(dendrogram, n_clusters, return_dendrogram=False)` (external); `none` = it raised -/
  cutLabels : Option (List Nat)
  names : Option (List PyStr) := none
  rotate : Bool := false
  rotateNames : Bool := true
  color : PyStr := py!"black"
  colors : List PyStr := standardColors
  reorder : Bool := false
  filename : Option PyStr := none
deriving Repr

/-- the three `<path stroke-width="{}" stroke="{}" d="M {} {} {} {}" />` of one merge -/
def dendroPaths (ν : Nums) (t : Nat) (lineColor : PyStr) : List Piece :=
  (List.range 3).map fun k =>
    .etag py!"path"
      [att py!"stroke-width" (ν (.dpath 0) t k), att py!"stroke" (escAttr lineColor),
       att py!"d" (py!"M " ++ (ν (.dpath 1) t k ++ (32 :: (ν (.dpath 2) t k ++ (32 :: (ν (.dpath 3) t k ++
          (32 :: ν (.dpath 4) t k)))))))] [32]

/-- the name of leaf `i`; `top` with `rotate_names` has a `transform` attribute -/
def dendroText (ν : Nums) (i : Nat) (name : PyStr) (rotate rotateNames : Bool) : List Piece :=
  let tag : Piece :=
    if rotate then
      .otag py!"text" [att py!"x" (ν (.dtext 0) i 0), att py!"y" (ν (.dtext 1) i 0),
        att py!"font-size" (ν (.dtext 4) i 0)] []
    else if rotateNames then
      .otag py!"text" [att py!"x" (ν (.dtext 0) i 0), att py!"y" (ν (.dtext 1) i 0),
        att2 py!"transform" (py!"rotate(60, " ++ (ν (.dtext 2) i 0 ++ (py!", " ++ (ν (.dtext 3) i 0 ++ py!")")))),
        att py!"font-size" (ν (.dtext 4) i 0)] []
    else
      .otag py!"text" [att py!"x" (ν (.dtext 0) i 0), att py!"y" (ν (.dtext 1) i 0),
        att2 py!"font-size" (ν (.dtext 4) i 0)] []
  tag :: (escape name ++ [.ctag py!"text" []])

/-- the name loop: `for i in range(n): x, y = position[i]; … names[i]` -/
def dendroNames (ν : Nums) (a : DendroArgs) (index : List Nat) : Except PyErr (List Piece) :=
  match a.names with
  | none => pure []
  | some names =>
    (List.range index.length).foldlM (fun out i =>
      if ¬ index.contains i then .error PyErr.keyError
      else if i ≥ names.length then .error PyErr.indexError
      else .ok (out ++ dendroText ν i (names.getD i []) a.rotate a.rotateNames)) []

structure TreeState where
  out : List Piece
  position : List (Nat × Unit)
  label : List (Nat × Nat)

/-- one merge: pop both children, choose the colour, append three paths, push the new node -/
def dendroStep (ν : Nums) (a : DendroArgs) (n : Nat) (st : TreeState) (t : Nat) : Except PyErr TreeState := do
  if t ≥ a.merges.length then throw PyErr.indexError
  let (i, j) := a.merges.getD t (0, 0)
  let (_, position) ← dpop st.position i
  let (_, position) ← dpop position j
  let (l1, label) ← dpop st.label i
  let (l2, label) ← dpop label j
  let lineColor ← if l1 = l2 then modIndexNp (a.colors.map (npU none)) l1 else pure a.color
  pure ⟨st.out ++ dendroPaths ν t lineColor, dset position (n + t) (), dset label (n + t) l1⟩

/-- the tree loop: `for t in range(n - 1):` -/
def dendroTree (ν : Nums) (a : DendroArgs) (cut : List Nat) (index : List Nat) : Except PyErr (List Piece) := do
  let n := index.length
  let st ← (List.range (n - 1)).foldlM (dendroStep ν a n)
    ⟨[], index.map fun k => (k, ()), tab cut.length fun i => (i, cut.getD i 0)⟩
  pure st.out

/-- `svg_dendrogram_top` / `svg_dendrogram_left` (they differ in the numbers and in the text template) -/
def svgDendrogram (ν : Nums) (a : DendroArgs) : Except PyErr (List Piece) :=
  match a.cutLabels with
  | none => .error .valueError                  -- `cut_straight` raised
  | some cut =>
    match getIndex a.merges a.reorder with
    | .error e => .error e
    | .ok index =>
      if a.merges.isEmpty then .error .indexError       -- `dendrogram[-1, 2]` of a dendrogram without rows
      else
        match dendroNames ν a index with
        | .error e => .error e
        | .ok text =>
          match dendroTree ν a cut index with
          | .error e => .error e
          | .ok paths => .ok (svgDoc ν true false (text ++ paths))

def visualizeDendrogram (ν : Nums) (a : DendroArgs) : Except PyErr Drawing := do
  let svg ← svgDendrogram ν a
  writeFile a.filename svg

end SkNet.Svg
