/-
Kernel IR (property C17): a small deep-embedded imperative language into which
`tools/translate/kernels.py` lowers the bodies of the Cython kernels of /repo (regenerated on
every run into `SkNet/Generated/KernelIR.lean`), its semantics with *checked* array access, and
the index-kind checker `check` whose soundness (`SkNet/Lemmas/Kinds.lean : kinds_sound`) says:
a kernel that passes the checker never reads or writes outside its arrays, on any input that
satisfies the declared shapes, whatever the floating-point comparisons, the container iteration
orders and `rand()` return (they are an arbitrary oracle of the semantics).

Only what matters for "stays within its buffers" is interpreted:
* integer variables and integer arrays (CSR `indptr`/`indices`, label arrays, …) exactly;
* floating-point arrays are *touched* (bounds only); floating comparisons are `Cond.nondet`;
* `std::vector`/`queue`/`set` locals are dynamic arrays (`push`, `pop`, `clear`, `size`); iterating over a
  container (`for x in set`) is "repeat an unknown number of times: `pick` some element".
Variables, arrays, dimension symbols and access sites are numbered by the translator; dimension 0 is
the constant 0 (so `(0, c)` is the numeric bound `c`).
-/
import SkNet.Model.Basic

namespace SkNet.IR

inductive Expr where
  | const (c : Int)
  | var (x : Nat)
  | dim (d : Nat)                        -- value of the dimension symbol `d` (n, nnz, …)
  | size (a : Nat)                       -- current length of a container
  | load (site a : Nat) (i : Expr)       -- a[i] on an integer array
  | add (a b : Expr)
  | sub (a b : Expr)
deriving Repr, Inhabited

inductive Cond where
  | lt (a b : Expr)
  | le (a b : Expr)
  | eq (a b : Expr)
  | ne (a b : Expr)
  | nondet (k : Nat)                     -- a test the IR does not interpret (floats, containers)
  | acc (site a : Nat) (i : Expr) (rest : Cond)   -- touch a[i] (a float load inside a test), then `rest`
  | and (c d : Cond)                     -- short-circuit, as in C and Python
  | or (c d : Cond)
  | not (c : Cond)
deriving Repr, Inhabited

inductive Stmt where
  | skip
  | seq (s t : Stmt)
  | assign (x : Nat) (e : Expr)
  | havoc (x : Nat)                      -- x := a value the IR does not interpret
  | pick (x a : Nat)                     -- x := some element of container a (stops this path if a is empty)
  | store (site a : Nat) (i v : Expr)    -- a[i] = v on an integer array
  | touch (site a : Nat) (i : Expr)      -- read or write of a float array cell: bounds only
  | push (a : Nat) (v : Expr)
  | pop (site a : Nat)                   -- pop_back / pop: removes *some* element; on an empty container an error
  | clear (a : Nat)
  | forRange (x : Nat) (lo hi : Expr) (body : Stmt)   -- `for x in range(lo, hi)`, bounds evaluated once
  | while (c : Cond) (body : Stmt)
  | ite (c : Cond) (s t : Stmt)
  | ret
deriving Repr, Inhabited

/-! ### semantics -/

structure State where
  dims : Nat → Nat
  vars : Nat → Option Int                -- `none`: not assigned yet
  arrs : Nat → List Int
  orc : Nat → Nat → Int                  -- the oracle: every uninterpreted value / test
  tick : Nat

def State.setVar (σ : State) (x : Nat) (v : Int) : State :=
  { σ with vars := fun y => if y = x then some v else σ.vars y }

def State.setArr (σ : State) (a : Nat) (l : List Int) : State :=
  { σ with arrs := fun b => if b = a then l else σ.arrs b }

def State.step (σ : State) : State := { σ with tick := σ.tick + 1 }

inductive Err where
  | oob (site : Nat)                      -- an access outside an array, at this site
  | uninit (x : Nat)                      -- a variable read before any assignment
deriving Repr, DecidableEq

inductive Res where
  | ok (σ : State)
  | done                                  -- `return`, or a path that ended
  | err (e : Err)
  | fuel                                  -- the step budget of the interpreter ran out

/-- `0 ≤ v < length` -/
def inb (v : Int) (l : List Int) : Bool := decide (0 ≤ v) && decide (v < (l.length : Int))

def evalE (σ : State) : Expr → Except Err Int
  | .const c => .ok c
  | .var x => match σ.vars x with
    | some v => .ok v
    | none => .error (.uninit x)
  | .dim d => .ok (σ.dims d : Int)
  | .size a => .ok ((σ.arrs a).length : Int)
  | .load s a i =>
    match evalE σ i with
    | .error e => .error e
    | .ok v => if inb v (σ.arrs a) then .ok ((σ.arrs a).getD v.toNat 0) else .error (.oob s)
  | .add a b =>
    match evalE σ a with
    | .error e => .error e
    | .ok x => match evalE σ b with
      | .error e => .error e
      | .ok y => .ok (x + y)
  | .sub a b =>
    match evalE σ a with
    | .error e => .error e
    | .ok x => match evalE σ b with
      | .error e => .error e
      | .ok y => .ok (x - y)

def cmp2 (σ : State) (a b : Expr) (f : Int → Int → Bool) : Except Err Bool :=
  match evalE σ a with
  | .error e => .error e
  | .ok x => match evalE σ b with
    | .error e => .error e
    | .ok y => .ok (f x y)

def evalC (σ : State) : Cond → Except Err Bool
  | .lt a b => cmp2 σ a b (fun x y => decide (x < y))
  | .le a b => cmp2 σ a b (fun x y => decide (x ≤ y))
  | .eq a b => cmp2 σ a b (fun x y => decide (x = y))
  | .ne a b => cmp2 σ a b (fun x y => decide (x ≠ y))
  | .nondet k => .ok (σ.orc σ.tick k != 0)
  | .acc s a i rest =>
    match evalE σ i with
    | .error e => .error e
    | .ok v => if inb v (σ.arrs a) then evalC σ rest else .error (.oob s)
  | .and c d =>
    match evalC σ c with
    | .error e => .error e
    | .ok false => .ok false
    | .ok true => evalC σ d
  | .or c d =>
    match evalC σ c with
    | .error e => .error e
    | .ok true => .ok true
    | .ok false => evalC σ d
  | .not c =>
    match evalC σ c with
    | .error e => .error e
    | .ok b => .ok (!b)

/-- `k` iterations of a loop body, the loop variable running from `cur` -/
def iter (step : State → Res) (x : Nat) : Nat → Int → State → Res
  | 0, _, σ => .ok σ
  | k+1, cur, σ =>
    match step (σ.setVar x cur) with
    | .ok σ' => iter step x k (cur + 1) σ'
    | r => r

def exec : Nat → Stmt → State → Res
  | 0, _, _ => .fuel
  | f+1, s, σ =>
    match s with
    | .skip => .ok σ
    | .seq s t =>
      match exec f s σ with
      | .ok σ' => exec f t σ'
      | r => r
    | .assign x e =>
      match evalE σ e with
      | .error e => .err e
      | .ok v => .ok (σ.setVar x v)
    | .havoc x => .ok ((σ.setVar x (σ.orc σ.tick 0)).step)
    | .pick x a =>
      match (σ.arrs a)[(σ.orc σ.tick 0).toNat % (σ.arrs a).length]? with
      | none => .done
      | some v => .ok ((σ.setVar x v).step)
    | .store site a i v =>
      match evalE σ i with
      | .error e => .err e
      | .ok iv =>
        match evalE σ v with
        | .error e => .err e
        | .ok vv => if inb iv (σ.arrs a) then .ok (σ.setArr a ((σ.arrs a).set iv.toNat vv)) else .err (.oob site)
    | .touch site a i =>
      match evalE σ i with
      | .error e => .err e
      | .ok iv => if inb iv (σ.arrs a) then .ok σ else .err (.oob site)
    | .push a v =>
      match evalE σ v with
      | .error e => .err e
      | .ok vv => .ok (σ.setArr a (σ.arrs a ++ [vv]))
    | .pop site a =>
      if (σ.arrs a).isEmpty then .err (.oob site)
      else .ok ((σ.setArr a ((σ.arrs a).eraseIdx ((σ.orc σ.tick 0).toNat % (σ.arrs a).length))).step)
    | .clear a => .ok (σ.setArr a [])
    | .forRange x lo hi body =>
      match evalE σ lo with
      | .error e => .err e
      | .ok l =>
        match evalE σ hi with
        | .error e => .err e
        | .ok h => iter (exec f body) x (h - l).toNat l σ
    | .while c body =>
      match evalC σ c with
      | .error e => .err e
      | .ok false => .ok σ.step
      | .ok true =>
        match exec f body σ.step with
        | .ok σ' => exec f (.while c body) σ'
        | r => r
    | .ite c s t =>
      match evalC σ c with
      | .error e => .err e
      | .ok true => exec f s σ.step
      | .ok false => exec f t σ.step
    | .ret => .done

/-! ### index kinds -/

/-- A set of integers `{v | lo ≤ v ∧ v < dims d + c}` (either bound may be absent). -/
structure Kind where
  lo : Option Int
  hi : Option (Nat × Int)
deriving Repr, DecidableEq, Inhabited

def Kind.any : Kind := ⟨none, none⟩
/-- `0 ≤ v < dims d` : a valid index into an array of `dims d` cells -/
def Kind.lt (d : Nat) : Kind := ⟨some 0, some (d, 0)⟩
/-- `0 ≤ v ≤ dims d` -/
def Kind.le (d : Nat) : Kind := ⟨some 0, some (d, 1)⟩
def Kind.nonneg : Kind := ⟨some 0, none⟩

structure ArrInfo where
  size : Option (Nat × Int)     -- `some (d, c)`: a fixed array of at least `dims d + c` cells; `none`: a container
  elem : Kind                   -- what every stored element satisfies
deriving Repr, Inhabited

def ArrInfo.dyn : ArrInfo := ⟨none, Kind.any⟩

structure Env where
  vars : List Kind
  arrs : List ArrInfo
deriving Repr, Inhabited

def Env.var (Γ : Env) (x : Nat) : Kind := Γ.vars.getD x Kind.any
def Env.arr (Γ : Env) (a : Nat) : ArrInfo := Γ.arrs.getD a ArrInfo.dyn

/-- `k1 ⊆ k2` (sufficient condition) -/
def Kind.sub (k1 k2 : Kind) : Bool :=
  (match k2.lo with
   | none => true
   | some b => match k1.lo with
     | some a => decide (b ≤ a)
     | none => false) &&
  (match k2.hi with
   | none => true
   | some (d2, b) => match k1.hi with
     | some (d1, a) => (d1 == d2 || d1 == 0) && decide (a ≤ b)
     | none => false)

def Kind.ofConst (c : Int) : Kind := ⟨some c, some (0, c + 1)⟩

def Kind.addK (k1 k2 : Kind) : Kind :=
  ⟨match k1.lo, k2.lo with
   | some a, some b => some (a + b)
   | _, _ => none,
   match k1.hi, k2.hi with
   | some (d1, c1), some (d2, c2) =>
     if d2 = 0 then some (d1, c1 + c2 - 1) else if d1 = 0 then some (d2, c1 + c2 - 1) else none
   | _, _ => none⟩

def Kind.subK (k1 k2 : Kind) : Kind :=
  ⟨match k1.lo, k2.hi with
   | some a, some (d2, c2) => if d2 = 0 then some (a - c2 + 1) else none
   | _, _ => none,
   match k1.hi, k2.lo with
   | some (d1, c1), some b => some (d1, c1 - b)
   | _, _ => none⟩

def kindOf (Γ : Env) : Expr → Kind
  | .const c => Kind.ofConst c
  | .var x => Γ.var x
  | .dim d => ⟨some 0, some (d, 1)⟩
  | .size _ => Kind.nonneg
  | .load _ a _ => (Γ.arr a).elem
  | .add a b => (kindOf Γ a).addK (kindOf Γ b)
  | .sub a b => (kindOf Γ a).subK (kindOf Γ b)

/-- Known strict upper bounds `x < e` (from loop and branch guards). -/
abbrev Facts := List (Nat × Expr)

def Expr.usesVar (y : Nat) : Expr → Bool
  | .const _ => false
  | .var x => x == y
  | .dim _ => false
  | .size _ => false
  | .load _ _ i => i.usesVar y
  | .add a b => a.usesVar y || b.usesVar y
  | .sub a b => a.usesVar y || b.usesVar y

def Expr.usesArr (b : Nat) : Expr → Bool
  | .const _ => false
  | .var _ => false
  | .dim _ => false
  | .size a => a == b
  | .load _ a i => a == b || i.usesArr b
  | .add x y => x.usesArr b || y.usesArr b
  | .sub x y => x.usesArr b || y.usesArr b

def Facts.killVar (F : Facts) (y : Nat) : Facts := F.filter fun p => !(p.1 == y || p.2.usesVar y)
def Facts.killArr (F : Facts) (a : Nat) : Facts := F.filter fun p => !(p.2.usesArr a)

/-- the kind of an index expression, sharpened by the known facts when it is a plain variable -/
def idxKind (Γ : Env) (F : Facts) (i : Expr) : Kind :=
  let k := kindOf Γ i
  match i with
  | .var x =>
    match k.hi with
    | some _ => k
    | none =>
      match F.find? (fun p => p.1 == x && ((kindOf Γ p.2).hi).isSome) with
      | some p => match (kindOf Γ p.2).hi with
        | some (d, c) => { k with hi := some (d, c - 1) }
        | none => k
      | none => k
  | _ => k

/-- index `i` is provably inside array `a` -/
def idxOk (Γ : Env) (F : Facts) (a : Nat) (i : Expr) : Bool :=
  match (idxKind Γ F i), (Γ.arr a).size with
  | ⟨some l, some (d, c)⟩, some (d', c') => decide (0 ≤ l) && (d == d' || d == 0) && decide (c ≤ c')
  | _, _ => false

/-- every load inside `e` is provably in bounds, or its site is in the exception list `ill` -/
def exprOk (Γ : Env) (ill : List Nat) (F : Facts) : Expr → Bool
  | .const _ => true
  | .var _ => true
  | .dim _ => true
  | .size _ => true
  | .load s a i => exprOk Γ ill F i && (idxOk Γ F a i || ill.contains s)
  | .add a b => exprOk Γ ill F a && exprOk Γ ill F b
  | .sub a b => exprOk Γ ill F a && exprOk Γ ill F b

def condOk (Γ : Env) (ill : List Nat) (F : Facts) : Cond → Bool
  | .lt a b => exprOk Γ ill F a && exprOk Γ ill F b
  | .le a b => exprOk Γ ill F a && exprOk Γ ill F b
  | .eq a b => exprOk Γ ill F a && exprOk Γ ill F b
  | .ne a b => exprOk Γ ill F a && exprOk Γ ill F b
  | .nondet _ => true
  | .acc s a i rest => exprOk Γ ill F i && (idxOk Γ F a i || ill.contains s) && condOk Γ ill F rest
  | .and c d => condOk Γ ill F c && condOk Γ ill F d
  | .or c d => condOk Γ ill F c && condOk Γ ill F d
  | .not c => condOk Γ ill F c

/-- what a test that evaluated to *true* tells -/
def condFacts : Cond → Facts
  | .lt (.var x) e => [(x, e)]
  | .and c d => condFacts c ++ condFacts d
  | _ => []

/-- facts that survive the statement -/
def post (F : Facts) : Stmt → Facts
  | .skip => F
  | .seq s t => post (post F s) t
  | .assign x _ => F.killVar x
  | .havoc x => F.killVar x
  | .pick x _ => F.killVar x
  | .store _ a _ _ => F.killArr a
  | .touch _ _ _ => F
  | .push a _ => F.killArr a
  | .pop _ a => F.killArr a
  | .clear a => F.killArr a
  | .forRange _ _ _ _ => []
  | .while _ _ => []
  | .ite _ _ _ => []
  | .ret => []

/-- the loop variable of `for x in range(lo, hi)` stays in the declared kind of `x` -/
def rangeOk (Γ : Env) (x : Nat) (lo hi : Expr) : Bool :=
  (match (Γ.var x).lo with
   | none => true
   | some b => match (kindOf Γ lo).lo with
     | some a => decide (b ≤ a)
     | none => false) &&
  (match (Γ.var x).hi with
   | none => true
   | some (d2, b) => match (kindOf Γ hi).hi with
     | some (d1, a) => (d1 == d2 || d1 == 0) && decide (a - 1 ≤ b)
     | none => false)

/-- The checker. `ill` lists the access sites whose index check is waived (they are reported, and
    `kinds_sound` says an out-of-bounds access can only happen at one of them). Everything else —
    every other index, every value stored into a kinded array or variable — must be kinded. -/
def check (Γ : Env) (ill : List Nat) : Facts → Stmt → Bool
  | _, .skip => true
  | F, .seq s t => check Γ ill F s && check Γ ill (post F s) t
  | F, .assign x e => exprOk Γ ill F e && (kindOf Γ e).sub (Γ.var x)
  | _, .havoc x => Kind.any.sub (Γ.var x)
  | _, .pick x a => (Γ.arr a).elem.sub (Γ.var x)
  | F, .store s a i v =>
    exprOk Γ ill F i && exprOk Γ ill F v && (idxOk Γ F a i || ill.contains s) &&
      (kindOf Γ v).sub (Γ.arr a).elem
  | F, .touch s a i => exprOk Γ ill F i && (idxOk Γ F a i || ill.contains s)
  | F, .push a v => exprOk Γ ill F v && (Γ.arr a).size.isNone && (kindOf Γ v).sub (Γ.arr a).elem
  | _, .pop s a => (Γ.arr a).size.isNone && ill.contains s
  | _, .clear a => (Γ.arr a).size.isNone
  | F, .forRange x lo hi body =>
    exprOk Γ ill F lo && exprOk Γ ill F hi && rangeOk Γ x lo hi && check Γ ill [] body
  | _, .while c body => condOk Γ ill [] c && check Γ ill (condFacts c) body
  | F, .ite c s t => condOk Γ ill F c && check Γ ill (F ++ condFacts c) s && check Γ ill F t
  | _, .ret => true

/-! ### diagnostics: which sites / obligations fail (no theorem depends on these) -/

def exprIll (Γ : Env) (F : Facts) : Expr → List Nat
  | .load s a i => exprIll Γ F i ++ (if idxOk Γ F a i then [] else [s])
  | .add a b => exprIll Γ F a ++ exprIll Γ F b
  | .sub a b => exprIll Γ F a ++ exprIll Γ F b
  | _ => []

def condIll (Γ : Env) (F : Facts) : Cond → List Nat
  | .lt a b => exprIll Γ F a ++ exprIll Γ F b
  | .le a b => exprIll Γ F a ++ exprIll Γ F b
  | .eq a b => exprIll Γ F a ++ exprIll Γ F b
  | .ne a b => exprIll Γ F a ++ exprIll Γ F b
  | .nondet _ => []
  | .acc s a i rest => exprIll Γ F i ++ (if idxOk Γ F a i then [] else [s]) ++ condIll Γ F rest
  | .and c d => condIll Γ F c ++ condIll Γ F d
  | .or c d => condIll Γ F c ++ condIll Γ F d
  | .not c => condIll Γ F c

/-- the access sites the checker cannot kind -/
def illSites (Γ : Env) : Facts → Stmt → List Nat
  | _, .skip => []
  | F, .seq s t => illSites Γ F s ++ illSites Γ (post F s) t
  | F, .assign _ e => exprIll Γ F e
  | _, .havoc _ => []
  | _, .pick _ _ => []
  | F, .store s a i v => exprIll Γ F i ++ exprIll Γ F v ++ (if idxOk Γ F a i then [] else [s])
  | F, .touch s a i => exprIll Γ F i ++ (if idxOk Γ F a i then [] else [s])
  | F, .push _ v => exprIll Γ F v
  | _, .pop s _ => [s]
  | _, .clear _ => []
  | F, .forRange _ lo hi body => exprIll Γ F lo ++ exprIll Γ F hi ++ illSites Γ [] body
  | _, .while c body => condIll Γ [] c ++ illSites Γ (condFacts c) body
  | F, .ite c s t => condIll Γ F c ++ illSites Γ (F ++ condFacts c) s ++ illSites Γ F t
  | _, .ret => []

/-- value obligations that fail (variable or array whose declared kind is not respected) -/
inductive Problem where
  | assignTo (x : Nat)
  | storeInto (a : Nat)
  | loopVar (x : Nat)
  | container (a : Nat)
deriving Repr, DecidableEq

def problems (Γ : Env) : Stmt → List Problem
  | .skip => []
  | .seq s t => problems Γ s ++ problems Γ t
  | .assign x e => if (kindOf Γ e).sub (Γ.var x) then [] else [.assignTo x]
  | .havoc x => if Kind.any.sub (Γ.var x) then [] else [.assignTo x]
  | .pick x a => if (Γ.arr a).elem.sub (Γ.var x) then [] else [.assignTo x]
  | .store _ a _ v => if (kindOf Γ v).sub (Γ.arr a).elem then [] else [.storeInto a]
  | .touch _ _ _ => []
  | .push a v =>
    (if (Γ.arr a).size.isNone then [] else [.container a]) ++
    (if (kindOf Γ v).sub (Γ.arr a).elem then [] else [.storeInto a])
  | .pop _ a => if (Γ.arr a).size.isNone then [] else [.container a]
  | .clear a => if (Γ.arr a).size.isNone then [] else [.container a]
  | .forRange x lo hi body => (if rangeOk Γ x lo hi then [] else [.loopVar x]) ++ problems Γ body
  | .while _ body => problems Γ body
  | .ite _ s t => problems Γ s ++ problems Γ t
  | .ret => []

/-! ### definite assignment: a kernel accepted by `da` never reads a variable before it is assigned -/

def Expr.reads : Expr → List Nat
  | .const _ => []
  | .var x => [x]
  | .dim _ => []
  | .size _ => []
  | .load _ _ i => i.reads
  | .add a b => a.reads ++ b.reads
  | .sub a b => a.reads ++ b.reads

def Cond.reads : Cond → List Nat
  | .lt a b => a.reads ++ b.reads
  | .le a b => a.reads ++ b.reads
  | .eq a b => a.reads ++ b.reads
  | .ne a b => a.reads ++ b.reads
  | .nondet _ => []
  | .acc _ _ i rest => i.reads ++ rest.reads
  | .and c d => c.reads ++ d.reads
  | .or c d => c.reads ++ d.reads
  | .not c => c.reads

def allIn (l A : List Nat) : Bool := l.all fun x => A.contains x

/-- meet of two sets of assigned variables; `none` = this point is not reached (after `return`) -/
def meetA : Option (List Nat) → Option (List Nat) → Option (List Nat)
  | none, b => b
  | a, none => a
  | some a, some b => some (a.filter fun x => b.contains x)

/-- `(ok, post)`: every variable read in `s` is in the set assigned at that point (starting from `A`), and the
    variables assigned when `s` falls through (`none`: it never does) -/
def da (A : List Nat) : Stmt → Bool × Option (List Nat)
  | .skip => (true, some A)
  | .seq s t =>
    match da A s with
    | (ok, none) => (ok, none)
    | (ok, some B) =>
      let r := da B t
      (ok && r.1, r.2)
  | .assign x e => (allIn e.reads A, some (x :: A))
  | .havoc x => (true, some (x :: A))
  | .pick x _ => (true, some (x :: A))
  | .store _ _ i v => (allIn i.reads A && allIn v.reads A, some A)
  | .touch _ _ i => (allIn i.reads A, some A)
  | .push _ v => (allIn v.reads A, some A)
  | .pop _ _ => (true, some A)
  | .clear _ => (true, some A)
  | .forRange x lo hi body => (allIn lo.reads A && allIn hi.reads A && (da (x :: A) body).1, some A)
  | .while c body => (allIn c.reads A && (da A body).1, some A)
  | .ite c s t =>
    let r1 := da A s
    let r2 := da A t
    (allIn c.reads A && r1.1 && r2.1, meetA r1.2 r2.2)
  | .ret => (true, none)

def notIn (l A : List Nat) : List Nat := l.filter fun x => !A.contains x

/-- the variables that may be read before being assigned (diagnostics of `da`) -/
def daBad (A : List Nat) : Stmt → List Nat
  | .skip => []
  | .seq s t =>
    match da A s with
    | (_, none) => daBad A s
    | (_, some B) => daBad A s ++ daBad B t
  | .assign _ e => notIn e.reads A
  | .havoc _ => []
  | .pick _ _ => []
  | .store _ _ i v => notIn i.reads A ++ notIn v.reads A
  | .touch _ _ i => notIn i.reads A
  | .push _ v => notIn v.reads A
  | .pop _ _ => []
  | .clear _ => []
  | .forRange x lo hi body => notIn lo.reads A ++ notIn hi.reads A ++ daBad (x :: A) body
  | .while c body => notIn c.reads A ++ daBad A body
  | .ite c s t => notIn c.reads A ++ daBad A s ++ daBad A t
  | .ret => []

/-! ### the same semantics with a *step* budget (for running the IR on concrete inputs in the driver; `exec`'s
    fuel bounds the depth, which makes its cost exponential in the fuel on long loops) -/

inductive SRes where
  | ok (σ : State) (steps : Nat)
  | done
  | err (e : Err)
  | out                                   -- the step budget ran out

def execS : Nat → Nat → Stmt → State → SRes
  | 0, _, _, _ => .out
  | _, 0, _, _ => .out
  | f+1, n+1, s, σ =>
    match s with
    | .skip => .ok σ n
    | .seq s t =>
      match execS f (n+1) s σ with
      | .ok σ' m => execS f m t σ'
      | r => r
    | .assign x e =>
      match evalE σ e with
      | .error e => .err e
      | .ok v => .ok (σ.setVar x v) n
    | .havoc x => .ok ((σ.setVar x (σ.orc σ.tick 0)).step) n
    | .pick x a =>
      match (σ.arrs a)[(σ.orc σ.tick 0).toNat % (σ.arrs a).length]? with
      | none => .done
      | some v => .ok ((σ.setVar x v).step) n
    | .store site a i v =>
      match evalE σ i with
      | .error e => .err e
      | .ok iv =>
        match evalE σ v with
        | .error e => .err e
        | .ok vv => if inb iv (σ.arrs a) then .ok (σ.setArr a ((σ.arrs a).set iv.toNat vv)) n else .err (.oob site)
    | .touch site a i =>
      match evalE σ i with
      | .error e => .err e
      | .ok iv => if inb iv (σ.arrs a) then .ok σ n else .err (.oob site)
    | .push a v =>
      match evalE σ v with
      | .error e => .err e
      | .ok vv => .ok (σ.setArr a (σ.arrs a ++ [vv])) n
    | .pop site a =>
      if (σ.arrs a).isEmpty then .err (.oob site)
      else .ok ((σ.setArr a ((σ.arrs a).eraseIdx ((σ.orc σ.tick 0).toNat % (σ.arrs a).length))).step) n
    | .clear a => .ok (σ.setArr a []) n
    | .forRange x lo hi body =>
      match evalE σ lo with
      | .error e => .err e
      | .ok l =>
        match evalE σ hi with
        | .error e => .err e
        | .ok h =>
          -- unrolled as a while loop over a counter kept outside the state
          let rec go (f : Nat) (k : Nat) (cur : Int) (σ : State) (m : Nat) : SRes :=
            match f, k with
            | _, 0 => .ok σ m
            | 0, _ => .out
            | f'+1, k'+1 =>
              match execS f' m body (σ.setVar x cur) with
              | .ok σ' m' => go f' k' (cur + 1) σ' m'
              | r => r
          go f (h - l).toNat l σ n
    | .while c body =>
      match evalC σ c with
      | .error e => .err e
      | .ok false => .ok σ.step n
      | .ok true =>
        match execS f n body σ.step with
        | .ok σ' m => execS f m (.while c body) σ'
        | r => r
    | .ite c s t =>
      match evalC σ c with
      | .error e => .err e
      | .ok true => execS f n s σ.step
      | .ok false => execS f n t σ.step
    | .ret => .done

/-! ### inputs of a kernel: what the Python wrapper hands over -/

structure Inputs where
  dims : List Nat                  -- value of every dimension symbol (`dims[0]` is the constant 0)
  scalars : List (Nat × Int)       -- integer parameters (variable id, value)
  arrs : List (Nat × List Int)     -- arrays (array id, contents; float arrays: only the length matters)
deriving Repr, Inhabited

def Inputs.dim (inp : Inputs) (d : Nat) : Nat := inp.dims.getD d 0

def Inputs.arr (inp : Inputs) (a : Nat) : List Int :=
  match inp.arrs.find? (fun p => p.1 == a) with
  | some p => p.2
  | none => []

/-- the state in which the kernel starts: parameters set, locals unassigned, any oracle -/
def Inputs.state (inp : Inputs) (orc : Nat → Nat → Int) : State :=
  { dims := inp.dim
    vars := fun x => (inp.scalars.find? (fun p => p.1 == x)).map (·.2)
    arrs := inp.arr
    orc := orc
    tick := 0 }

def Kind.memB (dims : Nat → Nat) (k : Kind) (v : Int) : Bool :=
  (match k.lo with
   | none => true
   | some c => decide (c ≤ v)) &&
  (match k.hi with
   | none => true
   | some (d, c) => decide (v < (dims d : Int) + c))

def Inputs.arrOk (Γ : Env) (inp : Inputs) (a : Nat) : Bool :=
  (match (Γ.arr a).size with
   | none => true
   | some (d, c) => decide ((inp.dim d : Int) + c ≤ ((inp.arr a).length : Int))) &&
  (inp.arr a).all (fun v => (Γ.arr a).elem.memB inp.dim v)

/-- the declared shapes and kinds hold of these inputs (decidable form of `Sat` on the initial state) -/
def Inputs.satisfies (Γ : Env) (inp : Inputs) : Bool :=
  inp.dim 0 == 0 &&
  inp.scalars.all (fun p => (Γ.var p.1).memB inp.dim p.2) &&
  (List.range Γ.arrs.length).all (fun a => inp.arrOk Γ a)

/-- which declarations fail (diagnostics) -/
def Inputs.violations (Γ : Env) (inp : Inputs) : List String :=
  (if inp.dim 0 == 0 then [] else ["dim0"]) ++
  (inp.scalars.filter (fun p => !(Γ.var p.1).memB inp.dim p.2)).map (fun p => s!"scalar:{p.1}") ++
  ((List.range Γ.arrs.length).filter (fun a => !inp.arrOk Γ a)).map (fun a => s!"array:{a}")

/-- A translated kernel: its body, the declared kinds (from the wrapper's allocations) and the
    names used in reports. -/
structure Kernel where
  name : String
  env : Env
  body : Stmt
  params : List Nat            -- the variables that have a value on entry (integer parameters, object fields)
  siteNames : List String
  varNames : List String
  arrNames : List String
deriving Repr, Inhabited

def Kernel.ill (K : Kernel) : List Nat := (illSites K.env [] K.body).eraseDups
def Kernel.checkWith (K : Kernel) (ill : List Nat) : Bool := check K.env ill [] K.body
/-- every access of the kernel is kinded -/
def Kernel.wellKinded (K : Kernel) : Bool := check K.env [] [] K.body
/-- no variable is read before it is assigned (given values for `K.params`) -/
def Kernel.assigned (K : Kernel) : Bool := (da K.params K.body).1

end SkNet.IR
