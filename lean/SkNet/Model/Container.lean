/-
Model of the ingestion step every entry point starts with (property C01):
`check_format` = `sparse.csr_matrix(x)` for the accepted containers (utils/check.py), at the level of rows:
a CSR matrix is its list of rows, each row the list of stored (column, value) pairs in storage order —
unsorted column indices and duplicate entries are representable, exactly as in scipy.
scipy's conversions are external code: they are modelled by their result and validated on every run
(`c01.canon` run lines compare the canonical form computed here with scipy's).
Values are rationals: bool entries are 0/1, int and float entries their value ("entries of equal value").
-/
import SkNet.Model.Basic

namespace SkNet.Fmt

abbrev Row := List (Nat × Rat)
abbrev Rows := List Row

def sumR (l : List Rat) : Rat := l.foldr (· + ·) 0

/-- value of column `j` in a stored row: duplicates add (scipy's semantics) -/
def rowEntry (r : Row) (j : Nat) : Rat := sumR ((r.filter fun p => p.1 == j).map (·.2))

inductive Container
  | csr (nCol : Nat) (rows : Rows)                     -- rows[i] = stored (col, val) of row i
  | csc (nRow : Nat) (cols : Rows)                     -- cols[j] = stored (row, val) of column j
  | coo (nRow nCol : Nat) (es : List (Nat × Nat × Rat)) -- (row, col, val), duplicates add
  | lil (nCol : Nat) (rows : Rows)
  | dense (nCol : Nat) (rows : List (List Rat))
deriving Repr

def Container.nRow : Container → Nat
  | .csr _ rows => rows.length
  | .csc nRow _ => nRow
  | .coo nRow _ _ => nRow
  | .lil _ rows => rows.length
  | .dense _ rows => rows.length

def Container.nCol : Container → Nat
  | .csr nCol _ => nCol
  | .csc _ cols => cols.length
  | .coo _ nCol _ => nCol
  | .lil nCol _ => nCol
  | .dense nCol _ => nCol

/-- the matrix a container denotes -/
def denote : Container → Nat → Nat → Rat
  | .csr _ rows, i, j => rowEntry (rows.getD i []) j
  | .csc _ cols, i, j => rowEntry (cols.getD j []) i
  | .coo _ _ es, i, j => sumR ((es.filter fun e => e.1 == i && e.2.1 == j).map (·.2.2))
  | .lil _ rows, i, j => rowEntry (rows.getD i []) j
  | .dense _ rows, i, j => (rows.getD i []).getD j 0

/-- `sparse.csr_matrix(x)`: the rows of the CSR matrix scipy builds.
    CSR input is kept as it is (shared buffers); CSC is transposed column by column (entries of a row come
    out by increasing column); COO is summed and sorted (`coo.tocsr()` sums duplicates); LIL rows are taken
    as they are; a dense array keeps its non-zero entries in row-major order. -/
def toCsrRows : Container → Rows
  | .csr _ rows => rows
  | .csc nRow cols => tab nRow fun i =>
      (List.range cols.length).flatMap fun j =>
        ((cols.getD j []).filter fun p => p.1 == i).map fun p => (j, p.2)
  | .coo nRow nCol es => tab nRow fun i =>
      (List.range nCol).filterMap fun j =>
        let vs := (es.filter fun e => e.1 == i && e.2.1 == j).map (·.2.2)
        if vs.isEmpty then none else some (j, sumR vs)
  | .lil _ rows => rows
  | .dense nCol rows => rows.map fun r =>
      (List.range nCol).filterMap fun j => if r.getD j 0 != 0 then some (j, r.getD j 0) else none

/-- `check_format(x)` as a container again -/
def checkFormat (c : Container) : Container := .csr c.nCol (toCsrRows c)

/-- canonical form of a CSR row list: per row the non-zero entries by increasing column
    (`sum_duplicates(); sort_indices(); eliminate_zeros()`), computed from the denotation alone -/
def canon (nCol : Nat) (rows : Rows) : Rows :=
  rows.map fun r => (List.range nCol).filterMap fun j =>
    if rowEntry r j != 0 then some (j, rowEntry r j) else none

/-- well-formedness: stored indices are inside the shape (what scipy guarantees) -/
def Container.WF : Container → Bool
  | .csr nCol rows => rows.all fun r => r.all fun p => p.1 < nCol
  | .csc nRow cols => cols.all fun r => r.all fun p => p.1 < nRow
  | .coo nRow nCol es => es.all fun e => e.1 < nRow && e.2.1 < nCol
  | .lil nCol rows => rows.all fun r => r.all fun p => p.1 < nCol
  | .dense nCol rows => rows.all fun r => r.length == nCol

end SkNet.Fmt
