/-
Model of the ingestion step every entry point starts with (property C01):
`check_format` = `sparse.csr_matrix(x)` for the accepted containers (utils/check.py), at the level of rows:
a CSR matrix is its list of rows, each row the list of stored (column, value) pairs in storage order —
unsorted column indices and duplicate entries are representable, exactly as in scipy.
scipy's conversions are external code: they are modelled by their result and validated on every run
(`c01.canon` run lines compare the canonical form computed here with scipy's).
Values are rationals: bool entries are 0/1, int and float entries their value ("entries of equal value").
The only conversion that computes with the values is COO -> CSR (duplicates are summed *in the dtype of the
matrix*): `DType` gives that arithmetic — `bool`: or; `int lo hi`: wrap-around in [lo, hi] (int8 = int (-128) 127,
uint8 = int 0 255 ...); `float`: exact addition, which is what float64 / float32 compute as long as every partial sum
is representable (the harness sends small dyadic values) — and the `…D` definitions below are the dtype-aware model;
the definitions without `D` are its `float` instance.
-/
import SkNet.Model.Basic

namespace SkNet.Fmt

abbrev Row := List (Nat × Rat)
abbrev Rows := List Row

def sumR (l : List Rat) : Rat := l.foldr (· + ·) 0

/-- value of column `j` in a stored row: duplicates add (scipy's semantics) -/
def rowEntry (r : Row) (j : Nat) : Rat := sumR ((r.filter fun p => p.1 == j).map (·.2))

inductive Container
  | csr (nCol : Nat) (rows : Rows)                     -- rows[i] = stored (col, val) of row i
  | csc (nRow : Nat) (cols : Rows)                     -- cols[j] = stored (row, val) of column j
  | coo (nRow nCol : Nat) (es : List (Nat × Nat × Rat)) -- (row, col, val), duplicates add
  | lil (nCol : Nat) (rows : Rows)
  | dense (nCol : Nat) (rows : List (List Rat))
deriving Repr

def Container.nRow : Container → Nat
  | .csr _ rows => rows.length
  | .csc nRow _ => nRow
  | .coo nRow _ _ => nRow
  | .lil _ rows => rows.length
  | .dense _ rows => rows.length

def Container.nCol : Container → Nat
  | .csr nCol _ => nCol
  | .csc _ cols => cols.length
  | .coo _ nCol _ => nCol
  | .lil nCol _ => nCol
  | .dense nCol _ => nCol

/-- the matrix a container denotes -/
def denote : Container → Nat → Nat → Rat
  | .csr _ rows, i, j => rowEntry (rows.getD i []) j
  | .csc _ cols, i, j => rowEntry (cols.getD j []) i
  | .coo _ _ es, i, j => sumR ((es.filter fun e => e.1 == i && e.2.1 == j).map (·.2.2))
  | .lil _ rows, i, j => rowEntry (rows.getD i []) j
  | .dense _ rows, i, j => (rows.getD i []).getD j 0

/-- `sparse.csr_matrix(x)`: the rows of the CSR matrix scipy builds.
    CSR input is kept as it is (shared buffers); CSC is transposed column by column (entries of a row come
    out by increasing column); COO is summed and sorted (`coo.tocsr()` sums duplicates); LIL rows are taken
    as they are; a dense array keeps its non-zero entries in row-major order. -/
def toCsrRows : Container → Rows
  | .csr _ rows => rows
  | .csc nRow cols => tab nRow fun i =>
      (List.range cols.length).flatMap fun j =>
        ((cols.getD j []).filter fun p => p.1 == i).map fun p => (j, p.2)
  | .coo nRow nCol es => tab nRow fun i =>
      (List.range nCol).filterMap fun j =>
        let vs := (es.filter fun e => e.1 == i && e.2.1 == j).map (·.2.2)
        if vs.isEmpty then none else some (j, sumR vs)
  | .lil _ rows => rows
  | .dense nCol rows => rows.map fun r =>
      (List.range nCol).filterMap fun j => if r.getD j 0 != 0 then some (j, r.getD j 0) else none

/-- `check_format(x)` as a container again -/
def checkFormat (c : Container) : Container := .csr c.nCol (toCsrRows c)

/-- canonical form of a CSR row list: per row the non-zero entries by increasing column
    (`sum_duplicates(); sort_indices(); eliminate_zeros()`), computed from the denotation alone -/
def canon (nCol : Nat) (rows : Rows) : Rows :=
  rows.map fun r => (List.range nCol).filterMap fun j =>
    if rowEntry r j != 0 then some (j, rowEntry r j) else none

/-- well-formedness: stored indices are inside the shape (what scipy guarantees) -/
def Container.WF : Container → Bool
  | .csr nCol rows => rows.all fun r => r.all fun p => p.1 < nCol
  | .csc nRow cols => cols.all fun r => r.all fun p => p.1 < nRow
  | .coo nRow nCol es => es.all fun e => e.1 < nRow && e.2.1 < nCol
  | .lil nCol rows => rows.all fun r => r.all fun p => p.1 < nCol
  | .dense nCol rows => rows.all fun r => r.length == nCol


/-! ### the arithmetic of the dtype -/

inductive DType
  | float                       -- exact arithmetic (see the header)
  | bool                        -- values 0 / 1, `+` is `or`
  | int (lo hi : Int)           -- integers of [lo, hi], `+` wraps around
deriving Repr, DecidableEq

/-- two's-complement style wrap-around into `[lo, hi]` -/
def wrap (lo hi z : Int) : Int := (z - lo) % (hi - lo + 1) + lo

def DType.add : DType → Rat → Rat → Rat
  | .float, a, b => a + b
  | .bool, a, b => if a != 0 || b != 0 then 1 else 0
  | .int lo hi, a, b => ((wrap lo hi (a.num + b.num) : Int) : Rat)

/-- the values a matrix of that dtype can store -/
def DType.mem : DType → Rat → Prop
  | .float, _ => True
  | .bool, a => a = 0 ∨ a = 1
  | .int lo hi, a => a.den = 1 ∧ lo ≤ a.num ∧ a.num ≤ hi

def int8 : DType := .int (-128) 127
def uint8 : DType := .int 0 255
def int32 : DType := .int (-2147483648) 2147483647
def int64 : DType := .int (-9223372036854775808) 9223372036854775807

/-- sum of a list of stored values in the dtype (scipy adds the duplicates one after the other) -/
def sumD (dt : DType) (l : List Rat) : Rat := l.foldr dt.add 0

/-- the values stored at position `(i, j)`, in storage order -/
def cell : Container → Nat → Nat → List Rat
  | .csr _ rows, i, j => ((rows.getD i []).filter fun p => p.1 == j).map (·.2)
  | .csc _ cols, i, j => ((cols.getD j []).filter fun p => p.1 == i).map (·.2)
  | .coo _ _ es, i, j => (es.filter fun e => e.1 == i && e.2.1 == j).map (·.2.2)
  | .lil _ rows, i, j => ((rows.getD i []).filter fun p => p.1 == j).map (·.2)
  | .dense _ rows, i, j => if (rows.getD i []).getD j 0 != 0 then [(rows.getD i []).getD j 0] else []

/-- the matrix a container of dtype `dt` denotes: duplicates add up in the dtype -/
def denoteD (dt : DType) (c : Container) (i j : Nat) : Rat := sumD dt (cell c i j)

def rowEntryD (dt : DType) (r : Row) (j : Nat) : Rat := sumD dt ((r.filter fun p => p.1 == j).map (·.2))

/-- `sparse.csr_matrix(x)` for a container of dtype `dt`: as `toCsrRows`, the COO duplicates summed in the dtype -/
def toCsrRowsD (dt : DType) : Container → Rows
  | .coo nRow nCol es => tab nRow fun i =>
      (List.range nCol).filterMap fun j =>
        let vs := (es.filter fun e => e.1 == i && e.2.1 == j).map (·.2.2)
        if vs.isEmpty then none else some (j, sumD dt vs)
  | c => toCsrRows c

def checkFormatD (dt : DType) (c : Container) : Container := .csr c.nCol (toCsrRowsD dt c)

/-- number of stored entries (`nnz`) -/
def storedCount (rows : Rows) : Nat := (rows.map List.length).foldl (· + ·) 0

/-- `check_format(x, allow_empty)` with its one refusal inside the accepted container types: a matrix that stores
nothing raises `ValueError('The input matrix is empty.')` unless `allow_empty` (np.matrix, DOK / BSR / DIA, lists …
are refused with TypeError before any conversion: they are not `Container`s). -/
def checkFormatE (dt : DType) (allowEmpty : Bool) (c : Container) : Except Unit Container :=
  if !allowEmpty && storedCount (toCsrRowsD dt c) == 0 then .error () else .ok (checkFormatD dt c)

/-- canonical form in the dtype (`sum_duplicates(); sort_indices(); eliminate_zeros()`), from the denotation -/
def canonD (dt : DType) (nCol : Nat) (rows : Rows) : Rows :=
  rows.map fun r => (List.range nCol).filterMap fun j =>
    if rowEntryD dt r j != 0 then some (j, rowEntryD dt r j) else none

/-! ### what the consumers of a CSR matrix read from its stored arrays (the bridges of the drivers C02, C10, C11, C14) -/

/-- value matrix: stored entries of `(i, j)` added up (`Drive.C11.valMat`, `Drive.C14`) -/
def valOf (rows : Rows) (i j : Nat) : Rat := rowEntry (rows.getD i []) j

/-- edge predicate of the path functions: some stored entry `(i, j)` is non-zero (`Drive.C10.edgeMat`) -/
def edgeOf (rows : Rows) (i j : Nat) : Bool := (rows.getD i []).any fun p => p.1 == j && p.2 != 0

/-- adjacency lists of the Weisfeiler-Lehman kernel: the stored column indices, in storage order (`Csr.rowIdx`) -/
def adjOf (rows : Rows) : List (List Nat) := rows.map fun r => r.map (·.1)

def rowsWF (nCol : Nat) (rows : Rows) : Bool := rows.all fun r => r.all fun p => p.1 < nCol

end SkNet.Fmt
