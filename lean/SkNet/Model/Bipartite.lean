/-
Model of the bipartite plumbing shared by all estimators (property C03):
  utils/format.py  : get_adjacency (the bipartite decision), bipartite2undirected / bipartite2directed
                     (as denotations: the block matrices), get_adjacency_values (with `which`)
  utils/values.py  : get_values, stack_values
  */base.py        : _split_vars (row part = first n_row entries, column part = the rest,
                     unsuffixed output = row output)
Matrices enter as `Nat → Nat → α` (entry functions); vectors as lists.
-/
import SkNet.Model.Basic

namespace SkNet.Bip

inductive PyErr
  | valueError | indexError | typeError
deriving DecidableEq, Repr

def PyErr.show : PyErr → String
  | .valueError => "ValueError" | .indexError => "IndexError" | .typeError => "TypeError"

/-- what a caller may pass as seeds / weights / values -/
inductive Values
  | arr (l : List Rat)             -- np.ndarray or list
  | dict (kv : List (Nat × Rat))   -- dict {node: value}, in insertion order
deriving Repr

/-- `values[keys] = values_`: the last assignment to an index wins -/
def dictLookup (kv : List (Nat × Rat)) (i : Nat) : Option Rat :=
  (kv.reverse.find? (fun p => p.1 == i)).map (·.2)

/-- `get_values(shape, values, default_value)` with `n = shape[0]`. -/
def getValues (n : Nat) (v : Option Values) (dflt : Rat) : Except PyErr (List Rat) :=
  match v with
  | some (.arr l) => if l.length != n then .error .valueError else .ok l
  | some (.dict kv) =>
    if kv.isEmpty then .error .valueError            -- np.min of an empty array
    else if kv.all (fun p => p.1 < n) then .ok (tab n fun i => (dictLookup kv i).getD dflt)
    else .error .indexError
  | none => .ok (tab n fun _ => 1)

/-- `stack_values(shape, values_row, values_col, default_value)` -/
def stackValues (nRow nCol : Nat) (vr vc : Option Values) (dflt : Rat) : Except PyErr (List Rat) := do
  let (vr', vc') : Values × Values :=
    match vr, vc with
    | none, none => (.arr (tab nRow fun _ => 1), .arr (tab nCol fun _ => dflt))
    | none, some c => (.arr (tab nRow fun _ => dflt), c)
    | some r, none => (r, .arr (tab nCol fun _ => dflt))
    | some r, some c => (r, c)
  let r ← getValues nRow (some vr') dflt
  let c ← getValues nCol (some vc') dflt
  pure (r ++ c)

/-- the decision of `get_adjacency`: is the input treated as a biadjacency matrix? -/
def isBipartite (forceBipartite square allowDirected symmetric : Bool) : Bool :=
  forceBipartite || !square || !(allowDirected || symmetric)

/-- `[[0,B],[Bᵀ,0]]`, rows first (denotation of `bipartite2undirected`) -/
def blockUndirected (nRow : Nat) (b : Nat → Nat → Rat) (i j : Nat) : Rat :=
  if i < nRow then (if j < nRow then 0 else b i (j - nRow))
  else (if j < nRow then b j (i - nRow) else 0)

/-- `[[0,B],[0,0]]` (denotation of `bipartite2directed`) -/
def blockDirected (nRow : Nat) (b : Nat → Nat → Rat) (i j : Nat) : Rat :=
  if i < nRow then (if j < nRow then 0 else b i (j - nRow)) else 0

inductive Which | none | probs | labels
deriving DecidableEq, Repr

def sumList (l : List Rat) : Rat := l.foldl (· + ·) 0

/-- post-processing of `get_adjacency_values` selected by `which` -/
def postValues (w : Which) (vals : List Rat) : List Rat :=
  match w with
  | .none => vals
  | .probs => if sumList vals > 0 then vals.map (· / sumList vals) else vals
  | .labels =>
    if ((vals.filter (fun x => decide (0 ≤ x))).eraseDups).length == 1
    then tab vals.length fun i => (i : Rat) else vals

structure AdjValues where
  bipartite : Bool
  nNodes : Nat
  values : List Rat
deriving Repr

/-- `get_adjacency_values(input_matrix, allow_directed, force_bipartite, force_directed, values,
     values_row, values_col, default_value, which)` — the part that decides and builds the vector. -/
def getAdjacencyValues (nRow nCol : Nat) (symmetric allowDirected forceBipartite : Bool)
    (values valuesRow valuesCol : Option Values) (dflt : Rat) (w : Which) : Except PyErr AdjValues := do
  let force := forceBipartite || valuesRow.isSome || valuesCol.isSome
  let bip := isBipartite force (nRow == nCol) allowDirected symmetric
  let vals ←
    if bip then
      (match values with
       | none => stackValues nRow nCol valuesRow valuesCol dflt
       | some v => stackValues nRow nCol (some v) none dflt)
    else getValues nRow values dflt
  pure ⟨bip, if bip then nRow + nCol else nRow, postValues w vals⟩

/-- `_split_vars`: (unsuffixed, row, col) from the vector over all `n_row + n_col` nodes -/
def splitVars (nRow : Nat) (x : List α) : List α × List α × List α :=
  (x.take nRow, x.take nRow, x.drop nRow)

end SkNet.Bip
