/-
Model of the bipartite plumbing shared by all estimators (property C03):
  utils/format.py  : get_adjacency (the bipartite decision), bipartite2undirected / bipartite2directed
                     (as denotations: the block matrices), get_adjacency_values (with `which`)
  utils/values.py  : get_values, stack_values
  */base.py        : _split_vars (row part = first n_row entries, column part = the rest,
                     unsuffixed output = row output)
Matrices enter as `Nat → Nat → α` (entry functions); vectors as lists.
-/
import SkNet.Model.Basic

namespace SkNet.Bip

inductive PyErr
  | valueError | indexError | typeError
deriving DecidableEq, Repr

def PyErr.show : PyErr → String
  | .valueError => "ValueError" | .indexError => "IndexError" | .typeError => "TypeError"

/-- what a caller may pass as seeds / weights / values -/
inductive Values
  | arr (l : List Rat)             -- np.ndarray or list
  | dict (kv : List (Nat × Rat))   -- dict {node: value}, in insertion order
deriving Repr

/-- `values[keys] = values_`: the last assignment to an index wins -/
def dictLookup (kv : List (Nat × Rat)) (i : Nat) : Option Rat :=
  (kv.reverse.find? (fun p => p.1 == i)).map (·.2)

/-- `get_values(shape, values, default_value)` with `n = shape[0]`. -/
def getValues (n : Nat) (v : Option Values) (dflt : Rat) : Except PyErr (List Rat) :=
  match v with
  | some (.arr l) => if l.length != n then .error .valueError else .ok l
  | some (.dict kv) =>
    if kv.isEmpty then .error .valueError            -- np.min of an empty array
    else if kv.all (fun p => p.1 < n) then .ok (tab n fun i => (dictLookup kv i).getD dflt)
    else .error .indexError
  | none => .ok (tab n fun _ => 1)

/-- the row argument of `stack_values` after its `None` defaults: ones when nothing at all is given, the default
    value when only column seeds are given -/
def defaultedRow (nRow : Nat) (vr vc : Option Values) (dflt : Rat) : Values :=
  match vr, vc with
  | none, none => .arr (tab nRow fun _ => 1)
  | none, some _ => .arr (tab nRow fun _ => dflt)
  | some r, _ => r

/-- the column argument of `stack_values` after its `None` default -/
def defaultedCol (nCol : Nat) (vc : Option Values) (dflt : Rat) : Values :=
  match vc with
  | none => .arr (tab nCol fun _ => dflt)
  | some c => c

/-- `stack_values(shape, values_row, values_col, default_value)` -/
def stackValues (nRow nCol : Nat) (vr vc : Option Values) (dflt : Rat) : Except PyErr (List Rat) := do
  let r ← getValues nRow (some (defaultedRow nRow vr vc dflt)) dflt
  let c ← getValues nCol (some (defaultedCol nCol vc dflt)) dflt
  pure (r ++ c)

/-- the decision of `get_adjacency`: is the input treated as a biadjacency matrix? -/
def isBipartite (forceBipartite square allowDirected symmetric : Bool) : Bool :=
  forceBipartite || !square || !(allowDirected || symmetric)

/-- `[[0,B],[Bᵀ,0]]`, rows first (denotation of `bipartite2undirected`) -/
def blockUndirected (nRow : Nat) (b : Nat → Nat → Rat) (i j : Nat) : Rat :=
  if i < nRow then (if j < nRow then 0 else b i (j - nRow))
  else (if j < nRow then b j (i - nRow) else 0)

/-- `[[0,B],[0,0]]` (denotation of `bipartite2directed`) -/
def blockDirected (nRow : Nat) (b : Nat → Nat → Rat) (i j : Nat) : Rat :=
  if i < nRow then (if j < nRow then 0 else b i (j - nRow)) else 0

inductive Which | none | probs | labels
deriving DecidableEq, Repr

def sumList (l : List Rat) : Rat := l.foldl (· + ·) 0

/-- post-processing of `get_adjacency_values` selected by `which` -/
def postValues (w : Which) (vals : List Rat) : List Rat :=
  match w with
  | .none => vals
  | .probs => if sumList vals > 0 then vals.map (· / sumList vals) else vals
  | .labels =>
    if ((vals.filter (fun x => decide (0 ≤ x))).eraseDups).length == 1
    then tab vals.length fun i => (i : Rat) else vals

structure AdjValues where
  bipartite : Bool
  nNodes : Nat
  values : List Rat
deriving Repr

/-- `get_adjacency_values(input_matrix, allow_directed, force_bipartite, force_directed, values,
     values_row, values_col, default_value, which)` — the part that decides and builds the vector. -/
def getAdjacencyValues (nRow nCol : Nat) (symmetric allowDirected forceBipartite : Bool)
    (values valuesRow valuesCol : Option Values) (dflt : Rat) (w : Which) : Except PyErr AdjValues := do
  let force := forceBipartite || valuesRow.isSome || valuesCol.isSome
  let bip := isBipartite force (nRow == nCol) allowDirected symmetric
  let vals ←
    if bip then
      (match values with
       | none => stackValues nRow nCol valuesRow valuesCol dflt
       | some v => stackValues nRow nCol (some v) valuesCol dflt)    -- `values` = alias of `values_row`
    else getValues nRow values dflt
  pure ⟨bip, if bip then nRow + nCol else nRow, postValues w vals⟩

/-- `_split_vars`: (unsuffixed, row, col) from the vector over all `n_row + n_col` nodes
    (ranking, clustering, embedding, regression bases and `RankClassifier`; a matrix is split row-wise,
    i.e. every column as a vector) -/
def splitVars (nRow : Nat) (x : List α) : List α × List α × List α :=
  (x.take nRow, x.take nRow, x.drop nRow)

/-- `BaseClassifier._split_vars`: on a plain graph the row and the column outputs are the whole vector -/
def splitVarsClassifier (bipartite : Bool) (nRow : Nat) (x : List α) : List α × List α × List α :=
  if bipartite then splitVars nRow x else (x, x, x)

/-! ### the block matrices as they are built: `sparse.bmat` on the stored entries -/

def sumQ : List Rat → Rat
  | [] => 0
  | x :: xs => x + sumQ xs

/-- the stored entries of a CSR matrix as COO triples `(row, column, value)`, in storage order
    (unsorted indices, duplicates and explicit zeros are kept) -/
def triples (c : Csr Rat) : List (Nat × Nat × Rat) :=
  (List.range c.nRow).flatMap fun i => (c.row i).map fun p => (i, p.1, p.2)

/-- the matrix a list of COO triples stands for: duplicates are added up (`tocsr`, `toarray`) -/
def denote (t : List (Nat × Nat × Rat)) (i j : Nat) : Rat :=
  sumQ ((t.filter fun e => e.1 == i && e.2.1 == j).map (·.2.2))

/-- `sparse.bmat([[None, B], [B.T, None]])`: the entries of `B` shifted to the right, then those of `Bᵀ`
    shifted down (`bipartite2undirected`; `sort_indices` does not change the denotation) -/
def blockTriples (c : Csr Rat) : List (Nat × Nat × Rat) :=
  (triples c).map (fun e => (e.1, c.nRow + e.2.1, e.2.2)) ++
  (triples c).map (fun e => (c.nRow + e.2.1, e.1, e.2.2))

/-- `sparse.bmat([[None, B], [csr_matrix((n_col, n_row)), None]])` (`bipartite2directed`) -/
def blockDirTriples (c : Csr Rat) : List (Nat × Nat × Rat) :=
  (triples c).map (fun e => (e.1, c.nRow + e.2.1, e.2.2))

/-- `is_symmetric`: `(M - M.T).nnz == 0` on a square matrix -/
def isSymmetric (c : Csr Rat) : Bool :=
  c.nRow == c.nCol && (List.range c.nRow).all fun i => (List.range c.nRow).all fun j =>
    denote (triples c) i j == denote (triples c) j i

structure Adjacency where
  bipartite : Bool
  nNodes : Nat
  entries : List (Nat × Nat × Rat)
deriving Repr

/-- `get_adjacency(input_matrix, allow_directed, force_bipartite, force_directed, allow_empty)` -/
def getAdjacency (c : Csr Rat) (allowDirected forceBipartite forceDirected allowEmpty : Bool) :
    Except PyErr Adjacency :=
  if !allowEmpty && c.indices.size == 0 then .error .valueError      -- check_format
  else
    let bip := isBipartite forceBipartite (c.nRow == c.nCol) allowDirected (isSymmetric c)
    if bip then
      .ok ⟨true, c.nRow + c.nCol, if forceDirected then blockDirTriples c else blockTriples c⟩
    else .ok ⟨false, c.nRow, triples c⟩

/-- dense rendering of a square matrix given by its triples -/
def dense (n : Nat) (t : List (Nat × Nat × Rat)) : List (List Rat) :=
  tab n fun i => tab n fun j => denote t i j

end SkNet.Bip
