/-
Checked-access model of sknetwork/topology/minheap.pyx and core.pyx (property C17).

Same loops as the model of C11 (`SkNet/Model/Topology.lean`: `Heap.swap`, `siftUp`, `insertKey`, `decreaseKey`,
`minHeapify`, `popMin`, `computeCore`), but every `vector`/memoryview access goes through `rd`/`wr`, which
fail with `KErr.oob` outside the *size* of the array — the meaning of `std::vector::operator[]` under
`-D_GLIBCXX_ASSERTIONS` and of a memoryview access under `boundscheck(True)`.

`cinit sized n` is `MinHeap.__cinit__(n)`: `sized = true` is the repaired code (`resize(n)`: `n` cells),
`sized = false` is the code as pinned (`reserve(n)`: capacity only, `size() = 0`, defect F19).
-/
import SkNet.Model.Topology

namespace SkNet.KHeap
open SkNet SkNet.Topology

inductive KErr
  | oob        -- an access outside the size of an array
  | fuel       -- the loop budget of the model ran out
deriving DecidableEq, Repr

def rd (l : List Nat) (i : Nat) : Except KErr Nat :=
  if i < l.length then .ok (l.getD i 0) else .error .oob

def rdI (l : List Int) (i : Nat) : Except KErr Int :=
  if i < l.length then .ok (l.getD i 0) else .error .oob

def wr (l : List Nat) (i v : Nat) : Except KErr (List Nat) :=
  if i < l.length then .ok (l.set i v) else .error .oob

def wrI (l : List Int) (i : Nat) (v : Int) : Except KErr (List Int) :=
  if i < l.length then .ok (l.set i v) else .error .oob

/-- `MinHeap.__cinit__(n)` -/
def cinit (sized : Bool) (n : Nat) : Heap :=
  if sized then Heap.empty n else ⟨[], [], 0⟩

/-- `swap(x, y)` -/
def swap? (h : Heap) (x y : Nat) : Except KErr Heap := do
  let tmp ← rd h.val x
  let vy ← rd h.val y
  let val1 ← wr h.val x vy
  let val2 ← wr val1 y tmp
  let vx' ← rd val2 x
  let pos1 ← wr h.pos vx' x
  let vy' ← rd val2 y
  let pos2 ← wr pos1 vy' y
  pure { h with val := val2, pos := pos2 }

/-- the sift-up loop of `insert_key` / `decrease_key`
    (`while (p >= 0) and (scores[val[p]] > scores[val[i]])`, resp. `while (pos != 0) and …`: for `i = 0` the
    parent is `-1` and neither loop reads anything); the position at least halves at every round: `i + 1`
    rounds are a generous budget -/
def siftUp? (scores : List Int) : Nat → Heap → Nat → Except KErr Heap
  | 0, _, _ => .error .fuel
  | fuel+1, h, i =>
    if i = 0 then pure h
    else do
      let vp ← rd h.val (parent i)
      let sp ← rdI scores vp
      let vi ← rd h.val i
      let si ← rdI scores vi
      if sp > si then do
        let h' ← swap? h i (parent i)
        siftUp? scores fuel h' (parent i)
      else pure h

/-- `insert_key(k, scores)`: `val[size] = k; pos[k] = size; size += 1;` then sift up -/
def insertKey? (h : Heap) (k : Nat) (scores : List Int) : Except KErr Heap := do
  let val1 ← wr h.val h.size k
  let pos1 ← wr h.pos k h.size
  siftUp? scores (h.size + 1) { val := val1, pos := pos1, size := h.size + 1 } h.size

/-- `decrease_key(i, scores)` -/
def decreaseKey? (h : Heap) (i : Nat) (scores : List Int) : Except KErr Heap := do
  let pos ← rd h.pos i
  if pos < h.size then siftUp? scores (pos + 1) h pos else pure h

/-- the choice of `smallest` in `min_heapify`: `(l < size) and (scores[val[l]] < scores[val[i]])` short-circuits -/
def smallest? (scores : List Int) (h : Heap) (i : Nat) : Except KErr Nat := do
  let s1 ←
    if 2 * i + 1 < h.size then do
      let vl ← rd h.val (2 * i + 1)
      let sl ← rdI scores vl
      let vi ← rd h.val i
      let si ← rdI scores vi
      pure (if sl < si then 2 * i + 1 else i)
    else pure i
  if 2 * i + 2 < h.size then do
    let vr ← rd h.val (2 * i + 2)
    let sr ← rdI scores vr
    let vs ← rd h.val s1
    let ss ← rdI scores vs
    pure (if sr < ss then 2 * i + 2 else s1)
  else pure s1

/-- `min_heapify(i, scores)`; the recursion is bounded by the height: `fuel` levels -/
def minHeapify? (scores : List Int) : Nat → Heap → Nat → Except KErr Heap
  | 0, _, _ => .error .fuel
  | fuel+1, h, i => do
    let s ← smallest? scores h i
    if s ≠ i then do
      let h' ← swap? h i s
      minHeapify? scores fuel h' s
    else pure h

/-- `pop_min(scores)` -/
def popMin? (h : Heap) (scores : List Int) : Except KErr (Nat × Heap) :=
  if h.size = 1 then do
    let root ← rd h.val 0
    pure (root, { h with size := 0 })
  else if h.size = 0 then .error .oob        -- `val[size - 1]` with `size = 0`: index -1
  else do
    let root ← rd h.val 0
    let last ← rd h.val (h.size - 1)
    let val1 ← wr h.val 0 last
    let v0 ← rd val1 0
    let pos1 ← wr h.pos v0 0
    let h1 : Heap := { val := val1, pos := pos1, size := h.size - 1 }
    let h2 ← minHeapify? scores (h1.size + 1) h1 0
    pure (root, h2)

/-- the `for k in range(indptr[min_node], indptr[min_node+1])` loop of `compute_core` -/
def relax? (indices : List Nat) : List Nat → Heap × List Int → Except KErr (Heap × List Int)
  | [], hd => pure hd
  | k :: ks, hd => do
    let j ← rd indices k
    let dj ← rdI hd.2 j
    let deg' ← wrI hd.2 j (dj - 1)
    let h' ← decreaseKey? hd.1 j deg'
    relax? indices ks (h', deg')

/-- one round of `while not mh.empty()` -/
def coreStep? (indptr indices : List Nat) (s : CoreState) : Except KErr CoreState := do
  let r ← popMin? s.heap s.degrees
  let dm ← rdI s.degrees r.1
  let coreValue := max s.coreValue dm
  let lo ← rd indptr r.1
  let hi ← rd indptr (r.1 + 1)
  let hd ← relax? indices (rangeFrom lo hi) (r.2, s.degrees)
  let labels ← wrI s.labels r.1 coreValue
  pure { heap := hd.1, degrees := hd.2, labels := labels, coreValue := coreValue }

def coreLoop? (indptr indices : List Nat) : Nat → CoreState → Except KErr CoreState
  | 0, s => if s.heap.size = 0 then pure s else .error .fuel
  | fuel+1, s =>
    if s.heap.size = 0 then pure s
    else do
      let s' ← coreStep? indptr indices s
      coreLoop? indptr indices fuel s'

/-- `for i in range(n): mh.insert_key(i, degrees)` -/
def insertAll? (degrees : List Int) : List Nat → Heap → Except KErr Heap
  | [], h => pure h
  | i :: is, h => do
    let h' ← insertKey? h i degrees
    insertAll? degrees is h'

/-- `compute_core(indptr, indices)` with checked accesses; `n = indptr.shape[0] - 1`, the degrees are computed
    by numpy slicing (`indptr[1:] - indptr[:n]`) -/
def computeCore? (sized : Bool) (indptr indices : List Nat) : Except KErr (List Int) := do
  let n := indptr.length - 1
  let degrees : List Int := tab n fun i => (indptr.getD (i+1) 0 : Int) - (indptr.getD i 0 : Int)
  let heap ← insertAll? degrees (List.range n) (cinit sized n)
  let s ← coreLoop? indptr indices n
    { heap := heap, degrees := degrees, labels := List.replicate n 0, coreValue := 0 }
  pure s.labels

end SkNet.KHeap
