/-
Model of the modularity optimisers (property C06):

* `optimizeCore`      = `sknetwork/clustering/louvain_core.pyx: optimize_core`, statement for statement,
                        including the scratch array `cluster_weights` and its resets and the `std::set`
                        of neighbouring clusters (iterated in increasing order);
* `refineCore`        = `sknetwork/clustering/leiden_core.pyx: optimize_refine_core`; the value of
                        `rand()` at each accepted move is an explicit oracle argument (the optional `seed`
                        argument of the kernel only selects the stream through `srand`);
* `preProcess`        = `Louvain._pre_processing` (shuffle_nodes = False): `get_adjacency` with
                        `force_directed` for Dugué, node weights per modularity kind, `directed2undirected`,
                        normalisation to total weight 1;
* `aggregate`, `aggregateRefine` = `Louvain._aggregate`, `Leiden._aggregate_refine`;
* `louvainFit`, `leidenFit` = the outer loops of `Louvain.fit` / `Leiden.fit` with their three stopping
                        conditions, returning `membership.indices` and the logged `Increase:` figures.

The kernels are generic in the scalar (`Scalar`): `Float32` is what the compiled code computes (the run lines
of the kernels are compared bit for bit), `Rat` is what the theorems are about.  Everything done by
numpy/scipy in float64 (pre-processing, aggregation) is modelled in `Rat`.
-/
import SkNet.Model.Basic
import SkNet.Model.Modularity

namespace SkNet.Modularity

/-- the arithmetic a kernel uses on its `float` variables -/
class Scalar (α : Type) extends Add α, Sub α, Mul α where
  zero : α
  two : α
  lt : α → α → Bool
  le : α → α → Bool

instance : Scalar Rat where
  zero := 0
  two := 2
  lt a b := decide (a < b)
  le a b := decide (a ≤ b)

instance : Scalar Float32 where
  zero := 0
  two := 2
  lt a b := decide (a < b)
  le a b := decide (a ≤ b)

open Scalar

/-! ### `std::set<int_or_long>` : a strictly increasing list -/

def setInsert (x : Nat) : List Nat → List Nat
  | [] => [x]
  | y :: ys => if x < y then x :: y :: ys else if x = y then y :: ys else y :: setInsert x ys

def setErase (x : Nat) (s : List Nat) : List Nat := s.filter (· != x)

/-! ### the read-only arguments of a kernel -/

/-- CSR rows, self loops and node weights as the kernels receive them -/
structure Graph (α : Type) where
  n : Nat
  /-- `[(indices[j], data[j]) for j in range(indptr[i], indptr[i+1])]` -/
  row : Nat → List (Nat × α)
  selfLoop : Nat → α
  outW : Nat → α
  inW : Nat → α

/-- the arrays a kernel mutates -/
structure St (α : Type) where
  labels : List Nat
  outCl : List α
  inCl : List α
  /-- `cluster_weights`: scratch -/
  cw : List α

section kernel
variable {α : Type} [Scalar α]

/-- body of `for j in range(start, end)`: `label_set.insert`, `cluster_weights[label_target] += data[j]` -/
def nbrStep (labels : List Nat) (acc : List α × List Nat) (e : Nat × α) : List α × List Nat :=
  let t := labels.getD e.1 0
  (acc.1.set t (acc.1.getD t zero + e.2), setInsert t acc.2)

def nbrLoop (labels : List Nat) (row : List (Nat × α)) (cw : List α) : List α × List Nat :=
  row.foldl (nbrStep labels) (cw, [])

/-- `delta` : the node leaves its current cluster -/
def leaveDelta (res outW inW self cwOwn inOwn outOwn : α) : α :=
  let delta := two * (cwOwn - self)
  let delta := delta - res * outW * (inOwn - inW)
  delta - res * inW * (outOwn - outW)

/-- `delta_local` : the node joins cluster `label_target` -/
def joinDelta (res outW inW cwT inT outT delta : α) : α :=
  let dl := two * cwT
  let dl := dl - res * outW * inT
  let dl := dl - res * inW * outT
  dl - delta

/-- body of `for label_target in label_set` of `optimize_core`; state = (delta_best, label_best, cluster_weights) -/
def targetStep (res outW inW delta : α) (inCl outCl : List α) (acc : α × Nat × List α) (t : Nat) :
    α × Nat × List α :=
  let dl := joinDelta res outW inW (acc.2.2.getD t zero) (inCl.getD t zero) (outCl.getD t zero) delta
  if lt acc.1 dl then (dl, t, acc.2.2.set t zero) else (acc.1, acc.2.1, acc.2.2.set t zero)

/-- "update weights" of both kernels -/
def moveWeights (outW inW : α) (label target : Nat) (outCl inCl : List α) : List α × List α :=
  let outCl := outCl.set label (outCl.getD label zero - outW)
  let inCl := inCl.set label (inCl.getD label zero - inW)
  let outCl := outCl.set target (outCl.getD target zero + outW)
  let inCl := inCl.set target (inCl.getD target zero + inW)
  (outCl, inCl)

/-- body of `for i in range(n)` of `optimize_core`; the second component is `increase_pass` -/
def nodeStep (g : Graph α) (res : α) (acc : St α × α) (i : Nat) : St α × α :=
  let st := acc.1
  let label := st.labels.getD i 0
  let nb := nbrLoop st.labels (g.row i) st.cw
  let targets := setErase label nb.2
  if targets.isEmpty then
    ({ st with cw := nb.1.set label zero }, acc.2)
  else
    let outW := g.outW i
    let inW := g.inW i
    let delta := leaveDelta res outW inW (g.selfLoop i) (nb.1.getD label zero)
      (st.inCl.getD label zero) (st.outCl.getD label zero)
    let r := targets.foldl (targetStep res outW inW delta st.inCl st.outCl) (zero, label, nb.1)
    if r.2.1 != label then
      let w := moveWeights outW inW label r.2.1 st.outCl st.inCl
      ({ labels := st.labels.set i r.2.1, outCl := w.1, inCl := w.2, cw := r.2.2.set label zero },
       acc.2 + r.1)
    else
      ({ st with cw := r.2.2.set label zero }, acc.2)

/-- one pass `for i in range(n)`; returns the state and `increase_pass` -/
def corePass (g : Graph α) (res : α) (st : St α) : St α × α :=
  (List.range g.n).foldl (nodeStep g res) (st, zero)

/-- the loop `while not stop:` without the bound on the number of passes (`none` = fuel exhausted): the reference
    loop of the termination argument (C17), and what the kernel computes whenever the bound is not reached
    (`coreCapped_of_coreLoop`) -/
def coreLoop (g : Graph α) (res tol : α) : Nat → St α → α → Option (St α × α)
  | 0, _, _ => none
  | fuel+1, st, inc =>
    let p := corePass g res st
    let inc' := inc + p.2
    if le p.2 tol then some (p.1, inc') else coreLoop g res tol fuel p.1 inc'

/-- `optimize_core(labels, indices, indptr, data, out_weights, in_weights, out_cluster_weights,
    in_cluster_weights, cluster_weights, self_loops, resolution, tol_optimization)`: labels and increase -/
def optimizeCore (g : Graph α) (res tol : α) (fuel : Nat) (st : St α) : Option (List Nat × α) :=
  (coreLoop g res tol fuel st zero).map fun r => (r.1.labels, r.2)

/-- `while not stop and n_pass <= n:` — the kernel makes at most `n + 1` passes and then returns what it has
    (first argument: passes still allowed; last: `increase` so far) -/
def coreCapped (g : Graph α) (res tol : α) : Nat → St α → α → St α × α
  | 0, st, inc => (st, inc)
  | passes+1, st, inc =>
    let p := corePass g res st
    let inc' := inc + p.2
    if le p.2 tol then (p.1, inc') else coreCapped g res tol passes p.1 inc'

/-- `optimize_core(...)` as compiled: labels and increase, after at most `n + 1` passes -/
def optimizeCoreCapped (g : Graph α) (res tol : α) (st : St α) : List Nat × α :=
  let r := coreCapped g res tol (g.n + 1) st zero
  (r.1.labels, r.2)

/-! ### reading the compiled arithmetic: the rational value of a `float` -/

/-- the rational number an IEEE binary32 pattern stands for (`0` for infinities and NaN) -/
def f32ToRat (x : Float32) : Rat :=
  let b := x.toBits.toNat
  let neg := b / 2 ^ 31 % 2 == 1
  let e := b / 2 ^ 23 % 256
  let m := b % 2 ^ 23
  let mant : Nat := 2 ^ 23 + m
  let pe : Nat := 2 ^ e
  let p149 : Nat := 2 ^ 149
  let p150 : Nat := 2 ^ 150
  let mag : Rat :=
    if e == 255 then 0
    else if e == 0 then (m : Rat) / (p149 : Rat)
    else (mant : Rat) * (pe : Rat) / (p150 : Rat)
  if neg then -mag else mag

def Graph.mapScalar {β : Type} (f : α → β) (g : Graph α) : Graph β where
  n := g.n
  row i := (g.row i).map fun e => (e.1, f e.2)
  selfLoop i := f (g.selfLoop i)
  outW i := f (g.outW i)
  inW i := f (g.inW i)

def St.mapScalar {β : Type} (f : α → β) (st : St α) : St β where
  labels := st.labels
  outCl := st.outCl.map f
  inCl := st.inCl.map f
  cw := st.cw.map f

/-! ### `optimize_refine_core` -/

/-- the arrays the refinement mutates (`labels` is read only) -/
structure RSt (α : Type) where
  refined : List Nat
  outCl : List α
  inCl : List α
  cw : List α

/-- neighbour loop of the refinement: only neighbours with the node's own label count -/
def rNbrStep (labels refined : List Nat) (label : Nat) (acc : List α × List Nat) (e : Nat × α) :
    List α × List Nat :=
  if labels.getD e.1 0 == label then
    let t := refined.getD e.1 0
    (acc.1.set t (acc.1.getD t zero + e.2), setInsert t acc.2)
  else acc

/-- body of `for label_target in label_set` of the refinement; state = (label_target_set, cluster_weights) -/
def rTargetStep (res outW inW delta : α) (inCl outCl : List α) (acc : List Nat × List α) (t : Nat) :
    List Nat × List α :=
  let dl := joinDelta res outW inW (acc.2.getD t zero) (inCl.getD t zero) (outCl.getD t zero) delta
  if lt zero dl then (setInsert t acc.1, acc.2.set t zero) else (acc.1, acc.2.set t zero)

/-- `k = rand() % size; for t in set: k -= 1; if k == 0: break` — element `k-1`, the last one when `k = 0` -/
def pick (r : Nat) (s : List Nat) : Nat :=
  let k := r % s.length
  if k == 0 then s.getD (s.length - 1) 0 else s.getD (k - 1) 0

/-- body of `for i in range(n)`; state = (arrays, `increase` flag, remaining `rand()` values) -/
def rNodeStep (g : Graph α) (res : α) (labels : List Nat) (acc : RSt α × Bool × List Nat) (i : Nat) :
    RSt α × Bool × List Nat :=
  let st := acc.1
  let label := labels.getD i 0
  let lref := st.refined.getD i 0
  let nb := (g.row i).foldl (rNbrStep labels st.refined label) (st.cw, [])
  let cands := setErase lref nb.2
  if cands.isEmpty then
    ({ st with cw := nb.1.set lref zero }, acc.2)
  else
    let outW := g.outW i
    let inW := g.inW i
    let delta := leaveDelta res outW inW (g.selfLoop i) (nb.1.getD lref zero)
      (st.inCl.getD lref zero) (st.outCl.getD lref zero)
    let r := cands.foldl (rTargetStep res outW inW delta st.inCl st.outCl) ([], nb.1)
    if r.1.isEmpty then
      ({ st with cw := r.2.set lref zero }, acc.2)
    else
      let t := pick (acc.2.2.headD 0) r.1
      let w := moveWeights outW inW lref t st.outCl st.inCl
      ({ refined := st.refined.set i t, outCl := w.1, inCl := w.2, cw := r.2.set lref zero },
       true, acc.2.2.tail)

/-- the loop `while increase:` without the bound on the number of passes (`none` = fuel exhausted): the
    reference loop of the termination argument (C17: it ends by itself in exact arithmetic) -/
def refineLoop (g : Graph α) (res : α) (labels : List Nat) :
    Nat → RSt α → List Nat → Option (RSt α × List Nat)
  | 0, _, _ => none
  | fuel+1, st, rands =>
    let p := (List.range g.n).foldl (rNodeStep g res labels) (st, false, rands)
    if p.2.1 then refineLoop g res labels fuel p.1 p.2.2 else some (p.1, p.2.2)

/-- the bound of `optimize_refine_core` on its passes: `while increase and n_pass < 100:` (/repo 695ec4cc; it was
    `n + 1` before: a run that cycles on float32 noise was quadratic) -/
def refinePasses : Nat := 100

/-- `while increase and n_pass < 100:` — the kernel makes at most `refinePasses` passes and then returns the labels
    it has (the first argument counts the passes still allowed) -/
def refineCapped (g : Graph α) (res : α) (labels : List Nat) :
    Nat → RSt α → List Nat → RSt α × List Nat
  | 0, st, rands => (st, rands)
  | passes+1, st, rands =>
    let p := (List.range g.n).foldl (rNodeStep g res labels) (st, false, rands)
    if p.2.1 then refineCapped g res labels passes p.1 p.2.2 else (p.1, p.2.2)

/-- `optimize_refine_core(...)`: refined labels (and the unused part of the oracle).  The kernel bounds its passes
    itself (`refinePasses`), so it always returns; `_fuel` is no longer consulted (kept for the callers). -/
def refineCore (g : Graph α) (res : α) (labels : List Nat) (_fuel : Nat) (st : RSt α) (rands : List Nat) :
    Option (List Nat × List Nat) :=
  let r := refineCapped g res labels refinePasses st rands
  some (r.1.refined, r.2)

end kernel

/-! ### the Python layer (float64 in the code, ℚ here) -/

inductive Kind | dugue | newman | potts | other
deriving DecidableEq, Repr

/-- one level of the aggregation: CSR rows of the normalised symmetric adjacency and the node weights -/
structure Level where
  n : Nat
  rows : List (List (Nat × Rat))
  outW : List Rat
  inW : List Rat
deriving Repr

/-- `adjacency.diagonal()` -/
def diagOf (row : List (Nat × Rat)) (i : Nat) : Rat :=
  (row.filter (·.1 == i)).foldl (fun a e => a + e.2) 0

def Level.graph (lv : Level) : Graph Rat where
  n := lv.n
  row i := lv.rows.getD i []
  selfLoop i := diagOf (lv.rows.getD i []) i
  outW i := lv.outW.getD i 0
  inW i := lv.inW.getD i 0

/-- `bipartite2directed`: `[[0,B],[0,0]]` -/
def blockDir (nRow : Nat) (B : Nat → Nat → Rat) (i j : Nat) : Rat :=
  if i < nRow then (if j < nRow then 0 else B i (j - nRow)) else 0

/-- the adjacency matrix a modularity kind works on and its size: `get_adjacency(input_matrix,
    force_directed = (kind is Dugué), force_bipartite)` -/
def kindAdj (kind : Kind) (nRow nCol : Nat) (B : Nat → Nat → Rat) (forceBip : Bool) : Nat × (Nat → Nat → Rat) :=
  let bip := forceBip || nRow != nCol
  if bip then (nRow + nCol, if kind == .dugue then blockDir nRow B else blockAdj nRow B) else (nRow, B)

/-- node weights per modularity kind (`out_weights`, `in_weights`) -/
def kindWeights (kind : Kind) (n : Nat) (A : Nat → Nat → Rat) : Except PyErr ((Nat → Rat) × (Nat → Rat)) :=
  match kind with
  | .potts => (match getProbs n .uniform A with
      | .error e => .error e
      | .ok o => .ok (o, o))
  | .newman => (match getProbs n .degree A with
      | .error e => .error e
      | .ok o => .ok (o, o))
  | .dugue => (match getProbs n .degree A with
      | .error e => .error e
      | .ok o => (match getProbs n .degree (fun i j => A j i) with
          | .error e => .error e
          | .ok i => .ok (o, i)))
  | .other => .error .valueError

/-- `A + Aᵀ` -/
def symm (A : Nat → Nat → Rat) (i j : Nat) : Rat := A i j + A j i

/-- `directed2undirected(adjacency)` (scipy's `+=` stores only the non-zero sums) divided by its total, with the
    node weights: the first level -/
def symLevel (n : Nat) (A : Nat → Nat → Rat) (out inn : Nat → Rat) : Level :=
  let total := sumTo n fun i => sumTo n (symm A i)
  { n := n,
    rows := tab n fun i => ((List.range n).filter fun j => symm A i j != 0).map fun j => (j, symm A i j / total),
    outW := tab n out, inW := tab n inn }

/-- `Louvain._pre_processing` after `get_adjacency` (and after the optional shuffle): node weights of the kind,
    symmetrisation, normalisation; `nnz` = number of stored entries of the input (only `check_format` looks at it) -/
def preProcessAdj (kind : Kind) (n : Nat) (A : Nat → Nat → Rat) (nnz : Nat) : Except PyErr Level :=
  if nnz == 0 then .error .valueError                       -- check_format
  else
    match kindWeights kind n A with
    | .error e => .error e
    | .ok w =>
      -- numpy divides the stored sums by `adjacency.data.sum()` without raising; when every sum cancelled nothing
      -- is stored and nothing is divided (the fit then returns the singletons)
      if (sumTo n fun i => sumTo n (symm A i)) == 0 &&
          (List.range n).any (fun i => (List.range n).any fun j => symm A i j != 0) then .error .nonFinite
      else .ok (symLevel n A w.1 w.2)

/-- `Louvain._pre_processing(input_matrix, force_bipartite)` with `shuffle_nodes = False` -/
def preProcess (kind : Kind) (nRow nCol nnz : Nat) (B : Nat → Nat → Rat) (forceBip : Bool) :
    Except PyErr Level :=
  preProcessAdj kind (kindAdj kind nRow nCol B forceBip).1 (kindAdj kind nRow nCol B forceBip).2 nnz

/-- `np.unique(labels, return_inverse=True)[1]` -/
def uniqueInverse (labels : List Nat) : List Nat :=
  let distinct := labels.foldl (fun s x => setInsert x s) []
  labels.map fun x => (distinct.filter (· < x)).length

/-- number of clusters of compact labels: `max + 1` -/
def nLabels (labels : List Nat) : Nat := labels.foldl (fun m x => max m (x + 1)) 0

/-- insert `(col, v)` into a row sorted by column, summing equal columns -/
def rowAdd (col : Nat) (v : Rat) : List (Nat × Rat) → List (Nat × Rat)
  | [] => [(col, v)]
  | (c, x) :: r => if col < c then (col, v) :: (c, x) :: r
                   else if col = c then (c, x + v) :: r else (c, x) :: rowAdd col v r

/-- row `a` of `Mᵀ A M` for the membership matrix of `labels` -/
def aggRow (labels : List Nat) (rows : List (List (Nat × Rat))) (a : Nat) : List (Nat × Rat) :=
  (List.range rows.length).foldl (fun acc i =>
    if labels.getD i 0 == a then
      (rows.getD i []).foldl (fun acc e => rowAdd (labels.getD e.1 0) e.2 acc) acc
    else acc) []

/-- `Mᵀ w` -/
def aggVec (labels : List Nat) (w : List Rat) (a : Nat) : Rat :=
  (List.range w.length).foldl (fun acc i => if labels.getD i 0 == a then acc + w.getD i 0 else acc) 0

/-- `Louvain._aggregate(labels, adjacency, out_weights, in_weights)` for compact `labels`
    (scipy's sparse product stores only the non-zero block sums) -/
def aggregate (labels : List Nat) (lv : Level) : Level :=
  let k := nLabels labels
  { n := k, rows := tab k (fun a => (aggRow labels lv.rows a).filter (·.2 != 0)), outW := tab k (aggVec labels lv.outW),
    inW := tab k (aggVec labels lv.inW) }

/-- singletons: `np.arange(n)` -/
def arange (n : Nat) : List Nat := List.range n

structure FitOut where
  labels : List Nat        -- `membership.indices`
  increases : List Rat     -- the `Increase:` figures of the log, in order
deriving Repr

/-! ### the fits as compiled now: both kernels bound their passes (`n + 1` and `refinePasses`) -/

/-- `Louvain._optimize(labels, ...)`: fresh copies of the weights, zero scratch; the kernel with its own bound on the
    passes (always returns) -/
def louvainOptimizeCapped (lv : Level) (res tolOpt : Rat) (labels : List Nat) : Option (List Nat × Rat) :=
  some (optimizeCoreCapped lv.graph res tolOpt
    { labels := labels, outCl := lv.outW, inCl := lv.inW, cw := tab lv.n fun _ => 0 })

/-- the `while not stop:` loop of `Louvain.fit`; `memb` maps an original node to its current node -/
def louvainLoopCapped (res tolOpt tolAgg : Rat) (nAgg : Int) :
    Nat → Nat → Level → List Nat → List Rat → Option FitOut
  | 0, _, _, _, _ => none
  | fuel+1, count, lv, memb, incs =>
    let count := count + 1
    match louvainOptimizeCapped lv res tolOpt (arange lv.n) with
    | none => none
    | some (labels, inc) =>
      let labels := uniqueInverse labels
      let lv' := aggregate labels lv
      let memb := memb.map fun x => labels.getD x 0
      let stop := lv'.n == 1 || decide (inc ≤ tolAgg) || decide ((count : Int) = nAgg)
      if stop then some { labels := memb, increases := incs ++ [inc] }
      else louvainLoopCapped res tolOpt tolAgg nAgg fuel count lv' memb (incs ++ [inc])

/-- `Louvain.fit` on the adjacency `A` of `n` nodes that `get_adjacency` (and the optional shuffle) produced -/
def louvainFitAdj (kind : Kind) (res tolOpt tolAgg : Rat) (nAgg : Int) (n : Nat) (A : Nat → Nat → Rat) (nnz : Nat) :
    Except PyErr (Option FitOut) :=
  match preProcessAdj kind n A nnz with
  | .error e => .error e
  | .ok lv => .ok (louvainLoopCapped res tolOpt tolAgg nAgg (lv.n + 1) 0 lv (arange lv.n) [])

/-- `Louvain.fit(input_matrix, force_bipartite)` with `shuffle_nodes=False, sort_clusters=False` -/
def louvainFitCapped (kind : Kind) (res tolOpt tolAgg : Rat) (nAgg : Int) (nRow nCol nnz : Nat)
    (B : Nat → Nat → Rat) (forceBip : Bool) : Except PyErr (Option FitOut) :=
  louvainFitAdj kind res tolOpt tolAgg nAgg (kindAdj kind nRow nCol B forceBip).1
    (kindAdj kind nRow nCol B forceBip).2 nnz

/-- `adjacency[index][:, index]`: new node `k` is old node `index[k]` -/
def shuffleAdj (index : List Nat) (A : Nat → Nat → Rat) (a b : Nat) : Rat := A (index.getD a 0) (index.getD b 0)

/-- `labels[reverse]` with `reverse[index] = arange`: old node `v` gets the label of new node `index.idxOf v` -/
def unshuffle (index labels : List Nat) : List Nat := tab index.length fun v => labels.getD (index.idxOf v) 0

/-- `Louvain.fit` with `shuffle_nodes=True, sort_clusters=False`: `index` = the permutation the random state drew -/
def louvainFitShuffled (kind : Kind) (res tolOpt tolAgg : Rat) (nAgg : Int) (nRow nCol nnz : Nat)
    (B : Nat → Nat → Rat) (forceBip : Bool) (index : List Nat) : Except PyErr (Option FitOut) :=
  match louvainFitAdj kind res tolOpt tolAgg nAgg (kindAdj kind nRow nCol B forceBip).1
      (shuffleAdj index (kindAdj kind nRow nCol B forceBip).2) nnz with
  | .error e => .error e
  | .ok none => .ok none
  | .ok (some out) => .ok (some { labels := unshuffle index out.labels, increases := out.increases })

/-! ### Leiden -/

/-- `Leiden._optimize`: cluster weights are `membership.T.dot(weights)` of the incoming labels -/
def leidenOptimize (lv : Level) (res tolOpt : Rat) (labels : List Nat) : Option (List Nat × Rat) :=
  let k := nLabels labels
  some (optimizeCoreCapped lv.graph res tolOpt
    { labels := labels, outCl := tab k (aggVec labels lv.outW), inCl := tab k (aggVec labels lv.inW),
      cw := tab k fun _ => 0 })

/-- `Leiden._optimize_refine(labels, arange, ...)` -/
def leidenRefine (lv : Level) (res : Rat) (fuel : Nat) (labels : List Nat) (rands : List Nat) :
    Option (List Nat × List Nat) :=
  refineCore lv.graph res labels fuel
    { refined := arange lv.n, outCl := lv.outW, inCl := lv.inW, cw := tab lv.n fun _ => 0 } rands

/-- `labels_ = membership_refined.T.tocsr().dot(membership).indices`: for every refined cluster the labels
    of its members, in increasing order (one label when the refinement respects the clusters) -/
def refinedToLabels (labels refined : List Nat) : List Nat :=
  (List.range (nLabels refined)).flatMap fun r =>
    ((List.range labels.length).filter (fun i => refined.getD i 0 == r)).foldl
      (fun s i => setInsert (labels.getD i 0) s) []

/-- `Leiden._aggregate_refine` -/
def aggregateRefine (labels refined : List Nat) (lv : Level) : List Nat × Level :=
  (refinedToLabels labels refined, aggregate refined lv)

/-- the `while not stop:` loop of `Leiden.fit` (first argument: rounds the model allows, `none` when exhausted —
    the code has no such limit) -/
def leidenLoop (res tolOpt tolAgg : Rat) (nAgg : Int) :
    Nat → Nat → Level → List Nat → List Nat → List Rat → List (List Nat) → Option FitOut
  | 0, _, _, _, _, _, _ => none
  | fuel+1, count, lv, labels, memb, incs, rands =>
    let count := count + 1
    match leidenOptimize lv res tolOpt labels with
    | none => none
    | some (labels, inc) =>
      let labels := uniqueInverse labels
      match leidenRefine lv res 0 labels (rands.headD []) with
      | none => none
      | some (refined, _) =>
        let refined := uniqueInverse refined
        let ar := aggregateRefine labels refined lv
        -- `stop |= n == n_previous`: a round whose refinement merges nothing ends the loop
        let stop := ar.2.n == 1 || ar.2.n == lv.n || decide (inc ≤ tolAgg) || decide ((count : Int) = nAgg)
        if stop then
          some { labels := memb.map fun x => labels.getD x 0, increases := incs ++ [inc] }
        else
          leidenLoop res tolOpt tolAgg nAgg fuel count ar.2 ar.1
            (memb.map fun x => refined.getD x 0) (incs ++ [inc]) rands.tail

/-- `Leiden.fit`, same conventions as `louvainFitCapped`; `rands` = for every aggregation the successive values of
    `rand()` inside `optimize_refine_core` (which `Leiden.fit` re-seeds at every aggregation); `outerFuel` = number of
    aggregations the model allows (`.ok none` beyond it; no bound in terms of `n` is known for Leiden's outer loop) -/
def leidenFit (kind : Kind) (res tolOpt tolAgg : Rat) (nAgg : Int) (nRow nCol nnz : Nat)
    (B : Nat → Nat → Rat) (forceBip : Bool) (outerFuel : Nat) (rands : List (List Nat)) :
    Except PyErr (Option FitOut) :=
  match preProcess kind nRow nCol nnz B forceBip with
  | .error e => .error e
  | .ok lv =>
    .ok (leidenLoop res tolOpt tolAgg nAgg outerFuel 0 lv (arange lv.n) (arange lv.n) [] rands)

/-! ### the fits with the kernels in binary32

What the compiled code does and the exact models above do not: `_optimize` / `_optimize_refine` cast the arrays of the
level (`astype(np.float32)`, here `cast`) and the kernels compute in binary32 — `optimizeCoreCapped` / `refineCapped` at
`Float32`, the very functions the `c06.core` / `c06.refine` lines compare bit for bit with the compiled kernels.  The
float64 layer (normalisation, `_aggregate`, the comparison with `tol_aggregation`) stays in ℚ.  These models are the
subject of the statements `…_float32_full` of `Properties/C06.lean`; nothing is proved of them. -/

/-- `Louvain._optimize` with the kernel in binary32; the increase comes back as a Python float -/
def louvainOptimizeF32 (cast : Rat → Float32) (lv : Level) (res tolOpt : Rat) (labels : List Nat) : List Nat × Rat :=
  let r := optimizeCoreCapped (lv.graph.mapScalar cast) (cast res) (cast tolOpt)
    { labels := labels, outCl := lv.outW.map cast, inCl := lv.inW.map cast, cw := tab lv.n fun _ => Scalar.zero }
  (r.1, f32ToRat r.2)

def louvainLoopF32 (cast : Rat → Float32) (res tolOpt tolAgg : Rat) (nAgg : Int) :
    Nat → Nat → Level → List Nat → List Rat → Option FitOut
  | 0, _, _, _, _ => none
  | fuel+1, count, lv, memb, incs =>
    let count := count + 1
    let (labels, inc) := louvainOptimizeF32 cast lv res tolOpt (arange lv.n)
    let labels := uniqueInverse labels
    let lv' := aggregate labels lv
    let memb := memb.map fun x => labels.getD x 0
    let stop := lv'.n == 1 || decide (inc ≤ tolAgg) || decide ((count : Int) = nAgg)
    if stop then some { labels := memb, increases := incs ++ [inc] }
    else louvainLoopF32 cast res tolOpt tolAgg nAgg fuel count lv' memb (incs ++ [inc])

/-- `Louvain.fit` (`shuffle_nodes=False, sort_clusters=False`) with the kernel in binary32 -/
def louvainFitF32 (cast : Rat → Float32) (kind : Kind) (res tolOpt tolAgg : Rat) (nAgg : Int) (nRow nCol nnz : Nat)
    (B : Nat → Nat → Rat) (forceBip : Bool) : Except PyErr (Option FitOut) :=
  match preProcess kind nRow nCol nnz B forceBip with
  | .error e => .error e
  | .ok lv => .ok (louvainLoopF32 cast res tolOpt tolAgg nAgg (lv.n + 1) 0 lv (arange lv.n) [])

/-- `membership.T.dot(weights)` on float32 weights: scipy's `csc_matvec` adds the nodes in increasing order, in binary32 -/
def aggVecF32 (labels : List Nat) (w : List Float32) (k : Nat) : List Float32 :=
  (List.range labels.length).foldl
    (fun acc u => acc.set (labels.getD u 0) (acc.getD (labels.getD u 0) Scalar.zero + w.getD u Scalar.zero))
    (tab k fun _ => Scalar.zero)

/-- `Leiden._optimize` with the kernel in binary32: the cluster weights of the carried labels are float32 sums -/
def leidenOptimizeF32 (cast : Rat → Float32) (lv : Level) (res tolOpt : Rat) (labels : List Nat) : List Nat × Rat :=
  let k := nLabels labels
  let r := optimizeCoreCapped (lv.graph.mapScalar cast) (cast res) (cast tolOpt)
    { labels := labels, outCl := aggVecF32 labels (lv.outW.map cast) k, inCl := aggVecF32 labels (lv.inW.map cast) k,
      cw := tab k fun _ => Scalar.zero }
  (r.1, f32ToRat r.2)

/-- `Leiden._optimize_refine(labels, arange, ...)` with the kernel in binary32 -/
def leidenRefineF32 (cast : Rat → Float32) (lv : Level) (res : Rat) (labels : List Nat) (rands : List Nat) :
    List Nat :=
  (refineCapped (lv.graph.mapScalar cast) (cast res) labels refinePasses
    { refined := arange lv.n, outCl := lv.outW.map cast, inCl := lv.inW.map cast, cw := tab lv.n fun _ => Scalar.zero }
    rands).1.refined

def leidenLoopF32 (cast : Rat → Float32) (res tolOpt tolAgg : Rat) (nAgg : Int) :
    Nat → Nat → Level → List Nat → List Nat → List Rat → List (List Nat) → Option FitOut
  | 0, _, _, _, _, _, _ => none
  | fuel+1, count, lv, labels, memb, incs, rands =>
    let count := count + 1
    let (labels, inc) := leidenOptimizeF32 cast lv res tolOpt labels
    let labels := uniqueInverse labels
    let refined := uniqueInverse (leidenRefineF32 cast lv res labels (rands.headD []))
    let ar := aggregateRefine labels refined lv
    let stop := ar.2.n == 1 || ar.2.n == lv.n || decide (inc ≤ tolAgg) || decide ((count : Int) = nAgg)
    if stop then
      some { labels := memb.map fun x => labels.getD x 0, increases := incs ++ [inc] }
    else
      leidenLoopF32 cast res tolOpt tolAgg nAgg fuel count ar.2 ar.1
        (memb.map fun x => refined.getD x 0) (incs ++ [inc]) rands.tail

/-- `Leiden.fit` (`shuffle_nodes=False, sort_clusters=False`) with both kernels in binary32 -/
def leidenFitF32 (cast : Rat → Float32) (kind : Kind) (res tolOpt tolAgg : Rat) (nAgg : Int) (nRow nCol nnz : Nat)
    (B : Nat → Nat → Rat) (forceBip : Bool) (rands : List (List Nat)) : Except PyErr (Option FitOut) :=
  match preProcess kind nRow nCol nnz B forceBip with
  | .error e => .error e
  | .ok lv =>
    .ok (leidenLoopF32 cast res tolOpt tolAgg nAgg (lv.n + 1) 0 lv (arange lv.n) (arange lv.n) [] rands)

end SkNet.Modularity
