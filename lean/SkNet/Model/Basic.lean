/-
Shared, import-free vocabulary of the models: tabulated lists, CSR matrices, the line protocol.

Line protocol (tools/vlib/leanio.py is the Python side):
  one request per line:   <cmd> <tok> <tok> ...
  tokens are blank-free;  lists are comma separated (`-` is the empty list), nested lists use `;`
  rationals are `p/q` or `p`; booleans `0`/`1`; an absent optional is `_`.
  one answer per line.
-/

namespace SkNet

/-- `tab n f = [f 0, …, f (n-1)]` : the shape every "new array" of the models takes. -/
def tab (n : Nat) (f : Nat → α) : List α := (List.range n).map f

@[simp] theorem tab_length (n : Nat) (f : Nat → α) : (tab n f).length = n := by
  simp [tab]

theorem tab_getElem? (n : Nat) (f : Nat → α) (i : Nat) :
    (tab n f)[i]? = if i < n then some (f i) else none := by
  unfold tab
  by_cases h : i < n
  · simp [h]
  · simp [h]

@[simp] theorem tab_getD (n : Nat) (f : Nat → α) (i : Nat) (d : α) :
    (tab n f).getD i d = if i < n then f i else d := by
  rw [List.getD_eq_getElem?_getD, tab_getElem?]
  by_cases h : i < n <;> simp [h]

/-- CSR matrix, as scipy stores it. -/
structure Csr (α : Type) where
  nRow : Nat
  nCol : Nat
  indptr : Array Nat
  indices : Array Nat
  data : Array α
deriving Repr

namespace Csr

/-- What scipy guarantees of a constructed CSR matrix. -/
def WF (c : Csr α) : Bool :=
  c.indptr.size == c.nRow + 1 &&
  c.indptr.getD 0 1 == 0 &&
  c.indptr.getD c.nRow 0 == c.indices.size &&
  c.indices.size == c.data.size &&
  (List.range c.nRow).all (fun i => c.indptr.getD i 0 ≤ c.indptr.getD (i+1) 0) &&
  c.indices.all (· < c.nCol)

/-- positions of the stored entries of row `i` -/
def rowRange (c : Csr α) (i : Nat) : List Nat :=
  let lo := c.indptr.getD i 0
  let hi := c.indptr.getD (i+1) 0
  (List.range (hi - lo)).map (· + lo)

/-- stored (column, value) pairs of row `i`, in storage order -/
def row [Inhabited α] (c : Csr α) (i : Nat) : List (Nat × α) :=
  (c.rowRange i).map fun p => (c.indices.getD p 0, c.data.getD p default)

/-- column indices of row `i`, in storage order -/
def rowIdx (c : Csr α) (i : Nat) : List Nat :=
  (c.rowRange i).map fun p => c.indices.getD p 0

end Csr

/-! ### protocol parsing -/
namespace Proto

def splitTok (s : String) : List String :=
  (s.splitOn " ").filter (· ≠ "")

def natList? (s : String) : Option (List Nat) :=
  if s == "-" then some [] else (s.splitOn ",").mapM String.toNat?

def intList? (s : String) : Option (List Int) :=
  if s == "-" then some [] else (s.splitOn ",").mapM String.toInt?

def natListList? (s : String) : Option (List (List Nat)) :=
  if s == "-" then some [] else (s.splitOn ";").mapM natList?

def intListList? (s : String) : Option (List (List Int)) :=
  if s == "-" then some [] else (s.splitOn ";").mapM intList?

def bool? (s : String) : Option Bool :=
  if s == "1" then some true else if s == "0" then some false else none

def rat? (s : String) : Option Rat :=
  match s.splitOn "/" with
  | [p] => p.toInt?.map (fun z => (z : Rat))
  | [p, q] => do
      let a ← p.toInt?
      let b ← q.toNat?
      if b == 0 then none else some ((a : Rat) / (b : Rat))
  | _ => none

def ratList? (s : String) : Option (List Rat) :=
  if s == "-" then some [] else (s.splitOn ",").mapM rat?

def ratListList? (s : String) : Option (List (List Rat)) :=
  if s == "-" then some [] else (s.splitOn ";").mapM ratList?

def optNat? (s : String) : Option (Option Nat) :=
  if s == "_" then some none else s.toNat?.map some

def showList [ToString α] (l : List α) : String :=
  if l.isEmpty then "-" else ",".intercalate (l.map toString)

def showListList [ToString α] (l : List (List α)) : String :=
  if l.isEmpty then "-" else ";".intercalate (l.map showList)

def showBool (b : Bool) : String := if b then "1" else "0"

def showRat (r : Rat) : String :=
  if r.den == 1 then toString r.num else s!"{r.num}/{r.den}"

def showRatList (l : List Rat) : String :=
  if l.isEmpty then "-" else ",".intercalate (l.map showRat)

/-- `csr n m indptr indices` with unit data (structure only) -/
def csrPattern? (n m ip ix : String) : Option (Csr Unit) := do
  let n ← n.toNat?
  let m ← m.toNat?
  let ip ← natList? ip
  let ix ← natList? ix
  some { nRow := n, nCol := m, indptr := ip.toArray, indices := ix.toArray,
         data := Array.replicate ix.length () }

def csrRat? (n m ip ix dt : String) : Option (Csr Rat) := do
  let n ← n.toNat?
  let m ← m.toNat?
  let ip ← natList? ip
  let ix ← natList? ix
  let dt ← ratList? dt
  some { nRow := n, nCol := m, indptr := ip.toArray, indices := ix.toArray, data := dt.toArray }

end Proto

/-- A request handler: command name and tokens to an answer, `none` if the command is not ours. -/
abbrev Handler := String → List String → Option String

end SkNet
