/-
Shared model of dendrograms (properties C07, C08).

A dendrogram is the list of its rows `[i, j, height, size]` (numpy array of shape (n-1, 4)); node ids
`0 … n-1` are the leaves, row `t` creates node `n + t`.  Heights live in any type with a decidable `<`
(the runs use `Ht` = rationals with `+inf`, the theorems any linear order).

Python dicts are association lists in insertion order (`Dict`): `get?` / `erase` (= `pop`, `del`) /
`set` (`d[k] = v`: in place when the key exists, appended otherwise) — the order of `dict.values()`
matters in `get_labels`.

`reorderDendrogram` mirrors `postprocess.reorder_dendrogram` (`np.lexsort` on (height, max child) is a
stable sort: insertion sort on the lexicographic key).
-/
import SkNet.Model.Basic

namespace SkNet.Dendro

inductive PyErr
  | valueError | indexError | typeError | keyError | zeroDivision
deriving DecidableEq, Repr

def PyErr.show : PyErr → String
  | .valueError => "ValueError" | .indexError => "IndexError" | .typeError => "TypeError"
  | .keyError => "KeyError" | .zeroDivision => "ZeroDivisionError"

/-- heights of the runs: a rational or `+inf` (Paris joins connected components at infinite height) -/
inductive Ht
  | fin (q : Rat)
  | inf
deriving DecidableEq, Repr

namespace Ht
def lt : Ht → Ht → Prop
  | .fin x, .fin y => x < y
  | .fin _, .inf => True
  | .inf, _ => False
instance : LT Ht := ⟨lt⟩
instance : DecidableLT Ht := fun a b =>
  match a, b with
  | .fin x, .fin y => inferInstanceAs (Decidable (x < y))
  | .fin _, .inf => isTrue trivial
  | .inf, _ => isFalse (fun h => by cases h)
end Ht

/-- one row `[i, j, height, size]` -/
structure Row (α : Type) where
  i : Nat
  j : Nat
  h : α
  s : Nat
deriving DecidableEq, Repr

abbrev Dendro (α : Type) := List (Row α)

/-! ### Python dicts with integer keys -/

abbrev Dict (β : Type) := List (Nat × β)

namespace Dict
variable {β : Type}

def get? : Dict β → Nat → Option β
  | [], _ => none
  | (k', v) :: r, k => if k' = k then some v else get? r k

def contains (d : Dict β) (k : Nat) : Bool := (get? d k).isSome

/-- `del d[k]` / the removal part of `d.pop(k)` -/
def erase (d : Dict β) (k : Nat) : Dict β := d.filter (fun p => p.1 != k)

/-- `d[k] = v` -/
def set : Dict β → Nat → β → Dict β
  | [], k, v => [(k, v)]
  | (k', v') :: r, k, v => if k' = k then (k, v) :: r else (k', v') :: set r k v

def keys (d : Dict β) : List Nat := d.map (·.1)
def values (d : Dict β) : List β := d.map (·.2)

end Dict

/-! ### the leaves below a node (specification side, used by models and specs alike) -/

/-- `leafTable D tbl` extends the table `tbl` row by row; `leafTable0 n D` lists, for every node `0 … n-1+|D|`, the leaves below it:
    `[x]` for a leaf, `leaves i ++ leaves j` for the node created by row `[i, j, …]`. -/
def leafTable : List (Row α) → List (List Nat) → List (List Nat)
  | [], tbl => tbl
  | r :: rs, tbl => leafTable rs (tbl ++ [tbl.getD r.i [] ++ tbl.getD r.j []])

def leafTable0 (n : Nat) (D : Dendro α) : List (List Nat) :=
  leafTable D (tab n fun x => [x])

/-- leaves below node `x` of the dendrogram `D` over `n` leaves -/
def leaves (n : Nat) (D : Dendro α) (x : Nat) : List Nat := (leafTable0 n D).getD x []

/-! ### `reorder_dendrogram` -/

section reorder
variable {α : Type} [LT α] [DecidableLT α]

/-- lexicographic key of `np.lexsort((max child, height))`: height first, then the larger child -/
def keyLt (a b : Row α) : Bool :=
  decide (a.h < b.h) || (!decide (b.h < a.h) && decide (max a.i a.j < max b.i b.j))

/-- stable insertion of an earlier row number `t` into the sorted list of the later ones: after the elements that
    are strictly smaller, before every element that is not (equal keys keep the order of the row numbers, as
    `np.lexsort` does) -/
def insertIdx (D : Dendro α) (t : Nat) : List Nat → List Nat
  | [] => [t]
  | u :: us =>
    match D[t]?, D[u]? with
    | some rt, some ru => if keyLt ru rt then u :: insertIdx D t us else t :: u :: us
    | _, _ => t :: u :: us

/-- `index = np.lexsort(order)`: row numbers in sorted order (stable) -/
def lexsortIdx (D : Dendro α) : List Nat :=
  (List.range D.length).foldr (fun t acc => insertIdx D t acc) []

/-- position of `t` in `index` -/
def posOf (index : List Nat) (t : Nat) : Nat := index.idxOf t

/-- `reorder_dendrogram`: rows permuted by `index`, children `>= n` renamed to the new row number.
    A child outside `0 … 2n-2` is numpy's IndexError. -/
def reorderDendrogram (D : Dendro α) : Except PyErr (Dendro α) :=
  let n := D.length + 1
  let index := lexsortIdx D
  -- index_new[n + index[k]] = n + k
  let indexNew : Nat → Nat := fun x => if x < n then x else n + posOf index (x - n)
  if D.all (fun r => r.i < 2 * n - 1 && r.j < 2 * n - 1) then
    .ok (index.filterMap fun t => (D[t]?).map fun r => { r with i := indexNew r.i, j := indexNew r.j })
  else .error .indexError

/-- `np.all(height[:-1] <= height[1:])` -/
def heightsSorted (D : Dendro α) : Bool :=
  (D.zip (D.drop 1)).all fun (a, b) => !decide (b.h < a.h)

end reorder

end SkNet.Dendro
