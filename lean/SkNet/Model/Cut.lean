/-
Model of sknetwork/hierarchy/postprocess.py: cut_straight, cut_balanced, get_labels, aggregate_dendrogram
(property C08).  Mirrors the code loop for loop:

* `mergeLoop`     : `for t in range(n-1): if <cond> and i in cluster and j in cluster:
                        cluster[n+t] = cluster.pop(i) + cluster.pop(j)`          (both cuts)
* `getLabels`     : the optional `np.argsort(-sizes)` (a parameter: any sorting permutation; the runs use the
                    stable one), `labels[nodes] = label`, and the reduced dendrogram built with the dicts
                    `cluster_index` / `cluster_size`
* `cutStraight`   : reordering when `return_dendrogram`, defaults of `n_clusters`, `check_n_clusters`,
                    `cut = np.sort(heights)[n - n_clusters]`, `max(cut, threshold)`
* `cutBalanced`   : the ValueError on `max_cluster_size`, the size-capped merge
* `aggregateDendrogram` : suffix, `sorted(set(children))`, re-indexing, counts
Where the code raises the model returns the exception class.
-/
import SkNet.Model.Dendro

namespace SkNet.Cut
open SkNet SkNet.Dendro

/-! ### the cluster dict and the merge loop -/

/-- `cluster = {i: [i] for i in range(n)}` -/
def initCluster (n : Nat) : Dict (List Nat) := (List.range n).map fun i => (i, [i])

/-- `for t in range(n-1)` from step `t` on; `ok row ci cj` is the cut's own condition.
    `cluster.pop(i) + cluster.pop(j)` with `i == j` is a KeyError on the second pop. -/
def mergeLoop (n : Nat) (ok : Row α → List Nat → List Nat → Bool) :
    Nat → List (Row α) → Dict (List Nat) → Except PyErr (Dict (List Nat))
  | _, [], st => .ok st
  | t, r :: rs, st =>
    match st.get? r.i, st.get? r.j with
    | some ci, some cj =>
      if ok r ci cj then
        if r.i = r.j then .error .keyError
        else mergeLoop n ok (t + 1) rs (((st.erase r.i).erase r.j).set (n + t) (ci ++ cj))
      else mergeLoop n ok (t + 1) rs st
    | _, _ => mergeLoop n ok (t + 1) rs st

/-! ### `get_labels` -/

/-- `labels[nodes] = label` (fancy-index assignment); an index `>= n` is an IndexError -/
def assign (labels : List Nat) (nodes : List Nat) (label : Nat) : Except PyErr (List Nat) :=
  if nodes.all (· < labels.length) then .ok (nodes.foldl (fun l v => l.set v label) labels)
  else .error .indexError

/-- `for label, nodes in enumerate(clusters): labels[nodes] = label`, from `label` on -/
def assignAll : Nat → List (List Nat) → List Nat → Except PyErr (List Nat)
  | _, [], labels => .ok labels
  | label, nodes :: rest, labels => do
    let l ← assign labels nodes label
    assignAll (label + 1) rest l

/-- state of the loop that builds the reduced dendrogram -/
structure RedState (α : Type) where
  index : Dict Nat          -- cluster_index
  size : Dict Nat           -- cluster_size
  cur : Nat                 -- current_cluster
  curNew : Nat              -- current_cluster_new
  rows : List (Row α)       -- dendrogram_new

/-- `d.pop(k)` -/
def pop (d : Dict β) (k : Nat) : Except PyErr (β × Dict β) :=
  match d.get? k with
  | some v => .ok (v, d.erase k)
  | none => .error .keyError

/-- `for i, j, height, _ in dendrogram:` -/
def reduceLoop : List (Row α) → RedState α → Except PyErr (RedState α)
  | [], st => .ok st
  | r :: rs, st => do
    let (iNew, ix1) ← pop st.index r.i
    let (jNew, ix2) ← pop ix1 r.j
    if iNew != jNew then
      let (si, sz1) ← pop st.size iNew
      let (sj, sz2) ← pop sz1 jNew
      let size := si + sj
      reduceLoop rs { index := ix2.set st.cur st.curNew, size := sz2.set st.curNew size,
                      cur := st.cur + 1, curNew := st.curNew + 1,
                      rows := st.rows ++ [{ i := iNew, j := jNew, h := r.h, s := size }] }
    else
      reduceLoop rs { st with index := ix2.set st.cur iNew, cur := st.cur + 1 }

structure CutOut (α : Type) where
  labels : List Nat
  dendro : Option (Dendro α)

/-- the contract of `np.argsort(-sizes)`: a permutation of the positions that puts the sizes in
    non-increasing order (nothing is assumed about the order among equal sizes) -/
def SortsDesc (argsort : List Nat → List Nat) : Prop :=
  ∀ sizes : List Nat, (argsort sizes).Perm (List.range sizes.length) ∧
    (argsort sizes).Pairwise (fun a b => sizes.getD b 0 ≤ sizes.getD a 0)

/-- `clusters = list(cluster.values())`, reordered by `np.argsort(-sizes)` when `sort_clusters` -/
def orderedClusters (cluster : Dict (List Nat)) (sortClusters : Bool) (argsort : List Nat → List Nat) :
    List (List Nat) :=
  let clusters0 := cluster.values
  if sortClusters then (argsort (clusters0.map List.length)).map (fun i => clusters0.getD i [])
  else clusters0

/-- `get_labels(dendrogram, cluster, sort_clusters, return_dendrogram)`.
    `argsort sizes` stands for `np.argsort(-sizes)` (`SortsDesc`). -/
def getLabels (D : Dendro α) (cluster : Dict (List Nat)) (sortClusters retD : Bool)
    (argsort : List Nat → List Nat) : Except PyErr (CutOut α) := do
  let n := D.length + 1
  let clusters := orderedClusters cluster sortClusters argsort
  let labels ← assignAll 0 clusters (List.replicate n 0)
  if retD then
    let st0 : RedState α :=
      { index := (List.range labels.length).map (fun i => (i, labels.getD i 0)),
        size := (List.range clusters.length).map (fun i => (i, (clusters.getD i []).length)),
        cur := labels.length, curNew := clusters.length, rows := [] }
    let st ← reduceLoop D st0
    pure { labels := labels, dendro := some st.rows }
  else
    pure { labels := labels, dendro := none }

/-- the stable permutation that sorts sizes in non-increasing order (what numpy returns on short arrays) -/
def insertDesc (sizes : List Nat) (t : Nat) : List Nat → List Nat
  | [] => [t]
  | u :: us => if sizes.getD u 0 ≤ sizes.getD t 0 then t :: u :: us else u :: insertDesc sizes t us

def argsortDesc (sizes : List Nat) : List Nat :=
  (List.range sizes.length).foldr (fun t acc => insertDesc sizes t acc) []

/-! ### `cut_straight` -/

section straight
variable {α : Type} [LT α] [DecidableLT α]

/-- `np.sort` (insertion sort; only the values matter) -/
def insertH (x : α) : List α → List α
  | [] => [x]
  | y :: ys => if x < y then x :: y :: ys else y :: insertH x ys

def sortH (l : List α) : List α := l.foldr insertH []

/-- `check_n_clusters(n_clusters, n, n_min=1)` -/
def checkNClusters (k n nMin : Nat) : Except PyErr Unit :=
  if k > n then .error .valueError else if k < nMin then .error .valueError else .ok ()

/-- the cut height; `none` = no bound (`n_clusters = 1`: every merge is applied) -/
def cutHeight (D : Dendro α) (n nClusters : Nat) (threshold : Option α) : Except PyErr (Option α) :=
  if nClusters > 1 then
    -- cut = np.sort(dendrogram[:, 2])[n - n_clusters]
    match (sortH (D.map (·.h)))[n - nClusters]? with
    | none => .error .indexError
    | some cut =>
      match threshold with
      | none => .ok (some cut)
      | some thr => .ok (some (if cut < thr then thr else cut))   -- max(cut, threshold)
  else .ok none

/-- no merge is lower than a merge it contains: `np.all(child_height.max(axis=1) <= height)` with `child_height`
    the height of a child that is a merge, `-inf` for a leaf -/
def noInversion (n : Nat) (D : Dendro α) : Bool :=
  D.all fun r =>
    (if r.i < n then true else match D[r.i - n]? with | some c => !decide (r.h < c.h) | none => false) &&
    (if r.j < n then true else match D[r.j - n]? with | some c => !decide (r.h < c.h) | none => false)

/-- the dendrogram that is cut: reordered by height when `return_dendrogram`, the heights are not sorted and no merge
    is lower than a merge it contains (repaired code: the reordering of a tree with an inversion put a parent row
    before the row creating its child, a KeyError in `get_labels`; such a tree is now kept as it is) -/
def cutInput (D0 : Dendro α) (retD : Bool) : Except PyErr (Dendro α) :=
  if retD && !heightsSorted D0 then
    (if noInversion (D0.length + 1) D0 then reorderDendrogram D0 else pure D0)
  else pure D0

/-- defaults of `n_clusters` (2, or `n` when only a threshold is given) and `check_n_clusters` -/
def effectiveK (n : Nat) (nClusters : Option Nat) (threshold : Option α) : Except PyErr Nat :=
  match nClusters with
  | none => pure (if threshold.isNone then 2 else n)
  | some k => do checkNClusters k n 1; pure k

/-- `cut is None or dendrogram[t][2] < cut` -/
def belowCut (cut : Option α) (r : Row α) : Bool :=
  match cut with
  | none => true
  | some c => decide (r.h < c)

def cutStraight (D0 : Dendro α) (nClusters : Option Nat) (threshold : Option α)
    (sortClusters retD : Bool) (argsort : List Nat → List Nat) : Except PyErr (CutOut α) := do
  let n := D0.length + 1
  let D ← cutInput D0 retD
  let k ← effectiveK n nClusters threshold
  let cut ← cutHeight D n k threshold
  let cluster ← mergeLoop n (fun r _ _ => belowCut cut r) 0 D (initCluster n)
  getLabels D cluster sortClusters retD argsort

end straight

/-! ### `cut_balanced` -/

def cutBalanced (D : Dendro α) (maxSize : Nat) (sortClusters retD : Bool)
    (argsort : List Nat → List Nat) : Except PyErr (CutOut α) := do
  let n := D.length + 1
  if maxSize < 2 || maxSize > n then throw .valueError
  let ok : Row α → List Nat → List Nat → Bool := fun _ ci cj => ci.length + cj.length ≤ maxSize
  let cluster ← mergeLoop n ok 0 D (initCluster n)
  getLabels D cluster sortClusters retD argsort

/-! ### `aggregate_dendrogram` -/

/-- insertion into a strictly increasing list (`sorted(set(...))`) -/
def insertSet (x : Nat) : List Nat → List Nat
  | [] => [x]
  | y :: ys => if x < y then x :: y :: ys else if x = y then y :: ys else y :: insertSet x ys

def sortedSet (l : List Nat) : List Nat := l.foldr insertSet []

structure AggOut (α : Type) where
  dendro : Dendro α
  counts : Option (List Nat)

/-- `sizes = np.hstack((np.ones(n_nodes), dendrogram[:, 3])); counts = sizes[leaves]` -/
def countOf (D : Dendro α) (n leaf : Nat) : Except PyErr Nat :=
  if leaf < n then .ok 1
  else
    match D[leaf - n]? with
    | some r => .ok r.s
    | none => .error .indexError

def aggregateDendrogram (D : Dendro α) (nClusters : Nat) (returnCounts : Bool) :
    Except PyErr (AggOut α) := do
  let n := D.length + 1
  if nClusters > n then throw .valueError
  if nClusters < 1 then throw .valueError
  let suffix := D.drop (n - nClusters)
  let nodeIndices := sortedSet (suffix.map (·.i) ++ suffix.map (·.j))
  let newIndex : Nat → Nat := fun x => nodeIndices.idxOf x
  let newD := suffix.map fun r => { r with i := newIndex r.i, j := newIndex r.j }
  if returnCounts then
    let leaves := if nClusters > 1 then nodeIndices.take nClusters else [2 * n - 2]
    let counts ← leaves.mapM (countOf D n)
    pure { dendro := newD, counts := some counts }
  else
    pure { dendro := newD, counts := none }

end SkNet.Cut
