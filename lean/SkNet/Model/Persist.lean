/-
Model of sknetwork/data/load.py (property C18): `save_to_numpy_bundle`, `load_from_numpy_bundle`, `save`, `load`
(a dataset becomes one file per attribute and back) and `is_within_directory`, `safe_extract`
(the member path check before a tar archive is extracted).

* A dataset is an association list key → (type tag, payload); the payload is opaque (an identifier of the
  content: numpy / scipy / pickle serialisation is external and assumed to round-trip).
* A folder is a list of files (name, format, payload); `listdir` may return them in any order.
* Paths: `os.path.abspath` = `normpath(join(cwd, p))` on POSIX, mirrored on component lists (`''` and `.`
  dropped, `..` pops, a leading `//` is kept); `os.path.commonpath` compares components,
  `os.path.commonprefix` (the pinned code, F12) compares characters.
-/
import SkNet.Model.Basic

namespace SkNet.Persist

inductive PyErr
  | notFound | valueError | traversal | badFile | filtered
deriving DecidableEq, Repr

def PyErr.show : PyErr → String
  | .notFound => "FileNotFoundError" | .valueError => "ValueError" | .traversal => "Exception"
  | .badFile => "BadFile" | .filtered => "FilterError"

/-! ### save / load -/

/-- which branch of `save_to_numpy_bundle` an attribute takes -/
inductive Tag
  | csr        -- `type(x) == sparse.csr_matrix`
  | ndarray    -- `type(x) == np.ndarray`
  | other      -- pickled
deriving DecidableEq, Repr

def Tag.show : Tag → String
  | .csr => "csr" | .ndarray => "ndarray" | .other => "other"

abbrev Chars := List Char

structure Attr where
  key : Chars
  tag : Tag
  payload : Nat
deriving DecidableEq, Repr

abbrev Dataset := List Attr

structure File where
  name : Chars
  fmt : Tag          -- npz / npy / pickle content
  payload : Nat
deriving DecidableEq, Repr

abbrev Folder := List File

def extNpz : Chars := ['.', 'n', 'p', 'z']
def extNpy : Chars := ['.', 'n', 'p', 'y']
def extP : Chars := ['.', 'p']

/-- the file an attribute is written to: `save_npz` / `np.save` append their extension unless it is there -/
def fileOf (a : Attr) : File :=
  match a.tag with
  | .csr => ⟨if extNpz.isSuffixOf a.key then a.key else a.key ++ extNpz, .csr, a.payload⟩
  | .ndarray => ⟨if extNpy.isSuffixOf a.key then a.key else a.key ++ extNpy, .ndarray, a.payload⟩
  | .other => ⟨a.key ++ extP, .other, a.payload⟩

/-- writing a file replaces a file of the same name -/
def writeFile (fs : Folder) (f : File) : Folder := fs.filter (·.name ≠ f.name) ++ [f]

/-- a key that names a file directly inside the bundle folder -/
def plainKey (k : Chars) : Bool := k ≠ [] && !k.contains '/'

/-- `save_to_numpy_bundle(data, bundle_name, data_home)` into the folder `fs` (`makedirs(exist_ok=True)`) -/
def saveBundle (fs : Folder) : Dataset → Except PyErr Folder
  | [] => .ok fs
  | a :: d => if plainKey a.key then saveBundle (writeFile fs (fileOf a)) d else .error .notFound

inductive SaveArg
  | matrix (square : Bool) (payload : Nat)
  | dataset (d : Dataset)

/-- `shutil.rmtree(folder)`: nothing of what the folder held is left, whatever its kind -/
def rmtree (_old : Folder) : Folder := []

/-- `save(folder, data)` on a folder holding `old` (the bundles of earlier saves, any other file): the folder is
    removed first (`if folder.exists(): shutil.rmtree(folder)`), then the bundle is written; a bare csr matrix
    becomes `adjacency` / `biadjacency`. `save` is a state machine over the folder: `saveAll` runs a history. -/
def save (old : Folder) (a : SaveArg) : Except PyErr Folder :=
  match a with
  | .matrix sq p => saveBundle (rmtree old) [⟨if sq then "adjacency".toList else "biadjacency".toList, .csr, p⟩]
  | .dataset d => saveBundle (rmtree old) d

/-- a history of saves into the same folder (a failing save leaves the history there) -/
def saveAll (fs : Folder) : List Dataset → Except PyErr Folder
  | [] => .ok fs
  | d :: ds =>
    match save fs (.dataset d) with
    | .ok fs' => saveAll fs' ds
    | .error e => .error e

/-- `s.split(c)` -/
def splitAtChar (d : Char) : Chars → List Chars
  | [] => [[]]
  | c :: cs =>
    match splitAtChar d cs with
    | [] => [[]]          -- unreachable: the result is never empty
    | f :: fs => if c = d then [] :: f :: fs else (c :: f) :: fs

/-- dict assignment `data[k] = v` -/
def assign (d : Dataset) (a : Attr) : Dataset :=
  if d.any (·.key = a.key) then d.map (fun b => if b.key = a.key then a else b) else d ++ [a]

/-- body of the loop of `load_from_numpy_bundle` over `listdir(data_path)` -/
def loadStep (d : Dataset) (f : File) : Except PyErr Dataset :=
  match splitAtChar '.' f.name with
  | [stem, ext] =>
    if ext = ['n', 'p', 'z'] then (if f.fmt = .csr then .ok (assign d ⟨stem, .csr, f.payload⟩) else .error .badFile)
    else if ext = ['n', 'p', 'y'] then (if f.fmt = .ndarray then .ok (assign d ⟨stem, .ndarray, f.payload⟩) else .error .badFile)
    else if ext = ['p'] then (if f.fmt = .other then .ok (assign d ⟨stem, .other, f.payload⟩) else .error .badFile)
    else .ok d
  | _ => .ok d

/-- `load_from_numpy_bundle`: `listing` = the files in the order `listdir` returns them -/
def loadFrom (d : Dataset) : List File → Except PyErr Dataset
  | [] => .ok d
  | f :: fs =>
    match loadStep d f with
    | .ok d' => loadFrom d' fs
    | .error e => .error e

def loadBundle (listing : List File) : Except PyErr Dataset := loadFrom [] listing

/-- `load(folder)`; `none` = the folder does not exist -/
def load (folder : Option (List File)) : Except PyErr Dataset :=
  match folder with
  | none => .error .notFound
  | some l => loadBundle l

def lookup (d : Dataset) (k : Chars) : Option (Tag × Nat) :=
  (d.find? (·.key = k)).map fun a => (a.tag, a.payload)

/-! ### paths (on lists of characters: every function is structurally recursive, so statements about
concrete paths are decided by the kernel) -/

/-- an absolute, normalised path: the number of leading slashes (1, or 2 for `//x`) and the components -/
structure APath where
  slashes : Nat
  comps : List Chars
deriving DecidableEq, Repr

/-- `p.split('/')` -/
def splitSlash (p : Chars) : List Chars := splitAtChar '/' p

/-- the loop of `posixpath.normpath` for an absolute path: `acc` is `new_comps` reversed -/
def normAux : List Chars → List Chars → List Chars
  | acc, [] => acc.reverse
  | acc, c :: cs =>
    if c = [] ∨ c = ['.'] then normAux acc cs
    else if c = ['.', '.'] then normAux acc.tail cs
    else normAux (c :: acc) cs

def leadingSlashes (p : Chars) : Nat := (p.takeWhile (· = '/')).length

def isAbs (p : Chars) : Bool := p.head? = some '/'

/-- `os.path.join(a, b)` -/
def joinPath (a b : Chars) : Chars :=
  if isAbs b then b
  else if a = [] ∨ a.getLast? = some '/' then a ++ b
  else a ++ '/' :: b

/-- `os.path.normpath` of an absolute path -/
def normAbs (p : Chars) : APath :=
  ⟨if leadingSlashes p = 2 then 2 else 1, normAux [] (splitSlash p)⟩

/-- `os.path.abspath(p)` with the current directory `cwd` (an absolute path) -/
def abspath (cwd p : Chars) : APath :=
  if isAbs p then normAbs p else normAbs (joinPath cwd p)

def intercalateSlash : List Chars → Chars
  | [] => []
  | [c] => c
  | c :: cs => c ++ '/' :: intercalateSlash cs

def APath.render (a : APath) : Chars := List.replicate a.slashes '/' ++ intercalateSlash a.comps

/-- longest common prefix of two lists -/
def commonPrefix [DecidableEq α] : List α → List α → List α
  | a :: as, b :: bs => if a = b then a :: commonPrefix as bs else []
  | _, _ => []

/-- `os.path.commonpath([a, b])` of two absolute normalised paths: one slash, the common components -/
def commonpath (a b : APath) : APath := ⟨1, commonPrefix a.comps b.comps⟩

/-- `is_within_directory(directory, target)` as repaired:
    `commonpath([abspath(directory), abspath(target)]) == abspath(directory)` -/
def isWithinDirectory (cwd directory target : Chars) : Bool :=
  let d := abspath cwd directory
  let t := abspath cwd target
  commonpath d t = d

/-- the pinned code (F12): `commonprefix`, the longest common prefix of the two *strings* -/
def isWithinDirectoryPinned (cwd directory target : Chars) : Bool :=
  let d := (abspath cwd directory).render
  let t := (abspath cwd target).render
  commonPrefix d t = d

/-- the pinned `safe_extract(tar, path)`: every member name is checked, then `tar.extractall(path)` writes member
    `m` to `join(path, m)`. Returns the normalised locations written (archives of regular files). -/
def safeExtractWith (within : Chars → Chars → Chars → Bool) (cwd path : Chars) (members : List Chars) :
    Except PyErr (List APath) :=
  if members.all (fun m => within cwd path (joinPath path m)) then
    pure (members.map fun m => abspath cwd (joinPath path m))
  else throw .traversal

def safeExtractPinned := safeExtractWith isWithinDirectoryPinned

/-- where tarfile's `'data'` extraction filter puts a regular-file member: leading slashes are stripped from
    the name, and the member is refused (`none`) unless the resulting location is the folder or below it
    (`commonpath([realpath(join(dest, name)), dest]) == dest`; no links inside the folder: realpath = abspath). -/
def dataFilter (cwd path m : Chars) : Option APath :=
  let loc := abspath cwd (joinPath path (m.dropWhile (· = '/')))
  if commonpath (abspath cwd path) loc = abspath cwd path then some loc else none

/-- `tar.extractall(path, members, filter='data')` over regular-file members, in order -/
def extractAll (cwd path : Chars) : List Chars → Except PyErr (List APath)
  | [] => .ok []
  | m :: ms =>
    match dataFilter cwd path m with
    | none => .error .filtered
    | some loc =>
      match extractAll cwd path ms with
      | .ok locs => .ok (loc :: locs)
      | .error e => .error e

/-- `safe_extract(tar, path)` as repaired, on an archive of regular files: every member name is checked
    (`is_within_directory(path, join(path, name))`), then the archive is extracted with the `'data'` filter.
    Members that are links are outside this model: tarfile's filter decides about them at extraction time
    (contract: nothing is created outside the folder), and the harness observes the disk. -/
def safeExtract (cwd path : Chars) (members : List Chars) : Except PyErr (List APath) :=
  if members.all (fun m => isWithinDirectory cwd path (joinPath path m)) then extractAll cwd path members
  else .error .traversal

/-- the location `t` is the folder `d` itself or below it (on Linux `//x` and `/x` are the same place) -/
def Inside (d t : APath) : Prop := d.comps <+: t.comps

instance (d t : APath) : Decidable (Inside d t) := by unfold Inside; exact inferInstance

end SkNet.Persist
