/-
Model of the centrality code (property C04):
  sknetwork/linalg/normalizer.py   normalize / get_norms / diagonal_pseudo_inverse   (`norm1`, `trans`, `normRow`)
  sknetwork/utils/values.py        get_values, and `which='probs'` of get_adjacency_values (`getValues`, `probs`)
  sknetwork/linalg/ppr_solver.py   RandomSurferOperator (`surferA`, `surferB`, `surferStep`), get_pagerank's branches
                                   (`piterLoop`, `rhScores`, `getPagerank`)
  sknetwork/linalg/polynome.py     Polynome._matvec (`horner`)
  sknetwork/linalg/diteration.pyx  diffusion (`diterNode`, `diterSweep`, `diterLoop`)
  sknetwork/linalg/push.pyx        push_pagerank as written (`pushInit`, `pushLoop`, `pushPagerank`)
  sknetwork/ranking/katz.py        Katz.fit (`katz`)
  sknetwork/ranking/closeness.py   Closeness.fit, method='exact' (`closeness`)
  sknetwork/ranking/betweenness.pyx Betweenness.fit (`brandesBfs`, `brandesBack`, `betweenness`)
  sknetwork/ranking/hits.py        the sign choice and clipping after the SVD (`hitsPost`)

Everything numeric is written once over a scalar type `α` carrying the ordinary operator classes, so
that the same definitions run in `Rat` (exact; the theorems of Properties/C04 are about `α := ℚ`) and in
`Float32` / `Float` (what the compiled kernels / numpy compute).

Vectors are lists read with `getD · 0`; every new array is a `tab n f`.
A graph is `n` and, per row, the stored `(column, value)` pairs in storage order (what CSR gives).
-/
import SkNet.Model.Basic
import SkNet.Model.Path

namespace SkNet.Rank

/-- A square sparse matrix in CSR order: `row i` = stored `(column, value)` pairs of row `i`. -/
structure Graph (α : Type) where
  n : Nat
  row : Nat → List (Nat × α)

/-- every stored column index is in range (scipy guarantees it of a constructed matrix) -/
def Graph.wf (g : Graph α) : Bool :=
  (List.range g.n).all fun i => (g.row i).all fun p => decide (p.1 < g.n)

/-- rows of a `Csr` (Basic.lean) as a `Graph` -/
def Graph.ofCsr [Inhabited α] (c : Csr α) : Graph α :=
  let rows : Array (List (Nat × α)) := (Array.range c.nRow).map fun i => c.row i
  { n := c.nRow, row := fun i => rows.getD i [] }

section generic
variable {α : Type} [Zero α] [One α] [Add α] [Sub α] [Mul α] [Div α] [LT α] [DecidableLT α]

/-! ### vectors -/

/-- `np.sum` -/
def vsum (x : List α) : α := x.sum

/-- `|x|` -/
def absS (x : α) : α := if x < 0 then 0 - x else x

/-- `np.linalg.norm(x - y, ord=1)` on vectors of length `n` -/
def l1dist (n : Nat) (x y : List α) : α :=
  ((List.range n).map fun i => absS (x.getD i 0 - y.getD i 0)).sum

/-- `x / x.sum()` -/
def normalizeV (n : Nat) (x : List α) : List α :=
  let s := vsum x
  tab n fun i => x.getD i 0 / s

/-! ### `normalize(adjacency, p=1)` -/

/-- entry `(i, j)` of the matrix: stored values at column `j` of row `i` summed (duplicates sum, scipy's semantics) -/
def entry (g : Graph α) (i j : Nat) : α :=
  (((g.row i).filter fun p => p.1 == j).map fun p => p.2).sum

/-- `get_norms(matrix, p=1)[i]` : sum of the absolute values of the stored entries of row `i` -/
def norm1 (g : Graph α) (i : Nat) : α := ((g.row i).map fun p => absS p.2).sum

/-- `adjacency.dot(np.ones(n))[i]` : signed row sum -/
def rowSum (g : Graph α) (i : Nat) : α := ((g.row i).map fun p => p.2).sum

/-- entry `(i, j)` of `normalize(adjacency)`: `diagonal_pseudo_inverse(norms).dot(matrix)`;
    a row of norm 0 has no diagonal entry in the pseudo-inverse and stays null. -/
def trans (g : Graph α) (i j : Nat) : α :=
  if 0 < norm1 g i then (1 / norm1 g i) * entry g i j else 0

/-- row `i` of `normalize(adjacency)` as stored data (what the D-iteration kernel receives) -/
def normRow (g : Graph α) (i : Nat) : List (Nat × α) :=
  if 0 < norm1 g i then (g.row i).map fun p => (p.1, (1 / norm1 g i) * p.2) else []

def normalized (g : Graph α) : Graph α := { n := g.n, row := normRow g }

/-! ### restart weights: `get_values`, then `which='probs'` of `get_adjacency_values` -/

/-- the three forms the caller may give the restart weights in -/
inductive Weights (α : Type)
  | none                                   -- `weights=None`
  | arr (v : List α)                       -- ndarray / list
  | dict (kv : List (Nat × α))             -- dict, in insertion order

inductive PyErr
  | valueError | indexError | typeError | zeroDivision
deriving DecidableEq, Repr

def PyErr.show : PyErr → String
  | .valueError => "ValueError" | .indexError => "IndexError" | .typeError => "TypeError"
  | .zeroDivision => "ZeroDivisionError"

/-- `get_values((n,), values, default_value)`; `values[keys] = values_` : the last assignment to a key wins,
    a key `≥ n` is numpy's IndexError -/
def getValues (n : Nat) (default : α) : Weights α → Except PyErr (List α)
  | .none => .ok (tab n fun _ => 1)
  | .arr v => if v.length = n then .ok v else .error .valueError
  | .dict kv =>
    -- `np.min(values_)` of an empty dict is numpy's ValueError
    if kv.isEmpty then .error .valueError
    else if kv.all (fun p => decide (p.1 < n)) then
      .ok (tab n fun i => match (kv.reverse.find? fun p => p.1 == i) with
                          | some p => p.2
                          | none => default)
    else .error .indexError

/-- `if values.sum() > 0: values /= values.sum()` -/
def probs (n : Nat) (v : List α) : List α :=
  if 0 < vsum v then normalizeV n v else v

/-- the restart distribution `PageRank.fit` hands to `get_pagerank` (non-bipartite input, `default_value=0`) -/
def restartOf (n : Nat) (w : Weights α) : Except PyErr (List α) :=
  (getValues n 0 w).map (probs n)

/-! ### `RandomSurferOperator` -/

/-- `(self.a.dot(x))[i]` with `self.a = (damping_factor * normalize(adjacency)).T` -/
def surferA (g : Graph α) (a : α) (x : List α) (i : Nat) : α :=
  ((List.range g.n).map fun j => (a * trans g j i) * x.getD j 0).sum

/-- `out_degrees = adjacency.dot(np.ones(n)).astype(bool)` as 0/1 -/
def outInd (g : Graph α) (i : Nat) : α :=
  if rowSum g i < 0 then 1 else if 0 < rowSum g i then 1 else 0

/-- `self.b = (1 - damping_factor) * seeds` -/
def surferB (g : Graph α) (a : α) (seeds : List α) : List α :=
  tab g.n fun i => (1 - a) * seeds.getD i 0

/-- `self.restart = np.ones(n) - damping_factor * out_degrees` : probability to restart from node `i` -/
def surferRestart (g : Graph α) (a : α) (i : Nat) : α := 1 - a * outInd g i

/-- `RandomSurferOperator._matvec` : `self.a.dot(x) + self.seeds * self.restart.dot(x)` -/
def surferStep (g : Graph α) (a : α) (seeds : List α) (x : List α) : List α :=
  let r := ((List.range g.n).map fun j => surferRestart g a j * x.getD j 0).sum
  tab g.n fun i => surferA g a x i + seeds.getD i 0 * r

/-! ### power iteration (`solver='piteration'`) -/

/-- the `for i in range(n_iter)` loop of `get_pagerank`; on `break` the *previous* iterate is kept -/
def piterLoop (n : Nat) (step : List α → List α) (tol : α) : Nat → List α → List α
  | 0, s => s
  | k+1, s =>
    let s' := normalizeV n (step s)
    if l1dist n s s' < tol then s else piterLoop n step tol k s'

/-- `scores` when the loop of `solver='piteration'` is left -/
def piterScores (g : Graph α) (a : α) (seeds : List α) (nIter : Nat) (tol : α) : List α :=
  piterLoop g.n (surferStep g a seeds) tol nIter (surferB g a seeds)

/-- `solver='piteration'` : the loop, then `scores / scores.sum()` (numpy gives NaN when the sum is 0) -/
def piteration (g : Graph α) (a : α) (seeds : List α) (nIter : Nat) (tol : α) : List α :=
  normalizeV g.n (piterScores g a seeds nIter tol)

/-! ### `Polynome._matvec` (Ruffini–Horner) and `solver='RH'` -/

def vadd (n : Nat) (x y : List α) : List α := tab n fun i => x.getD i 0 + y.getD i 0
def smul (n : Nat) (c : α) (x : List α) : List α := tab n fun i => c * x.getD i 0

/-- `y = coeffs[-1] * x; for a in coeffs[::-1][1:]: y = matrix.dot(y) + a * x`;
    `none` = the ValueError of `Polynome.__init__` on an empty coefficient array -/
def horner (n : Nat) (mv : List α → List α) (coeffs : List α) (x : List α) : Option (List α) :=
  match coeffs.reverse with
  | [] => none
  | c :: cs => some (cs.foldl (fun y a => vadd n (mv y) (smul n a x)) (smul n c x))

/-- `(damping_factor * normalize(adjacency, p=1).T.tocsr()).dot(x)` -/
def dampedT (g : Graph α) (a : α) (x : List α) : List α := tab g.n fun i => surferA g a x i

/-- `solver='RH'`: `Polynome(damping * normalize(adjacency).T, np.ones(n_iter+1)).dot(seeds)`, then `/ sum` -/
def rhScores (g : Graph α) (a : α) (seeds : List α) (nIter : Nat) : List α :=
  match horner g.n (dampedT g a) (List.replicate (nIter + 1) 1) seeds with
  | some y => y
  | none => seeds

def rh (g : Graph α) (a : α) (seeds : List α) (nIter : Nat) : List α :=
  normalizeV g.n (rhScores g a seeds nIter)

/-! ### the external solvers (`solver='bicgstab'`, `solver='lanczos'`): what scipy returned is a parameter -/

/-- residual of the system handed to `bicgstab` : `((I - rso.a) x - rso.b)[i]` -/
def bicgstabResidual (g : Graph α) (a : α) (seeds : List α) (x : List α) (i : Nat) : α :=
  (x.getD i 0 - surferA g a x i) - (surferB g a seeds).getD i 0

/-- `np.linalg.norm(matrix.dot(scores) - rso.b) ** 2` : the squared ℓ2 norm of the true residual -/
def bicgstabRes2sq (g : Graph α) (a : α) (seeds : List α) (x : List α) : α :=
  ((List.range g.n).map fun i => bicgstabResidual g a seeds x i * bicgstabResidual g a seeds x i).sum

/-- the test of `get_pagerank` on what BiCGSTAB returned: `info == 0` and `residual <= rule` where
    `rule = max(tol, 1e-5 * norm(rso.b))` (a parameter, `≥ 0`); the two norms are compared through their squares -/
def bicgstabAccept (g : Graph α) (a : α) (seeds : List α) (info : Int) (rule : α) (iter : List α) : Bool :=
  info == 0 && !(decide (rule * rule < bicgstabRes2sq g a seeds iter))

/-- `scores, info = bicgstab(I - rso.a, rso.b, atol=tol, x0=rso.b)`;
    `if info != 0 or not residual <= rule: scores = spsolve(I - rso.a, rso.b)` :
    `iter` is what BiCGSTAB returned, `direct` what the direct solver returned -/
def bicgstabScores (g : Graph α) (a : α) (seeds : List α) (info : Int) (rule : α) (iter direct : List α) : List α :=
  if bicgstabAccept g a seeds info rule iter then iter else direct

/-- `solver='bicgstab'` : the scores above, then `scores / scores.sum()` -/
def bicgstabBranch (n : Nat) (ext : List α) : List α := normalizeV n ext

/-- `solver='lanczos'` : `_, scores = eigs(rso, k=1, tol=tol, v0=rso.b)` (for `n < 3`, where ARPACK cannot be called: the
    eigenvector of `np.linalg.eig` for the eigenvalue of largest real part), `abs(scores.flatten().real)`, then `/ sum` -/
def lanczosBranch (n : Nat) (ext : List α) : List α := normalizeV n (tab n fun i => absS (ext.getD i 0))

/-! ### D-iteration kernel (`linalg/diteration.pyx : diffusion`) -/

structure DState (α : Type) where
  scores : List α
  fluid : List α
  residu : α

/-- `fluid[j] += tmp * data[jj]` for the stored entries of one row, in storage order -/
def pushRow (tmp : α) (row : List (Nat × α)) (fluid : List α) : List α :=
  row.foldl (fun f p => f.modify p.1 (fun v => v + tmp * p.2)) fluid

/-- body of the loop over `i` (one *atomic activation* of node `i`); `g` holds the normalised data -/
def diterNode (g : Graph α) (a restart : α) (st : DState α) (i : Nat) : DState α :=
  let sent := st.fluid.getD i 0
  if 0 < sent then
    let scores := st.scores.modify i (fun v => v + sent)
    let fluid := st.fluid.set i 0
    let tmp := sent * a
    if (g.row i).isEmpty then
      { scores := scores, fluid := fluid, residu := st.residu - sent }
    else
      { scores := scores, fluid := pushRow tmp (g.row i) fluid, residu := st.residu - sent * restart }
  else st

/-- `for i in range(n)` -/
def diterSweep (g : Graph α) (a restart : α) (st : DState α) : DState α :=
  (List.range g.n).foldl (diterNode g a restart) st

/-- `for k in range(n_iter): sweep; if residu < tol * restart_prob: return` -/
def diterLoop (g : Graph α) (a restart tol : α) : Nat → DState α → DState α
  | 0, st => st
  | k+1, st =>
    let st' := diterSweep g a restart st
    if st'.residu < tol * restart then st' else diterLoop g a restart tol k st'

/-- `diffusion(indptr, indices, data, scores, fluid, damping_factor, n_iter, tol)` with `g` = the arrays -/
def diffusion (g : Graph α) (scores fluid : List α) (a : α) (nIter : Nat) (tol : α) : DState α :=
  let restart := 1 - a
  diterLoop g a restart tol nIter { scores := scores, fluid := fluid, residu := restart }

/-- `scores` after the kernel call of `solver='diteration'` -/
def diterScores (g : Graph α) (a : α) (seeds : List α) (nIter : Nat) (tol : α) : List α :=
  (diffusion (normalized g) (tab g.n fun _ => 0) (smul g.n (1 - a) seeds) a nIter tol).scores

/-- `solver='diteration'` of `get_pagerank` : the kernel, then `scores / scores.sum()` -/
def diteration (g : Graph α) (a : α) (seeds : List α) (nIter : Nat) (tol : α) : List α :=
  normalizeV g.n (diterScores g a seeds nIter tol)

/-! ### push kernel (`linalg/push.pyx : push_pagerank`), as written -/

/-- insertion of `v` (an index smaller than all those of the list) into a list sorted by descending key:
    `v` goes before the first element whose key is not strictly larger, so equal keys stay in index order -/
def insertDesc (key : Nat → α) (v : Nat) : List Nat → List Nat
  | [] => [v]
  | w :: ws => if key v < key w then w :: insertDesc key v ws else v :: w :: ws

/-- `np.argsort(-residuals)` (stable: numpy's sort of a short array is an insertion sort) -/
def argsortDesc (r : List α) : List Nat :=
  (List.range r.length).foldr (fun v acc => insertDesc (fun i => r.getD i 0) v acc) []

/-- first loop: `residuals[v] = (Σ_{u in in-neighbours of v} 1/degrees[u]) * (1-a) * a * (1 + seeds[v])`;
    `rev` is the transposed adjacency, `deg` the (integer-cast) weighted out-degrees -/
def pushInit (n : Nat) (rev : Graph α) (deg : List α) (seeds : List α) (a : α) : List α :=
  tab n fun v =>
    ((rev.row v).foldl (fun r p => r + 1 / deg.getD p.1 0) 0) * ((1 - a) * a * (1 + seeds.getD v 0))

/-- `1 / degrees[neighbor]` and `… / degrees[vertex]` are divisions by the `int32` degree: a node with a stored out-entry
    whose degree is 0 (out-weight below 1, truncated) makes the kernel raise ZeroDivisionError -/
def pushRaises (g : Graph α) (deg : List α) : Bool :=
  (List.range g.n).any fun u => !(g.row u).isEmpty && !(decide (deg.getD u 0 < 0) || decide (0 < deg.getD u 0))

structure PState (α : Type) where
  scores : List α
  resid : List α
  work : List Nat

/-- inner loop over the out-neighbours of the popped vertex -/
def pushNeighbours (deg : List α) (a tol : α) (vertex : Nat) (row : List (Nat × α)) (st : PState α) : PState α :=
  row.foldl (fun st p =>
    let nb := p.1
    let tmp := st.resid.getD nb 0
    let r' := tmp + st.resid.getD vertex 0 * (1 - a) / deg.getD vertex 0
    let resid := st.resid.set nb r'
    if tol < r' ∧ tmp < tol then { st with resid := resid, work := st.work ++ [nb] }
    else { st with resid := resid }) st

/-- the `while not worklist.empty()` loop; `none` = fuel exhausted -/
def pushLoop (g : Graph α) (deg : List α) (a tol : α) : Nat → PState α → Option (PState α)
  | 0, st => if st.work.isEmpty then some st else none
  | fuel+1, st =>
    match st.work with
    | [] => some st
    | v :: rest =>
      let st1 : PState α := { st with scores := st.scores.modify v (fun s => s + st.resid.getD v 0), work := rest }
      pushLoop g deg a tol fuel (pushNeighbours deg a tol v (g.row v) st1)

/-- `push_pagerank(n, degrees, indptr, indices, rev_indptr, rev_indices, seeds, damping_factor, tol)`
    followed by the `scores / scores.sum()` of `get_pagerank`, with the initial work-list `order` = what
    `np.argsort(-residuals)` returned (any permutation sorting the residuals in descending order: numpy's
    vectorised sorts do not keep equal keys in index order); the ℓ1 norm of the kernel is a plain sum because every
    score is positive -/
def pushPagerankOrd (g rev : Graph α) (deg seeds : List α) (a tol : α) (fuel : Nat) (order : List Nat) :
    Option (List α) :=
  let resid := pushInit g.n rev deg seeds a
  let st0 : PState α := { scores := tab g.n fun _ => 1 - a, resid := resid, work := order }
  match pushLoop g deg a tol fuel st0 with
  | none => none
  | some st =>
    let norm := ((List.range g.n).map fun i => absS (st.scores.getD i 0)).sum
    some (normalizeV g.n (tab g.n fun i => st.scores.getD i 0 / norm))

/-- the same with the stable descending order -/
def pushPagerank (g rev : Graph α) (deg seeds : List α) (a tol : α) (fuel : Nat) : Option (List α) :=
  pushPagerankOrd g rev deg seeds a tol fuel (argsortDesc (pushInit g.n rev deg seeds a))

/-! ### Katz (`ranking/katz.py`) -/

/-- `adjacency.T.astype(bool).dot(y)` : `edge j i` = a stored non-zero entry `(j, i)` -/
def boolT (n : Nat) (edge : Nat → Nat → Bool) (y : List α) : List α :=
  tab n fun i => ((List.range n).map fun j => if edge j i then y.getD j 0 else 0).sum

/-- `damping_factor ** np.arange(path_length + 1)` with `coefs[0] = 0` -/
def katzCoeffs (a : α) (pathLength : Nat) : List α :=
  (List.range (pathLength + 1)).map fun k => if k = 0 then 0 else (List.replicate k a).foldl (· * ·) 1

def katz (n : Nat) (edge : Nat → Nat → Bool) (a : α) (pathLength : Nat) : List α :=
  match horner n (boolT n edge) (katzCoeffs a pathLength) (tab n fun _ => 1) with
  | some y => y
  | none => []

/-! ### Closeness (`ranking/closeness.py`, method='exact') -/

/-- the integer `k` as a scalar (C's int -> double conversion), by binary doubling -/
def natS : Nat → α
  | 0 => 0
  | k+1 =>
    let h : α := natS ((k+1) / 2)
    if (k+1) % 2 = 1 then h + h + 1 else h + h
decreasing_by omega

def intS (z : Int) : α := if z < 0 then 0 - natS z.natAbs else natS z.natAbs

/-- `scores = (n - 1) / n / np.mean(distances, axis=1); scores[distances_min < 0] = 0`
    given the rows of hop distances (`get_distances(adjacency, source=i)`, −1 = unreachable) -/
def closenessOf (n : Nat) (dist : List (List Int)) : List α :=
  tab n fun i =>
    let d := dist.getD i []
    if d.any (· < 0) then 0
    else (natS (n - 1) / natS n) / (intS (d.foldl (· + ·) 0) / natS n)

/-- `Closeness(method='exact').fit(adjacency).scores_` after the shape and connectivity checks;
    `none` = the distance loop ran out of fuel (never: C10) -/
def closeness (n : Nat) (edge : Nat → Nat → Bool) : Option (List α) :=
  ((List.range n).mapM fun s =>
    SkNet.Path.distancesFromMask n edge (tab n fun v => v == s)).map (closenessOf n)

/-- `is_weakly_connected(adjacency)` : every node is reached from node 0 when the edges are read in both directions -/
def weaklyConnected (n : Nat) (edge : Nat → Nat → Bool) : Bool :=
  match SkNet.Path.distancesFromMask n (fun i j => edge i j || edge j i) (tab n fun v => v == 0) with
  | some d => d.all fun x => decide (0 ≤ x)
  | none => false

/-- `Closeness(method='exact').fit(adjacency)` on a square matrix with `nnz` stored entries:
    `check_format` refuses an empty matrix, `check_connected` a graph that is not weakly connected -/
def closenessFit (n nnz : Nat) (edge : Nat → Nat → Bool) : Except PyErr (Option (List α)) :=
  if nnz = 0 then .error .valueError
  else if !weaklyConnected n edge then .error .valueError
  else .ok (closeness n edge)

/-! ### Betweenness (`ranking/betweenness.pyx`), Brandes -/

structure BState where
  sigma : List Nat
  dists : List Int
  preds : List (List Nat)
  queue : List Nat
  seen : List Nat            -- the stack, top first

/-- body of the `for j in neighbors` loop for the popped node `i` -/
def brandesStep (i : Nat) (st : BState) (j : Nat) : BState :=
  let di := st.dists.getD i (-1)
  let st := if st.dists.getD j (-1) < 0 then
      { st with dists := st.dists.set j (di + 1), queue := st.queue ++ [j] } else st
  if st.dists.getD j (-1) == di + 1 then
    { st with sigma := st.sigma.modify j (· + st.sigma.getD i 0),
              preds := st.preds.modify j (· ++ [i]) }
  else st

/-- the `for j in neighbors` loop for the popped node `i` -/
def brandesScan (i : Nat) (nbrs : List Nat) (st : BState) : BState := nbrs.foldl (brandesStep i) st

/-- the `while bfs_queue.size() != 0` loop; `none` = fuel exhausted -/
def brandesBfs (nbr : Nat → List Nat) : Nat → BState → Option BState
  | 0, st => if st.queue.isEmpty then some st else none
  | fuel+1, st =>
    match st.queue with
    | [] => some st
    | i :: rest => brandesBfs nbr fuel (brandesScan i (nbr i) { st with queue := rest, seen := i :: st.seen })

/-- the backtracking loop: pops `seen`, `delta[i] += sigma[i] / sigma[j] * (1 + delta[j])` for the predecessors
    `i` of `j`, `scores[j] += delta[j]` unless `j` is the source -/
def brandesBack (source : Nat) (sigma : List Nat) (preds : List (List Nat)) :
    List Nat → List α → List α → List α × List α
  | [], delta, scores => (delta, scores)
  | j :: rest, delta, scores =>
    let delta := (preds.getD j []).foldl (fun dl i =>
      dl.modify i (fun v => v + natS (sigma.getD i 0) / natS (sigma.getD j 0) * (1 + dl.getD j 0))) delta
    let scores := if j ≠ source then scores.modify j (fun v => v + delta.getD j 0) else scores
    brandesBack source sigma preds rest delta scores

/-- one iteration of `for source in range(n)` -/
def brandesSource (n : Nat) (nbr : Nat → List Nat) (scores : List α) (source : Nat) : Option (List α) :=
  let st0 : BState := { sigma := tab n fun v => if v = source then 1 else 0,
                        dists := tab n fun v => if v = source then 0 else -1,
                        preds := tab n fun _ => [], queue := [source], seen := [] }
  match brandesBfs nbr (n + 1) st0 with
  | none => none
  | some st => some (brandesBack source st.sigma st.preds st.seen (tab n fun _ => 0) scores).2

/-- `Betweenness().fit(adjacency).scores_` after the checks: the accumulated dependencies, times `1/2` when the
    adjacency is symmetric (`is_symmetric(adjacency)`); `nbr i` = the stored column indices of row `i` in storage order -/
def betweenness (n : Nat) (nbr : Nat → List Nat) (symmetric : Bool) : Option (List α) :=
  ((List.range n).foldlM (fun sc s => brandesSource n nbr sc s) (tab n fun _ => (0 : α))).map fun sc =>
    if symmetric then tab n fun i => (1 / (1 + 1)) * sc.getD i 0 else sc

/-- rows of `adjacency.copy(); sum_duplicates(); eliminate_zeros()` : the columns with a non-zero entry, ascending
    (`edge i j` = entry `(i, j)` is not zero) -/
def patternNbr (n : Nat) (edge : Nat → Nat → Bool) (i : Nat) : List Nat := (List.range n).filter (edge i)

/-- `is_symmetric(adjacency.astype(bool).astype(int))` : the pattern of non-zero entries is symmetric -/
def patternSymmetric (n : Nat) (edge : Nat → Nat → Bool) : Bool :=
  (List.range n).all fun i => (List.range n).all fun j => edge i j == edge j i

/-- `Betweenness().fit(adjacency)` : the checks of `fit`, then Brandes on the graph of the non-zero entries, halved when
    that graph is undirected -/
def betweennessFit (n nnz : Nat) (edge : Nat → Nat → Bool) : Except PyErr (Option (List α)) :=
  if nnz = 0 then .error .valueError
  else if !weaklyConnected n edge then .error .valueError
  else .ok (betweenness n (patternNbr n edge) (patternSymmetric n edge))

/-! ### HITS post-processing (`ranking/hits.py`) -/

/-- `pos, neg = v[v > 0].sum(), -v[v < 0].sum(); if pos > neg: clip(v, 0, None) else clip(-v, 0, None)` :
    the sign that carries the mass is kept -/
def hitsPost (v : List α) : List α :=
  let pos := ((v.filter fun x => 0 < x)).sum
  let neg := 0 - ((v.filter fun x => x < 0)).sum
  if neg < pos then v.map fun x => if x < 0 then 0 else x
  else v.map fun x => if (0 - x) < 0 then 0 else 0 - x

end generic

/-! ### solver dispatch of `get_pagerank` -/

inductive Solver
  | piteration | diteration | lanczos | bicgstab | rh | push | other
deriving DecidableEq, Repr

def Solver.ofString : String → Solver
  | "piteration" => .piteration | "diteration" => .diteration | "lanczos" => .lanczos
  | "bicgstab" => .bicgstab | "RH" => .rh | "push" => .push | _ => .other

end SkNet.Rank
