/-
Model of sknetwork/regression/diffusion.py (`init_temperatures`, `Diffusion.fit`, `Dirichlet.fit`),
sknetwork/regression/base.py (`_split_vars`), sknetwork/linalg/normalizer.py (`get_norms` p=1,
`diagonal_pseudo_inverse`, `normalize`), sknetwork/utils/values.py (`get_values`, `stack_values`) and the
part of sknetwork/utils/format.py they go through (`check_format` emptiness, `get_adjacency`,
`bipartite2undirected`, `get_adjacency_values`).   Property C14.

Conventions
* a matrix enters as its shape and its dense denotation `A : Nat → Nat → Rat` (`A i j` = sum of the stored
  entries at (i,j)) plus `nnz`, the number of *stored* entries (only `check_format` looks at it);
* every "new array" is a `tab`; a `for … in range(k)` is structural recursion on `k`;
  `s = Σ_j …` (a CSR row times a vector) is `sumTo n`, which adds in index order;
* where the code raises, the model returns `.error`; where the code silently produces NaN
  (mean of an empty seed set) the model returns `.error .nanMean` — never a default number.
-/
import SkNet.Model.Basic

namespace SkNet.Heat

inductive PyErr
  | valueError | indexError | typeError
  | nanMean          -- not an exception: `seeds[border].mean()` of an empty selection is NaN (RuntimeWarning)
deriving DecidableEq, Repr

def PyErr.show : PyErr → String
  | .valueError => "ValueError" | .indexError => "IndexError" | .typeError => "TypeError"
  | .nanMean => "NaN"

/-! ### sums, norms, `normalize` -/

/-- `s = 0; for j in range(n): s += f j` -/
def sumTo : Nat → (Nat → Rat) → Rat
  | 0, _ => 0
  | n+1, f => sumTo n f + f n

/-- `np.abs` -/
def absQ (x : Rat) : Rat := if x < 0 then -x else x

/-- `get_norms(matrix, p=1)`: `abs(matrix).dot(ones(n_col))`, entry `i` -/
def rowNorm (nCol : Nat) (A : Nat → Nat → Rat) (i : Nat) : Rat := sumTo nCol fun j => absQ (A i j)

/-- `diagonal_pseudo_inverse(weights)`, diagonal entry for the weight `x`: `sparse.diags` does not store
    a zero weight, so `1 / diag.data` never sees it and the entry stays 0. -/
def pinv (x : Rat) : Rat := if x = 0 then 0 else 1 / x

/-- `normalize(matrix)` = `diagonal_pseudo_inverse(get_norms(matrix)).dot(matrix)` -/
def normalize (nCol : Nat) (A : Nat → Nat → Rat) : Nat → Nat → Rat :=
  fun i j => pinv (rowNorm nCol A i) * A i j

/-- dense storage of an `n × m` matrix -/
abbrev Mat := List (List Rat)

def mat (n m : Nat) (f : Nat → Nat → Rat) : Mat := tab n fun i => tab m fun j => f i j

def ent (M : Mat) (i j : Nat) : Rat := (M.getD i []).getD j 0

/-- `M.dot(v)` for an `n × n` matrix -/
def matVec (n : Nat) (M : Mat) (v : List Rat) : List Rat :=
  tab n fun i => sumTo n fun j => ent M i j * v.getD j 0

/-- `get_degrees(M)` = `indptr[1:] - indptr[:-1]`: number of stored entries of row `i`. The sparse product
    that built `M` stores exactly the non-zero results. -/
def storedDegree (n : Nat) (P : Nat → Nat → Rat) (i : Nat) : Nat :=
  ((List.range n).filter fun j => P i j ≠ 0).length

/-! ### `get_values`, `stack_values` -/

/-- the forms in which temperatures may be given -/
inductive Values
  | none
  | arr (l : List Rat)             -- np.ndarray
  | list (l : List Rat)            -- Python list (`np.array(values)`)
  | dict (kv : List (Int × Rat))   -- in insertion order
deriving Repr

def Values.isNone : Values → Bool
  | .none => true
  | _ => false

/-- numpy's index rule on an axis of length `n` -/
def pyIndex (n : Nat) (k : Int) : Option Nat :=
  if 0 ≤ k ∧ k < (n : Int) then some k.toNat
  else if -(n : Int) ≤ k ∧ k < 0 then some (k + (n : Int)).toNat
  else none

/-- `values[keys] = values_` : one key after the other (a repeated index keeps the last value) -/
def assign (n : Nat) : List Rat → List (Int × Rat) → Except PyErr (List Rat)
  | acc, [] => .ok acc
  | acc, (k, x) :: rest =>
    match pyIndex n k with
    | some i => assign n (acc.set i x) rest
    | none => .error .indexError

/-- `get_values(shape, values, default_value)` with `n = shape[0]` -/
def getValues (n : Nat) (v : Values) (dflt : Rat) : Except PyErr (List Rat) :=
  match v with
  | .list l => if l.length ≠ n then .error .valueError else .ok l
  | .arr l => if l.length ≠ n then .error .valueError else .ok l
  | .dict kv =>
    -- `np.min(values_)` of an empty array raises ValueError
    if kv.isEmpty then .error .valueError
    else assign n (tab n fun _ => dflt) kv
  | .none => .ok (tab n fun _ => 1)

/-- `stack_values(shape, values_row, values_col, default_value)` -/
def stackValues (nRow nCol : Nat) (vr vc : Values) (dflt : Rat) : Except PyErr (List Rat) :=
  let vr' : Values :=
    if vr.isNone && vc.isNone then .arr (tab nRow fun _ => 1)
    else if vr.isNone then .arr (tab nRow fun _ => dflt) else vr
  let vc' : Values :=
    if vc.isNone then .arr (tab nCol fun _ => dflt) else vc
  match getValues nRow vr' dflt with
  | .error e => .error e
  | .ok r =>
    match getValues nCol vc' dflt with
    | .error e => .error e
    | .ok c => .ok (r ++ c)

/-! ### `get_adjacency_values` -/

/-- `bipartite2undirected(B)` = `[[0, B], [Bᵀ, 0]]`, rows first -/
def blockMat (nRow : Nat) (B : Nat → Nat → Rat) (i j : Nat) : Rat :=
  if i < nRow then (if j < nRow then 0 else B i (j - nRow))
  else (if j < nRow then B j (i - nRow) else 0)

structure Args where
  values : Values := .none
  valuesRow : Values := .none
  valuesCol : Values := .none
  init : Option Rat := none
  forceBipartite : Bool := false
deriving Repr

structure Prepared where
  n : Nat                       -- number of nodes of `adjacency`
  adj : Nat → Nat → Rat
  seeds : List Rat              -- the vector `values` (−1 = no seed)
  bipartite : Bool

/-- `get_adjacency_values(input_matrix, force_bipartite, values, values_row, values_col)`
    (`allow_directed=True`, `default_value=-1`, `which=None`). -/
def getAdjacencyValues (nRow nCol nnz : Nat) (B : Nat → Nat → Rat) (a : Args) : Except PyErr Prepared :=
  -- check_format
  if nnz = 0 then .error .valueError else
  let forceBip := a.forceBipartite || !a.valuesRow.isNone || !a.valuesCol.isNone
  let bipartite := forceBip || nRow != nCol
  if bipartite then
    let vals :=
      if a.values.isNone then stackValues nRow nCol a.valuesRow a.valuesCol (-1)
      else stackValues nRow nCol a.values a.valuesCol (-1)   -- `values` is the alias of `values_row`
    match vals with
    | .error e => .error e
    | .ok s => .ok ⟨nRow + nCol, blockMat nRow B, s, true⟩
  else
    match getValues nRow a.values (-1) with
    | .error e => .error e
    | .ok s => .ok ⟨nRow, B, s, false⟩

/-! ### `init_temperatures` -/

/-- `border = (seeds >= 0)` -/
def borderOf (seeds : List Rat) : List Bool := seeds.map fun x => decide (0 ≤ x)

/-- `seeds[border].mean()` : sum and count of the selected entries -/
def seedSum (seeds : List Rat) : Rat :=
  sumTo seeds.length fun i => if 0 ≤ seeds.getD i 0 then seeds.getD i 0 else 0

def seedCount (seeds : List Rat) : Rat :=
  sumTo seeds.length fun i => if 0 ≤ seeds.getD i 0 then 1 else 0

/-- `init_temperatures(seeds, init)` → `(temperatures, border)` -/
def initTemperatures (seeds : List Rat) (init : Option Rat) : Except PyErr (List Rat × List Bool) :=
  let n := seeds.length
  let border := borderOf seeds
  let base : Except PyErr Rat :=
    match init with
    | none => if seedCount seeds = 0 then .error .nanMean else .ok (seedSum seeds / seedCount seeds)
    | some x => .ok x
  match base with
  | .error e => .error e
  | .ok b => .ok (tab n fun i => if border.getD i false then seeds.getD i 0 else b, border)

/-! ### the two iterations -/

/-- `for i in range(k): v = step v` -/
def loop (step : List Rat → List Rat) : Nat → List Rat → List Rat
  | 0, v => v
  | k+1, v => loop step k (step v)

/-- the matrix `Diffusion.fit` iterates:
    `P = normalize(Aᵀ)`, `P += diag(degrees(P) == 0)`, `(1-α) I + α P` -/
def diffusionEntry (n : Nat) (A : Nat → Nat → Rat) (α : Rat) (i j : Nat) : Rat :=
  let P := normalize n fun r c => A c r
  let selfLoop : Rat := if i = j ∧ storedDegree n P i = 0 then 1 else 0
  (1 - α) * (if i = j then 1 else 0) + α * (P i j + selfLoop)

/-- one Dirichlet round: `values = P.dot(values); values[border] = temperatures[border]` -/
def dirichletStep (n : Nat) (P : Mat) (temps : List Rat) (border : List Bool) (v : List Rat) : List Rat :=
  let w := matVec n P v
  tab n fun i => if border.getD i false then temps.getD i 0 else w.getD i 0

inductive Algo
  | diffusion | dirichlet
deriving DecidableEq, Repr

structure Out where
  values : List Rat
  valuesRow : Option (List Rat)
  valuesCol : Option (List Rat)
deriving Repr, DecidableEq

/-- `_split_vars(shape)` when bipartite -/
def splitVars (bipartite : Bool) (nRow : Nat) (v : List Rat) : Out :=
  if bipartite then ⟨v.take nRow, some (v.take nRow), some (v.drop nRow)⟩
  else ⟨v, none, none⟩

/-- the vector computed by `fit` before `_split_vars` -/
def fitVector (algo : Algo) (p : Prepared) (init : Option Rat) (nIter : Nat) (α : Rat) :
    Except PyErr (List Rat) :=
  match initTemperatures p.seeds init with
  | .error e => .error e
  | .ok (temps, border) =>
    match algo with
    | .diffusion =>
      let D := mat p.n p.n (diffusionEntry p.n p.adj α)
      .ok (loop (matVec p.n D) nIter temps)
    | .dirichlet =>
      let P := mat p.n p.n (normalize p.n p.adj)
      .ok (loop (dirichletStep p.n P temps border) nIter temps)

/-- `Diffusion(n_iter, damping_factor).fit(input_matrix, values, values_row, values_col, init,
    force_bipartite)` and `Dirichlet(n_iter).fit(…)`; the outputs are `values_`, `values_row_`, `values_col_`.
    (`α` is ignored by Dirichlet.) -/
def fit (algo : Algo) (nRow nCol nnz : Nat) (B : Nat → Nat → Rat) (a : Args) (nIter : Int) (α : Rat) :
    Except PyErr Out :=
  -- the constructor
  if nIter ≤ 0 then .error .valueError else
  match getAdjacencyValues nRow nCol nnz B a with
  | .error e => .error e
  | .ok p =>
    match fitVector algo p a.init nIter.toNat α with
    | .error e => .error e
    | .ok v => .ok (splitVars p.bipartite nRow v)

/-! ### the return paths of `BaseRegressor` -/

/-- `predict(columns)`: `values_col_` when `columns` is true (`None` after a fit on an adjacency matrix — `fit`
    starts with `_init_vars()`), else `values_` -/
def predict (o : Out) (columns : Bool) : Option (List Rat) :=
  if columns then o.valuesCol else some o.values

/-- `fit_predict(…)`: `fit`, then `values_` -/
def fitPredict (algo : Algo) (nRow nCol nnz : Nat) (B : Nat → Nat → Rat) (a : Args) (nIter : Int) (α : Rat) :
    Except PyErr (List Rat) :=
  (fit algo nRow nCol nnz B a nIter α).map (·.values)

end SkNet.Heat
