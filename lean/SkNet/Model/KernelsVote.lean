/-
Checked-access model of sknetwork/classification/vote.pyx (`vote_update`, the repaired kernel), property C17.

Same loops as the model of C13 (`SkNet/Model/Vote.lean`: `neigh`, `accumulate`, `select`, `voteNode`, `sweep`,
`voteUpdate`), but every memoryview and `std::vector` access fails with `KErr.oob` outside the size of the array:
`indptr[i]`, `indptr[i+1]`, `indices[j]`, `labels[jj]`, `data[j]`, the reads `labels_neigh[jj]`, `votes_neigh[jj]`
of the two scratch vectors (pushed in lockstep, cleared per node), `votes[label]` (read-modify-write in the second
loop, read and reset in the third) and the write `labels[i]`.
-/
import SkNet.Model.Vote
import SkNet.Model.KernelsHeap

namespace SkNet.KVote
open SkNet SkNet.Vote
open SkNet.KHeap (KErr)

def rdL (l : List Int) (i : Nat) : Except KErr Int :=
  if i < l.length then .ok (l.getD i (-1)) else .error .oob

def rdR (l : List Rat) (i : Nat) : Except KErr Rat :=
  if i < l.length then .ok (l.getD i 0) else .error .oob

def rdA (a : Array Nat) (i : Nat) : Except KErr Nat :=
  if i < a.size then .ok (a.getD i 0) else .error .oob

def rdAR (a : Array Rat) (i : Nat) : Except KErr Rat :=
  if i < a.size then .ok (a.getD i 0) else .error .oob

/-- first inner loop over the stored entries `ps` of the row: `jj = indices[j]; labels_neigh.push_back(labels[jj]);
    votes_neigh.push_back(data[j])` -/
def neighLoop? (c : Csr Rat) (labels : List Int) : List Nat → Except KErr (List (Int × Rat))
  | [] => pure []
  | p :: ps => do
    let jj ← rdA c.indices p
    let l ← rdL labels jj
    let w ← rdAR c.data p
    let rest ← neighLoop? c labels ps
    pure ((l, w) :: rest)

/-- `for j in range(indptr[i], indptr[i + 1])` -/
def neigh? (c : Csr Rat) (labels : List Int) (i : Nat) : Except KErr (List (Int × Rat)) := do
  let lo ← rdA c.indptr i
  let hi ← rdA c.indptr (i + 1)
  neighLoop? c labels ((List.range (hi - lo)).map (· + lo))

/-- second inner loop: `for jj in range(label_neigh_size): label = labels_neigh[jj]; if label >= 0:
    labels_unique.insert(label); votes[label] += votes_neigh[jj]`; `k` is `jj`, `rem` the rounds left -/
def accFrom? (ln : List Int) (vn : List Rat) : Nat → Nat → Acc → Except KErr Acc
  | 0, _, a => pure a
  | rem+1, k, a => do
    let label ← rdL ln k
    if 0 ≤ label then do
      let w ← rdR vn k
      let v ← rdR a.votes label.toNat
      accFrom? ln vn rem (k + 1) { uniq := setInsert label a.uniq, votes := a.votes.set label.toNat (v + w) }
    else accFrom? ln vn rem (k + 1) a

/-- third inner loop: `for label in labels_unique: if votes[label] > best_score: …; votes[label] = 0` -/
def selLoop? : List Int → Sel → Except KErr Sel
  | [], s => pure s
  | l :: ls, s =>
    if 0 ≤ l then do
      let _ ← rdR s.votes l.toNat
      selLoop? ls (selStep s l)
    else .error .oob        -- a negative index (never inserted into `labels_unique`)

/-- one iteration of the outer loop, `i = index[ii]` -/
def voteNode? (c : Csr Rat) (st : St) (i : Nat) : Except KErr St := do
  let ps ← neigh? c st.labels i
  let ln := ps.map (·.1)
  let vn := ps.map (·.2)
  let a ← accFrom? ln vn ln.length 0 ⟨[], st.votes⟩
  let cur ← rdL st.labels i
  let s ← selLoop? a.uniq ⟨cur, -1, a.votes⟩
  pure ⟨st.labels.set i s.label, s.votes⟩

def sweep? (c : Csr Rat) : List Nat → St → Except KErr St
  | [], st => pure st
  | i :: is, st => do
    let st' ← voteNode? c st i
    sweep? c is st'

/-- `vote_update(indptr, indices, data, labels, index)` with checked accesses (`votes` has `n_labels` cells) -/
def voteUpdate? (c : Csr Rat) (labels : List Int) (index : List Nat) : Except KErr (List Int) := do
  let st ← sweep? c index ⟨labels, List.replicate (nLabels labels) 0⟩
  pure st.labels

end SkNet.KVote
