/-
Model of `from_graphml` (sknetwork/data/parse.py, property C18): the element walk over an abstract XML tree.

The document is what `ElementTree` hands over: the children of the root (`graph`, `key`, … elements with
their full tags, namespace included), the children of the graph element (node / edge / anything else) with
the attributes the code reads, and the `<data>` children of an edge.  Only what reaches the adjacency matrix
and the names is modelled (node / edge attribute arrays and descriptions are not).

Walk, as in the code:
  pass 1  root children whose tag ends with `graph`: `edgedefault` (KeyError if absent), count nodes and edges
          (an edge counts twice if it is undirected: its own `directed` attribute ≠ "true", or no such attribute
          and `edgedefault == "undirected"`), `parse.nodeids == "canonical"` turns the names off;
  pass 2  root children whose tag ends with `key`: the key named `weight_key` gives the type, the id and the
          default of the weights (children whose tag ends with `default`);
  nodes   names in document order, `node_map[id] = number`;
  edges   `row / col / dat` filled in document order, the reversed copy right after an undirected edge;
  result  `csr_matrix((dat, (row, col)), shape=(n_nodes, n_nodes))`.
-/
import SkNet.Model.Ingest

namespace SkNet.GraphML
open SkNet.Ingest

inductive PyErr
  | keyError | valueError
deriving DecidableEq, Repr

def PyErr.show : PyErr → String
  | .keyError => "KeyError" | .valueError => "ValueError"

/-- `s.endswith(t)` -/
def endsWith (s t : String) : Bool := t.toList.isSuffixOf s.toList

/-- a child of the graph element -/
structure Child where
  tag : String
  id : Option String := none
  source : Option String := none
  target : Option String := none
  directed : Option String := none
  /-- the `<data key=…>text</data>` children (tag ending with `data`) -/
  data : List (String × String) := []
deriving Repr

/-- a `key` element of the root -/
structure Key where
  id : Option String
  name : Option String
  type : Option String
  /-- texts of the children whose tag ends with `default` -/
  defaults : List String
deriving Repr

structure Doc where
  /-- is there a root child whose tag ends with `graph` -/
  hasGraph : Bool
  edgedefault : Option String
  nodeids : Option String
  children : List Child
  keys : List Key
deriving Repr

/-- `java_type_to_python_type` restricted to the weight: the numpy dtype kind, `none` for an unknown type -/
def kindOfType (t : String) : Option Kind :=
  if t = "boolean" then some .bool
  else if t = "int" then some .int
  else if t = "long" ∨ t = "float" ∨ t = "double" then some .float
  else none

/-- `weight_type(text)`: `int(text)`, `float(text)`, `bool(text)` -/
def convert (num : String → Option Rat) (k : Kind) (text : String) : Except PyErr Rat :=
  match k with
  | .bool => .ok (if text = "" then 0 else 1)
  | .int => match num text with
    | some r => if r.den = 1 then .ok r else .error .valueError
    | none => .error .valueError
  | .float => match num text with
    | some r => .ok r
    | none => .error .valueError

def isNode (c : Child) : Bool := endsWith c.tag "node"
def isEdge (c : Child) : Bool := !isNode c && endsWith c.tag "edge"

/-- is the reversed copy of the edge added -/
def duplicated (symmetrize : Bool) (c : Child) : Bool :=
  match c.directed with
  | some d => d != "true"
  | none => symmetrize

structure WeightSpec where
  kind : Kind
  id : Option String
  default : Rat

/-- pass 2: the last key named `weight_key` decides -/
def weightSpec (num : String → Option Rat) (weightKey : String) :
    List Key → WeightSpec → Except PyErr WeightSpec
  | [], ws => .ok ws
  | k :: ks, ws =>
    match k.name, k.type with
    | some name, some type =>
      if name = weightKey then
        match kindOfType type, k.id with
        | some kind, some id =>
          -- `default_weight = attribute_type(text)` for every default child, the last one stays
          match k.defaults.foldl (fun acc t => match acc with
              | .error e => .error e
              | .ok _ => (convert num kind t).map some) (.ok none : Except PyErr (Option Rat)) with
          | .error e => .error e
          | .ok d => weightSpec num weightKey ks ⟨kind, some id, d.getD ws.default⟩
        | _, none => .error .keyError
        | none, _ => .error .valueError
      else weightSpec num weightKey ks ws
    | _, _ => .error .keyError

/-- the node number of an end point of an edge -/
def endpoint (naming : Bool) (nodeIds : List String) (parseNat : String → Option Nat) (s : Option String) :
    Except PyErr Nat :=
  match s with
  | none => .error .keyError
  | some s =>
    if naming then
      -- `node_map[name] = number`: a repeated id keeps its last number
      match (nodeIds.zip (List.range nodeIds.length)).reverse.find? (fun p => p.1 = s) with
      | some p => .ok p.2
      | none => .error .keyError
    else
      match parseNat (String.ofList (s.toList.drop 1)) with
      | some n => .ok n
      | none => .error .valueError

/-- the weight of an edge: the last `<data>` child carrying the weight key, else the default -/
def edgeWeight (num : String → Option Rat) (ws : WeightSpec) (otherKeys : List String) (c : Child) :
    Except PyErr Rat :=
  c.data.foldl (fun acc d => match acc with
    | .error e => .error e
    | .ok w =>
      if some d.1 = ws.id then convert num ws.kind d.2
      else if otherKeys.contains d.1 then .ok w
      else .error .keyError) (.ok ws.default)

structure Result where
  matrix : Coo
  names : Option (List String)

/-- the COO triples in the order the code fills `row`, `col`, `dat` -/
def triples (num : String → Option Rat) (parseNat : String → Option Nat) (ws : WeightSpec) (otherKeys : List String)
    (naming symmetrize : Bool) (nodeIds : List String) : List Child → Except PyErr (List (Nat × Nat × Rat))
  | [] => .ok []
  | c :: cs =>
    match endpoint naming nodeIds parseNat c.source, endpoint naming nodeIds parseNat c.target,
          edgeWeight num ws otherKeys c, triples num parseNat ws otherKeys naming symmetrize nodeIds cs with
    | .ok i, .ok j, .ok w, .ok rest =>
      .ok ((i, j, w) :: (if duplicated symmetrize c then (j, i, w) :: rest else rest))
    | .error e, _, _, _ => .error e
    | _, .error e, _, _ => .error e
    | _, _, .error e, _ => .error e
    | _, _, _, .error e => .error e

/-- `symmetrize = (graph.attrib['edgedefault'] == 'undirected')` -/
def Doc.symmetrize (doc : Doc) : Bool := doc.edgedefault == some "undirected"

/-- `naming_nodes = not (graph.attrib['parse.nodeids'] == 'canonical')` -/
def Doc.naming (doc : Doc) : Bool := !(doc.nodeids == some "canonical")

def Doc.nodes (doc : Doc) : List Child := doc.children.filter isNode
def Doc.edges (doc : Doc) : List Child := doc.children.filter isEdge
def Doc.nodeIds (doc : Doc) : List String := doc.nodes.map fun c => c.id.getD ""

/-- ids of the keys that do not carry the weight -/
def Doc.otherKeys (doc : Doc) (weightKey : String) : List String :=
  doc.keys.filterMap fun k => if k.name = some weightKey then none else k.id

/-- `from_graphml(file, weight_key)` -/
def fromGraphml (num : String → Option Rat) (parseNat : String → Option Nat) (weightKey : String) (doc : Doc) :
    Except PyErr Result :=
  if !doc.hasGraph then
    -- keys are still read (their errors come first), then `ValueError('No graph defined')`
    match weightSpec num weightKey doc.keys ⟨.bool, none, 1⟩ with
    | .error e => .error e
    | .ok _ => .error .valueError
  else
    match doc.edgedefault with
    | none => .error .keyError
    | some _ =>
      match weightSpec num weightKey doc.keys ⟨.bool, none, 1⟩ with
      | .error e => .error e
      | .ok ws =>
        -- `node.attrib['id']` is read only when the nodes are named
        if doc.naming && doc.nodes.any (fun c => c.id.isNone) then .error .keyError
        else
          match triples num parseNat ws (doc.otherKeys weightKey) doc.naming doc.symmetrize doc.nodeIds doc.edges with
          | .error e => .error e
          | .ok ts =>
            let n := doc.nodes.length
            if ts.any (fun t => decide (n ≤ t.1) || decide (n ≤ t.2.1)) then .error .valueError
            else .ok ⟨csrOf ⟨n, n, ws.kind, ts⟩, if doc.naming then some doc.nodeIds else none⟩

end SkNet.GraphML
