/-
Model of `from_graphml` (sknetwork/data/parse.py, property C18): the element walk over an abstract XML tree.

The document is what `ElementTree` hands over: the children of the root (`graph`, `key`, … elements with
their full tags, namespace included), the children of the graph element (node / edge / anything else) with
the attributes the code reads, and the `<data>` children of an edge.  Only what reaches the adjacency matrix
and the names is modelled (node / edge attribute arrays and descriptions are not).

Walk, as in the code:
  pass 1  root children whose tag ends with `graph`: `edgedefault` (KeyError if absent), count nodes and edges
          (an edge counts twice if it is undirected: its own `directed` attribute ≠ "true", or no such attribute
          and `edgedefault == "undirected"`), `parse.nodeids == "canonical"` turns the names off;
  pass 2  root children whose tag ends with `key`: the key named `weight_key` gives the type, the id and the
          default of the weights (children whose tag ends with `default`);
  nodes   names in document order, `node_map[id] = number`;
  edges   `row / col / dat` filled in document order, the reversed copy right after an undirected edge;
  result  `csr_matrix((dat, (row, col)), shape=(n_nodes, n_nodes))`.
-/
import SkNet.Model.Ingest

namespace SkNet.GraphML
open SkNet.Ingest

inductive PyErr
  | keyError | valueError | typeError | attributeError | overflowError
deriving DecidableEq, Repr

def PyErr.show : PyErr → String
  | .keyError => "KeyError" | .valueError => "ValueError" | .typeError => "TypeError"
  | .attributeError => "AttributeError" | .overflowError => "OverflowError"

/-- `s.endswith(t)` -/
def endsWith (s t : String) : Bool := t.toList.isSuffixOf s.toList

/-- a child of the graph element -/
structure Child where
  tag : String
  id : Option String := none
  source : Option String := none
  target : Option String := none
  directed : Option String := none
  /-- the `<data key=…>text</data>` children (tag ending with `data`) -/
  data : List (String × String) := []
deriving Repr

/-- a `key` element of the root -/
structure Key where
  id : Option String
  name : Option String
  type : Option String
  /-- the attribute `for` -/
  for_ : Option String
  /-- texts of the children whose tag ends with `default` -/
  defaults : List String
deriving Repr

structure Doc where
  /-- is there a root child whose tag ends with `graph` -/
  hasGraph : Bool
  edgedefault : Option String
  nodeids : Option String
  children : List Child
  keys : List Key
deriving Repr

/-- the Python type `java_type_to_python_type` returns -/
inductive PType
  | bool | int | float | str
deriving DecidableEq, Repr

/-- `java_type_to_python_type`: `none` when it returns `None` (an unknown type name) -/
def ptypeOf (t : String) : Option PType :=
  if t = "boolean" then some .bool
  else if t = "int" ∨ t = "long" then some .int
  else if t = "string" then some .str
  else if t = "float" ∨ t = "double" then some .float
  else none

/-- numpy dtype kind of the weights (`np.full(n_edges, default_weight, dtype=weight_type)`; an unknown type
    gives `dtype=None`, i.e. the integer default) -/
def kindOf : Option PType → Kind
  | some .bool => .bool
  | some .int => .int
  | some .float => .float
  | some .str => .float
  | none => .int

def isSpaceChar (c : Char) : Bool := c = ' ' || c = '\t' || c = '\n' || c = '\r'

/-- `text.strip().lower()` -/
def trimLower (s : String) : String :=
  String.ofList (((s.toList.dropWhile isSpaceChar).reverse.dropWhile isSpaceChar).reverse.map Char.toLower)

/-- `parse_value(value_type, text)`: `int(text)`, `float(text)`, `str(text)`, and for booleans
    `text.strip().lower() in ('true', '1')`; calling the `None` of an unknown type is a TypeError.
    The value is returned as a rational (0 for a string). -/
def convert (num : String → Option Rat) (t : Option PType) (text : String) : Except PyErr Rat :=
  match t with
  | none => .error .typeError
  | some .bool => .ok (if trimLower text = "true" ∨ trimLower text = "1" then 1 else 0)
  | some .int =>
    if text = "" then .error .typeError          -- an empty element: `int(None)`
    else match num text with
    | some r =>
      if r.den = 1 then
        -- the value is stored in an int64 array
        (if r.num.natAbs < 2 ^ 63 then .ok r else .error .overflowError)
      else .error .valueError
    | none => .error .valueError
  | some .float =>
    if text = "" then .error .typeError          -- `float(None)`
    else match num text with
    | some r => .ok r
    | none => .error .valueError
  | some .str => .ok 0

def isNode (c : Child) : Bool := endsWith c.tag "node"
def isEdge (c : Child) : Bool := !isNode c && endsWith c.tag "edge"

/-- is the reversed copy of the edge added -/
def duplicated (symmetrize : Bool) (c : Child) : Bool :=
  match c.directed with
  | some d => d != "true"
  | none => symmetrize

structure WeightSpec where
  ptype : Option PType
  id : Option String
  default : Rat

def WeightSpec.kind (ws : WeightSpec) : Kind := kindOf ws.ptype

/-- a key that does not carry the weight: `keys[id] = [attribute_name, attribute_type]`, and its `for` -/
structure OtherKey where
  id : String
  name : String
  ptype : Option PType
  for_ : String
deriving Repr

/-- every text converts (`attribute_type(text)` for each `<default>` child); the last value -/
def convertAll (num : String → Option Rat) (t : Option PType) : List String → Option Rat → Except PyErr (Option Rat)
  | [], acc => .ok acc
  | x :: xs, _ =>
    match convert num t x with
    | .error e => .error e
    | .ok v => convertAll num t xs (some v)

/-- defaults of the GraphML DTD: a key without `attr.name` is named by its id, without `attr.type` it is a
    string, without `for` it is for all elements -/
def Key.nameD (k : Key) : String := k.name.getD (k.id.getD "")
def Key.typeD (k : Key) : String := k.type.getD "string"
def Key.forD (k : Key) : String := k.for_.getD "all"

/-- is this key the weight key: named `weight_key`, and not declared for nodes -/
def isWeightKey (weightKey : String) (k : Key) : Bool :=
  k.nameD == weightKey && !(k.forD == "node")

/-- pass 2 over the `key` elements: the last weight key decides type, id and default of the weights; the other
    keys are registered (`keys[id]`), their defaults converted when they hold node or edge data -/
def scanKeys (num : String → Option Rat) (weightKey : String) :
    List Key → WeightSpec → List OtherKey → Except PyErr (WeightSpec × List OtherKey)
  | [], ws, others => .ok (ws, others)
  | k :: ks, ws, others =>
    match k.id with
    | none => .error .keyError
    | some id =>
      if isWeightKey weightKey k then
        match convertAll num (ptypeOf k.typeD) k.defaults none with
        | .error e => .error e
        | .ok d => scanKeys num weightKey ks ⟨ptypeOf k.typeD, some id, d.getD ws.default⟩ others
      else
        match (if k.forD = "node" ∨ k.forD = "edge" ∨ k.forD = "all"
               then convertAll num (ptypeOf k.typeD) k.defaults none else .ok none) with
        | .error e => .error e
        | .ok _ => scanKeys num weightKey ks ws (others ++ [⟨id, k.nameD, ptypeOf k.typeD, k.forD⟩])

/-- does a key declared for `fr` hold data of elements of kind `kind` ("node" / "edge") -/
def holds (fr kind : String) : Bool := fr == kind || fr == "all"

/-- `data.<kind>_attribute[keys[k][0]][i] = parse_value(keys[k][1], text)` for a `<data key=k>` child that is
    not the weight: the key must be registered, the text must convert, the container of that element kind must
    exist (some key declared for it) and hold an array of that name -/
def otherData (num : String → Option Rat) (others : List OtherKey) (kind : String) (k text : String) :
    Except PyErr Unit :=
  match others.reverse.find? (fun o => o.id = k) with
  | none => .error .keyError
  | some o =>
    match convert num o.ptype text with
    | .error e => .error e
    | .ok _ =>
      if !others.any (fun o' => holds o'.for_ kind) then .error .attributeError
      else if !others.any (fun o' => holds o'.for_ kind && o'.name == o.name) then .error .keyError
      else .ok ()

/-- one `<data>` child of an element of the given kind -/
def dataStep (num : String → Option Rat) (others : List OtherKey) (kind : String)
    (acc : Except PyErr Unit) (d : String × String) : Except PyErr Unit :=
  match acc with
  | .error e => .error e
  | .ok _ => otherData num others kind d.1 d.2

/-- the `<data>` children of the node elements -/
def nodesData (num : String → Option Rat) (others : List OtherKey) (nodes : List Child) : Except PyErr Unit :=
  nodes.foldl (fun acc c => c.data.foldl (dataStep num others "node") acc) (.ok ())

/-- the node number of an end point of an edge -/
def endpoint (naming : Bool) (nodeIds : List String) (parseNat : String → Option Nat) (s : Option String) :
    Except PyErr Nat :=
  match s with
  | none => .error .keyError
  | some s =>
    if naming then
      -- `node_map[name] = number`: a repeated id keeps its last number
      match (nodeIds.zip (List.range nodeIds.length)).reverse.find? (fun p => p.1 = s) with
      | some p => .ok p.2
      | none => .error .keyError
    else
      match parseNat (String.ofList (s.toList.drop 1)) with
      | some n => .ok n
      | none => .error .valueError

/-- the weight of an edge: the last `<data>` child carrying the weight key, else the default -/
def edgeWeight (num : String → Option Rat) (ws : WeightSpec) (others : List OtherKey) (c : Child) :
    Except PyErr Rat :=
  c.data.foldl (fun acc d => match acc with
    | .error e => .error e
    | .ok w =>
      if some d.1 = ws.id then convert num ws.ptype d.2
      else match otherData num others "edge" d.1 d.2 with
        | .error e => .error e
        | .ok _ => .ok w) (.ok ws.default)

structure Result where
  matrix : Coo
  names : Option (List String)

/-- the COO triples in the order the code fills `row`, `col`, `dat` -/
def triples (num : String → Option Rat) (parseNat : String → Option Nat) (ws : WeightSpec) (otherKeys : List OtherKey)
    (naming symmetrize : Bool) (nodeIds : List String) : List Child → Except PyErr (List (Nat × Nat × Rat))
  | [] => .ok []
  | c :: cs =>
    match endpoint naming nodeIds parseNat c.source, endpoint naming nodeIds parseNat c.target,
          edgeWeight num ws otherKeys c, triples num parseNat ws otherKeys naming symmetrize nodeIds cs with
    | .ok i, .ok j, .ok w, .ok rest =>
      .ok ((i, j, w) :: (if duplicated symmetrize c then (j, i, w) :: rest else rest))
    | .error e, _, _, _ => .error e
    | _, .error e, _, _ => .error e
    | _, _, .error e, _ => .error e
    | _, _, _, .error e => .error e

/-- `symmetrize = (graph.attrib['edgedefault'] == 'undirected')` -/
def Doc.symmetrize (doc : Doc) : Bool := doc.edgedefault == some "undirected"

/-- `naming_nodes = not (graph.attrib['parse.nodeids'] == 'canonical')` -/
def Doc.naming (doc : Doc) : Bool := !(doc.nodeids == some "canonical")

def Doc.nodes (doc : Doc) : List Child := doc.children.filter isNode
def Doc.edges (doc : Doc) : List Child := doc.children.filter isEdge
def Doc.nodeIds (doc : Doc) : List String := doc.nodes.map fun c => c.id.getD ""

/-- `from_graphml(file, weight_key)` -/
def fromGraphml (num : String → Option Rat) (parseNat : String → Option Nat) (weightKey : String) (doc : Doc) :
    Except PyErr Result :=
  if !doc.hasGraph then
    -- keys are still read (their errors come first), then `ValueError('No graph defined')`
    match scanKeys num weightKey doc.keys ⟨some .bool, none, 1⟩ [] with
    | .error e => .error e
    | .ok _ => .error .valueError
  else
    match doc.edgedefault with
    | none => .error .keyError
    | some _ =>
      match scanKeys num weightKey doc.keys ⟨some .bool, none, 1⟩ [] with
      | .error e => .error e
      | .ok (ws, others) =>
        -- `node.attrib['id']` is read only when the nodes are named
        if doc.naming && doc.nodes.any (fun c => c.id.isNone) then .error .keyError
        else
          match nodesData num others doc.nodes with
          | .error e => .error e
          | .ok _ =>
            match triples num parseNat ws others doc.naming doc.symmetrize doc.nodeIds doc.edges with
            | .error e => .error e
            | .ok ts =>
              let n := doc.nodes.length
              if ts.any (fun t => decide (n ≤ t.1) || decide (n ≤ t.2.1)) then .error .valueError
              -- weights declared as strings: scipy refuses the dtype
              else if ws.ptype = some .str then .error .valueError
              else .ok ⟨csrOf ⟨n, n, ws.kind, ts⟩, if doc.naming then some doc.nodeIds else none⟩

end SkNet.GraphML
