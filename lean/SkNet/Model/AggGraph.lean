/-
Model of `AggregateGraph` (sknetwork/hierarchy/paris.pyx): the dict-of-dicts `neighbors`, the dicts
`cluster_sizes`, `cluster_out_weights`, `cluster_in_weights`, `next_cluster`, and `merge`.
Shared by Paris (C07) and by the tree metrics (C08).  Generic in the scalar (`Rat` for proofs and exact
runs, `Float` for the bit-level runs of Paris).

Sets of the code (`set(keys) & …`, `{node1, node2}`) are iterated in a fixed order here (dict order,
`node1` before `node2`); the iteration order of a Python set only changes the insertion order inside
`neighbors[new_node]` and the order of the additions into the self-loop weight.
-/
import SkNet.Model.Dendro

namespace SkNet.Agg
open SkNet SkNet.Dendro

structure AggGraph (α : Type) where
  next : Nat
  nb : Dict (Dict α)
  sizes : Dict Nat
  outW : Dict α
  inW : Dict α

section
variable {α : Type} [Add α] [OfNat α 0]

/-- stored entries of the (already normalised) symmetric matrix, row by row: `(column, value)` -/
def AggGraph.init (rows : List (List (Nat × α))) (outW inW : List α) : AggGraph α :=
  let n := rows.length
  { next := n
    -- `neighbors[i][j] = neighbors[i].get(j, 0.) + data / total`: duplicate entries of a non-canonical CSR matrix add up
    nb := (List.range n).map fun i => (i, (rows.getD i []).foldl
      (fun d (p : Nat × α) => d.set p.1 ((d.get? p.1).getD 0 + p.2)) [])
    sizes := (List.range n).map fun i => (i, 1)
    outW := (List.range n).map fun i => (i, outW.getD i 0)
    inW := (List.range n).map fun i => (i, inW.getD i 0) }

/-- `d[k]` of a dict of dicts, empty if absent (the code only reads existing keys) -/
def row (nb : Dict (Dict α)) (k : Nat) : Dict α := (nb.get? k).getD []

/-- `nb[a][b] = v` -/
def setEntry (nb : Dict (Dict α)) (a b : Nat) (v : α) : Dict (Dict α) :=
  nb.set a ((row nb a).set b v)

/-- `nb[a].pop(b)` (removal part) -/
def delEntry (nb : Dict (Dict α)) (a b : Nat) : Dict (Dict α) :=
  nb.set a ((row nb a).erase b)

def getEntry (nb : Dict (Dict α)) (a b : Nat) : α := ((row nb a).get? b).getD 0

/-- body of `for node in common_neighbors` -/
def commonStep (node1 node2 new : Nat) (nb : Dict (Dict α)) (node : Nat) : Dict (Dict α) :=
  let v := getEntry nb node1 node + getEntry nb node2 node
  let nb := delEntry (delEntry nb node1 node) node2 node
  let nb := setEntry nb new node v
  let w := getEntry nb node node1 + getEntry nb node node2
  let nb := delEntry (delEntry nb node node1) node node2
  setEntry nb node new w

/-- body of `for neighbor in set(neighbors[node].keys()) - {node1, node2}` -/
def otherStep (node new : Nat) (nb : Dict (Dict α)) (neighbor : Nat) : Dict (Dict α) :=
  let v := getEntry nb node neighbor
  let nb := delEntry nb node neighbor
  let nb := setEntry nb new neighbor v
  let w := getEntry nb neighbor node
  let nb := delEntry nb neighbor node
  setEntry nb neighbor new w

/-- body of `for other_node in {node1, node2}` -/
def selfStep (node new : Nat) (nb : Dict (Dict α)) (other : Nat) : Dict (Dict α) :=
  if (row nb node).contains other then
    setEntry nb new new (getEntry nb new new + getEntry nb node other)
  else nb

/-- body of `for node in {node1, node2}` -/
def nodeStep (node1 node2 new : Nat) (nodes : List Nat) (nb : Dict (Dict α)) (node : Nat) : Dict (Dict α) :=
  let others := (row nb node).keys.filter fun k => k != node1 && k != node2
  let nb := others.foldl (otherStep node new) nb
  let nb := nodes.foldl (selfStep node new) nb
  nb.erase node

/-- the dict of dicts after `merge(node1, node2)` -/
def mergeNb (nb : Dict (Dict α)) (node1 node2 new : Nat) : Dict (Dict α) :=
  -- self.neighbors[new_node] = {}; self.neighbors[new_node][new_node] = 0
  let nb0 := nb.set new [(new, (0 : α))]
  let keys1 := (row nb0 node1).keys
  let keys2 := (row nb0 node2).keys
  let common := keys1.filter fun k => keys2.contains k && k != node1 && k != node2
  let nb1 := common.foldl (commonStep node1 node2 new) nb0
  let nodes := if node1 = node2 then [node1] else [node1, node2]
  nodes.foldl (nodeStep node1 node2 new nodes) nb1

/-- `AggregateGraph.merge(node1, node2)` -/
def AggGraph.merge (g : AggGraph α) (node1 node2 : Nat) : AggGraph α :=
  let new := g.next
  let popD {β : Type} (d : Dict β) (k : Nat) (dflt : β) : β := (d.get? k).getD dflt
  { next := g.next + 1
    nb := mergeNb g.nb node1 node2 new
    sizes := ((g.sizes.erase node1).erase node2).set new (popD g.sizes node1 0 + popD g.sizes node2 0)
    outW := ((g.outW.erase node1).erase node2).set new (popD g.outW node1 0 + popD g.outW node2 0)
    inW := ((g.inW.erase node1).erase node2).set new (popD g.inW node1 0 + popD g.inW node2 0) }

end

end SkNet.Agg
