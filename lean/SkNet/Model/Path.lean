/-
Model of sknetwork/path: distances.py, shortest_path.py, search.py, dag.py (property C10, routing of C03).

Mirrors the code loop for loop:
* `get_distances`  : argument routing (source / source_row / source_col / transpose / force_bipartite,
                     the ValueErrors), then the frontier loop
                       while 1: distance += 1; mask = (Aᵀ·reach) & ~reach; if sum(mask)==0: break; …
                     (`bfsLoop`, fuel = number of rounds allowed; `bfs_fuel_suffices` in Properties/C10)
* `get_dag`        : the loop over `np.unique(order)` that zeroes COO entries (`dagLoop`)
* `get_shortest_path`, `breadth_first_search` (argsort is a parameter: any sorting permutation).
The graph enters as `n` and an edge predicate `edge i j` (= a stored non-zero entry (i,j)).
-/
import SkNet.Model.Basic

namespace SkNet.Path

inductive PyErr
  | valueError | indexError | typeError
deriving DecidableEq, Repr

def PyErr.show : PyErr → String
  | .valueError => "ValueError" | .indexError => "IndexError" | .typeError => "TypeError"

/-! ### the frontier loop of `get_distances` -/

/-- `np.sum(mask) == 0` -/
def noneSet (m : List Bool) : Bool := m.all (fun b => !b)

/-- `adjacency_transpose.dot(reach).astype(bool) & ~reach` -/
def newMask (n : Nat) (edge : Nat → Nat → Bool) (reach : List Bool) : List Bool :=
  tab n fun v => (List.range n).any (fun u => reach.getD u false && edge u v) && !(reach.getD v false)

/-- the `while 1:` loop; `d` is the value of `distance` on entry, `none` = fuel exhausted -/
def bfsLoop (n : Nat) (edge : Nat → Nat → Bool) :
    Nat → Nat → List Int → List Bool → Option (List Int)
  | 0, _, _, _ => none
  | fuel+1, d, dist, reach =>
    let mask := newMask n edge reach
    if noneSet mask then some dist
    else bfsLoop n edge fuel (d+1)
          (tab n fun v => if mask.getD v false then ((d+1 : Nat) : Int) else dist.getD v (-1))
          (tab n fun v => reach.getD v false || mask.getD v false)

/-- distances from the nodes selected by the boolean mask `src` (list of length `n`) -/
def distancesFromMask (n : Nat) (edge : Nat → Nat → Bool) (src : List Bool) : Option (List Int) :=
  bfsLoop n edge (n+1) 0 (tab n fun v => if src.getD v false then 0 else -1)
    (tab n fun v => src.getD v false)

/-! ### argument routing of `get_distances` -/

structure DistArgs where
  source : Option (List Nat) := none
  sourceRow : Option (List Nat) := none
  sourceCol : Option (List Nat) := none
  transpose : Bool := false
  forceBipartite : Bool := false
deriving Repr

/-- `mask[idx] = 1` on a boolean vector of length `n`; an index `≥ n` is numpy's IndexError -/
def setMask (n : Nat) (mask : List Bool) (idx : List Nat) : Except PyErr (List Bool) :=
  if idx.all (· < n) then .ok (tab n fun v => mask.getD v false || idx.contains v)
  else .error .indexError

/-- The block adjacency `[[0,B],[Bᵀ,0]]` (rows first) of a biadjacency predicate. -/
def blockEdge (nRow : Nat) (b : Nat → Nat → Bool) (i j : Nat) : Bool :=
  if i < nRow then (if j < nRow then false else b i (j - nRow))
  else (if j < nRow then b j (i - nRow) else false)

structure Routed where
  bipartite : Bool
  nRow : Nat          -- n_row of `matrix` (after the optional transposition)
  nNodes : Nat
  mask : List Bool
deriving Repr

/-- Everything `get_distances` does before the loop. `nRow0 nCol0` is the shape of `input_matrix`. -/
def routeDistances (nRow0 nCol0 : Nat) (a : DistArgs) : Except PyErr Routed := do
  let (nRow, nCol) := if a.transpose then (nCol0, nRow0) else (nRow0, nCol0)
  let forceBip := a.forceBipartite || a.sourceRow.isSome || a.sourceCol.isSome
  let bipartite := forceBip || nRow != nCol
  let nNodes := if bipartite then nRow + nCol else nRow
  let mask0 := tab nNodes fun _ => false
  if bipartite then
    if a.source.isSome && a.sourceRow.isSome then throw .valueError
    let sourceRow := if a.source.isSome then a.source else a.sourceRow
    if sourceRow.isNone && a.sourceCol.isNone then throw .valueError
    let mask1 ← match sourceRow with
      | some s => setMask nNodes mask0 s
      | none => pure mask0
    let mask2 ← match a.sourceCol with
      | some s => setMask nNodes mask1 (s.map (nRow + ·))
      | none => pure mask1
    pure ⟨true, nRow, nNodes, mask2⟩
  else
    match a.source with
    | none => throw .valueError
    | some s => do
      let m ← setMask nNodes mask0 s
      pure ⟨false, nRow, nNodes, m⟩

/-- the graph `get_distances` runs on -/
def routedEdge (a : DistArgs) (r : Routed) (edge0 : Nat → Nat → Bool) : Nat → Nat → Bool :=
  let m := if a.transpose then (fun i j => edge0 j i) else edge0
  if r.bipartite then blockEdge r.nRow m else m

inductive DistOut
  | single (d : List Int)
  | pair (row col : List Int)
deriving Repr

/-- `get_distances(input_matrix, source, source_row, source_col, transpose, force_bipartite)`;
    `none` inside = the loop ran out of fuel (never happens: `Properties.C10.getDistances_fuel`). -/
def getDistances (nRow0 nCol0 : Nat) (edge0 : Nat → Nat → Bool) (a : DistArgs) :
    Except PyErr (Option DistOut) := do
  let r ← routeDistances nRow0 nCol0 a
  match distancesFromMask r.nNodes (routedEdge a r edge0) r.mask with
  | none => pure none
  | some d =>
    if r.bipartite then pure (some (.pair (d.take r.nRow) (d.drop r.nRow)))
    else pure (some (.single d))

/-! ### `get_dag` -/

/-- one COO entry -/
structure Entry where
  row : Nat
  col : Nat
  keep : Bool       -- dag.data (boolean)
deriving Repr, DecidableEq

/-- does the loop body for `value` zero this entry? (`order[dag.row] == value` [`& order[dag.col] <= value`]) -/
def kills (order : List Int) (value : Int) (e : Entry) : Bool :=
  if value < 0 then order.getD e.row 0 == value
  else order.getD e.row 0 == value && decide (order.getD e.col 0 ≤ value)

def stepE (order : List Int) (value : Int) (e : Entry) : Entry :=
  if kills order value e then { e with keep := false } else e

/-- body of `for value in np.unique(order)` -/
def dagStep (order : List Int) (value : Int) (es : List Entry) : List Entry :=
  es.map (stepE order value)

def dagLoop (order : List Int) (values : List Int) (es : List Entry) : List Entry :=
  values.foldl (fun es v => dagStep order v es) es

/-- `np.unique` as a set of values (the order of the loop is irrelevant: `getDag_loop_any_values`) -/
def unique (l : List Int) : List Int := l.eraseDups

/-- the one-pass mask of `get_dag` (current code): `dag.data[(order[dag.row] < 0) | (order[dag.col] <= order[dag.row])] = 0` -/
def maskE (order : List Int) (e : Entry) : Entry :=
  if decide (order.getD e.row 0 < 0) || decide (order.getD e.col 0 ≤ order.getD e.row 0) then { e with keep := false } else e

/-- `get_dag(adjacency, order=order)`: the surviving entries (after `eliminate_zeros`). -/
def getDagEntries (es : List Entry) (order : List Int) : List Entry :=
  (es.map (maskE order)).filter (·.keep)

/-- the same function as it was written at the pinned commit: a loop over `np.unique(order)` with one mask per value
    (replaced by the one-pass mask in /repo 25e6718d; `C10.getDag_onepass_eq_loop` relates the two) -/
def getDagEntriesLoop (es : List Entry) (order : List Int) : List Entry :=
  (dagLoop order (unique order) es).filter (·.keep)

/-- all stored non-zero entries of an `n × n` edge predicate, row-major (`astype(bool).tocoo()`) -/
def entriesOf (n : Nat) (edge : Nat → Nat → Bool) : List Entry :=
  (List.range n).flatMap fun i => ((List.range n).filter (edge i)).map fun j => ⟨i, j, true⟩

def pairsOf (es : List Entry) : List (Nat × Nat) := es.map fun e => (e.row, e.col)

/-- `get_dag(adjacency, source, order)` on a square matrix -/
def getDag (n : Nat) (edge : Nat → Nat → Bool) (source : Option (List Nat)) (order : Option (List Int)) :
    Except PyErr (Option (List (Nat × Nat))) :=
  match order with
  | some o => .ok (some (pairsOf (getDagEntries (entriesOf n edge) o)))
  | none =>
    match source with
    | none => .ok (some (pairsOf (getDagEntries (entriesOf n edge) (tab n fun i => (i : Int)))))
    | some s => do
      let d ← getDistances n n edge { source := some s }
      match d with
      | some (.single o) => pure (some (pairsOf (getDagEntries (entriesOf n edge) o)))
      | _ => pure none

/-! ### `get_shortest_path` -/

structure PathArgs where
  source : Option (List Nat) := none
  sourceRow : Option (List Nat) := none
  sourceCol : Option (List Nat) := none
  forceBipartite : Bool := false

/-- `get_shortest_path`: distances, then `get_dag` of the (block) adjacency ordered by distance.
    Returns the number of nodes of the result and its edges. -/
def getShortestPath (nRow0 nCol0 : Nat) (edge0 : Nat → Nat → Bool) (a : PathArgs) :
    Except PyErr (Option (Nat × List (Nat × Nat))) := do
  let d ← getDistances nRow0 nCol0 edge0
    { source := a.source, sourceRow := a.sourceRow, sourceCol := a.sourceCol,
      forceBipartite := a.forceBipartite }
  match d with
  | none => pure none
  | some (.pair r c) =>
    let n := nRow0 + nCol0
    pure (some (n, pairsOf (getDagEntries (entriesOf n (blockEdge nRow0 edge0)) (r ++ c))))
  | some (.single o) =>
    -- `get_dag` does `check_square`
    if nRow0 != nCol0 then throw .valueError
    else pure (some (nRow0, pairsOf (getDagEntries (entriesOf nRow0 edge0) o)))

/-! ### `breadth_first_search` -/

/-- insertion of `v` into a list of nodes sorted by `key`, before equal keys -/
def insertBy (key : Nat → Int) (v : Nat) : List Nat → List Nat
  | [] => [v]
  | w :: ws => if key v ≤ key w then v :: w :: ws else w :: insertBy key v ws

/-- a concrete stable argsort, standing for `np.argsort` (any sorting permutation is allowed) -/
def argsort (d : List Int) : List Nat :=
  (List.range d.length).foldr (insertBy (fun i => d.getD i 0)) []

/-- `breadth_first_search(adjacency, source)` given the permutation returned by argsort -/
def bfsOrderWith (d : List Int) (perm : List Nat) : List Nat :=
  perm.drop (d.filter (· < 0)).length

def breadthFirstSearch (n : Nat) (edge : Nat → Nat → Bool) (source : Nat) :
    Except PyErr (Option (List Nat)) := do
  let d ← getDistances n n edge { source := some [source] }
  match d with
  | some (.single o) => pure (some (bfsOrderWith o (argsort o)))
  | _ => pure none

end SkNet.Path
