/-
Model of the tree side of sknetwork/hierarchy (property C07):

* `Tree`                 : the nested lists built by LouvainIteration / LouvainHierarchy; `[k]` is `leaf k`,
                           a list of sub-trees is `node ts`
* `getIndex`             : `postprocess.get_index`
* `getDendrogram`        : `postprocess.get_dendrogram` (tree → rows `[i, j, -depth, size]` with the `size` dict and
                           the running `index`).  The (repaired, F25) code converts in a loop, from left to right, the
                           children that are still lists of more than one element (each becomes `[root]`) and then
                           merges them all — as the model does. (The pinned code called itself once per such child:
                           RecursionError from about 1 000 children on. Python's recursion limit is otherwise outside
                           the model: the depth of the recursion is now the depth of the tree.)
* `shiftHeights`         : `dendrogram[:, 2] += 1 - min(dendrogram[:, 2])`
* `recursiveLouvain`     : `LouvainIteration._recursive_louvain` — Louvain is a parameter (`oracle nodes` = the labels it
                           returned for the sub-graph on `nodes`)
* `getHierarchy`         : `LouvainHierarchy._get_hierarchy` — Louvain is the sequence of label vectors it returned
* `splitDendrogram`      : `postprocess.split_dendrogram`
-/
import SkNet.Model.Dendro

namespace SkNet.Hier
open SkNet SkNet.Dendro

inductive Tree
  | leaf (k : Nat)
  | node (ts : List Tree)
deriving Repr, Inhabited

/-! ### `get_index` -/

mutual
def getIndex : Tree → Nat
  | .leaf k => k
  | .node ts => getIndexList ts
def getIndexList : List Tree → Nat
  | [] => 0
  | t :: ts => max (getIndex t) (getIndexList ts)
end

/-! ### `get_dendrogram` -/

structure GState where
  rows : List (Row Int)
  index : Nat
  size : Dict Nat          -- defaultdict(lambda: 1)

def sizeOf' (size : Dict Nat) (k : Nat) : Nat := (size.get? k).getD 1

/-- the `while len(tree)` loop of the "merge all" branch: the remaining roots are popped from the end;
    `s` is the running size -/
def mergeRest (depth : Nat) : List Nat → Nat → GState → Nat × GState
  | [], s, st => (s, st)
  | k :: rest, s, st =>
    let s' := s + sizeOf' st.size k
    mergeRest depth rest s'
      { st with rows := st.rows ++ [{ i := st.index, j := k, h := -(depth : Int), s := s' }], index := st.index + 1 }

/-- the "merge all" branch on the roots of the children (given in list order; the code pops from the end) -/
def mergeAll (depth : Nat) (roots : List Nat) (st : GState) : Except PyErr (Nat × GState) :=
  match roots.reverse with
  | i :: j :: rest =>
    let s := sizeOf' st.size i + sizeOf' st.size j
    let st1 : GState :=
      { st with rows := st.rows ++ [{ i := i, j := j, h := -(depth : Int), s := s }], index := st.index + 1 }
    let (s', st2) := mergeRest depth rest s st1
    .ok (st2.index, { st2 with size := st2.size.set st2.index s' })
  | _ => .error .typeError

mutual
/-- converts the sub-tree, returns the id of its root -/
def procTree (depth : Nat) : Tree → GState → Except PyErr (Nat × GState)
  | .leaf k, st => .ok (k, st)
  | .node ts, st => do
    let (roots, st1) ← procChildren (depth + 1) ts st
    mergeAll depth roots st1
def procChildren (depth : Nat) : List Tree → GState → Except PyErr (List Nat × GState)
  | [], st => .ok ([], st)
  | t :: ts, st => do
    let (k, st1) ← procTree depth t st
    let (ks, st2) ← procChildren depth ts st1
    .ok (k :: ks, st2)
end

/-- `get_dendrogram(tree)`: nothing is done unless the top list has more than one element -/
def getDendrogram (t : Tree) : Except PyErr (List (Row Int)) :=
  match t with
  | .leaf _ => .ok []
  | .node ts =>
    if ts.length > 1 then
      (procTree 0 t { rows := [], index := getIndex t, size := [] }).map (·.2.rows)
    else .ok []

/-- `dendrogram[:, 2] += 1 - min(dendrogram[:, 2])`; an empty array has no column: IndexError -/
def shiftHeights (D : List (Row Int)) : Except PyErr (List (Row Int)) :=
  match D with
  | [] => .error .indexError
  | r :: rs =>
    let m := rs.foldl (fun m x => if x.h < m then x.h else m) r.h
    .ok (D.map fun x => { x with h := x.h + (1 - m) })

/-- what `LouvainIteration.fit` / `LouvainHierarchy.fit` do with their tree: `get_dendrogram`, the height shift,
    `reorder_dendrogram` -/
def treePipeline (t : Tree) : Except PyErr (Dendro Int) := do
  let d ← getDendrogram t
  let d ← shiftHeights d
  reorderDendrogram d

/-! ### LouvainIteration -/

/-- `np.unique(labels)` -/
def uniqueSorted (l : List Nat) : List Nat :=
  let rec ins (x : Nat) : List Nat → List Nat
    | [] => [x]
    | y :: ys => if x < y then x :: y :: ys else if x = y then y :: ys else y :: ins x ys
  l.foldr ins []

/-- `_recursive_louvain(adjacency, depth, nodes)`.  `hasEdge nodes` = the sub-matrix has an entry different from
    zero (`adjacency.count_nonzero()`; before /repo 3b5b52a3 the test was `adjacency.nnz`, the stored entries: F28);
    `oracle nodes` = labels returned by `Louvain.fit_predict` on it (used only when it has an edge and `depth ≠ 0`). -/
def recursiveLouvain (hasEdge : List Nat → Bool) (oracle : List Nat → List Nat) :
    Nat → Int → List Nat → Tree
  | 0, _, nodes => .node (nodes.map .leaf)
  | fuel + 1, depth, nodes =>
    let labels := if hasEdge nodes && depth != 0 then oracle nodes else nodes.map fun _ => 0
    let clusters := uniqueSorted labels
    if clusters.length == 1 then
      if nodes.length > 1 then .node (nodes.map .leaf)
      else .leaf (nodes.headD 0)
    else
      .node (clusters.map fun c =>
        let sub := (nodes.zip labels).filterMap fun p => if p.2 == c then some p.1 else none
        recursiveLouvain hasEdge oracle fuel (depth - 1) sub)

/-! ### LouvainHierarchy -/

/-- one round of the `while 1` loop: group the items by label -/
def groupItems (items : List Tree) (labels : List Nat) (labelsUnique : List Nat) : List Tree :=
  labelsUnique.map fun c =>
    let members := (items.zip labels).filterMap fun p => if p.2 == c then some p.1 else none
    match members with
    | [t] => t
    | ms => .node ms

/-- `_get_hierarchy`: `labelSeq` = the successive results of `fit_predict` (first on the graph, then on each
    aggregate).  `none` = the recorded sequence is too short. -/
def getHierarchyLoop : List (List Nat) → List Tree → List Nat → List Nat → Option (List Tree)
  | [], _, _, _ => none
  | next :: more, items, labels, labelsUnique =>
    let items' := groupItems items labels labelsUnique
    if labelsUnique.length == (uniqueSorted next).length then some items'
    else getHierarchyLoop more items' next (uniqueSorted next)

def getHierarchy (n : Nat) (labelSeq : List (List Nat)) : Option Tree :=
  match labelSeq with
  | [] => none
  | first :: more =>
    (getHierarchyLoop more ((List.range n).map .leaf) first (uniqueSorted first)).map fun items =>
      -- if len(tree) == 1 and len(tree[0]) > 1: tree = tree[0]
      match items with
      | [.node ms] => if ms.length > 1 then .node ms else .node items
      | _ => .node items

/-! ### `split_dendrogram` -/

structure SplitSide (α : Type) where
  rows : List (Row α)
  idNew : Nat
  size : Dict Nat
  id : Dict Nat

/-- the `if / elif / elif` block for one side -/
def splitSide (key : Nat) (r : Row α) (s : SplitSide α) : SplitSide α :=
  match s.id.get? r.i, s.id.get? r.j with
  | some idi, some idj =>
    let sz := (s.size.get? r.i).getD 0 + (s.size.get? r.j).getD 0
    { rows := s.rows ++ [{ i := idi, j := idj, h := r.h, s := sz }]
      idNew := s.idNew + 1
      size := ((s.size.erase r.i).erase r.j).set key sz
      id := ((s.id.set key s.idNew).erase r.i).erase r.j }
  | some idi, none =>
    { s with size := (s.size.erase r.i).set key ((s.size.get? r.i).getD 0), id := (s.id.erase r.i).set key idi }
  | none, some idj =>
    { s with size := (s.size.erase r.j).set key ((s.size.get? r.j).getD 0), id := (s.id.erase r.j).set key idj }
  | none, none => s

def splitLoop (n1 n2 : Nat) : Nat → List (Row α) → SplitSide α → SplitSide α → SplitSide α × SplitSide α
  | _, [], a, b => (a, b)
  | t, r :: rs, a, b => splitLoop n1 n2 (t + 1) rs (splitSide (n1 + n2 + t) r a) (splitSide (n1 + n2 + t) r b)

/-- `split_dendrogram(dendrogram, (n1, n2))`; the loop reads `n1 + n2 - 1` rows (IndexError if there are fewer) -/
def splitDendrogram (D : Dendro α) (n1 n2 : Nat) : Except PyErr (Dendro α × Dendro α) :=
  if D.length < n1 + n2 - 1 then .error .indexError
  else
    let a : SplitSide α := { rows := [], idNew := n1, size := (List.range n1).map fun i => (i, 1),
                             id := (List.range n1).map fun i => (i, i) }
    let b : SplitSide α := { rows := [], idNew := n2, size := (List.range n2).map fun i => (i + n1, 1),
                             id := (List.range n2).map fun i => (i + n1, i) }
    let (a', b') := splitLoop n1 n2 0 (D.take (n1 + n2 - 1)) a b
    .ok (a'.rows, b'.rows)

end SkNet.Hier
