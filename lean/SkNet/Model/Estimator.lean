/-
Estimators as state machines (property C16).

* `Est` : the description of one estimator class as `tools/translate/estimators.py` extracts it from the Python
  sources with `ast` (no execution): constructor parameters, what `__init__` writes and with which kind of value,
  what `fit` may read before it has assigned it, what it may / must assign, which attribute *objects* it
  modifies, which random sources it draws from.
* `Est.historyOK` : the decidable predicate "refitting cannot depend on the history"; `SkNet.C16.history_independent`
  proves what it means for every implementation that conforms to the description (`Sem`).
* `Sem`, `fit`, `run` : the semantics.  An object is a store of attribute values; `fit` is an *uninterpreted*
  function that may look only at the attributes of `readsFirst` and at its input (which includes the draws of
  the environment's generator, i.e. numpy's global one: the caller controls it with `np.random.seed`), assigns a
  set of attributes between `mustWrite` and `mayWrite`, and leaves everything else alone.
* `checkRandomState` : the branches of `utils/check.py:check_random_state` interpreted over a small world of
  generator objects (identity + state).
-/
import SkNet.Model.Basic

namespace SkNet.Estimator

/-- kind of value an attribute receives in `__init__` -/
inductive InitKind where
  /-- exactly the constructor argument `p` -/
  | param (p : String)
  /-- computed from constructor arguments (`modularity.lower()`, `check_n_jobs(n_jobs)`, …) -/
  | derived
  /-- a literal / `None` / an empty container -/
  | const
  /-- a new object of estimator class `cls` -/
  | obj (cls : String)
  /-- the constructor argument, or a new object of class `cls` when the argument is a string / `None` -/
  | normal (cls : String)
  /-- `check_random_state(p)`: a generator object created at construction time -/
  | rng (p : String)
  | other
deriving DecidableEq, Repr

/-- a random source on the fit path -/
inductive Rng where
  /-- the generator object created by `__init__` and stored in attribute `a` is consumed by `fit` -/
  | atInit (a : String)
  /-- a generator is created from attribute `a` (the seed) at each `fit` -/
  | atFit (a : String)
  /-- numpy's global generator (function `f`): part of the environment, controlled by `np.random.seed` -/
  | npGlobal (f : String)
  /-- `np.random.seed(…)` is called on the fit path -/
  | npSeed (s : String)
  /-- the C library's `rand()` inside compiled function `f`: process-global, no seed of the library reaches it -/
  | cRand (f : String)
  /-- a source seeded from the operating system at each call (`RandomState()`, ARPACK start vector without `v0`) -/
  | entropy (s : String)
  /-- a generator created with an explicit seed expression on the fit path -/
  | fresh (s : String)
deriving DecidableEq, Repr

def Rng.ok : Rng → Bool
  | .atFit _ => true
  | .npGlobal _ => true
  | .npSeed _ => true
  | .fresh _ => true
  | .atInit _ => false
  | .cRand _ => false
  | .entropy _ => false

def Rng.show : Rng → String
  | .atInit a => s!"atInit:{a}" | .atFit a => s!"atFit:{a}" | .npGlobal f => s!"npGlobal:{f}"
  | .npSeed _ => "npSeed" | .cRand f => s!"cRand:{f}" | .entropy s => s!"entropy:{s}" | .fresh s => s!"fresh:{s}"

structure Est where
  name : String
  params : List String
  init : List (String × InitKind)
  readsFirst : List String
  mayWrite : List String
  mustWrite : List String
  /-- (attribute, class of the object when statically known else "") -/
  deep : List (String × String)
  logs : List String
  /-- `if isinstance(self.x, str): self.x = C()` : (x, C) -/
  normalised : List (String × String)
  rng : List Rng
  /-- estimator classes instantiated locally on the fit path -/
  subs : List String
  blind : List String
  /-- attribute objects that `fit` (re)fits on every path (definite-assignment analysis of the pseudo-attribute `<fit:x>`) -/
  deepAlways : List String := []
  /-- attribute objects some fitted attribute of which `fit` reads (`self.x.attr`) at a point where it has not refitted
      them in the same call -/
  deepReadsUnfitted : List String := []
deriving Repr

namespace Est

def initAttrs (e : Est) : List String := e.init.map (·.1)
def normAttrs (e : Est) : List String := e.normalised.map (·.1)
def kindOf (e : Est) (a : String) : Option InitKind := (e.init.find? (·.1 == a)).map (·.2)

/-- attributes that `set_params` / the user may change between fits without leaving the theorem's scope:
    stored unchanged from a constructor argument and never assigned by `fit` -/
def setable (e : Est) : List String :=
  e.init.filterMap fun (a, k) => match k with
    | .param _ => if e.mayWrite.contains a then none else some a
    | _ => none

/-- `Algorithm.set_params({name: v})` (sknetwork/base.py): accepted iff `name` is a parameter of `__init__` other than
    `random_state` / `verbose` *and* an attribute of that very name exists on the object (otherwise ValueError) -/
def setParamAccepted (e : Est) (name : String) : Bool :=
  e.params.contains name && name != "random_state" && name != "verbose" && e.initAttrs.contains name

/-- **no stale attribute**: whatever `fit` may assign it assigns on every normal exit (logs excepted) -/
def noStale (e : Est) : Bool :=
  e.mayWrite.all fun a => e.mustWrite.contains a || e.logs.contains a

/-- **reads are stable**: an attribute read before `fit` has assigned it is never assigned by `fit` -/
def readsStable (e : Est) : Bool :=
  e.readsFirst.all fun a => !(e.mayWrite.contains a) && !(e.logs.contains a)

/-- the part of the hypothesis that the semantic theorem uses -/
def coreOK (e : Est) : Bool := e.noStale && e.readsStable

/-- what is wrong, for the report -/
def staleAttrs (e : Est) : List String :=
  e.mayWrite.filter fun a => !(e.mustWrite.contains a || e.logs.contains a)

def unstableReads (e : Est) : List String :=
  e.readsFirst.filter fun a => e.mayWrite.contains a || e.logs.contains a

def badRng (e : Est) : List Rng := e.rng.filter fun r => !r.ok

def lookup (tbl : List Est) (c : String) : Option Est := tbl.find? (·.name == c)

/-- random sources of a class and of the helper estimators it instantiates, transitively -/
def rngOK (tbl : List Est) : Nat → Est → Bool
  | 0, _ => false
  | fuel+1, e =>
    e.rng.all Rng.ok &&
    e.subs.all (fun c => match lookup tbl c with | some d => rngOK tbl fuel d | none => false) &&
    e.normalised.all (fun (_, c) => match lookup tbl c with | some d => rngOK tbl fuel d | none => false)

/-- The decidable hypothesis of history independence for a class of the table `tbl`.
    Attribute objects that `fit` modifies must be objects of a class that is itself history independent
    (created by `__init__`, or the normalised parameter), or a user-supplied parameter object (then the
    obligation is the one of *its* class: reported as an assumption), or an append-only log. -/
def historyOK (tbl : List Est) : Nat → Est → Bool
  | 0, _ => false
  | fuel+1, e =>
    e.blind.isEmpty && e.coreOK && rngOK tbl (fuel+1) e &&
    e.deep.all fun (a, c) =>
      e.logs.contains a ||
      (match e.kindOf a with
        | some (.obj c') => (match lookup tbl c' with | some d => historyOK tbl fuel d | none => false)
        | some (.normal c') => (match lookup tbl c' with | some d => historyOK tbl fuel d | none => false)
        | some (.param _) =>
            if c == "" then true   -- user-supplied object of unknown class: assumption, see `assumptions`
            else (match lookup tbl c with | some d => historyOK tbl fuel d | none => false)
        | _ => false)

/-- parameter objects whose own history independence is assumed -/
def assumptions (e : Est) : List String :=
  e.deep.filterMap fun (a, c) => match e.kindOf a with
    | some (.param _) => if c == "" then some a else none
    | _ => none

/-- first reason why `historyOK` fails, for the report -/
def whyNot (tbl : List Est) (e : Est) : String :=
  if !e.blind.isEmpty then "opaque:" ++ ";".intercalate e.blind
  else if !e.noStale then "stale:" ++ ",".intercalate e.staleAttrs
  else if !e.readsStable then "reads-own-writes:" ++ ",".intercalate e.unstableReads
  else if !(e.rng.all Rng.ok) then "rng:" ++ ",".intercalate (e.badRng.map Rng.show)
  else if !(rngOK tbl 8 e) then "rng-of-helper"
  else "deep:" ++ ",".intercalate (e.deep.map fun (a, c) => a ++ ":" ++ c)

end Est

/-! ### semantics -/

abbrev Val := Int
abbrev Store := String → Val

/-- An implementation of `fit` that conforms to a description. `Inp` is the input of `fit` *and* the state of
    the environment's random generator. `nrm a` is the idempotent normalisation that `fit` applies to a
    normalised parameter attribute before anything else (identity on every other attribute). -/
structure Sem (e : Est) (Inp : Type) where
  nrm : String → Val → Val
  nrm_idem : ∀ a v, nrm a (nrm a v) = nrm a v
  nrm_id : ∀ a v, a ∉ e.normAttrs → nrm a v = v
  /-- the attributes assigned by this call -/
  wr : Store → Inp → List String
  /-- and their values -/
  new : Store → Inp → Store
  wr_may : ∀ s x a, a ∈ wr s x → a ∈ e.mayWrite
  wr_must : ∀ s x a, a ∈ e.mustWrite → a ∈ wr s x
  /-- `fit` looks only at the attributes of `readsFirst` -/
  frame : ∀ s s' x, (∀ a, a ∈ e.readsFirst → s a = s' a) →
    wr s x = wr s' x ∧ ∀ a, a ∈ wr s x → new s x a = new s' x a

def Sem.normalise {e : Est} {Inp} (sem : Sem e Inp) (s : Store) : Store := fun a => sem.nrm a (s a)

/-- one call of `fit` -/
def Sem.fit {e : Est} {Inp} (sem : Sem e Inp) (s : Store) (x : Inp) : Store :=
  let s₁ := sem.normalise s
  fun a => if a ∈ sem.wr s₁ x then sem.new s₁ x a else s₁ a

/-- an operation of a history -/
inductive Op (Inp : Type) where
  | fit (x : Inp)
  | setParam (a : String) (v : Val)
  /-- a `fit` that raised: it had assigned the attributes `ws` (values `vals`) before the exception -/
  | fitRaise (x : Inp) (ws : List String) (vals : Store)

def Sem.apply {e : Est} {Inp} (sem : Sem e Inp) (s : Store) : Op Inp → Store
  | .fit x => sem.fit s x
  | .setParam a v => fun b => if b = a then v else s b
  | .fitRaise _ ws vals => fun b => if b ∈ ws then vals b else s b

def Sem.run {e : Est} {Inp} (sem : Sem e Inp) (s : Store) (ops : List (Op Inp)) : Store :=
  ops.foldl sem.apply s

/-- the object `__init__` builds from parameter values `p`: parameter attributes hold the arguments, every other
    attribute its construction-time constant `c0` -/
def Est.fresh (e : Est) (c0 p : Store) : Store := fun a => if a ∈ e.setable then p a else c0 a

/-- parameter values after the `set_params` of a history -/
def paramsAfter {Inp} (p : Store) (ops : List (Op Inp)) : Store :=
  ops.foldl (fun q op => match op with
    | .fit _ => q
    | .fitRaise _ _ _ => q
    | .setParam a v => fun b => if b = a then v else q b) p

/-- a history stays within the description: `set_params` only on setable attributes -/
def Op.wf {Inp} (e : Est) : Op Inp → Prop
  | .fit _ => True
  | .setParam a _ => a ∈ e.setable
  | .fitRaise _ ws _ => ∀ a, a ∈ ws → a ∈ e.mayWrite


/-- Sequential composition of two descriptions: a call that first does what `e₁` describes (e.g. the `fit` of an
    attribute object, its attributes named with a prefix; or a first phase of `fit`) and then what `e₂` describes.
    What `e₂` reads of the attributes `e₁` always assigns is no longer read "first". -/
def Est.seq (e₁ e₂ : Est) : Est :=
  { name := e₁.name ++ ";" ++ e₂.name, params := e₁.params ++ e₂.params, init := e₁.init ++ e₂.init,
    readsFirst := e₁.readsFirst ++ e₂.readsFirst.filter (fun a => !(e₁.mustWrite.contains a)),
    mayWrite := e₁.mayWrite ++ e₂.mayWrite, mustWrite := e₁.mustWrite ++ e₂.mustWrite,
    deep := e₁.deep ++ e₂.deep, logs := e₁.logs ++ e₂.logs, normalised := [],
    rng := e₁.rng ++ e₂.rng, subs := e₁.subs ++ e₂.subs, blind := e₁.blind ++ e₂.blind }


/-! ### flattening attribute objects -/

def pre (p a : String) : String := p ++ "." ++ a

/-- the description of an object held in attribute `p`: every attribute renamed `p.attr` -/
def Est.prefixed (p : String) (e : Est) : Est :=
  { e with
    params := e.params.map (pre p), init := e.init.map (fun (a, k) => (pre p a, k)),
    readsFirst := e.readsFirst.map (pre p), mayWrite := e.mayWrite.map (pre p), mustWrite := e.mustWrite.map (pre p),
    deep := e.deep.map (fun (a, c) => (pre p a, c)), logs := e.logs.map (pre p),
    normalised := e.normalised.map (fun (a, c) => (pre p a, c)),
    deepAlways := e.deepAlways.map (pre p), deepReadsUnfitted := e.deepReadsUnfitted.map (pre p) }

/-- class of the object an attribute holds, when the description knows it -/
def Est.deepClass (e : Est) (a c : String) : Option String :=
  match e.kindOf a with
  | some (.obj c') => some c'
  | some (.normal c') => some c'
  | some (.param _) =>
    (match e.normalised.find? (·.1 == a) with
     | some (_, c') => some c'
     | none => if c == "" then none else some c)
  | _ => none

/-- The *flattened* description of a class: the `fit` of every attribute object of known class becomes a first phase
    (`Est.seq`) over the object's own attributes, named `attr.x`.
    * object refitted on every path (`deepAlways`): a full phase; afterwards the estimator may read everything the object
      has just assigned;
    * object refitted only on some paths, none of whose fitted attributes is read before a refit in the same call: a
      phase that may assign nothing; the object's fitted attributes are then internal state that the theorem does not
      observe (they go to `logs`) and that nothing reads first;
    * otherwise (`none`): the description language cannot express the class.
    A parameter object of unknown class is left as it is (its own class carries its obligation: `assumptions`).
    The idempotent normalisation of a parameter (`normalised`) creates an object whose parameters are constants: it is
    dropped here. -/
def Est.flatten (tbl : List Est) : Nat → Est → Option Est
  | 0, _ => none
  | fuel+1, e =>
    e.deep.foldl (fun acc (a, c) =>
      match acc with
      | none => none
      | some outer =>
        if e.logs.contains a then some outer
        else match e.deepClass a c with
          | none => (match e.kindOf a with
                     | some (.param _) => some outer      -- user-supplied object of unknown class: assumption
                     | _ => none)
          | some c' =>
            match lookup tbl c' with
            | none => none
            | some d =>
              match flatten tbl fuel d with
              | none => none
              | some inner =>
                let ip := inner.prefixed a
                if e.deepAlways.contains a then
                  some (ip.seq { outer with readsFirst := outer.readsFirst ++
                      (ip.mayWrite ++ ip.mustWrite).filter (fun x => !(ip.logs.contains x)) })
                else if !(e.deepReadsUnfitted.contains a) then
                  some ({ ip with mustWrite := [], logs := ip.logs ++ ip.mayWrite }.seq outer)
                else none)
      (some { e with deep := [], normalised := [] })

def Est.flatOK (tbl : List Est) (fuel : Nat) (e : Est) : Bool :=
  match e.flatten tbl fuel with
  | some f => f.coreOK
  | none => false

/-- the generated obligation of a class: the syntactic conditions (`historyOK`: nothing blind, `coreOK`, random sources
    of the class and of its helpers, attribute objects of history-independent classes) *and* `coreOK` of the flattened
    description, which is the hypothesis of `SkNet.C16.history_independent` for the object together with its attribute
    objects -/
def Est.staticOK (tbl : List Est) (fuel : Nat) (e : Est) : Bool :=
  e.historyOK tbl fuel && e.flatOK tbl fuel

def Est.whyNotStatic (tbl : List Est) (fuel : Nat) (e : Est) : String :=
  if !(e.historyOK tbl fuel) then e.whyNot tbl
  else match e.flatten tbl fuel with
    | none => "flatten:attribute-object-not-refitted-before-read"
    | some f =>
      if !f.noStale then "flat-stale:" ++ ",".intercalate f.staleAttrs
      else "flat-reads-own-writes:" ++ ",".intercalate f.unstableReads


/-! ### `set_params` on every accepted parameter -/

/-- attributes `Algorithm.set_params` accepts -/
def Est.acceptedAttrs (e : Est) : List String := e.params.filter e.setParamAccepted

/-- accepted parameters that `__init__` does not store unchanged: canonicalised (`.lower()`), parsed, replaced by an object.
    `set_params` is a bare `setattr`: it stores the raw value. -/
def Est.acceptedDerived (e : Est) : List String :=
  e.acceptedAttrs.filter fun a => match e.kindOf a with
    | some (.param _) => false
    | _ => true

/-- the object `__init__` builds when it canonicalises the derived parameters with `canon` -/
def Est.freshCanon (e : Est) (canon : String → Val → Val) (c0 p : Store) : Store := fun a =>
  if a ∈ e.setable then p a
  else if a ∈ e.acceptedDerived then canon a (p a)
  else c0 a

/-- a history in which `set_params` may touch every accepted parameter -/
def Op.wfAccepted {Inp} (e : Est) : Op Inp → Prop
  | .fit _ => True
  | .setParam a _ => a ∈ e.setable ∨ a ∈ e.acceptedDerived
  | .fitRaise _ ws _ => ∀ a, a ∈ ws → a ∈ e.mayWrite

/-- the shape of the pinned Louvain parameter `modularity`: stored lower-cased by `__init__`, read by `fit` -/
def derivedParamShape : Est :=
  { name := "DerivedParam", params := ["modularity"], init := [("modularity", .derived), ("labels_", .const)],
    readsFirst := ["modularity"], mayWrite := ["labels_"], mustWrite := ["labels_"], deep := [], logs := [],
    normalised := [], rng := [], subs := [], blind := [] }

/-! ### what a random draw may depend on -/

/-- The `k`-th draw from a source, given a generator `stream seed k`, the object's attributes, the state `g` of numpy's
    global generator (part of the caller's input: `np.random.seed`) and `ent`, everything the caller cannot control
    (operating-system entropy, the C library's `rand()` state, ARPACK's own generator). This is the *meaning* of the
    kinds the translator assigns. -/
def Rng.draw (stream : Val → Nat → Val) (s : Store) (g ent : Val) : Rng → Nat → Val
  | .atFit a, k => stream (s a) k          -- generator created from the seed attribute at each fit
  | .atInit a, k => stream (s a) k         -- generator object stored in an attribute: its position is that attribute
  | .fresh _, k => stream 0 k              -- generator created from a constant
  | .npGlobal _, k => stream g k
  | .npSeed _, k => stream g k
  | .cRand _, k => stream ent k
  | .entropy _, k => stream ent k

/-- an implementation whose randomness comes only through the sources of its description: `wr` / `new` receive the
    draws (source number, draw number) -/
structure RSem (e : Est) (Inp : Type) where
  wr : Store → Inp → (Nat → Nat → Val) → List String
  new : Store → Inp → (Nat → Nat → Val) → Store

def RSem.draws (e : Est) (stream : Val → Nat → Val) (s : Store) (g ent : Val) : Nat → Nat → Val :=
  fun i k => match e.rng[i]? with
    | some r => r.draw stream s g ent k
    | none => 0

def RSem.fit {e : Est} {Inp} (sem : RSem e Inp) (stream : Val → Nat → Val) (s : Store) (x : Inp) (g ent : Val) : Store :=
  let d := RSem.draws e stream s g ent
  fun a => if a ∈ sem.wr s x d then sem.new s x d a else s a

/-! ### a tiny executable instance, for tests and witnesses -/

/-- Louvain as pinned, reduced to what matters: the generator position lives in attribute `random_state`
    (created by `__init__`), `fit` reads it, stores the label it draws and advances it. -/
def louvainPinned : Est :=
  { name := "LouvainPinned", params := ["random_state"],
    init := [("labels_", .const), ("random_state", .rng "random_state")],
    readsFirst := ["random_state"], mayWrite := ["labels_", "random_state"], mustWrite := ["labels_", "random_state"],
    deep := [("random_state", "")], logs := [], normalised := [], rng := [.atInit "random_state"], subs := [],
    blind := [] }

/-- the repaired shape: the seed is a plain parameter, the generator is re-created at each `fit` -/
def louvainSeeded : Est :=
  { name := "LouvainSeeded", params := ["random_state"],
    init := [("labels_", .const), ("random_state", .param "random_state")],
    readsFirst := ["random_state"], mayWrite := ["labels_"], mustWrite := ["labels_"],
    deep := [], logs := [], normalised := [], rng := [.atFit "random_state"], subs := [], blind := [] }

/-- a toy generator: the k-th draw of seed `s` -/
def draw (s k : Int) : Int := (s * 31 + k * 17 + 7) % 101

/-! ### `check_random_state` -/

inductive PyErr | typeError | valueError
deriving DecidableEq, Repr

/-- a generator object: identity and state -/
structure Gen where
  id : Nat
  state : Int
deriving DecidableEq, Repr

/-- the argument of `check_random_state` -/
inductive RsArg where
  | none
  | int (seed : Int)
  /-- a `np.random.RandomState` instance -/
  | inst (g : Gen)
  /-- `True` / `False`: an `int` for `isinstance`, not for `type(x) == int` -/
  | bool (b : Bool)
  /-- anything else (`np.int64`, `float`, `np.random.Generator`, a string …) -/
  | other
deriving DecidableEq, Repr

/-- the world of generator objects: identity 0 is numpy's global `RandomState`; `next` is the next unused identity;
    `entropy` what the operating system would hand out -/
structure World where
  globalState : Int
  next : Nat
  entropy : Int
deriving DecidableEq, Repr

/-- state of `RandomState(seed)`: a function of the seed only -/
def seedState (seed : Int) : Int := seed * 1000003 + 12345

/-- does the test of a branch (as the translator prints it) accept the argument? -/
def testHolds (t : String) : RsArg → Option Bool
  | a =>
    if t == "x is None" then some (match a with | .none => true | _ => false)
    else if t == "type(x) == int" || t == "type(x) is int" then
      some (match a with | .int _ => true | _ => false)
    else if t == "isinstance(x, int)" then
      some (match a with | .int _ => true | .bool _ => true | _ => false)
    else if t == "type(x) == np.random.RandomState" || t == "isinstance(x, np.random.RandomState)" then
      some (match a with | .inst _ => true | _ => false)
    else if t == "else" then some true
    else Option.none

/-- result of a branch -/
def branchResult (r : String) (a : RsArg) (w : World) : Option (Except PyErr (Gen × World)) :=
  if r == "entropy" then some (.ok ({ id := w.next, state := w.entropy }, { w with next := w.next + 1 }))
  else if r == "seeded" then
    match a with
    | .int s =>
      -- numpy: `RandomState(seed)` raises ValueError unless 0 ≤ seed < 2^32
      if 0 ≤ s ∧ s < 4294967296 then
        some (.ok ({ id := w.next, state := seedState s }, { w with next := w.next + 1 }))
      else some (.error .valueError)
    | .bool b =>      -- RandomState(True) is RandomState(1)
      some (.ok ({ id := w.next, state := seedState (if b then 1 else 0) }, { w with next := w.next + 1 }))
    | _ => Option.none
  else if r == "same" then
    match a with
    | .inst g => some (.ok (g, w))
    | _ => Option.none
  else if r == "global" then some (.ok ({ id := 0, state := w.globalState }, w))
  else if r == "raise:TypeError" then some (.error .typeError)
  else if r == "raise:ValueError" then some (.error .valueError)
  else Option.none

/-- `check_random_state` as the interpretation of its generated branch table; `none` = a branch the model does
    not know (the generated obligation then fails) -/
def checkRandomState (branches : List (String × String)) (a : RsArg) (w : World) :
    Option (Except PyErr (Gen × World)) :=
  match branches with
  | [] => some (.ok ({ id := 0, state := w.globalState }, w))   -- falls off the end: Python returns None; never OK
  | (t, r) :: rest =>
    match testHolds t a with
    | Option.none => Option.none
    | some true => branchResult r a w
    | some false => checkRandomState rest a w

/-- the branch table of the pinned source -/
def crsPinned : List (String × String) :=
  [("x is None", "entropy"), ("type(x) == int", "seeded"), ("type(x) == np.random.RandomState", "same"),
   ("else", "raise:TypeError")]

/-- decidable obligation on a branch table: an int seed reaches a `seeded` branch, `None` never reaches the global
    generator, an instance is returned as it is, anything else raises -/
def crsOK (b : List (String × String)) : Bool :=
  let w : World := { globalState := 5, next := 3, entropy := 9 }
  (match checkRandomState b (.int 7) w with
    | some (.ok (g, w')) => g.id == w.next && g.state == seedState 7 && w'.globalState == w.globalState
    | _ => false) &&
  (match checkRandomState b .none w with
    | some (.ok (g, _)) => g.id != 0
    | _ => false) &&
  (match checkRandomState b (.inst ⟨1, 4⟩) w with
    | some (.ok (g, w')) => g == ⟨1, 4⟩ && w' == w
    | _ => false) &&
  (match checkRandomState b .other w with
    | some (.error _) => true
    | _ => false)

end SkNet.Estimator
