/-
Model of `scan_header` and `from_csv` (sknetwork/data/parse.py, property C18).

A file is the list of its lines (without the line terminator, universal newlines). Comment lines are the lines
that start with a comment character; blank lines (`row.strip() == ''`) are not data rows of the scan nor of an
edge list (adjacency layouts keep them: a node without neighbours).  External code is a parameter or a stated contract:
* `csv.reader(f, delimiter=d)` on the files considered (no quote characters) splits a line at every `d`
  (`splitOn`), a blank line gives the empty row;
* `np.genfromtxt(lines, delimiter=d, comments=None, ndmin=2)` on the lines that are neither comment lines nor
  blank: blank lines are
  dropped, the rest is split at `d`, each field converted by `num` (a failure is `nan`); rows of unequal
  length raise ValueError, which `from_csv` turns into the fall-back to `csv.reader`.
-/
import SkNet.Model.Ingest

namespace SkNet.Ingest

/-! ### `scan_header` -/

inductive Layout
  | edgeList | adjacencyList | adjacencyDict
deriving DecidableEq, Repr

def Layout.show : Layout → String
  | .edgeList => "edge_list" | .adjacencyList => "adjacency_list" | .adjacencyDict => "adjacency_dict"

structure Scan where
  headerLength : Nat
  delimiter : Char
  comment : Char
  layout : Layout
deriving Repr

def countChar (d : Char) (s : String) : Nat := (s.toList.filter (· = d)).length

/-- `str.isspace` of Python: the ASCII ones, the separators FS/GS/RS/US, NEL, NBSP and the Unicode spaces -/
def isSpace (c : Char) : Bool :=
  c = ' ' || c = '\t' || c = '\n' || c = '\r' || c = '\x0b' || c = '\x0c' ||
  c = '\x1c' || c = '\x1d' || c = '\x1e' || c = '\x1f' || c = '\x85' || c = '\xa0' ||
  c.toNat = 0x1680 || (0x2000 ≤ c.toNat && c.toNat ≤ 0x200a) || c.toNat = 0x2028 || c.toNat = 0x2029 ||
  c.toNat = 0x202f || c.toNat = 0x205f || c.toNat = 0x3000

/-- `str.rstrip()` -/
def rstrip (s : String) : String := String.ofList (s.toList.reverse.dropWhile isSpace).reverse

/-- `str.strip()` -/
def strip (s : String) : String :=
  String.ofList ((s.toList.dropWhile isSpace).reverse.dropWhile isSpace).reverse

/-- `str.strip(" \r\n")` (the line splitter of genfromtxt) -/
def stripSp (s : String) : String :=
  let sp (c : Char) : Bool := c = ' ' || c = '\r' || c = '\n'
  String.ofList ((s.toList.dropWhile sp).reverse.dropWhile sp).reverse

/-- split at every occurrence of the character (Python `str.split(d)`, `csv.reader` without quotes) -/
def splitChars (d : Char) : List Char → List (List Char)
  | [] => [[]]
  | c :: cs =>
    match splitChars d cs with
    | [] => [[]]          -- unreachable: the result is never empty
    | f :: fs => if c = d then [] :: f :: fs else (c :: f) :: fs

def splitAt (d : Char) (s : String) : List String := (splitChars d s.toList).map String.ofList

/-- state of the loop of `scan_header` over the lines -/
structure ScanState where
  headerLength : Nat
  comment : Char
  rows : List String                -- data rows, right-stripped, newest first
  counts : List (List Nat)          -- per data row (newest first): the count of every candidate delimiter

/-- body of `for row in f.readlines()` (the `break` is the `if` on the number of rows collected) -/
def scanStep (delims comments : List Char) (nScan : Nat) (st : ScanState) (row : String) : ScanState :=
  if st.rows.length = nScan ∧ 0 < nScan then st
  else if comments.any (fun c => row.toList.head? = some c) then
    { st with headerLength := st.headerLength + 1, comment := row.toList.headD st.comment }
  else if strip row = "" then
    { st with headerLength := st.headerLength + 1 }      -- a blank line is not a data row
  else
    { st with rows := rstrip row :: st.rows, counts := delims.map (fun d => countChar d row) :: st.counts }

/-- index of the first maximum (`np.argmax`) -/
def argmaxNat : List Nat → Nat
  | [] => 0
  | x :: xs =>
    let k := argmaxNat xs
    if xs.isEmpty then 0 else if xs.getD k 0 > x then k + 1 else 0

/-- the loop of `scan_header` over all lines -/
def scanFold (lines : List String) (delims comments : List Char) (nScan : Nat) : ScanState :=
  lines.foldl (scanStep delims comments nScan) ⟨0, comments.headD '#', [], []⟩

/-- column k of the counts: the counts of candidate k over the scanned rows -/
def colOf (counts : List (List Nat)) (k : Nat) : List Nat := counts.map (·.getD k 0)

def totalCol (counts : List (List Nat)) (k : Nat) : Nat := (colOf counts k).foldl (· + ·) 0

/-- `mean > 0` and `std == 0`: at least one row, a positive total, the same count on every row -/
def consistentCol (counts : List (List Nat)) (k : Nat) : Bool :=
  !counts.isEmpty && decide (0 < totalCol counts k) && (colOf counts k).all (fun c => c = (colOf counts k).headD 0)

/-- the index of the guessed delimiter: the only candidate whose count is positive and the same on every scanned
    row (`mean > 0` and `std == 0`), else the first maximum of the mean counts.
    `counts` = per scanned row, the count of every candidate. -/
def chooseDelimiter (nDelims : Nat) (counts : List (List Nat)) : Nat :=
  match (List.range nDelims).filter (consistentCol counts) with
  | [k] => k
  | _ => if counts.isEmpty then 0 else argmaxNat ((List.range nDelims).map (totalCol counts))

/-- `length == {2} or length == {3}` over the scanned rows split at the guessed delimiter -/
def layoutOf (d : Char) (rows : List String) : Layout :=
  let lens := rows.map fun r => (splitAt d r).length
  if !rows.isEmpty && (lens.all (· = 2) || lens.all (· = 3)) then .edgeList else .adjacencyList

/-- `scan_header(file_path, delimiters, comments, n_scan)`; `delims` are the candidate delimiters in order -/
def scanHeader (lines : List String) (delims comments : List Char) (nScan : Nat := 100) : Scan :=
  let st := scanFold lines delims comments nScan
  let d := delims.getD (chooseDelimiter delims.length st.counts.reverse) ' '
  ⟨st.headerLength, d, st.comment, layoutOf d st.rows.reverse⟩

/-! ### `from_csv` -/

structure CsvArgs where
  delimiter : Option Char := none
  sep : Option Char := none
  comments : List Char := ['#', '%']
  layout : Option Layout := none
deriving Repr

/-- cut a line at the first comment character (genfromtxt) -/
def cutComment (c : Char) (s : String) : String := String.ofList (s.toList.takeWhile (· ≠ c))

/-- the rows `np.genfromtxt(lines, delimiter=d, comments=None)` converts: blank lines dropped, split at the
    delimiter (a comment character inside a row is an ordinary character) -/
def genRows (d : Char) (lines : List String) : List (List String) :=
  ((lines.map stripSp).filter (fun s => s ≠ "")).map fun s => (splitAt d s).map strip

/-- the lines of the file that are not comment lines (`not line.startswith(tuple(comments))`) -/
def dataLines (comments : List Char) (lines : List String) : List String :=
  lines.filter fun row => !comments.any (fun c => row.toList.head? = some c)

/-- `csv.reader(lines, delimiter=d)` on unquoted lines: split at `d`, the empty row for an empty line -/
def csvRows (d : Char) (lines : List String) : List (List String) :=
  (lines.map (splitAt d)).map fun r => if r = [""] then [] else r

/-- `int(x)` of a float: truncation toward zero -/
def truncRat (r : Rat) : Int :=
  if r.num < 0 then - (((-r.num).toNat / r.den : Nat) : Int) else ((r.num.toNat / r.den : Nat) : Int)

/-- number syntax restricted to what `parseInt` sees in `from_edge_list`: an identifier string is an
    integer iff `num` reads it as an integral value -/
def intOfNum (num : String → Option Rat) (s : String) : Option Int :=
  match num s with
  | some r => if r.den = 1 then some r.num else none
  | none => none

/-- the third field of a row as `from_edge_list` receives it from `csv.reader` -/
def thirdField (num : String → Option Rat) (r : List String) : WField :=
  if 3 ≤ r.length then (match num (strip (r.getD 2 "")) with | some w => .num w | none => .text) else .absent

/-- the rows of the file (after the header) as the list of tuples handed to `from_edge_list`:
    `len(edge_list[0]) == 3` decides whether weights are read -/
def tuplesOf (num : String → Option Rat) (body : List (List String)) : List EdgeTuple :=
  let withW : Bool := match body with
    | r0 :: _ => decide (r0.length = 3)
    | [] => false
  body.map fun r => (.str (r.getD 0 ""), .str (r.getD 1 ""), if withW then thirdField num r else .absent)

/-- the numeric fast path of `from_csv`: `none` = a field is not a number (`TypeError`, caught) -/
def fastPath (symW : Flags → Bool) (num : String → Option Rat) (rows : List (List String)) (f : Flags) :
    Option (Except PyErr (Graph Ident)) :=
  match rows with
  | [] => some (.error .indexError)     -- empty array
  | r0 :: _ =>
    if rows.any (fun r => r.length ≠ r0.length) then none     -- genfromtxt's ValueError: read with csv.reader
    else if !rows.all (fun r => r.all fun s => (num s).isSome) then none    -- some nan: TypeError, caught
    else if rows.any (fun r => (r.take 2).any fun s => decide (2 ^ 53 ≤ ((num s).getD 0).num.natAbs / ((num s).getD 0).den)) then
      none      -- an identifier floats do not represent exactly: the rows are read as strings
    else if r0.length < 2 then some (.error .indexError)
    else
      let edges := rows.map fun r => (truncRat ((num (r.getD 0 "")).getD 0), truncRat ((num (r.getD 1 "")).getD 0))
      let weights := if r0.length = 3 then some (rows.map fun r => (num (r.getD 2 "")).getD 0) else none
      some (liftNames .int (fromEdgeArrayWith symW ltInt (some id) edges weights f))

/-- the delimiter handed over: `delimiter`, else its alias `sep` -/
def csvGiven (a : CsvArgs) : Option Char :=
  match a.delimiter with
  | some d => some d
  | none => a.sep

/-- `scan_header(file_path, delimiters=delimiter, comments=comments)` as `from_csv` calls it -/
def csvScan (lines : List String) (a : CsvArgs) : Scan :=
  scanHeader lines (match csvGiven a with
    | some d => [d]
    | none => ['\t', ',', ';', ' ']) a.comments

/-- the delimiter `from_csv` splits the rows with: the given one, else the guess -/
def csvDelimiter (lines : List String) (a : CsvArgs) : Char := (csvGiven a).getD (csvScan lines a).delimiter

/-- `from_csv(file_path, delimiter, sep, comments, data_structure, **flags)` on a file given by its lines.
    `num` is the number syntax (`float(s)`): `none` = not a number. -/
def fromCsvWith (symW : Flags → Bool) (num : String → Option Rat) (lines : List String) (a : CsvArgs) (f : Flags) :
    Except PyErr (Graph Ident) :=
  let sc := csvScan lines a
  let d := csvDelimiter lines a
  let layout := a.layout.getD sc.layout
  let lines0 := dataLines a.comments lines
  let body := csvRows d lines0
  match layout with
  | .edgeList =>
    -- whitespace-only lines are dropped before both readers
    let lines1 := lines0.filter fun row => strip row ≠ ""
    let rows := csvRows d lines1
    match fastPath symW num (genRows d lines1) f with
    | some r => r
    | none =>
      if rows.any (fun r => r.length < 2) then .error .indexError
      else fromEdgeListWith symW (intOfNum num) (tuplesOf num rows) f
  | .adjacencyList =>
    fromEdgeListWith symW (intOfNum num)
      (adjacencyEdges (((List.range body.length).zip body).map fun r => (.int r.1, r.2.map .str))) f
  | .adjacencyDict =>
    if body.any (fun r => r.isEmpty) then .error .indexError
    else
      -- a dict: a repeated key keeps its first position and its last value
      let keys := body.map (·.headD "")
      let dict := (keys.eraseDups).map fun k =>
        (Ident.str k, ((body.reverse.find? (fun r => r.headD "" = k)).getD []).drop 1 |>.map Ident.str)
      fromEdgeListWith symW (intOfNum num) (adjacencyEdges dict) f

def fromCsv := fromCsvWith (fun f => f.weighted)

end SkNet.Ingest
