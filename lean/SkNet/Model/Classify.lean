/-
Model of the semi-supervised classifiers around the vote kernel (property C13):
* `getValues`, `stackValues`, `adjacencyValues` : sknetwork/utils/values.py `get_values`, `stack_values` and
  sknetwork/utils/format.py `get_adjacency_values` (seeds given as array / list / dict / nothing, bipartite
  stacking, block adjacency `[[0,B],[Bᵀ,0]]`);
* `Diffusion.fit`   : sknetwork/classification/diffusion.py `DiffusionClassifier.fit` up to the soft-max
  (one-hot seeds, 1 elsewhere — the 0.5 of the source is stored into a boolean array —, `n_iter` clamped iterations of the row-normalised adjacency, centring,
  arg-max, reset of the nodes not reached from the seeds);
* `Knn.fitCore`     : sknetwork/classification/knn.py `NNClassifier._fit_core` (`np.argpartition` is a parameter);
* `Rank.fitCore`    : sknetwork/classification/base_rank.py `RankClassifier.fit` after the scores are computed
  (the ranking algorithm is a parameter: its score matrix);
* `Linker.fitCore`  : sknetwork/linkpred/nn.py `NNLinker._fit_core` (`np.argpartition` is a parameter).
Scalars are `Rat`.  Matrices that the code holds densely are `List (List Rat)` (rows).
-/
import SkNet.Model.Basic
import SkNet.Model.Vote

namespace SkNet.Classify

inductive PyErr
  | valueError | indexError | typeError
deriving DecidableEq, Repr

def PyErr.show : PyErr → String
  | .valueError => "ValueError" | .indexError => "IndexError" | .typeError => "TypeError"

/-! ### small numeric vocabulary -/

def rabs (x : Rat) : Rat := if x < 0 then -x else x

def rsum (l : List Rat) : Rat := l.foldr (· + ·) 0

/-- `normalize(·, p=1)` on one row: divide by the sum of absolute values, a null row stays null -/
def normalizeRow (l : List Rat) : List Rat :=
  let s := rsum (l.map rabs)
  if s = 0 then l else l.map (· / s)

/-- `np.argmax` of a non-empty row: first position of the maximum (0 on the empty row) -/
def argmaxFrom : List Rat → Nat → Nat → Rat → Nat
  | [], _, best, _ => best
  | x :: xs, pos, best, bv => if bv < x then argmaxFrom xs (pos+1) pos x else argmaxFrom xs (pos+1) best bv

def argmax : List Rat → Nat
  | [] => 0
  | x :: xs => argmaxFrom xs 1 0 x

/-- `np.unique(labels[labels >= 0])`: ascending, duplicate-free (insertion as in `Vote.setInsert`) -/
def uniqueLabels (labels : List Int) : List Int :=
  (labels.filter (0 ≤ ·)).foldr Vote.setInsert []

/-- position of `x` in a list (`return_inverse`), the length if absent -/
def indexOf (x : Int) (l : List Int) : Nat := l.findIdx (· == x)

def dot (a b : List Rat) : Rat := rsum (List.zipWith (· * ·) a b)

def getRow (m : List (List Rat)) (i : Nat) : List Rat := m.getD i []

def getCell (m : List (List Rat)) (i k : Nat) : Rat := (m.getD i []).getD k 0

/-! ### seeds -/

inductive Seeds
  | none
  | arr (l : List Int)
  | dict (kv : List (Nat × Int))
deriving Repr

/-- `get_values(shape, values, default_value=-1)` for integer values -/
def getValues (n : Nat) : Seeds → Except PyErr (List Int)
  | .none => .ok (List.replicate n 1)
  | .arr l => if l.length != n then .error .valueError else .ok l
  | .dict kv =>
    if kv.isEmpty then .error .valueError          -- np.min of an empty array
    else if kv.all (·.1 < n) then
      .ok (tab n fun i => match kv.find? (·.1 == i) with | some (_, v) => v | none => -1)
    else .error .indexError

/-- `stack_values(shape, values_row, values_col)` -/
def stackValues (nr nc : Nat) (r c : Seeds) : Except PyErr (List Int) := do
  let (r', c') : Seeds × Seeds := match r, c with
    | .none, .none => (.arr (List.replicate nr 1), .arr (List.replicate nc (-1)))
    | .none, c => (.arr (List.replicate nr (-1)), c)
    | r, .none => (r, .arr (List.replicate nc (-1)))
    | r, c => (r, c)
  let a ← getValues nr r'
  let b ← getValues nc c'
  pure (a ++ b)

/-- dense view of a CSR matrix (duplicates summed) -/
def entry (c : Csr Rat) (i j : Nat) : Rat :=
  rsum (((c.row i).filter fun e => e.1 == j).map (·.2))

/-- `bipartite2undirected`: `[[0,B],[Bᵀ,0]]` as CSR with rows in index order -/
def blockCsr (b : Csr Rat) : Csr Rat :=
  let n := b.nRow + b.nCol
  let rows : List (List (Nat × Rat)) := tab n fun i =>
    if i < b.nRow then (b.row i).map fun e => (e.1 + b.nRow, e.2)
    else (List.range b.nRow).flatMap fun r =>
      ((b.row r).filter fun e => e.1 == i - b.nRow).map fun e => (r, e.2)
  let indptr := rows.foldl (fun (acc : List Nat) r => acc ++ [acc.getLastD 0 + r.length]) [0]
  { nRow := n, nCol := n, indptr := indptr.toArray,
    indices := (rows.flatMap fun r => r.map (·.1)).toArray,
    data := (rows.flatMap fun r => r.map (·.2)).toArray }

structure Routed where
  adj : Csr Rat
  values : List Int
  bipartite : Bool

def Seeds.given : Seeds → Bool
  | .none => false
  | _ => true

/-- `get_adjacency_values(input_matrix, force_bipartite, values, values_row, values_col)` (no `which`);
    `check_format` refuses a matrix without stored entry; for a bipartite input `values` is an alias of `values_row` and is
    stacked with `values_col` -/
def adjacencyValues (c : Csr Rat) (forceBip : Bool) (v r cc : Seeds) : Except PyErr Routed :=
  if c.indices.size == 0 then .error .valueError
  else if forceBip || r.given || cc.given || c.nRow != c.nCol then
    (if v.given then stackValues c.nRow c.nCol v cc else stackValues c.nRow c.nCol r cc).map
      fun vals => ⟨blockCsr c, vals, true⟩
  else (getValues c.nRow v).map fun vals => ⟨c, vals, false⟩

/-! ### probabilities of `Propagation` -/
namespace Propagation

/-- row `i` of `normalize(adjacency.dot(get_membership(labels)))` over the label columns `0 … nLabels-1` -/
def probsRow (c : Csr Rat) (labels : List Int) (i : Nat) : List Rat :=
  normalizeRow (tab (Vote.nLabels labels) fun l =>
    rsum (((c.row i).filter fun e => labels.getD e.1 (-1) == (l : Int)).map (·.2)))

end Propagation

/-! ### reachability from the seeds (sign of `get_distances(adjacency, source=seeds)`; the frontier loop
    itself is the subject of C10) -/

/-- stored non-zero entry -/
def hasEdge (c : Csr Rat) (u v : Nat) : Bool := (c.row u).any fun e => e.1 == v && e.2 != 0

def reachStep (n : Nat) (edge : Nat → Nat → Bool) (r : List Bool) : List Bool :=
  tab n fun v => r.getD v false || (List.range n).any fun u => r.getD u false && edge u v

def reachIter (n : Nat) (edge : Nat → Nat → Bool) : Nat → List Bool → List Bool
  | 0, r => r
  | k+1, r => reachIter n edge k (reachStep n edge r)

/-- nodes at a finite distance from the sources: `distances >= 0` -/
def reached (n : Nat) (edge : Nat → Nat → Bool) (src : Nat → Bool) : List Bool :=
  reachIter n edge n (tab n src)

/-! ### DiffusionClassifier -/
namespace Diffusion

/-- `get_membership(labels_reindex).toarray()` with `temperatures[labels < 0] = 0.5`.
    The membership matrix has dtype `bool`, so the assignment of `0.5` stores `True`: the rows of the nodes
    without label start at 1 in every column (observed on the implementation; the model mirrors it). -/
def initTemps (labels : List Int) (uniq : List Int) : List (List Rat) :=
  tab labels.length fun i =>
    if 0 ≤ labels.getD i (-1) then
      tab uniq.length fun k => if indexOf (labels.getD i (-1)) uniq == k then 1 else 0
    else List.replicate uniq.length 1

/-- `normalize(adjacency)`: row `i` as (column, weight / Σ|weights|) -/
def diffRow (c : Csr Rat) (i : Nat) : List (Nat × Rat) :=
  let r := c.row i
  let s := rsum (r.map fun e => rabs e.2)
  if s = 0 then r else r.map fun e => (e.1, e.2 / s)

/-- `temperatures = diffusion.dot(temperatures); temperatures[labels >= 0] = temperatures_seeds` -/
def step (c : Csr Rat) (labels : List Int) (seedTemps : List (List Rat)) (k : Nat) (t : List (List Rat)) :
    List (List Rat) :=
  tab labels.length fun i =>
    if 0 ≤ labels.getD i (-1) then getRow seedTemps i
    else tab k fun q => rsum ((diffRow c i).map fun e => e.2 * getCell t e.1 q)

def iterate (c : Csr Rat) (labels : List Int) (seedTemps : List (List Rat)) (k : Nat) :
    Nat → List (List Rat) → List (List Rat)
  | 0, t => t
  | m+1, t => iterate c labels seedTemps k m (step c labels seedTemps k t)

/-- `temperatures -= temperatures.mean(axis=0)` -/
def center (n k : Nat) (t : List (List Rat)) : List (List Rat) :=
  let mean := tab k fun q => rsum (tab n fun i => getCell t i q) / (n : Rat)
  tab n fun i => tab k fun q => getCell t i q - mean.getD q 0

structure Out where
  labels : List Int
  /-- temperatures after the optional centring, before the soft-max, unreached rows not yet zeroed -/
  temps : List (List Rat)
  reached : List Bool
deriving Repr

/-- `DiffusionClassifier(n_iter, centering).fit` on the routed adjacency and values, up to the soft-max -/
def fit (c : Csr Rat) (labels : List Int) (nIter : Nat) (centering : Bool) : Except PyErr Out :=
  if labels.all (· < 0) then .error .valueError
  else
    let n := labels.length
    let uniq := uniqueLabels labels
    let k := uniq.length
    let t0 := initTemps labels uniq
    let t := iterate c labels t0 k nIter t0
    let t := if centering then center n k t else t
    let reach := reached n (hasEdge c) (fun v => decide (0 ≤ labels.getD v (-1)))
    let lab := tab n fun i =>
      if reach.getD i false then uniq.getD (argmax (getRow t i)) (-1) else -1
    .ok ⟨lab, t, reach⟩

/-- `probs_` when `centering = False`: `normalize(temperatures)` with the unreached rows zeroed -/
def probsPlain (o : Out) : List (List Rat) :=
  tab o.labels.length fun i =>
    if o.reached.getD i false then normalizeRow (getRow o.temps i)
    else (getRow o.temps i).map fun _ => 0

/-- `probs_` when `centering = True`: `normalize(np.exp(scale * temperatures))` with the unreached rows zeroed;
    the exponential is a parameter (any positive function: `np.exp` is outside the rational model) -/
def probsSoft (o : Out) (scale : Rat) (expf : Rat → Rat) : List (List Rat) :=
  tab o.labels.length fun i =>
    if o.reached.getD i false then normalizeRow ((getRow o.temps i).map fun x => expf (scale * x))
    else (getRow o.temps i).map fun _ => 0

end Diffusion

/-! ### `check_n_neighbors` and top-k selection -/

/-- `check_n_neighbors(n_neighbors, n_seeds)` (as an integer: `n_seeds - 1` may be `-1`) -/
def checkNeighbors (k nSeeds : Nat) : Int := if k ≥ nSeeds then (nSeeds : Int) - 1 else k

/-- insertion of position `p` into a list of positions sorted by (`key`, position) -/
def insertByKey (key : Nat → Rat) (p : Nat) : List Nat → List Nat
  | [] => [p]
  | q :: qs => if key p ≤ key q then p :: q :: qs else q :: insertByKey key p qs

/-- a concrete selection standing for `np.argpartition(keys, k)[:k]`: the `k` smallest, ties by position -/
def smallestK (keys : List Rat) (k : Nat) : List Nat :=
  ((List.range keys.length).foldr (insertByKey fun i => keys.getD i 0) []).take k

/-- the contract of `np.argpartition(keys, k)[:k]` for `k < len(keys)`: `k` distinct positions, none of
    the others has a smaller key -/
def IsSmallestK (keys : List Rat) (k : Nat) (sel : List Nat) : Bool :=
  sel.length == k && sel.Nodup && sel.all (· < keys.length) &&
  sel.all fun p => (List.range keys.length).all fun q => sel.contains q || keys.getD p 0 ≤ keys.getD q 0

/-! ### NNClassifier._fit_core -/
namespace Knn

/-- `norms_train**2 - 2 * embedding[index_train].dot(vector) + np.sum(vector**2)` -/
def distances (emb : List (List Rat)) (train : List Nat) (v : List Rat) : List Rat :=
  train.map fun j => dot (getRow emb j) (getRow emb j) - 2 * dot (getRow emb j) v + dot v v

structure Out where
  labels : List Int
  probs : List (List Rat)
deriving Repr

/-- number of columns of `probs`: `np.max(labels) + 1` -/
def nCols (labels : List Int) : Nat := ((labels.foldl max 0) + 1).toNat

/-- `index_train = np.flatnonzero(labels >= 0)` -/
def trainIdx (labels : List Int) : List Nat :=
  (List.range labels.length).filter fun i => 0 ≤ labels.getD i (-1)

/-- `labels[neighbors]` of test node `i`: labels of the `k` selected labelled nodes -/
def neighbourLabels (emb : List (List Rat)) (labels : List Int) (k : Nat)
    (sel : Nat → List Rat → Nat → List Nat) (i : Nat) : List Int :=
  (sel i (distances emb (trainIdx labels) (getRow emb i)) k).map fun p =>
    labels.getD ((trainIdx labels).getD p 0) (-1)

/-- row `i` of `probs`: one-hot for a labelled node, normalised label counts of the neighbours otherwise -/
def row (emb : List (List Rat)) (labels : List Int) (k : Nat)
    (sel : Nat → List Rat → Nat → List Nat) (i : Nat) : List Rat :=
  if 0 ≤ labels.getD i (-1) then
    tab (nCols labels) fun q => if (q : Int) == labels.getD i (-1) then 1 else 0
  else
    normalizeRow (tab (nCols labels) fun q =>
      (((neighbourLabels emb labels k sel i).filter (· == (q : Int))).length : Rat))

/-- `_fit_core(embedding, labels, index_train, index_test)`; `sel i dists k` are the positions (in
    `index_train`) returned by `np.argpartition(distances, n_neighbors)[:n_neighbors]` for test node `i`.
    Returns `none` when there is no labelled node (the code fails inside numpy). -/
def fitCore (emb : List (List Rat)) (labels : List Int) (kArg : Nat)
    (sel : Nat → List Rat → Nat → List Nat) : Option Out :=
  if (trainIdx labels).isEmpty then none else
  let k := (checkNeighbors kArg (trainIdx labels).length).toNat
  let rows := tab labels.length (row emb labels k sel)
  some ⟨rows.map fun r => (argmax r : Int), rows⟩

end Knn

/-! ### RankClassifier.fit after the scores -/
namespace Rank

structure Out where
  labels : List Int
  probs : List (List Rat)
deriving Repr

/-- `check_labels`, `normalize(scores)`, arg-max, `labels_unique[…]`, columns of `probs` moved to the labels.
    `scores` is the `n × n_classes` matrix returned by the ranking algorithm (one column per class). -/
def fitCore (values : List Int) (scores : List (List Rat)) : Except PyErr Out :=
  let uniq := uniqueLabels values
  if uniq.length < 2 then .error .valueError
  else
    let nCols := ((values.foldl max 0) + 1).toNat
    let norm := scores.map normalizeRow
    let labels := norm.map fun r => uniq.getD (argmax r) (-1)
    let probs := norm.map fun r => tab nCols fun q =>
      match uniq.findIdx? (· == (q : Int)) with
      | some k => r.getD k 0
      | none => 0
    .ok ⟨labels, probs⟩

end Rank

/-! ### NNLinker._fit_core -/
namespace Linker

/-- one row of `links_`: `(column, similarity)` of the kept links, ascending column.
    `top` = `np.argpartition(-similarities, n_neighbors)[:n_neighbors]`. -/
def keepRow (sims : List Rat) (thr : Rat) (top : List Nat) : List (Nat × Rat) :=
  ((List.range sims.length).filter fun j => top.contains j && !(decide (sims.getD j 0 < thr))).map
    fun j => (j, sims.getD j 0)

/-- `_fit_core(embedding, mask)`; `nRow = len(mask)`; candidate columns are the last `n - nRow` rows of the
    embedding for a bipartite graph, all rows otherwise. `sel i negSims k` is the argpartition result. -/
def fitCore (emb : List (List Rat)) (mask : List Bool) (kArg : Nat) (thr : Rat)
    (sel : Nat → List Rat → Nat → List Nat) : List (List (Nat × Rat)) :=
  let n := emb.length
  let nRow := mask.length
  let cols := if nRow < n then (List.range (n - nRow)).map (· + nRow) else List.range n
  let k := (checkNeighbors kArg cols.length).toNat
  tab nRow fun i =>
    if mask.getD i false then
      let sims := cols.map fun j => dot (getRow emb j) (getRow emb i)
      keepRow sims thr (sel i (sims.map fun s => -s) k)
    else []

end Linker

end SkNet.Classify
