/-
Ownership programs (property C01, "no call modifies anything the caller passed in").

tools/translate/effects.py turns every function / method of the working tree into a list of statements
over numbered variables (the parameters first):
  bind x fresh        x is bound to newly allocated data (copy, arithmetic, constructor of new data)
  bind x (param p)    x is the caller's p-th argument
  bind x (alias ys)   x shares memory with (at most) one of the variables ys: a view, the same object,
                      the result of a call whose summary says "may return its k-th argument"
  mutate x            an in-place write through x (item / slice assignment, augmented assignment on an
                      array, an in-place method, a callee whose summary says it writes its argument)
  sortIndices x       `x.sort_indices()` — the one in-place effect the property tolerates
Control flow is abstracted away: the semantics below lets the statements run in ANY order, any number of
times, with any aliasing choice, so branches and loops are covered.

`safeWith prog A declared` checks a may-alias certificate `A` (variable ↦ parameters it may alias):
closed under every statement, and every `mutate x` only reaches parameters the function *declares* it
writes (`declared`; empty for every public entry point).  `Lemmas/Ownership.lean` proves the check sound.
-/
import SkNet.Model.Basic

namespace SkNet.Own

inductive Src
  | fresh
  | param (p : Nat)
  | alias (ys : List Nat)
deriving Repr, DecidableEq

inductive Stmt
  | bind (x : Nat) (s : Src)
  | mutate (x : Nat)
  | sortIndices (x : Nat)
deriving Repr, DecidableEq

abbrev Prog := List Stmt

/-- may-alias certificate: `A.getD x []` = parameters variable `x` may share memory with -/
abbrev Cert := List (List Nat)

def Cert.at (A : Cert) (x : Nat) : List Nat := A.getD x []

def subset (a b : List Nat) : Bool := a.all fun p => b.contains p

/-- the certificate is closed under the statement -/
def closed (A : Cert) : Stmt → Bool
  | .bind x (.param p) => (A.at x).contains p
  | .bind x (.alias ys) => ys.all fun y => subset (A.at y) (A.at x)
  | _ => true

/-- the statement writes only to parameters the function declares it writes -/
def writeOk (A : Cert) (declared : List Nat) : Stmt → Bool
  | .mutate x => subset (A.at x) declared
  | _ => true

def safeWith (prog : Prog) (A : Cert) (declared : List Nat) : Bool :=
  prog.all (closed A) && prog.all (writeOk A declared)

/-! ### the analysis that proposes the certificate (unverified; its output is checked by `safeWith`) -/

def addAll (a b : List Nat) : List Nat := b.foldl (fun acc p => if acc.contains p then acc else acc ++ [p]) a

def Cert.join (A : Cert) (x : Nat) (ps : List Nat) : Cert :=
  let A' := if x < A.length then A else A ++ List.replicate (x + 1 - A.length) []
  A'.set x (addAll (A'.getD x []) ps)

def absStep (A : Cert) : Stmt → Cert
  | .bind x (.param p) => A.join x [p]
  | .bind x (.alias ys) => A.join x (ys.flatMap fun y => A.at y)
  | _ => A

def pass (prog : Prog) (A : Cert) : Cert := prog.foldl absStep A

def iterate (prog : Prog) : Nat → Cert → Cert
  | 0, A => A
  | k+1, A => iterate prog k (pass prog A)

def nVars (prog : Prog) : Nat :=
  prog.foldl (fun m s => match s with
    | .bind x (.alias ys) => max (max m (x+1)) (ys.foldl (fun a y => max a (y+1)) 0)
    | .bind x _ => max m (x+1)
    | .mutate x => max m (x+1)
    | .sortIndices x => max m (x+1)) 0

/-- a few passes reach the fixpoint on the generated programs (variables are versioned, so aliasing flows
    forward except along loop back edges); if they did not, `safeWith` would reject the certificate -/
def analyse (prog : Prog) : Cert := iterate prog 6 (List.replicate (nVars prog) [])

/-- the decision the generated obligations use -/
def safe (prog : Prog) (declared : List Nat) : Bool := safeWith prog (analyse prog) declared

/-- parameters the function's result may share memory with, according to the certificate -/
def returnsOk (A : Cert) (retVars : List Nat) (declaredRet : List Nat) : Bool :=
  retVars.all fun x => subset (A.at x) declaredRet

/-- a generated function summary -/
structure Fn where
  name : String
  nParams : Nat
  prog : Prog
  writes : List Nat        -- parameters the function declares it may write (empty for public entry points)
  retVars : List Nat       -- variables returned
  retAlias : List Nat      -- parameters the result may share memory with (declared)
  isPublic : Bool
  cert : Cert              -- may-alias certificate proposed by the translator (untrusted: checked by `safeWith`)
deriving Repr

/-- the generated obligation: the proposed certificate is closed under the program, every in-place write reaches
    declared parameters only, the returned variables alias declared parameters only, and a public entry point
    declares no write. (`safeWith` is sound for *any* certificate: `ownership_sound`.) -/
def Fn.ok (f : Fn) : Bool :=
  safeWith f.prog f.cert f.writes && returnsOk f.cert f.retVars f.retAlias &&
  (!f.isPublic || f.writes.isEmpty)

/-- the same decision with the certificate recomputed in Lean by `analyse` (not used on the generated table: slower) -/
def Fn.okRecomputed (f : Fn) : Bool :=
  safe f.prog f.writes && returnsOk (analyse f.prog) f.retVars f.retAlias &&
  (!f.isPublic || f.writes.isEmpty)

/-! ### concrete semantics: cells, stores, nondeterministic aliasing -/

structure Conc where
  store : List (Option Nat)   -- variable ↦ cell
  version : List Nat          -- cell ↦ number of in-place writes so far
  next : Nat                  -- next fresh cell
deriving Repr

def Conc.cellOf (c : Conc) (x : Nat) : Option Nat := (c.store.getD x none)

def setStore (s : List (Option Nat)) (x : Nat) (v : Option Nat) : List (Option Nat) :=
  let s' := if x < s.length then s else s ++ List.replicate (x + 1 - s.length) none
  s'.set x v

def bump (v : List Nat) (c : Nat) : List Nat :=
  let v' := if c < v.length then v else v ++ List.replicate (c + 1 - v.length) 0
  v'.set c (v'.getD c 0 + 1)

/-- one step; `choice` resolves the nondeterminism of `alias` (which variable, or none = fresh data) -/
def step (c : Conc) (s : Stmt) (choice : Nat) : Conc :=
  match s with
  | .bind x .fresh => { c with store := setStore c.store x (some c.next), next := c.next + 1 }
  | .bind x (.param p) => { c with store := setStore c.store x (some p) }
  | .bind x (.alias ys) =>
    match (ys[choice]?).bind c.cellOf with
    | some cell => { c with store := setStore c.store x (some cell) }
    | none => { c with store := setStore c.store x (some c.next), next := c.next + 1 }
  | .mutate x =>
    match c.cellOf x with
    | some cell => { c with version := bump c.version cell }
    | none => c
  | .sortIndices _ => c

/-- run any sequence of (statement, choice) -/
def run (c : Conc) : List (Stmt × Nat) → Conc
  | [] => c
  | (s, k) :: rest => run (step c s k) rest

/-- initial state of a call with `np` arguments: cells `0..np-1` are the caller's, nothing bound yet -/
def init (np : Nat) : Conc := { store := [], version := List.replicate np 0, next := np }

end SkNet.Own
