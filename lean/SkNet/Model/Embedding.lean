/-
Model of sknetwork/embedding (property C09): spectral.py, svd.py (GSVD / SVD / PCA, fit and predict),
random_projection.py, louvain_embedding.py, base.py (`_get_regularization`, `_split_vars`), and of the
pieces of sknetwork/linalg they call: operators.py (`Laplacian`, `Regularizer`, `Normalizer`),
sparse_lowrank.py (`SparseLR` dot / transpose / left_sparse_dot / right_sparse_dot), normalizer.py
(`diagonal_pseudo_inverse`, `get_norms`, `normalize`), eig_solver.py / svd_solver.py (the re-ordering
around ARPACK).

The model is written once over a scalar type `α` that only needs the field operations, a comparison and
the two functions `sqrt`, `pow` (record `Fn`): it is *executed* with `Float` by the driver and *proved about*
for an arbitrary field in `SkNet/Properties/C09.lean` (`sqrt`, `pow` then are parameters constrained by
hypotheses).  External code is a parameter: ARPACK (`eigsh`, `svds`) is the argument `solver`, the
Gaussian draw + `np.linalg.qr` is the argument `g`, Louvain's labels are the argument `labels`.

Matrices are dense lists of rows read through `mget` (absent = 0): a CSR matrix enters through its
denotation (duplicates summed); every "new array" of the code is a `tab`.
-/
import SkNet.Model.Basic

namespace SkNet.Embedding

inductive PyErr
  | valueError | typeError | indexError
deriving DecidableEq, Repr

def PyErr.show : PyErr → String
  | .valueError => "ValueError" | .typeError => "TypeError" | .indexError => "IndexError"

/-- the two non-field functions the code uses (`np.sqrt`, `np.power`) -/
structure Fn (α : Type) where
  sqrt : α → α
  pow : α → α → α

abbrev Vec (α : Type) := List α
abbrev Mat (α : Type) := List (List α)

section
variable {α : Type} [Add α] [Sub α] [Mul α] [Div α] [Neg α] [Zero α] [One α] [NatCast α] [BEq α]
  [LT α] [DecidableLT α]

/-- `Σ_{i<n} f i` (left to right) -/
def sumN : Nat → (Nat → α) → α
  | 0, _ => 0
  | n+1, f => sumN n f + f n

def vget (v : Vec α) (i : Nat) : α := v.getD i 0
def mget (m : Mat α) (i j : Nat) : α := (m.getD i []).getD j 0
def mkMat (n k : Nat) (f : Nat → Nat → α) : Mat α := tab n fun i => tab k fun j => f i j

/-- `diagonal_pseudo_inverse`: `sparse.diags(w)` drops the zeros, `1 / data` inverts the rest -/
def pinv (x : α) : α := if x == 0 then 0 else 1 / x

def absv (x : α) : α := if x < 0 then -x else x

/-! ### normalizer.py -/

/-- `get_norms(matrix, p=2)` of one row -/
def norm2 (F : Fn α) (k : Nat) (row : Nat → α) : α := F.sqrt (sumN k fun j => row j * row j)

/-- `get_norms(matrix, p=1)` of one row -/
def norm1 (k : Nat) (row : Nat → α) : α := sumN k fun j => absv (row j)

/-- `normalize(matrix, p=2)` for a dense `n × k` matrix: `diagonal_pseudo_inverse(norms).dot(matrix)` -/
def normalize2 (F : Fn α) (n k : Nat) (m : Mat α) : Mat α :=
  let d : Vec α := tab n fun i => pinv (norm2 F k (mget m i))
  mkMat n k fun i j => vget d i * mget m i j

/-- `normalize(matrix, p=1)` -/
def normalize1 (n k : Nat) (m : Mat α) : Mat α :=
  let d : Vec α := tab n fun i => pinv (norm1 k (mget m i))
  mkMat n k fun i j => vget d i * mget m i j

/-! ### sparse_lowrank.py : `SparseLR` = sparse + Σ x yᵀ -/

structure SLR (α : Type) where
  nRow : Nat
  nCol : Nat
  sparse : Mat α
  lowRank : List (Vec α × Vec α)

/-- the matrix an `SLR` stands for -/
def SLR.entry (s : SLR α) (i j : Nat) : α :=
  s.lowRank.foldl (fun acc xy => acc + vget xy.1 i * vget xy.2 j) (mget s.sparse i j)

/-- `SparseLR._matvec` on a vector: `sparse.dot(v)`, then `prod += x * v.dot(y)` per tuple -/
def SLR.matvec (s : SLR α) (v : Vec α) : Vec α :=
  let prod : Vec α := tab s.nRow fun i => sumN s.nCol fun j => mget s.sparse i j * vget v j
  s.lowRank.foldl (fun prod xy =>
    let c := sumN s.nCol fun j => vget v j * vget xy.2 j
    tab s.nRow fun i => vget prod i + vget xy.1 i * c) prod

/-- `SparseLR._matvec` on an `nCol × k` matrix -/
def SLR.matmat (s : SLR α) (k : Nat) (m : Mat α) : Mat α :=
  let prod : Mat α := mkMat s.nRow k fun i c => sumN s.nCol fun j => mget s.sparse i j * mget m j c
  s.lowRank.foldl (fun prod xy =>
    let t : Vec α := tab k fun c => sumN s.nCol fun j => mget m j c * vget xy.2 j
    mkMat s.nRow k fun i c => mget prod i c + vget xy.1 i * vget t c) prod

/-- `SparseLR._transpose` -/
def SLR.transpose (s : SLR α) : SLR α :=
  { nRow := s.nCol, nCol := s.nRow, sparse := mkMat s.nCol s.nRow fun j i => mget s.sparse i j,
    lowRank := s.lowRank.map fun xy => (xy.2, xy.1) }

/-- `left_sparse_dot(diag(d))` -/
def SLR.leftDiag (s : SLR α) (d : Vec α) : SLR α :=
  { s with sparse := mkMat s.nRow s.nCol fun i j => vget d i * mget s.sparse i j,
           lowRank := s.lowRank.map fun xy => (tab s.nRow fun i => vget d i * vget xy.1 i, xy.2) }

/-- `right_sparse_dot(diag(d))` -/
def SLR.rightDiag (s : SLR α) (d : Vec α) : SLR α :=
  { s with sparse := mkMat s.nRow s.nCol fun i j => mget s.sparse i j * vget d j,
           lowRank := s.lowRank.map fun xy => (xy.1, tab s.nCol fun j => vget d j * vget xy.2 j) }

/-- a plain sparse matrix seen as an `SLR` without low-rank part -/
def SLR.ofMat (n m : Nat) (a : Mat α) : SLR α := { nRow := n, nCol := m, sparse := a, lowRank := [] }

/-! ### operators.py -/

/-- `Regularizer(input_matrix, regularization)`: `u = reg·1`, `v = 1 / n_col` -/
def regularizer (n m : Nat) (a : Mat α) (reg : α) : SLR α :=
  { nRow := n, nCol := m, sparse := a,
    lowRank := [(tab n fun _ => reg * 1, tab m fun _ => 1 / (m : α))] }

/-- `Laplacian.__init__` -/
structure LapOp (α : Type) where
  n : Nat
  reg : α
  normalized : Bool
  weights : Vec α
  normDiag : Vec α

def lapInit (F : Fn α) (n : Nat) (a : Mat α) (reg : α) (normalized : Bool) : LapOp α :=
  let w : Vec α := tab n fun i => sumN n fun j => mget a i j * 1
  { n := n, reg := reg, normalized := normalized, weights := w,
    normDiag := if normalized then tab n fun i => pinv (F.sqrt (vget w i + reg)) else [] }

/-- `Laplacian._matvec` on a vector -/
def lapMatvec (op : LapOp α) (a : Mat α) (x : Vec α) : Vec α :=
  let n := op.n
  let y : Vec α := if op.normalized then tab n fun i => vget op.normDiag i * vget x i else x
  let prod : Vec α := tab n fun i => vget op.weights i * vget y i - sumN n fun j => mget a i j * vget y j
  let prod : Vec α :=
    if !(op.reg == 0) then
      let mean := sumN n (vget y) / (n : α)
      tab n fun i => vget prod i + op.reg * (vget y i - mean)
    else prod
  if op.normalized then tab n fun i => vget op.normDiag i * vget prod i else prod

/-- `Normalizer.__init__` / `_matvec` on an `n × k` matrix (`D⁻¹ (A + reg·11ᵀ/n)`) -/
def normalizerMatmat (n k : Nat) (a : Mat α) (reg : α) (m : Mat α) : Mat α :=
  let nd : Vec α := tab n fun i => pinv ((sumN n fun j => mget a i j * 1) + reg)
  let prod : Mat α := mkMat n k fun i c => sumN n fun j => mget a i j * mget m j c
  let prod : Mat α :=
    if !(reg == 0) then
      let mean : Vec α := tab k fun c => sumN n (fun j => mget m j c) / (n : α)
      mkMat n k fun i c => mget prod i c + reg * (1 * vget mean c)
    else prod
  mkMat n k fun i c => vget nd i * mget prod i c

/-! ### graph helpers: `get_adjacency`, `is_symmetric`, strong connectivity -/

/-- `bipartite2undirected` : `[[0, B], [Bᵀ, 0]]` -/
def blockAdj (nRow nCol : Nat) (b : Mat α) : Mat α :=
  mkMat (nRow + nCol) (nRow + nCol) fun i j =>
    if i < nRow then (if j < nRow then 0 else mget b i (j - nRow))
    else (if j < nRow then mget b j (i - nRow) else 0)

def isSymmetric (n : Nat) (a : Mat α) : Bool :=
  (List.range n).all fun i => (List.range n).all fun j => mget a i j == mget a j i

/-- nodes reached from node 0 along `edge` after `fuel` relaxation rounds -/
def reachFrom0 (n : Nat) (edge : Nat → Nat → Bool) : Nat → List Bool
  | 0 => tab n fun v => v == 0
  | f+1 =>
    let r := reachFrom0 n edge f
    tab n fun v => r.getD v false || (List.range n).any fun u => r.getD u false && edge u v

/-- `is_connected(adjacency, connection='strong')` -/
def stronglyConnected (n : Nat) (a : Mat α) : Bool :=
  let e : Nat → Nat → Bool := fun i j => !(mget a i j == 0)
  (reachFrom0 n e n).all id && (reachFrom0 n (fun i j => e j i) n).all id

/-- `BaseEmbedding._get_regularization` (`connected` is evaluated only when needed) -/
def getRegularization (reg : α) (connected : Bool) : α :=
  if reg < 0 then (if connected then 0 else absv reg) else reg

/-- `check_n_components(n_components, n_min)` -/
def checkNComponents (nc nMin : Int) : Int := if nc > nMin then nMin else nc

/-! ### a stable argsort (np.argsort on distinct keys; ties are canonicalised by the harness) -/

def insertIdx (key : Nat → α) (v : Nat) : List Nat → List Nat
  | [] => [v]
  | w :: ws => if key v < key w then v :: w :: ws else w :: insertIdx key v ws

/-- indices `0..n-1` sorted by increasing key, equal keys in index order -/
def argsortN (n : Nat) (key : Nat → α) : List Nat :=
  (List.range n).foldl (fun acc v => insertIdx key v acc) []

def argsort (l : Vec α) : List Nat := argsortN l.length (vget l)

/-- columns `idx` of an `n × _` matrix -/
def selectCols (n : Nat) (m : Mat α) (idx : List Nat) : Mat α :=
  mkMat n idx.length fun i c => mget m i (idx.getD c 0)

/-! ### eig_solver.py / svd_solver.py : what surrounds ARPACK -/

/-- `LanczosSVD.fit` after `svds` returned `(u, s, vt)`: order by decreasing singular value -/
def lanczosSvdPost (nRow nCol : Nat) (u : Mat α) (s : Vec α) (vt : Mat α) : Vec α × Mat α × Mat α :=
  let index := argsort (s.map fun x => -x)
  (index.map (vget s), selectCols nRow u index,
   selectCols nCol (mkMat nCol s.length fun j c => mget vt c j) index)

/-- `LanczosSVD.fit` calls `svds` with its default `which='LM'` (largest singular values) -/
def lanczosSvdWhich : String := "LM"

/-! ### spectral.py -/

/-- `Spectral.fit` asks `LanczosEig(which='SM')`: the eigenvalues of smallest magnitude of the Laplacian -/
def spectralWhich : String := "SM"

structure SpectralOut (α : Type) where
  bipartite : Bool
  regularized : Bool
  k : Nat
  eigenvalues : Vec α
  eigenvectors : Mat α
  embedding : Mat α
  embeddingRow : Option (Mat α)
  embeddingCol : Option (Mat α)

/-- `get_adjacency(input_matrix, allow_directed, force_bipartite)`: `(bipartite, n, adjacency)` -/
def getAdjacency (nRow nCol : Nat) (b : Mat α) (allowDirected forceBipartite : Bool) : Bool × Nat × Mat α :=
  let bipartite := forceBipartite || nRow != nCol || !(allowDirected || isSymmetric nRow b)
  if bipartite then (true, nRow + nCol, blockAdj nRow nCol b) else (false, nRow, b)

/-- `n_components = check_n_components(self.n_components, n - 2) + 1` -/
def spectralK (nComponents : Int) (n : Nat) : Int := checkNComponents nComponents ((n : Int) - 2) + 1

/-- `Spectral.fit` after the solver returned `(values, vectors)`: `(eigenvalues_, eigenvectors_, embedding)` -/
def spectralPost (F : Fn α) (n : Nat) (op : LapOp α) (rw normalized : Bool) (values : Vec α) (vectors : Mat α) :
    Vec α × Mat α × Mat α :=
  let index := (argsort values).drop 1            -- increasing order, skip first
  let eigenvalues := index.map (vget values)
  let eigenvectors := selectCols n vectors index
  let kk := index.length
  let eigenvectors := if rw then mkMat n kk fun i c => vget op.normDiag i * mget eigenvectors i c else eigenvectors
  let eigenvalues := if rw then eigenvalues.map fun x => 1 - x else eigenvalues
  let embedding := if normalized then normalize2 F n kk eigenvectors else eigenvectors
  (eigenvalues, eigenvectors, embedding)

/-- `_split_vars` and the attributes -/
def spectralResult (nRow : Nat) (bipartite regularized : Bool) (k : Nat) (post : Vec α × Mat α × Mat α) :
    SpectralOut α :=
  if bipartite then
    { bipartite, regularized, k, eigenvalues := post.1, eigenvectors := post.2.1, embedding := post.2.2.take nRow,
      embeddingRow := some (post.2.2.take nRow), embeddingCol := some (post.2.2.drop nRow) }
  else
    { bipartite, regularized, k, eigenvalues := post.1, eigenvectors := post.2.1, embedding := post.2.2,
      embeddingRow := none, embeddingCol := none }

/-- `Spectral.fit`.  `nnz` = number of stored entries (`check_format` refuses an empty matrix),
    `solver op adjacency k` = what `LanczosEig(which='SM').fit(laplacian, k)` returned. -/
def spectralFit (F : Fn α) (nRow nCol : Nat) (b : Mat α) (nnz : Nat) (forceBipartite : Bool)
    (nComponents : Int) (rw : Bool) (regParam : α) (normalized : Bool)
    (solver : LapOp α → Mat α → Nat → Vec α × Mat α) : Except PyErr (SpectralOut α) :=
  if nnz == 0 then .error .valueError else
  let g := getAdjacency nRow nCol b false forceBipartite
  let n := g.2.1
  let adjacency := g.2.2
  let reg := getRegularization regParam (stronglyConnected n adjacency)
  let op := lapInit F n adjacency reg rw
  let k := spectralK nComponents n
  if k ≤ 0 then .error .valueError else      -- eigsh: "k must be greater than 0"
  let sol := solver op adjacency k.toNat
  .ok (spectralResult nRow g.1 (decide (0 < reg)) k.toNat (spectralPost F n op rw normalized sol.1 sol.2))

/-! ### svd.py -/

structure GsvdParams (α : Type) where
  nComponents : Int
  regularization : Option α       -- after `__init__` (0 became None)
  factorRow : α
  factorCol : α
  factorSingular : α
  normalized : Bool

/-- `GSVD.__init__`: `regularization == 0` is stored as `None` -/
def gsvdInitReg (r : Option α) : Option α :=
  match r with
  | none => none
  | some x => if x == 0 then none else some x

structure GsvdOut (α : Type) where
  k : Nat
  singularValues : Vec α
  left : Mat α
  right : Mat α
  embeddingRow : Mat α
  embeddingCol : Mat α
  weightsCol : Vec α

/-- `Regularizer(x, r)` if `regularization` is set, else the matrix itself -/
def regOf (n m : Nat) (x : Mat α) (r : Option α) : SLR α :=
  match r with
  | some r => regularizer n m x r
  | none => SLR.ofMat n m x

/-- the matrix `GSVD.fit` hands to the solver, with the weights it computes on the way:
    `(weights_row, weights_col, diag_row, diag_col, diag_row · A_reg · diag_col)` -/
def gsvdOperator (F : Fn α) (nRow nCol : Nat) (a : Mat α) (p : GsvdParams α) :
    Vec α × Vec α × Vec α × Vec α × SLR α :=
  let areg : SLR α := regOf nRow nCol a p.regularization
  let weightsRow := areg.matvec (tab nCol fun _ => 1)
  let weightsCol := areg.transpose.matvec (tab nRow fun _ => 1)
  let diagRow : Vec α := tab nRow fun i => pinv (F.pow (vget weightsRow i) p.factorRow)
  let diagCol : Vec α := tab nCol fun j => pinv (F.pow (vget weightsCol j) p.factorCol)
  (weightsRow, weightsCol, diagRow, diagCol, (areg.rightDiag diagCol).leftDiag diagRow)

/-- `GSVD.fit` after the solver returned `(σ, U, V)` -/
def gsvdPost (F : Fn α) (nRow nCol : Nat) (p : GsvdParams α) (k : Nat) (diagRow diagCol weightsCol : Vec α)
    (sv : Vec α) (u v : Mat α) : GsvdOut α :=
  let index := argsort (sv.map fun x => -x)
  let kk := index.length
  let sv := index.map (vget sv)
  let left := selectCols nRow u index
  let right := selectCols nCol v index
  let sl : Vec α := sv.map fun s => F.pow s (1 - p.factorSingular)
  let sr : Vec α := sv.map fun s => F.pow s p.factorSingular
  let er := mkMat nRow kk fun i c => vget sl c * (vget diagRow i * mget left i c)
  let ec := mkMat nCol kk fun j c => vget sr c * (vget diagCol j * mget right j c)
  let er := if p.normalized then normalize2 F nRow kk er else er
  let ec := if p.normalized then normalize2 F nCol kk ec else ec
  { k, singularValues := sv, left, right, embeddingRow := er, embeddingCol := ec, weightsCol }

/-- `n_components = check_n_components(self.n_components, min(n_row, n_col) - 1)` -/
def gsvdK (nComponents : Int) (nRow nCol : Nat) : Int :=
  checkNComponents nComponents (((min nRow nCol : Nat) : Int) - 1)

/-- `GSVD.fit` (`SVD` is the instance `factorRow = factorCol = 0`).
    `solver M k` = `(singular_values_, singular_vectors_left_, singular_vectors_right_)` of the solver object. -/
def gsvdFit (F : Fn α) (nRow nCol : Nat) (a : Mat α) (nnz : Nat) (p : GsvdParams α)
    (solver : SLR α → Nat → Vec α × Mat α × Mat α) : Except PyErr (GsvdOut α) :=
  if nnz == 0 then .error .valueError else
  let k := gsvdK p.nComponents nRow nCol
  let o := gsvdOperator F nRow nCol a p
  if k ≤ 0 ∨ k ≥ ((min nRow nCol : Nat) : Int) then .error .valueError else   -- svds: 0 < k < min(shape)
  let sol := solver o.2.2.2.2 k.toNat
  .ok (gsvdPost F nRow nCol p k.toNat o.2.2.1 o.2.2.2.1 o.2.1 sol.1 sol.2.1 sol.2.2)

/-- the checks of `predict`: `check_format`, `check_adjacency_vector`, `check_nonnegative` -/
def predictRefused (nCol nVec len : Nat) (x : Mat α) : Bool :=
  len != nCol ||
    (List.range nVec).any fun i => (List.range len).any fun j => decide (mget x i j < 0)

/-- `GSVD.predict` once the input passed the checks -/
def gsvdPredictCore (F : Fn α) (p : GsvdParams α) (nCol : Nat) (sv : Vec α) (right : Mat α) (weightsCol : Vec α)
    (nVec : Nat) (x : Mat α) : Mat α :=
  let kk := sv.length
  let xreg : SLR α := regOf nVec nCol x p.regularization
  let weightsRow := xreg.matvec (tab nCol fun _ => 1)
  let diagRow : Vec α := tab nVec fun i => pinv (F.pow (vget weightsRow i) p.factorRow)
  let diagCol : Vec α := tab nCol fun j => pinv (F.pow (vget weightsCol j) p.factorCol)
  let av := (xreg.rightDiag diagCol).leftDiag diagRow
  let proj := av.matmat kk right
  let ev := mkMat nVec kk fun i c => (vget diagRow i * mget proj i c) / F.pow (vget sv c) p.factorSingular
  if p.normalized then normalize2 F nVec kk ev else ev

/-- `GSVD.predict(adjacency_vectors)` for `nVec` vectors of length `len` (rows of `x`; a vector without
    non-zero entry is accepted); the fitted state is `(singular_values_, singular_vectors_right_, weights_col_)` and `nCol`. -/
def gsvdPredict (F : Fn α) (p : GsvdParams α) (nCol : Nat) (sv : Vec α) (right : Mat α) (weightsCol : Vec α)
    (nVec len : Nat) (x : Mat α) : Except PyErr (Mat α) :=
  if predictRefused nCol nVec len x then .error .valueError
  else .ok (gsvdPredictCore F p nCol sv right weightsCol nVec x)

/-- `means_col = Aᵀ1 / n_row` -/
def pcaMeans (nRow nCol : Nat) (a : Mat α) : Vec α :=
  tab nCol fun j => (sumN nRow fun i => mget a i j * 1) / (nRow : α)

/-- the operator `PCA.fit` hands to the solver: `SparseLR(A, (-1, means_col))` -/
def pcaOperator (nRow nCol : Nat) (a : Mat α) : SLR α :=
  { nRow, nCol, sparse := a, lowRank := [(tab nRow fun _ => -1, pcaMeans nRow nCol a)] }

structure PcaOut (α : Type) where
  singularValues : Vec α
  left : Mat α
  right : Mat α
  embeddingRow : Mat α
  embeddingCol : Mat α
  mean : Vec α

/-- `PCA.fit` after the solver returned -/
def pcaPost (F : Fn α) (nRow nCol : Nat) (normalized : Bool) (mean : Vec α) (sv : Vec α) (u v : Mat α) : PcaOut α :=
  let kk := sv.length
  { singularValues := sv, left := u, right := v,
    embeddingRow := if normalized then normalize2 F nRow kk u else u,
    embeddingCol := if normalized then normalize2 F nCol kk v else v, mean }

/-- `PCA.fit`: no clamp of `n_components`, the solver's triplets are taken as they come; the embedding
    is the pair of singular-vector matrices, row-normalised when `normalized`; the column means are kept
    (`means_col_`) for `predict`. -/
def pcaFit (F : Fn α) (nRow nCol : Nat) (a : Mat α) (nnz : Nat) (nComponents : Int) (normalized : Bool)
    (solver : SLR α → Nat → Vec α × Mat α × Mat α) : Except PyErr (PcaOut α) :=
  if nnz == 0 then .error .valueError else
  if nComponents ≤ 0 ∨ nComponents ≥ ((min nRow nCol : Nat) : Int) then .error .valueError else
  let sol := solver (pcaOperator nRow nCol a) nComponents.toNat
  .ok (pcaPost F nRow nCol normalized (pcaMeans nRow nCol a) sol.1 sol.2.1 sol.2.2)

/-- `PCA.predict` once the input passed the checks: `((x − μ) V) / σ`, row-normalised when `normalized` -/
def pcaPredictCore (F : Fn α) (normalized : Bool) (nCol : Nat) (sv : Vec α) (right : Mat α) (mean : Vec α)
    (nVec : Nat) (x : Mat α) : Mat α :=
  let kk := sv.length
  let mv : Vec α := tab kk fun c => sumN nCol fun j => vget mean j * mget right j c
  let ev := mkMat nVec kk fun i c => ((sumN nCol fun j => mget x i j * mget right j c) - vget mv c) / vget sv c
  if normalized then normalize2 F nVec kk ev else ev

def pcaPredict (F : Fn α) (normalized : Bool) (nCol : Nat) (sv : Vec α) (right : Mat α) (mean : Vec α)
    (nVec len : Nat) (x : Mat α) : Except PyErr (Mat α) :=
  if predictRefused nCol nVec len x then .error .valueError
  else .ok (pcaPredictCore F normalized nCol sv right mean nVec x)

/-! ### random_projection.py -/

/-- one application of the multiplier to an `n × k` matrix -/
def rpMultiply (n k : Nat) (a : Mat α) (reg : α) (randomWalk : Bool) (m : Mat α) : Mat α :=
  if randomWalk then normalizerMatmat n k a reg m
  else (regularizer n n a reg).matmat k m

/-- the loop `for t in range(n_iter): factor = alpha * multiplier.dot(factor); embedding += factor` -/
def rpLoop (n k : Nat) (a : Mat α) (reg alpha : α) (randomWalk : Bool) :
    Nat → Mat α → Mat α → Mat α × Mat α
  | 0, factor, emb => (factor, emb)
  | t+1, factor, emb =>
    let mf := rpMultiply n k a reg randomWalk factor
    let factor' := mkMat n k fun i c => alpha * mget mf i c
    rpLoop n k a reg alpha randomWalk t factor' (mkMat n k fun i c => mget emb i c + mget factor' i c)

structure RpOut (α : Type) where
  bipartite : Bool
  regularized : Bool
  embedding : Mat α
  embeddingRow : Option (Mat α)
  embeddingCol : Option (Mat α)

/-- the full (rows then columns) embedding of `RandomProjection.fit` on the square adjacency -/
def rpEmbedding (F : Fn α) (n : Nat) (adjacency : Mat α) (reg alpha : α) (nIter : Nat) (randomWalk normalized : Bool)
    (q : Mat α) : Mat α :=
  let kk := (q.getD 0 []).length
  let emb := (rpLoop n kk adjacency reg alpha randomWalk nIter q q).2
  if normalized then normalize2 F n kk emb else emb

/-- `RandomProjection.fit`; `g n` is the orthonormalised Gaussian matrix (`n × nComponents`) -/
def rpFit (F : Fn α) (nRow nCol : Nat) (b : Mat α) (nnz : Nat) (forceBipartite : Bool)
    (alpha : α) (nIter : Nat) (randomWalk : Bool) (regParam : α) (normalized : Bool)
    (g : Nat → Mat α) : Except PyErr (RpOut α) :=
  if nnz == 0 then .error .valueError else
  let ga := getAdjacency nRow nCol b true forceBipartite
  let n := ga.2.1
  let adjacency := ga.2.2
  let reg := getRegularization regParam (stronglyConnected n adjacency)
  let regularized : Bool := decide (0 < reg)
  let emb := rpEmbedding F n adjacency reg alpha nIter randomWalk normalized (g n)
  if ga.1 then
    let er := emb.take nRow
    .ok { bipartite := true, regularized, embedding := er, embeddingRow := some er, embeddingCol := some (emb.drop nRow) }
  else
    .ok { bipartite := false, regularized, embedding := emb, embeddingRow := none, embeddingCol := none }

end

/-! ### louvain_embedding.py -/

section
variable {α : Type} [Add α] [Sub α] [Mul α] [Div α] [Neg α] [Zero α] [One α] [BEq α] [LT α] [DecidableLT α]

/-- `np.unique(labels, return_counts=True)`-based relabelling of `reindex_labels`:
    `labels_keep` = labels with count > 1 in increasing order -/
def labelsKeep (labels : List Nat) : List Nat :=
  let nLabels := labels.foldl max 0 + 1
  (List.range nLabels).filter fun l => decide ((labels.filter (· == l)).length > 1)

/-- position of `l` in `keep` -/
def indexIn (keep : List Nat) (l : Nat) : Option Nat :=
  let i := keep.findIdx (· == l)
  if i < keep.length then some i else none

inductive Isolated | remove | merge | keep
deriving DecidableEq, Repr

/-- the secondary labels of `reindex_labels`: rank of the label among the kept primary labels, `-1` otherwise
    (whatever `which` is) -/
def reindexSecondary (keep : List Nat) (sec : List Nat) : List Int :=
  sec.map fun l => match indexIn keep l with | some i => (i : Int) | none => -1

/-- `reindex_labels(labels, labels_secondary, which)`; labels become `Int` (−1 = removed).
    Indexing `label_index[labels_keep]` past the secondary table is numpy's IndexError. -/
def reindexLabels (labels : List Nat) (secondary : Option (List Nat)) (which : Isolated) :
    Except PyErr (List Int × Option (List Int)) := do
  let keep := labelsKeep labels
  let prim : List Int := labels.map fun l =>
    match which with
    | .remove => (match indexIn keep l with | some i => (i : Int) | none => -1)
    | .merge => (match indexIn keep l with | some i => (i : Int) | none => (keep.length : Int))
    | .keep => (l : Int)
  match secondary with
  | none => pure (prim, none)
  | some sec =>
    let nLabels := sec.foldl max 0 + 1
    if keep.any (· ≥ nLabels) then throw .indexError
    pure (prim, some (reindexSecondary keep sec))

/-- number of columns of `get_membership(labels)` : `max(labels) + 1` -/
def membershipCols (labels : List Int) : Nat := (labels.foldl max (-1) + 1).toNat

/-- `normalize(input_matrix).dot(get_membership(labels))` as a dense `n × membershipCols` matrix -/
def louvainProject (n m : Nat) (a : Mat α) (labels : List Int) : Mat α :=
  let p := normalize1 n m a
  mkMat n (membershipCols labels) fun i c =>
    sumN m fun j => if labels.getD j (-1) == (c : Int) then mget p i j * 1 else 0

structure LouvainEmbOut (α : Type) where
  labels : List Int
  labelsRow : List Int          -- the re-indexed row labels behind `embedding_col_` (a local of the code)
  embedding : Mat α
  embeddingRow : Option (Mat α)
  embeddingCol : Option (Mat α)

/-- `LouvainEmbedding.fit` after Louvain returned its labels: `labels` when Louvain worked on the matrix as an
    adjacency (`louvain.bipartite` false: square input, not forced), else `labelsCol`, `labelsRow`. -/
def louvainEmbFit (nRow nCol : Nat) (a : Mat α) (forceBipartite : Bool) (labelsNode labelsRow labelsCol : List Nat)
    (which : Isolated) : Except PyErr (LouvainEmbOut α) := do
  if !(forceBipartite || nRow != nCol) then
    let (lab, _) ← reindexLabels labelsNode none which
    pure { labels := lab, labelsRow := [], embedding := louvainProject nRow nCol a lab, embeddingRow := none,
           embeddingCol := none }
  else
    let (lab, labRow) ← reindexLabels labelsCol (some labelsRow) which
    let emb := louvainProject nRow nCol a lab
    let at_ : Mat α := mkMat nCol nRow fun j i => mget a i j
    let ec := louvainProject nCol nRow at_ (labRow.getD [])
    pure { labels := lab, labelsRow := labRow.getD [], embedding := emb, embeddingRow := some emb, embeddingCol := some ec }

end

end SkNet.Embedding
