/-
Model of sknetwork/classification/metrics.py (property C13, last clause): `get_accuracy_score`,
`get_confusion_matrix`, `get_f1_scores`, `get_f1_score`, `get_average_f1_score`, over `Rat`.
The code is mirrored function by function: masks, the `ValueError`s, `n_labels = max(max(true), max(pred)) + 1`,
the guarded divisions, and the three averages.
-/
import SkNet.Model.Basic

namespace SkNet.ClassMetrics

inductive PyErr
  | valueError
deriving DecidableEq, Repr

def rsum (l : List Rat) : Rat := l.foldr (· + ·) 0

/-- `(labels_true >= 0) & (labels_pred >= 0)` as the list of the selected pairs -/
def masked (t p : List Int) : List (Int × Int) :=
  (t.zip p).filter fun x => decide (0 ≤ x.1) && decide (0 ≤ x.2)

/-- `get_accuracy_score` -/
def accuracy (t p : List Int) : Except PyErr Rat :=
  if t.length != p.length then .error .valueError
  else
    let m := masked t p
    if m.isEmpty then .error .valueError
    else .ok (((m.filter fun x => x.1 == x.2).length : Rat) / (m.length : Rat))

/-- `max(max(labels_true), max(labels_pred)) + 1` -/
def nLabels (t p : List Int) : Nat := ((max (t.foldl max (-1)) (p.foldl max (-1))) + 1).toNat

/-- `get_confusion_matrix(...).toarray()` : true labels on rows, predicted labels on columns -/
def confusion (t p : List Int) : Except PyErr (List (List Nat)) :=
  if t.length != p.length then .error .valueError
  else
    let m := masked t p
    if m.isEmpty then .error .valueError
    else
      let k := nLabels t p
      .ok (tab k fun i => tab k fun j => (m.filter fun x => x.1 == (i : Int) && x.2 == (j : Int)).length)

def cell (c : List (List Nat)) (i j : Nat) : Nat := (c.getD i []).getD j 0

structure Scores where
  f1 : List Rat
  precision : List Rat
  recall : List Rat
deriving Repr

/-- the body of `get_f1_scores` on a confusion matrix -/
def scoresOf (c : List (List Nat)) : Scores :=
  let k := c.length
  let correct := tab k fun i => cell c i i
  let cTrue := tab k fun i => ((List.range k).map fun j => cell c i j).sum
  let cPred := tab k fun j => ((List.range k).map fun i => cell c i j).sum
  let recalls := tab k fun i =>
    if cTrue.getD i 0 > 0 then (correct.getD i 0 : Rat) / (cTrue.getD i 0 : Rat) else 0
  let precisions := tab k fun i =>
    if cPred.getD i 0 > 0 then (correct.getD i 0 : Rat) / (cPred.getD i 0 : Rat) else 0
  let f1 := tab k fun i =>
    let pr := precisions.getD i 0
    let rc := recalls.getD i 0
    if 0 < pr && 0 < rc then 2 / (1 / pr + 1 / rc) else 0
  ⟨f1, precisions, recalls⟩

/-- `get_f1_scores(labels_true, labels_pred, return_precision_recall=True)` -/
def f1Scores (t p : List Int) : Except PyErr Scores := (confusion t p).map scoresOf

/-- `set(labels_true[labels_true >= 0]) | set(labels_pred[labels_pred >= 0]) == {0, 1}` -/
def isBinary (t p : List Int) : Bool :=
  let vals := (t.filter (0 ≤ ·)) ++ (p.filter (0 ≤ ·))
  vals.all (fun v => v == 0 || v == 1) && vals.contains 0 && vals.contains 1

/-- `get_f1_score(labels_true, labels_pred, return_precision_recall=True)` -/
def f1Binary (t p : List Int) : Except PyErr (Rat × Rat × Rat) :=
  if !isBinary t p then .error .valueError
  else (f1Scores t p).map fun s => (s.f1.getD 1 0, s.precision.getD 1 0, s.recall.getD 1 0)

inductive Average
  | micro | macro | weighted | other
deriving DecidableEq, Repr

/-- `get_average_f1_score(labels_true, labels_pred, average)`.
    For `weighted` the weights are `np.unique(labels_true[labels_true >= 0], return_counts=True)`: the counts of
    the true labels over *all* samples with a non-negative true label, also those whose prediction is negative
    and which the confusion matrix ignores (the repository's own test pins this). -/
def averageF1 (t p : List Int) (a : Average) : Except PyErr Rat :=
  match a with
  | .micro => accuracy t p
  | .macro => (f1Scores t p).map fun s => rsum s.f1 / (s.f1.length : Rat)
  | .weighted => do
      let s ← f1Scores t p
      let tt := t.filter (0 ≤ ·)
      let k := s.f1.length
      let counts := tab k fun i => (tt.filter (· == (i : Int))).length
      pure (rsum (tab k fun i => s.f1.getD i 0 * (counts.getD i 0 : Rat)) / (tt.length : Rat))
  | .other => do
      let _ ← f1Scores t p
      .error .valueError

end SkNet.ClassMetrics
