/-
Model of sknetwork/topology/cycles.py (property C12): is_acyclic, get_cycles, break_cycles.

The adjacency enters as `Connectivity.Mat` (stored column indices per row in storage order + dense
values).  External code, as parameters:
* `sparse.csgraph.connected_components(adjacency, directed, connection='strong')`:
    `nCC` (number of components) and `labels`; contract `Connectivity.IsLabelling` (strong components when
    `directed`, components of the symmetrised graph otherwise), checked by `contract` lines;
* the iteration order of a Python `set` of node numbers (`setOrder`, any enumeration without repetition
    of the members; CPython enumerates small integers in increasing order, which is what the run lines use).
`get_distances` (break_cycles, directed branch) is the model of property C10 (`SkNet.Path`).

Paths are kept *reversed* (`rpath`: head = last node of the Python list `path`), stacks with head = top
(the end of the Python list).
-/
import SkNet.Model.Basic
import SkNet.Model.Path
import SkNet.Model.Connectivity

namespace SkNet.Cycles
open SkNet.Connectivity

/-- resolution of the `directed` argument shared by the three functions:
    `False` demands a symmetric matrix, `None` infers `not is_symmetric(adjacency)` -/
def resolveDirected (m : Mat) (directed : Option Bool) : Except PyErr Bool :=
  match directed with
  | some true => .ok true
  | some false =>
    match m.isSymmetric with
    | .error e => .error e
    | .ok s => if s then .ok false else .error .valueError
  | none =>
    match m.isSymmetric with
    | .error e => .error e
    | .ok s => .ok (!s)

/-- `(adjacency.diagonal() > 0)` -/
def selfLoops (m : Mat) : List Nat := (List.range m.nRow).filter fun i => decide (0 < m.val i i)

/-! ### is_acyclic -/

/-- `is_acyclic(adjacency, directed)`; `nCC directed` is what
    `connected_components(adjacency, directed, connection='strong', return_labels=False)` returned -/
def isAcyclic (nCC : Bool → Nat) (m : Mat) (directed : Option Bool) : Except PyErr Bool :=
  match resolveDirected m directed with
  | .error e => .error e
  | .ok directed =>
    if (selfLoops m).length > 0 then .ok false
    else if m.nRow != m.nCol then .error .valueError      -- scipy: "graph must be shape (N, N)"
    else
      let nNodes := m.nRow
      if directed then .ok (nCC directed == nNodes)
      else
        let nEdges := m.nnz / 2
        .ok ((nCC directed : Int) == (nNodes : Int) - (nEdges : Int))

/-! ### get_cycles -/

/-- `path[path.index(neighbor):]` for a neighbour that lies on the path -/
def cycleOf (rpath : List Nat) (nb : Nat) : List Nat :=
  (nb :: (rpath.takeWhile (· != nb)).reverse)

/-- body of `for neighbor in adjacency.indices[…]` of the traversal of `get_cycles`;
    state = (stack, cycles) -/
def cyclesNeighbors (directed : Bool) (rpath : List Nat) :
    List Nat → List (List Nat) × List (List Nat) → List (List Nat) × List (List Nat)
  | [], st => st
  | nb :: rest, (stack, cycles) =>
    if !directed && rpath.length > 1 && nb == rpath.getD 1 0 then
      cyclesNeighbors directed rpath rest (stack, cycles)              -- back move in an undirected graph
    else if rpath.contains nb then
      cyclesNeighbors directed rpath rest (stack, cycles ++ [cycleOf rpath nb])
    else
      cyclesNeighbors directed rpath rest ((nb :: rpath) :: stack, cycles)

/-- `while stack:` of `get_cycles`; `none` = out of fuel -/
def cyclesLoop (adj : Nat → List Nat) (directed : Bool) :
    Nat → List (List Nat) → List (List Nat) → Option (List (List Nat))
  | 0, _, _ => none
  | fuel+1, stack, cycles =>
    match stack with
    | [] => some cycles
    | rpath :: rest =>
      let (stack', cycles') := cyclesNeighbors directed rpath (adj (rpath.headD 0)) (rest, cycles)
      cyclesLoop adj directed fuel stack' cycles'

/-- `for start_node in cycle_starts:` -/
def cyclesFromStarts (adj : Nat → List Nat) (directed : Bool) (fuel : Nat) :
    List Nat → List (List Nat) → Option (List (List Nat))
  | [], cycles => some cycles
  | s :: starts, cycles =>
    match cyclesLoop adj directed fuel [[s]] cycles with
    | none => none
    | some cycles' => cyclesFromStarts adj directed fuel starts cycles'

/-- position of the first minimum: `cycle.index(min(cycle))` -/
def minOf : List Nat → Nat
  | [] => 0
  | [a] => a
  | a :: l => min a (minOf l)

/-- `np.roll(cycle, -cycle.index(min(cycle)))` -/
def rollMin (cycle : List Nat) : List Nat :=
  let k := cycle.idxOf (minOf cycle)
  cycle.drop k ++ cycle.take k

def insertSorted (a : Nat) : List Nat → List Nat
  | [] => [a]
  | b :: l => if a ≤ b then a :: b :: l else b :: insertSorted a l

/-- `np.sort` -/
def sortNat (l : List Nat) : List Nat := l.foldr insertSorted []

/-- the duplicate removal at the end of `get_cycles`; state = (visited keys, unique cycles) -/
def dedupCycles (directed : Bool) : List (List Nat) → List (List Nat) × List (List Nat) → List (List Nat)
  | [], (_, unique) => unique
  | cycle :: rest, (visited, unique) =>
    let candidate := rollMin cycle
    let key := if directed then candidate else sortNat candidate
    if visited.contains key then dedupCycles directed rest (visited, unique)
    else dedupCycles directed rest (key :: visited, unique ++ [candidate])

/-- first node of every listed label: `np.argwhere(cc_labels == label).ravel()[0]` -/
def firstOfLabel (labels : List Nat) (label : Nat) : Nat := labels.idxOf label

/-- the fuel handed to the traversal by `getCycles`: more than the number of simple paths -/
def cyclesFuel (m : Mat) : Nat :=
  (maxOf ((List.range m.nRow).map fun i => (m.adj i).length) + 2) ^ (m.nRow + 1)

/-- `get_cycles(adjacency, directed)`; `nCC`/`labels` are scipy's answer for the resolved flag.
    `none` inside = out of fuel. -/
def getCyclesWith (fuel : Nat) (nCC : Bool → Nat) (labels : Bool → List Nat) (m : Mat) (directed : Option Bool) :
    Except PyErr (Option (List (List Nat))) :=
  match resolveDirected m directed with
  | .error e => .error e
  | .ok directed =>
    let cycles0 := (selfLoops m).map fun v => [v]
    let nNodes := m.nRow
    if m.nRow != m.nCol then .error .valueError           -- scipy refuses a matrix that is not square
    else if directed && nCC directed == nNodes then .ok (some cycles0)
    else if !directed && (nCC directed : Int) == (nNodes : Int) - ((m.nnz / 2 : Nat) : Int) then .ok (some cycles0)
    else
      let ccLabels := labels directed
      let uniq := npUnique ccLabels
      let uniq := if directed then uniq.filter fun v => ccLabels.count v > 1 else uniq
      let starts := uniq.map (firstOfLabel ccLabels)
      match cyclesFromStarts m.adj directed fuel starts cycles0 with
      | none => .ok none
      | some cycles => .ok (some (dedupCycles directed cycles ([], [])))

def getCycles (nCC : Bool → Nat) (labels : Bool → List Nat) (m : Mat) (directed : Option Bool) :
    Except PyErr (Option (List (List Nat))) :=
  getCyclesWith (cyclesFuel m) nCC labels m directed

/-! ### break_cycles -/

/-- current adjacency of `break_cycles`: stored column indices per row (after the self-loops are gone the
    values never change, an entry is only ever removed) -/
abbrev Rows := List (List Nat)

def Rows.row (a : Rows) (i : Nat) : List Nat := a.getD i []

/-- `adjacency[i, j] > 0` -/
def Rows.has (a : Rows) (i j : Nat) : Bool := (a.row i).contains j

/-- `adjacency[i, j] = 0; adjacency.eliminate_zeros()` -/
def Rows.remove (a : Rows) (i j : Nat) : Rows :=
  a.modify i fun r => r.filter (· != j)

/-- `len(path) > 1 and adjacency[path[-2], path[-1]] <= 0` -/
def edgeGone (a : Rows) (rpath : List Nat) : Bool :=
  match rpath with
  | last :: prev :: _ => !(a.has prev last)
  | _ => false

/-- body of `for neighbor in cycle_neighbors` (directed branch); state = (adjacency, stack) -/
def breakNeighborsDir (cur : Nat) (rpath : List Nat) : List Nat → Rows × List (List Nat) → Rows × List (List Nat)
  | [], st => st
  | nb :: rest, (a, stack) =>
    if rpath.contains nb then breakNeighborsDir cur rpath rest (a.remove cur nb, stack)
    else breakNeighborsDir cur rpath rest (a, (nb :: rpath) :: stack)

/-- `while stack:` of the directed branch; `cycleNodes` = the nodes of the strongly connected component -/
def breakLoopDir (setOrder : List Nat → List Nat) (cycleNodes : List Nat) :
    Nat → Rows → List (List Nat) → Option Rows
  | 0, _, _ => none
  | fuel+1, a, stack =>
    match stack with
    | [] => some a
    | rpath :: rest =>
      if edgeGone a rpath then breakLoopDir setOrder cycleNodes fuel a rest
      else
        let cur := rpath.headD 0
        let cycleNeighbors := setOrder ((a.row cur).filter cycleNodes.contains)   -- set(neighbors) & set(cycle_nodes)
        let (a', stack') := breakNeighborsDir cur rpath cycleNeighbors (a, rest)
        breakLoopDir setOrder cycleNodes fuel a' stack'

/-- `for label in cycle_labels:` -/
def breakLabels (setOrder : List Nat → List Nat) (ccLabels : List Nat) (distances : List Int) (fuel : Nat) :
    List Nat → Rows → Option Rows
  | [], a => some a
  | label :: rest, a =>
    let cycleNodes := argwhereEq ccLabels label
    let ds := cycleNodes.map fun v => distances.getD v (-1)
    let dmin := ds.foldl min (ds.headD 0)
    let subroots := setOrder (cycleNodes.filter fun v => distances.getD v (-1) == dmin)
    -- stack = [(subroot, [subroot]) for subroot in subroots]: the last one is popped first
    let stack := (subroots.map fun s => [s]).reverse
    match breakLoopDir setOrder cycleNodes fuel a stack with
    | none => none
    | some a' => breakLabels setOrder ccLabels distances fuel rest a'

/-- body of `for neighbor in neighbors` (undirected branch) -/
def breakNeighborsUnd (cur : Nat) (rpath : List Nat) : List Nat → Rows × List (List Nat) → Rows × List (List Nat)
  | [], st => st
  | nb :: rest, (a, stack) =>
    if rpath.length > 1 && nb == rpath.getD 1 0 then breakNeighborsUnd cur rpath rest (a, stack)
    else if rpath.contains nb then breakNeighborsUnd cur rpath rest ((a.remove cur nb).remove nb cur, stack)
    else breakNeighborsUnd cur rpath rest (a, (nb :: rpath) :: stack)

/-- `while stack:` of the undirected branch -/
def breakLoopUnd : Nat → Rows → List (List Nat) → Option Rows
  | 0, _, _ => none
  | fuel+1, a, stack =>
    match stack with
    | [] => some a
    | rpath :: rest =>
      if edgeGone a rpath then breakLoopUnd fuel a rest
      else
        let cur := rpath.headD 0
        let (a', stack') := breakNeighborsUnd cur rpath (a.row cur) (a, rest)
        breakLoopUnd fuel a' stack'

/-- `for start_node in start_nodes:` -/
def breakStarts (fuel : Nat) : List Nat → Rows → Option Rows
  | [], a => some a
  | s :: rest, a =>
    match breakLoopUnd fuel a [[s]] with
    | none => none
    | some a' => breakStarts fuel rest a'

/-- `np.unique(cc_labels, return_index=True)[1]`: first node of every component, by increasing label -/
def firstNodes (ccLabels : List Nat) : List Nat := (npUnique ccLabels).map (firstOfLabel ccLabels)

inductive BreakOut
  | fuel
  | same                    -- the input itself is returned (already acyclic)
  | rows (a : Rows)         -- the stored entries that are kept; the returned matrix is `breakResult m a`
deriving Repr

/-- The matrix `break_cycles` returns when the entries `a` are kept: `tril(A, -1) + triu(A, 1)` copies the values off
    the diagonal, `adjacency[i, j] = 0; eliminate_zeros()` deletes an entry and nothing else ever writes a value, so
    a kept entry carries the value of the input and everything else is 0. -/
def breakResult (m : Mat) (a : Rows) : Mat where
  nRow := m.nRow
  nCol := m.nCol
  adj := a.row
  val := fun i j => if a.has i j then m.val i j else 0

/-- External answers used by `break_cycles`:
    `nCC` for the call of `is_acyclic` on the input, `labelsNoLoop directed` for
    `connected_components` on the adjacency without self-loops. -/
structure BreakExt where
  nCC : Bool → Nat
  labelsNoLoop : Bool → List Nat
  setOrder : List Nat → List Nat

/-- break self-loops: `csr_matrix(tril(adjacency, -1) + triu(adjacency, 1))`; the rows come out sorted -/
def noLoopRows (m : Mat) : Rows := tab m.nRow fun i => sortNat ((m.adj i).filter (· != i))

/-- `get_distances(adjacency, source=root)` on the adjacency without self-loops (model of property C10) -/
def distancesFrom (m : Mat) (a0 : Rows) (root : List Nat) : Except PyErr (Option (List Int)) :=
  match SkNet.Path.getDistances m.nRow m.nRow (fun i j => a0.has i j) { source := some root } with
  | .error .valueError => .error .valueError
  | .error .indexError => .error .indexError
  | .error .typeError => .error .typeError
  | .ok (some (.single d)) => .ok (some d)
  | .ok _ => .ok none

/-- the directed branch -/
def breakDirected (fuel : Nat) (ext : BreakExt) (m : Mat) (root : List Nat) : Except PyErr BreakOut :=
  if m.nRow != m.nCol then .error .valueError             -- scipy refuses a matrix that is not square
  else
  let a0 := noLoopRows m
  let ccLabels := ext.labelsNoLoop true
  let cycleLabels := (npUnique ccLabels).filter fun v => ccLabels.count v > 1
  match distancesFrom m a0 root with
  | .error e => .error e
  | .ok none => .ok .fuel
  | .ok (some d) =>
    match breakLabels ext.setOrder ccLabels d fuel cycleLabels a0 with
    | none => .ok .fuel
    | some a => .ok (.rows a)

/-- the undirected branch: from the roots, then from the first node of every connected component -/
def breakUndirected (fuel : Nat) (ext : BreakExt) (m : Mat) (root : List Nat) : BreakOut :=
  let ccLabels := ext.labelsNoLoop false
  let startNodes := root ++ firstNodes ccLabels
  match breakStarts fuel startNodes (noLoopRows m) with
  | none => .fuel
  | some a => .rows a

/-- `out_degree = len(adjacency[root].indices)` (IndexError for a root outside the matrix), refused when 0 -/
def checkRoot (m : Mat) (root : List Nat) : Except PyErr Unit :=
  if !(root.all (· < m.nRow)) then .error .indexError
  else if (root.map fun r => (m.adj r).length).sum == 0 then .error .valueError
  else .ok ()

/-- `break_cycles(adjacency, root, directed)`; `root = none` is `None`, an `int` root arrives as `[root]` -/
def breakCyclesWith (fuel : Nat) (ext : BreakExt) (m : Mat) (root : Option (List Nat)) (directed : Option Bool) :
    Except PyErr BreakOut :=
  match isAcyclic ext.nCC m directed with
  | .error e => .error e
  | .ok true => .ok .same
  | .ok false =>
    match root with
    | none => .error .valueError
    | some root =>
      match checkRoot m root with
      | .error e => .error e
      | .ok () =>
        match resolveDirected m directed with
        | .error e => .error e
        | .ok true => breakDirected fuel ext m root
        | .ok false => .ok (breakUndirected fuel ext m root)

/-- the fuel handed to the traversals by `breakCycles` (several sub-roots may be stacked at once) -/
def breakFuel (m : Mat) : Nat :=
  (maxOf ((List.range m.nRow).map fun i => (m.adj i).length) + m.nRow + 2) ^ (m.nRow + 1)

def breakCycles (ext : BreakExt) (m : Mat) (root : Option (List Nat)) (directed : Option Bool) :
    Except PyErr BreakOut :=
  breakCyclesWith (breakFuel m) ext m root directed

end SkNet.Cycles
