/-
Model of sknetwork/data/parse.py (property C18): `from_edge_array`, `from_edge_list`, `from_adjacency_list`,
`scan_header`, `from_csv`, and of `sknetwork/utils/format.py:directed2undirected` as used by them.

Mirrors the code step by step:
* numpy: `np.unique` (sorted distinct values, `return_inverse`, `axis=0` + `return_index`) is `uniq` / `pos` /
  `firstRows`; `astype(bool)` / the "all weights are integers" test is `weightKind` / `castWeight`;
* scipy: `csr_matrix((data, (row, col)), shape)` is `csrOf` of a COO list (duplicates are summed at construction;
  for the bool dtype `+` is `or`), `A.astype(t); A += A.T` and `(A + A.T).astype(bool)` are `directed2undirected`;
* errors: the model raises where the code raises (`max()` of an empty sequence, negative index, non numeric
  weights, ragged tuples, 1-d array indexed twice).
The identifiers of an edge array have one numpy dtype: the model is generic in the identifier type `α`
(`asInt = some v` : dtype int with value `v`; `none` : strings), `fromEdgeList` decides which one applies
exactly as `np.array(...)` followed by `astype(float)` does.
-/
import SkNet.Model.Basic

namespace SkNet.Ingest

inductive PyErr
  | valueError | indexError | typeError | keyError
deriving DecidableEq, Repr

def PyErr.show : PyErr → String
  | .valueError => "ValueError" | .indexError => "IndexError" | .typeError => "TypeError"
  | .keyError => "KeyError"

/-! ### numpy vocabulary -/

/-- insertion into a list sorted by `lt`, after the elements that are smaller -/
def insertSorted (lt : α → α → Bool) (x : α) : List α → List α
  | [] => [x]
  | y :: ys => if lt y x then y :: insertSorted lt x ys else x :: y :: ys

/-- `np.unique(xs)`: the distinct values, sorted -/
def uniq [DecidableEq α] (lt : α → α → Bool) (xs : List α) : List α :=
  xs.foldr (fun x acc => if x ∈ acc then acc else insertSorted lt x acc) []

/-- position of the first occurrence of `x` (the length if absent): `return_inverse` of `np.unique` -/
def pos [DecidableEq α] (x : α) : List α → Nat
  | [] => 0
  | y :: ys => if x = y then 0 else pos x ys + 1

/-- lexicographic order of the rows of a 2-column array (`np.unique(..., axis=0)`) -/
def ltPair (lt : α → α → Bool) [DecidableEq α] (p q : α × α) : Bool :=
  lt p.1 q.1 || (p.1 = q.1 && lt p.2 q.2)

def rsum : List Rat → Rat
  | [] => 0
  | x :: xs => x + rsum xs

/-! ### sparse matrices as COO lists -/

inductive Kind
  | bool | int | float
deriving DecidableEq, Repr

def Kind.show : Kind → String
  | .bool => "b" | .int => "i" | .float => "f"

structure Coo where
  nRow : Nat
  nCol : Nat
  kind : Kind
  entries : List (Nat × Nat × Rat)
deriving Repr

/-- the stored values at position (i, j), in storage order -/
def Coo.vals (m : Coo) (i j : Nat) : List Rat :=
  (m.entries.filter fun e => e.1 = i ∧ e.2.1 = j).map (·.2.2)

/-- combination of duplicate values: the sum; `or` for the bool dtype (values are 0/1) -/
def combine (k : Kind) (l : List Rat) : Rat :=
  match k with
  | .bool => if l.any (· != 0) then 1 else 0
  | _ => rsum l

/-- dense value of entry (i, j) -/
def Coo.entry (m : Coo) (i j : Nat) : Rat := combine m.kind (m.vals i j)

def ltNat (a b : Nat) : Bool := decide (a < b)

/-- `csr_matrix((data, (row, col)), shape)` / `sum_duplicates()`: one stored value per position, row-major -/
def csrOf (m : Coo) : Coo :=
  let ps := uniq (ltPair ltNat) (m.entries.map fun e => (e.1, e.2.1))
  { m with entries := ps.map fun p => (p.1, p.2, m.entry p.1 p.2) }

def transposeEntries (es : List (Nat × Nat × Rat)) : List (Nat × Nat × Rat) :=
  es.map fun e => (e.2.1, e.1, e.2.2)

/-- `astype(bool)` of the stored values -/
def boolEntries (es : List (Nat × Nat × Rat)) : List (Nat × Nat × Rat) :=
  es.map fun e => (e.1, e.2.1, if e.2.2 != 0 then 1 else 0)

/-- `sknetwork.utils.format.directed2undirected` on a (square) csr matrix:
    weighted: `B = A.astype(float if A.dtype == float else int); B += A.T`;
    otherwise `(A + A.T).astype(bool)`. -/
def directed2undirected (m : Coo) (weighted : Bool) : Coo :=
  if weighted then
    { m with kind := if m.kind = .float then .float else .int,
             entries := m.entries ++ transposeEntries m.entries }
  else
    { m with kind := .bool, entries := boolEntries (csrOf { m with entries := m.entries ++ transposeEntries m.entries }).entries }

/-! ### `from_edge_array` -/

structure Flags where
  directed : Bool := false
  bipartite : Bool := false
  weighted : Bool := true
  reindex : Bool := false
  shape : Option (Nat × Nat) := none
  sumDuplicates : Bool := true
  matrixOnly : Option Bool := none
deriving Repr

/-- dtype of the weights after `astype(int)` if all are integers, `astype(bool)` if not `weighted` -/
def weightKind (weighted : Bool) (ws : List Rat) : Kind :=
  if !weighted then .bool else if ws.all (fun w => w.den == 1) then .int else .float

def castWeight (k : Kind) (w : Rat) : Rat :=
  match k with
  | .bool => if w != 0 then 1 else 0
  | _ => w

/-- `_, index = np.unique(edge_array, axis=0, return_index=True); edge_array[index], weights[index]` -/
def firstRows [DecidableEq α] (lt : α → α → Bool) (es : List ((α × α) × Rat)) : List ((α × α) × Rat) :=
  (uniq (ltPair lt) (es.map (·.1))).filterMap fun r => es.find? (fun e => e.1 = r)

/-- numbering of the nodes of one axis -/
structure Axis (α : Type) where
  n : Nat
  names : Option (List α)
  index : α → Nat

/-- `if ids.dtype != int or reindex: names, ids = np.unique(ids, return_inverse=True); n = len(names)`
    `elif shape is not None: n = max(shape[k], max(ids) + 1)`  `else: n = max(ids) + 1`
    (a negative integer is refused by scipy when the matrix is built). -/
def axisOf [DecidableEq α] (lt : α → α → Bool) (asInt : Option (α → Int)) (reindex : Bool)
    (shapeDim : Option Nat) (ids : List α) : Except PyErr (Axis α) :=
  match asInt, reindex with
  | some v, false =>
    if ids.isEmpty then .error .valueError
    else if ids.any (fun x => decide (v x < 0)) then .error .valueError
    else
      let mx := (ids.map fun x => (v x).toNat).foldl max 0
      let n := match shapeDim with
        | some s => max s (mx + 1)
        | none => mx + 1
      .ok ⟨n, none, fun x => (v x).toNat⟩
  | _, _ =>
    let names := uniq lt ids
    .ok ⟨names.length, some names, fun x => pos x names⟩

structure Graph (α : Type) where
  matrix : Coo
  bipartite : Bool
  names : Option (List α)
  namesRow : Option (List α)
  namesCol : Option (List α)
  /-- only the matrix is returned -/
  matrixOnly : Bool

/-- the typed edges: `weights` defaults to ones, is cast (`weightKind`), duplicates are dropped if asked -/
def typedEdges [DecidableEq α] (lt : α → α → Bool) (rows : List (α × α)) (w : List Rat) (f : Flags) :
    List ((α × α) × Rat) :=
  let kind := weightKind f.weighted w
  let es := rows.zip (w.map (castWeight kind))
  if f.sumDuplicates then es else firstRows lt es

/-- the COO triples `(row, col, data)` handed to `csr_matrix` -/
def cooOf (es : List ((α × α) × Rat)) (fr fc : α → Nat) : List (Nat × Nat × Rat) :=
  es.map fun e => (fr e.1.1, fc e.1.2, e.2)

/-- `sparse.csr_matrix((weights, (row, col)), shape=(n_row, n_col))` of the bipartite branch -/
def bipMatrix (kind : Kind) (es : List ((α × α) × Rat)) (ar ac : Axis α) : Coo :=
  csrOf ⟨ar.n, ac.n, kind, cooOf es ar.index ac.index⟩

/-- the matrix of the other branch: `csr_matrix(..., shape=(n, n))`, then `directed2undirected` if not directed -/
def sqMatrix (symW directed : Bool) (kind : Kind) (es : List ((α × α) × Rat)) (ax : Axis α) : Coo :=
  let m := csrOf ⟨ax.n, ax.n, kind, cooOf es ax.index ax.index⟩
  if directed then m else directed2undirected m symW

/-- `from_edge_array(edge_array, weights, …)`. `symW f` is the `weighted` argument handed to
    `directed2undirected` (`f.weighted` in the code as it is; the pinned code used the default `True`: F13). -/
def fromEdgeArrayWith [DecidableEq α] (symW : Flags → Bool) (lt : α → α → Bool) (asInt : Option (α → Int))
    (rows : List (α × α)) (weights : Option (List Rat)) (f : Flags) : Except PyErr (Graph α) :=
  let w := weights.getD (List.replicate rows.length 1)
  if w.length != rows.length then .error .valueError
  else
    let kind := weightKind f.weighted w
    let es := typedEdges lt rows w f
    if f.bipartite then
      match axisOf lt asInt f.reindex (f.shape.map (·.1)) (es.map (·.1.1)) with
      | .error e => .error e
      | .ok ar =>
        match axisOf lt asInt f.reindex (f.shape.map (·.2)) (es.map (·.1.2)) with
        | .error e => .error e
        | .ok ac =>
          .ok { matrix := bipMatrix kind es ar ac, bipartite := true, names := ar.names, namesRow := ar.names,
                namesCol := ac.names, matrixOnly := f.matrixOnly.getD ar.names.isNone }
    else
      match axisOf lt asInt f.reindex (f.shape.map (·.1)) (es.flatMap fun e => [e.1.1, e.1.2]) with
      | .error e => .error e
      | .ok ax =>
        .ok { matrix := sqMatrix (symW f) f.directed kind es ax, bipartite := false, names := ax.names,
              namesRow := none, namesCol := none, matrixOnly := f.matrixOnly.getD ax.names.isNone }

/-- the code as it is -/
def fromEdgeArray [DecidableEq α] (lt : α → α → Bool) (asInt : Option (α → Int))
    (rows : List (α × α)) (weights : Option (List Rat)) (f : Flags) : Except PyErr (Graph α) :=
  fromEdgeArrayWith (fun f => f.weighted) lt asInt rows weights f

/-- the pinned code (before the repair of F13): `directed2undirected(matrix)` with its default `weighted=True` -/
def fromEdgeArrayPinned [DecidableEq α] (lt : α → α → Bool) (asInt : Option (α → Int))
    (rows : List (α × α)) (weights : Option (List Rat)) (f : Flags) : Except PyErr (Graph α) :=
  fromEdgeArrayWith (fun _ => true) lt asInt rows weights f

/-! ### `from_edge_list`, `from_adjacency_list` -/

/-- a node identifier as Python hands it over -/
inductive Ident
  | int (z : Int)
  | str (s : String)
deriving DecidableEq, Repr

def Ident.toStr : Ident → String
  | .int z => toString z
  | .str s => s

def Ident.isInt : Ident → Bool
  | .int _ => true
  | .str _ => false

def Ident.intVal : Ident → Int
  | .int z => z
  | .str _ => 0

/-- the third field of an edge tuple -/
inductive WField
  | absent              -- the tuple has length 2
  | num (w : Rat)
  | text                -- a string that `astype(float)` refuses
deriving DecidableEq, Repr

abbrev EdgeTuple := Ident × Ident × WField

def ltInt (a b : Int) : Bool := decide (a < b)
def ltStr (a b : String) : Bool := decide (a < b)

def Graph.mapNames (g : Graph α) (h : α → β) : Graph β :=
  { matrix := g.matrix, bipartite := g.bipartite, names := g.names.map (·.map h),
    namesRow := g.namesRow.map (·.map h), namesCol := g.namesCol.map (·.map h), matrixOnly := g.matrixOnly }

/-- dtype decision of `np.array([[e[0], e[1]] …])` followed by `astype(float)` / `astype(int)`:
    all Python ints: an int array; otherwise every identifier becomes its string, and the array is
    numeric iff every string parses (`parse` stands for Python's number syntax restricted to integers). -/
def classify (parse : String → Option Int) (rows : List (Ident × Ident)) :
    Sum (List (Int × Int)) (List (String × String)) :=
  if rows.all (fun r => r.1.isInt && r.2.isInt) then .inl (rows.map fun r => (r.1.intVal, r.2.intVal))
  else
    let ss := rows.map fun r => (r.1.toStr, r.2.toStr)
    if ss.all (fun r => (parse r.1).isSome && (parse r.2).isSome) then
      .inl (ss.map fun r => ((parse r.1).getD 0, (parse r.2).getD 0))
    else .inr ss

/-- names of an integer / string graph as identifiers -/
def liftNames (h : α → Ident) : Except PyErr (Graph α) → Except PyErr (Graph Ident)
  | .ok g => .ok (g.mapNames h)
  | .error e => .error e

/-- `weights = np.array([edge[2] …])` iff the first tuple has length 3 -/
def hasWeights : List EdgeTuple → Bool
  | (_, _, .absent) :: _ => false
  | [] => false
  | _ => true

/-- `weights = np.array([edge[2] for edge in edge_list])` when the first tuple has length 3, else `None` -/
def tupleWeights (edges : List EdgeTuple) : Option (List Rat) :=
  if hasWeights edges then some (edges.map fun e => match e.2.2 with | .num w => w | _ => 0) else none

/-- `from_edge_list(edge_list: list, …)` -/
def fromEdgeListWith (symW : Flags → Bool) (parse : String → Option Int) (edges : List EdgeTuple) (f : Flags) :
    Except PyErr (Graph Ident) :=
  let hasW := hasWeights edges
  -- a shorter tuple further down: `edge[2]` fails
  if hasW && edges.any (fun e => e.2.2 = .absent) then .error .indexError
  -- an empty list gives a 1-d array: `edge_array[:, 0]` fails when bipartite
  else if edges.isEmpty && f.bipartite then .error .indexError
  else if hasW && edges.any (fun e => e.2.2 = .text) then .error .valueError
  else
    let weights := tupleWeights edges
    match classify parse (edges.map fun e => (e.1, e.2.1)) with
    | .inl rows => liftNames .int (fromEdgeArrayWith symW ltInt (some id) rows weights f)
    | .inr rows => liftNames .str (fromEdgeArrayWith symW ltStr none rows weights f)

def fromEdgeList := fromEdgeListWith (fun f => f.weighted)

/-- `for i, neighbors in enumerate(adjacency_list): for j in neighbors: edge_list.append((i, j))` -/
def adjacencyEdges (adj : List (Ident × List Ident)) : List EdgeTuple :=
  adj.flatMap fun r => r.2.map fun j => (r.1, j, .absent)

/-- `from_adjacency_list` on a list of lists (keys are the positions) -/
def fromAdjacencyList (parse : String → Option Int) (adj : List (List Ident)) (f : Flags) :
    Except PyErr (Graph Ident) :=
  fromEdgeList parse (adjacencyEdges ((List.range adj.length).zip adj |>.map fun r => (.int r.1, r.2))) f

/-- `from_adjacency_list` on a dict (insertion order) -/
def fromAdjacencyDict (parse : String → Option Int) (adj : List (Ident × List Ident)) (f : Flags) :
    Except PyErr (Graph Ident) :=
  fromEdgeList parse (adjacencyEdges adj) f

end SkNet.Ingest
