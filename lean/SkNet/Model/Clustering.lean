/-
Model of the post-processing pipeline shared by the clustering estimators (property C05):

* `sknetwork/clustering/postprocess.py : reindex_labels`
      _, index, counts = np.unique(labels, return_inverse=True, return_counts=True)
      _, new_index = np.unique(np.argsort(-counts), return_index=True)
      return new_index[index]
  (`unique`, `inverse`, `counts`, `uniqueIndex`, `reindexLabels`; `np.argsort` is a parameter)
* `sknetwork/utils/membership.py : get_membership`  (`getMembership`, one row of column indices per node)
* `sknetwork/clustering/louvain.py : fit / _post_processing`  (`louvainLoop`, `postProcess`;
  the kernel `optimize_core` is a parameter: it belongs to C06)
* `sknetwork/clustering/leiden.py : fit`  (`leidenLoop`; both kernels are parameters)
* `sknetwork/clustering/propagation_clustering.py : fit` after the vote sweeps (`propagationPost`)
* `sknetwork/clustering/base.py : _split_vars, _secondary_outputs`  (`splitVars`, `secondary`, over `Rat`)
* `sknetwork/clustering/kcenters.py` : `_compute_mask_centers`, `_init_centers` (random choices and PageRank
  scores are parameters), the checks of `fit`, the selection of the best restart, the centre bookkeeping.

Errors: where Python raises, the model returns `.error`.
-/
import SkNet.Model.Basic

namespace SkNet.Clustering

inductive PyErr
  | valueError | indexError | typeError
deriving DecidableEq, Repr

def PyErr.show : PyErr → String
  | .valueError => "ValueError" | .indexError => "IndexError" | .typeError => "TypeError"

/-! ### `np.unique` -/

/-- insertion into a strictly increasing list (no duplicate is created) -/
def insertU (x : Int) : List Int → List Int
  | [] => [x]
  | y :: ys => if x < y then x :: y :: ys else if x = y then y :: ys else y :: insertU x ys

/-- `np.unique(l)`: the distinct values in increasing order -/
def unique (l : List Int) : List Int := l.foldr insertU []

/-- `np.unique(l, return_inverse=True)[1]` -/
def inverse (l : List Int) : List Nat := l.map fun x => (unique l).idxOf x

/-- `np.unique(l, return_counts=True)[1]` -/
def counts (l : List Int) : List Nat := (unique l).map fun v => l.count v

/-- `np.unique(p, return_index=True)[1]`: first position of every distinct value, values increasing -/
def uniqueIndex (p : List Nat) : List Nat :=
  let q : List Int := p.map Int.ofNat
  (unique q).map fun v => q.idxOf v

/-! ### `reindex_labels` -/

/-- `new_index[index]` with `new_index = unique(argsort(-counts), return_index)[1]` -/
def reindexLabels (argsort : List Int → List Nat) (labels : List Int) : List Nat :=
  let index := inverse labels
  let cnt := counts labels
  let newIndex := uniqueIndex (argsort (cnt.map fun (c : Nat) => -(c : Int)))
  index.map fun c => newIndex.getD c 0

/-- insertion of `v` into a list of positions sorted by `key`, before equal keys -/
def insertBy (key : Nat → Int) (v : Nat) : List Nat → List Nat
  | [] => [v]
  | w :: ws => if key v ≤ key w then v :: w :: ws else w :: insertBy key v ws

/-- a concrete (stable) argsort standing for `np.argsort`; the theorems hold for *any* sorting permutation -/
def argsortStable (d : List Int) : List Nat :=
  (List.range d.length).foldr (insertBy fun i => d.getD i 0) []

/-! ### `get_membership` and products of membership matrices -/

/-- a sparse 0/1 matrix: per row the stored column indices (CSR `indices`, row by row) -/
structure Membership where
  nCol : Nat
  rows : List (List Nat)
deriving Repr, DecidableEq

/-- number of columns of `get_membership(labels, n_labels)`: `n_labels`, or `max(labels) + 1`
    (`max([])` is a ValueError) -/
def membershipCols (labels : List Int) (nLabels : Option Nat) : Except PyErr Int :=
  match nLabels with
  | some k => .ok (k : Int)
  | none =>
    match labels.max? with
    | none => .error .valueError
    | some m => .ok (m + 1)

/-- `get_membership(labels, n_labels=…)`; negative labels give an empty row;
    `max([])`, a negative shape and a column index outside the shape are ValueErrors -/
def getMembership (labels : List Int) (nLabels : Option Nat) : Except PyErr Membership :=
  match membershipCols labels nLabels with
  | .error e => .error e
  | .ok nCol =>
    if nCol < 0 then .error .valueError
    else if labels.any (fun l => decide (nCol ≤ l)) then .error .valueError
    else .ok ⟨nCol.toNat, labels.map fun l => if 0 ≤ l then [l.toNat] else []⟩

/-- `sparse.identity(n, format='csr')` -/
def identity (n : Nat) : Membership := ⟨n, tab n fun i => [i]⟩

/-- `a.dot(b)` of 0/1 sparse matrices, structure only (a dimension mismatch is a ValueError) -/
def dot (a b : Membership) : Except PyErr Membership :=
  if a.nCol != b.rows.length then .error .valueError
  else .ok ⟨b.nCol, a.rows.map fun r => (r.flatMap fun c => b.rows.getD c []).eraseDups⟩

/-- `membership.indices` -/
def indices (m : Membership) : List Nat := m.rows.flatten

/-! ### `Louvain.fit`: the aggregation loop around the kernel -/

/-- The loop `while not stop` of `Louvain.fit`.
    `kernel count n` stands for `_optimize(np.arange(n), …)` in round `count`: the labels it returns and
    whether `increase <= tol_aggregation`.  `none` = fuel exhausted.  Returns the membership and `count`. -/
def louvainLoop (kernel : Nat → Nat → List Int × Bool) (nAgg : Int) :
    Nat → Nat → Nat → Membership → Except PyErr (Option (Membership × Nat))
  | 0, _, _, _ => pure none
  | fuel+1, count, n, m => do
    let count := count + 1
    let raw := (kernel count n).1
    let incStop := (kernel count n).2
    let labels := inverse raw                       -- _, labels = np.unique(labels, return_inverse=True)
    let mm ← getMembership (labels.map Int.ofNat) none
    let m' ← dot m mm                               -- membership.dot(get_membership(labels))
    let n' := mm.nCol                               -- adjacency.shape[0] after _aggregate
    let stop := n' == 1 || incStop || (count : Int) == nAgg
    if stop then pure (some (m', count)) else louvainLoop kernel nAgg fuel count n' m'

/-! ### `Leiden.fit` -/

/-- `membership_refined.T.tocsr().dot(membership).indices`: for every refined cluster (row of the
    transposed matrix) the coarse labels of its members, without repetition -/
def refinedToCoarse (labels refined : List Nat) (kRef : Nat) : List Nat :=
  (tab kRef fun r =>
    (((List.range refined.length).filter fun i => refined.getD i kRef == r).map
        fun i => labels.getD i 0).eraseDups).flatten

/-- The loop of `Leiden.fit`.  `kernel count labels` = raw output of `_optimize` and the flag
    `increase <= tol_aggregation`; `refine count labels` = raw output of `_optimize_refine`. -/
def leidenLoop (kernel : Nat → List Nat → List Int × Bool) (refine : Nat → List Nat → List Int) (nAgg : Int) :
    Nat → Nat → Nat → List Nat → Membership → Except PyErr (Option (Membership × Nat))
  | 0, _, _, _, _ => pure none
  | fuel+1, count, n, labels, m => do
    let count := count + 1
    let raw := (kernel count labels).1
    let incStop := (kernel count labels).2
    let labels := inverse raw
    let labelsOriginal := labels
    let labelsRefined := inverse (refine count labels)
    -- _aggregate_refine
    let mem ← getMembership (labels.map Int.ofNat) none
    let memRef ← getMembership (labelsRefined.map Int.ofNat) none
    if mem.rows.length != memRef.rows.length then throw .valueError
    let labels' := refinedToCoarse labels labelsRefined memRef.nCol
    let n' := memRef.nCol
    -- `stop |= n == n_previous`: a round whose refinement merges nothing ends the loop (repair b2c73765)
    let stop := n' == 1 || n' == n || incStop || (count : Int) == nAgg
    if stop then do
      let m' ← dot m (← getMembership (labelsOriginal.map Int.ofNat) none)
      pure (some (m', count))
    else do
      let m' ← dot m memRef
      leidenLoop kernel refine nAgg fuel count n' labels' m'

/-! ### `_post_processing`, `_split_vars` -/

/-- `reverse = np.empty(n); reverse[index] = np.arange(n)` (unwritten slots are shown as 0) -/
def reverseOf (index : List Nat) : List Nat :=
  (index.zipIdx).foldl (fun r (vj : Nat × Nat) => r.set vj.1 vj.2) (List.replicate index.length 0)

/-- `labels[reverse]` after `reverse[index] = arange` (both are fancy indexings: IndexError out of range) -/
def unshuffle (labels : List Nat) (index : List Nat) : Except PyErr (List Nat) :=
  if !index.all (· < index.length) then .error .indexError
  else
    let reverse := reverseOf index
    if !reverse.all (· < labels.length) then .error .indexError
    else .ok (reverse.map fun r => labels.getD r 0)

structure Fitted where
  labels : List Nat
  labelsRow : Option (List Nat)
  labelsCol : Option (List Nat)
deriving Repr, DecidableEq

/-- `_split_vars(shape)` when bipartite, nothing otherwise -/
def splitVars (bipartite : Bool) (nRow : Nat) (labels : List Nat) : Fitted :=
  if bipartite then ⟨labels.take nRow, some (labels.take nRow), some (labels.drop nRow)⟩
  else ⟨labels, none, none⟩

/-- `Louvain._post_processing` (also used by Leiden) up to `_secondary_outputs` -/
def postProcess (argsort : List Int → List Nat) (m : Membership) (index : List Nat)
    (sortClusters shuffle bipartite : Bool) (nRow : Nat) : Except PyErr Fitted := do
  let ind := indices m
  let labels := if sortClusters then reindexLabels argsort (ind.map Int.ofNat) else ind
  let labels ← if shuffle then unshuffle labels index else pure labels
  pure (splitVars bipartite nRow labels)

/-- `Louvain.fit` without the numerics: `n` nodes of the (block) adjacency, `index` the shuffling
    permutation (`arange(n)` when `shuffle_nodes=False`) -/
def louvainFit (argsort : List Int → List Nat) (kernel : Nat → Nat → List Int × Bool) (nAgg : Int)
    (fuel n : Nat) (index : List Nat) (sortClusters shuffle bipartite : Bool) (nRow : Nat) :
    Except PyErr (Option (Fitted × Nat)) := do
  match ← louvainLoop kernel nAgg fuel 0 n (identity n) with
  | none => pure none
  | some (m, count) => do
    let f ← postProcess argsort m index sortClusters shuffle bipartite nRow
    pure (some (f, count))

def leidenFit (argsort : List Int → List Nat) (kernel : Nat → List Nat → List Int × Bool)
    (refine : Nat → List Nat → List Int) (nAgg : Int)
    (fuel n : Nat) (index : List Nat) (sortClusters shuffle bipartite : Bool) (nRow : Nat) :
    Except PyErr (Option (Fitted × Nat)) := do
  match ← leidenLoop kernel refine nAgg fuel 0 n (List.range n) (identity n) with
  | none => pure none
  | some (m, count) => do
    let f ← postProcess argsort m index sortClusters shuffle bipartite nRow
    pure (some (f, count))

/-! ### input routing: `check_format`, `get_adjacency` -/

/-- `check_format` followed by `get_adjacency(input_matrix, force_bipartite=…)`: a matrix without stored entry is
    refused (ValueError); the graph is bipartite iff forced or not square; returns the flag and the number of nodes
    of the adjacency matrix the algorithm runs on (`n_row + n_col` for a bipartite graph). -/
def routeInput (nRow nCol nnz : Nat) (forceBipartite : Bool) : Except PyErr (Bool × Nat) :=
  if nnz == 0 then .error .valueError
  else
    let bip := forceBipartite || nRow != nCol
    .ok (bip, if bip then nRow + nCol else nRow)

/-- `Louvain.fit(input_matrix, force_bipartite)` from the shape of the input: routing, the refusals of
    `_pre_processing` (`preOK = false`: unknown `modularity`, or node weights refused by `get_probs` — see
    `preProcessingOK`), then the loop and the post-processing. -/
def louvainEstimator (argsort : List Int → List Nat) (kernel : Nat → Nat → List Int × Bool) (nAgg : Int)
    (fuel nRow nCol nnz : Nat) (forceBipartite modularityKnown : Bool) (index : List Nat)
    (sortClusters shuffle : Bool) : Except PyErr (Option (Fitted × Nat)) :=
  match routeInput nRow nCol nnz forceBipartite with
  | .error e => .error e
  | .ok (bip, n) =>
    if !modularityKnown then .error .valueError
    else louvainFit argsort kernel nAgg fuel n index sortClusters shuffle bip nRow

def leidenEstimator (argsort : List Int → List Nat) (kernel : Nat → List Nat → List Int × Bool)
    (refine : Nat → List Nat → List Int) (nAgg : Int)
    (fuel nRow nCol nnz : Nat) (forceBipartite modularityKnown : Bool) (index : List Nat)
    (sortClusters shuffle : Bool) : Except PyErr (Option (Fitted × Nat)) :=
  match routeInput nRow nCol nnz forceBipartite with
  | .error e => .error e
  | .ok (bip, n) =>
    if !modularityKnown then .error .valueError
    else leidenFit argsort kernel refine nAgg fuel n index sortClusters shuffle bip nRow

/-! ### `PropagationClustering.fit` after the sweeps -/

/-- `_, labels_ = np.unique(labels_, return_inverse=True)`, the relabelling by size when `sort_clusters`
    (present since the repair of F9), `_split_vars` -/
def propagationPost (argsort : List Int → List Nat) (raw : List Int) (sortClusters bipartite : Bool)
    (nRow : Nat) : Fitted :=
  let labels := inverse raw
  let labels := if sortClusters then reindexLabels argsort (labels.map Int.ofNat) else labels
  splitVars bipartite nRow labels

/-- `PropagationClustering.fit(input_matrix)` from the shape of the input; `sweeps n` stands for the labels left by
    `Propagation.fit` on the `n` nodes of the adjacency -/
def propagationEstimator (argsort : List Int → List Nat) (sweeps : Nat → List Int) (nRow nCol nnz : Nat)
    (sortClusters : Bool) : Except PyErr Fitted :=
  match routeInput nRow nCol nnz false with
  | .error e => .error e
  | .ok (bip, n) => .ok (propagationPost argsort (sweeps n) sortClusters bip nRow)

/-! ### `_secondary_outputs` (exact arithmetic) -/

/-- a sparse matrix as rows of stored `(column, value)` pairs (duplicates add up) -/
abbrev SpMat := List (List (Nat × Rat))

def sumR (l : List Rat) : Rat := l.foldr (· + ·) 0

/-- `A.dot(M)` for the membership matrix `M` of `labels` with `k` columns, dense `rows × k` -/
def dotMember (a : SpMat) (labels : List Nat) (k : Nat) : List (List Rat) :=
  a.map fun row => tab k fun c => sumR ((row.filter fun e => labels.getD e.1 k == c).map (·.2))

/-- `A.T` of an `nRow × nCol` matrix -/
def transposeSp (a : SpMat) (nCol : Nat) : SpMat :=
  tab nCol fun j => (List.range a.length).flatMap fun i =>
    ((a.getD i []).filter fun e => e.1 == j).map fun e => (i, e.2)

def absR (x : Rat) : Rat := if x < 0 then -x else x

/-- `normalize(matrix)` (p = 1): rows divided by their 1-norm, null rows stay null -/
def normalizeRows (m : List (List Rat)) : List (List Rat) :=
  m.map fun row =>
    let norm := sumR (row.map absR)
    if norm = 0 then row.map (fun _ => 0) else row.map (· / norm)

/-- `M.T.dot(X)` for the membership matrix of `labels` (`k` columns) and a dense `X` with `k2` columns -/
def memberTDot (labels : List Nat) (k : Nat) (x : List (List Rat)) (k2 : Nat) : List (List Rat) :=
  tab k fun a => tab k2 fun b =>
    sumR (((List.range labels.length).filter fun i => labels.getD i k == a).map
      fun i => (x.getD i []).getD b 0)

structure Secondary where
  probs : Option (List (List Rat))
  probsRow : Option (List (List Rat))
  probsCol : Option (List (List Rat))
  aggregate : Option (List (List Rat))
deriving Repr, DecidableEq

def maxLabel? (l : List Nat) : Except PyErr Nat :=
  match l.max? with
  | none => .error .valueError
  | some m => .ok m

/-- the branch `not self.bipartite` of `_secondary_outputs`: `probs = get_membership(labels_)`,
    `probs_ = normalize(A.dot(probs))`, `aggregate_ = probs.T.dot(A.dot(probs))` -/
def secondarySquare (a : SpMat) (nCol : Nat) (labels : List Nat) (returnProbs returnAggregate : Bool) :
    Except PyErr Secondary :=
  match maxLabel? labels with                                  -- get_membership(labels_): max(labels)+1
  | .error e => .error e
  | .ok m =>
    let k := m + 1
    if labels.length != nCol then .error .valueError           -- input_matrix.dot(probs)
    else
      let am := dotMember a labels k
      if returnAggregate && labels.length != a.length then .error .valueError
      else .ok ⟨if returnProbs then some (normalizeRows am) else none, none, none,
                if returnAggregate then some (memberTDot labels k am k) else none⟩

/-- the branch `self.bipartite` with `labels_col_` set: both memberships get
    `n_labels = max(max(labels_row_), max(labels_col_)) + 1` columns -/
def secondaryBip (a : SpMat) (nCol : Nat) (lr lc : List Nat) (returnProbs returnAggregate : Bool) :
    Except PyErr Secondary :=
  match maxLabel? lr, maxLabel? lc with
  | .ok mr, .ok mc =>
    let k := max mr mc + 1
    if lr.length != a.length || lc.length != nCol then .error .valueError
    else
      let pr := if returnProbs then some (normalizeRows (dotMember a lc k)) else none
      let pc := if returnProbs then some (normalizeRows (dotMember (transposeSp a nCol) lr k)) else none
      let agg := if returnAggregate then some (memberTDot lr k (dotMember a lc k) k) else none
      .ok ⟨pr, pr, pc, agg⟩
  | .error e, _ => .error e
  | _, .error e => .error e

/-- `_secondary_outputs(input_matrix)`. `nCol` is `input_matrix.shape[1]`.
    The branch `bipartite and labels_col_ is None` is not reached by any clustering estimator
    (all of them call `_split_vars`); it is reported as a TypeError by the model (not modelled). -/
def secondary (a : SpMat) (nCol : Nat) (f : Fitted) (bipartite returnProbs returnAggregate : Bool) :
    Except PyErr Secondary :=
  if !(returnProbs || returnAggregate) then .ok ⟨none, none, none, none⟩
  else if !bipartite then secondarySquare a nCol f.labels returnProbs returnAggregate
  else
    match f.labelsRow, f.labelsCol with
    | some lr, some lc => secondaryBip a nCol lr lc returnProbs returnAggregate
    | _, _ => .error .typeError

/-! ### the refusals of `Louvain._pre_processing` -/

inductive ModKind | dugue | newman | potts
deriving DecidableEq, Repr

/-- `self.modularity.lower()` (done in `_pre_processing`) as one of the three known kinds -/
def modKind? (s0 : String) : Option ModKind :=
  let s := s0.toLower
  if s == "dugue" then some .dugue else if s == "newman" then some .newman
  else if s == "potts" then some .potts else none

/-- `check_weights`: node weights must be non-negative with positive sum -/
def weightsOK (v : List Rat) : Bool := v.all (fun x => decide (0 ≤ x)) && decide (0 < sumR v)

/-- row sums (`adjacency.dot(ones)`) and column sums (`adjacency.T.dot(ones)`) of the input -/
def rowSums (a : SpMat) : List Rat := a.map fun row => sumR (row.map (·.2))
def colSums (a : SpMat) (nCol : Nat) : List Rat := rowSums (transposeSp a nCol)

/-- `get_probs('degree', adjacency)` (and of `adjacency.T` for Dugué) accept the node weights.
    newman: the degrees of the adjacency — of the block matrix `[[0,B],[Bᵀ,0]]` for a bipartite graph, i.e. row sums
    then column sums; dugue: out-weights and in-weights (for a bipartite graph the block `[[0,B],[0,0]]`: row sums
    followed by zeros, zeros followed by column sums); potts: uniform weights, never refused. -/
def preWeightsOK (a : SpMat) (nCol : Nat) (bipartite : Bool) (kind : ModKind) : Bool :=
  match kind with
  | .potts => true
  | .newman => if bipartite then weightsOK (rowSums a ++ colSums a nCol) else weightsOK (rowSums a)
  | .dugue => weightsOK (rowSums a) && weightsOK (colSums a nCol)

/-- `_pre_processing` does not raise: known modularity and accepted node weights -/
def preProcessingOK (a : SpMat) (nCol : Nat) (bipartite : Bool) (modularity : String) : Bool :=
  match modKind? modularity with
  | none => false
  | some k => preWeightsOK a nCol bipartite k

/-- number of stored entries -/
def nnzOf (a : SpMat) : Nat := (a.map List.length).foldl (· + ·) 0

/-- `Louvain.fit` from the input matrix itself -/
def louvainOnMatrix (argsort : List Int → List Nat) (kernel : Nat → Nat → List Int × Bool) (nAgg : Int)
    (fuel : Nat) (a : SpMat) (nCol : Nat) (forceBipartite : Bool) (modularity : String) (index : List Nat)
    (sortClusters shuffle : Bool) : Except PyErr (Option (Fitted × Nat)) :=
  louvainEstimator argsort kernel nAgg fuel a.length nCol (nnzOf a) forceBipartite
    (preProcessingOK a nCol (forceBipartite || a.length != nCol) modularity) index sortClusters shuffle

def leidenOnMatrix (argsort : List Int → List Nat) (kernel : Nat → List Nat → List Int × Bool)
    (refine : Nat → List Nat → List Int) (nAgg : Int)
    (fuel : Nat) (a : SpMat) (nCol : Nat) (forceBipartite : Bool) (modularity : String) (index : List Nat)
    (sortClusters shuffle : Bool) : Except PyErr (Option (Fitted × Nat)) :=
  leidenEstimator argsort kernel refine nAgg fuel a.length nCol (nnzOf a) forceBipartite
    (preProcessingOK a nCol (forceBipartite || a.length != nCol) modularity) index sortClusters shuffle

/-! ### `postprocess.aggregate_graph` -/

/-- integer labels as column indices of their membership matrix; a negative label (ignored by
    `get_membership`) is sent to the out-of-range index `k` -/
def natLabels (l : List Int) (k : Nat) : List Nat := l.map fun x => if 0 ≤ x then x.toNat else k

/-- `labels_row` is an alias of `labels` (it wins when both are given) -/
def rowLabelsArg (labels labelsRow : Option (List Int)) : Option (List Int) :=
  match labelsRow with
  | some l => some l
  | none => labels

/-- the labels of the columns: `labels_col`, or the row labels -/
def colLabelsArg (labelsCol : Option (List Int)) (lr : List Int) : List Int :=
  match labelsCol with
  | some l => l
  | none => lr

/-- `membership_col = get_membership(labels_col)` if given, else `membership_row` -/
def colMembership (labelsCol : Option (List Int)) (mr : Membership) : Except PyErr Membership :=
  match labelsCol with
  | some l => getMembership l none
  | none => .ok mr

/-- `aggregate_graph(input_matrix, labels, labels_row, labels_col)`:
    `membership_row.T.dot(input_matrix).dot(membership_col)`, dense, with its shape.  Negative labels are ignored;
    `get_membership(None)` is a TypeError, a shape mismatch in a product a ValueError. -/
def aggregateGraph (a : SpMat) (nCol : Nat) (labels labelsRow labelsCol : Option (List Int)) :
    Except PyErr (Nat × Nat × List (List Rat)) :=
  match rowLabelsArg labels labelsRow with
  | none => .error .typeError
  | some lr =>
    match getMembership lr none with
    | .error e => .error e
    | .ok mr =>
      match colMembership labelsCol mr with
      | .error e => .error e
      | .ok mc =>
        if mr.rows.length != a.length || mc.rows.length != nCol then .error .valueError
        else .ok (mr.nCol, mc.nCol,
          memberTDot (natLabels lr mr.nCol) mr.nCol
            (dotMember a (natLabels (colLabelsArg labelsCol lr) mc.nCol) mc.nCol) mc.nCol)

/-! ### `KCenters`: everything around PageRank -/

inductive CenterPos | row | col | both | other
deriving DecidableEq, Repr

/-- `_compute_mask_centers` -/
def maskCenters (bipartite : Bool) (nRow nCol : Nat) (pos : CenterPos) : Except PyErr (List Bool) :=
  if bipartite then
    match pos with
    | .row => .ok (tab (nRow + nCol) fun i => i < nRow)
    | .col => .ok (tab (nRow + nCol) fun i => nRow ≤ i)
    | .both => .ok (tab (nRow + nCol) fun _ => true)
    | .other => .error .valueError
  else .ok (tab nRow fun _ => true)

/-- `_init_centers`: `choose t cand` stands for the `t`-th `np.random.choice` among the candidates
    it is offered (`nodes[mask]`, or those with a null PageRank score — the restriction is part of the
    oracle); the model performs the mask bookkeeping: `mask[center] = 0; centers.append(center)`. -/
def initCenters (choose : Nat → List Nat → Nat) (mask : List Bool) (nClusters : Nat) : List Nat :=
  let step := fun (st : List Bool × List Nat) (t : Nat) =>
    let cand := (List.range st.1.length).filter fun i => st.1.getD i false
    let c := choose t cand
    (st.1.set c false, st.2 ++ [c])
  ((List.range nClusters).foldl step (mask, [])).2

structure KFitted where
  labels : List Nat
  labelsRow : Option (List Nat)
  labelsCol : Option (List Nat)
  centers : List Nat
  centersRow : Option (List Nat)
  centersCol : Option (List Int)
deriving Repr, DecidableEq

/-- The checks at the head of `KCenters.fit` and the bookkeeping at its end.
    `runs` = for every restart the centres returned by `_init_centers` and the labels of the last
    assignment (the loop never replaces `centers`: `new_centers` is computed and dropped);
    `idxMax` = `np.argmax(modularity_)`. -/
def kcentersFit (nClusters nInit : Int) (bipartite : Bool) (nRow nCol : Nat) (pos : CenterPos)
    (runs : List (List Nat × List Nat)) (idxMax : Nat) : Except PyErr KFitted := do
  if nClusters < 2 then throw .valueError
  if nInit < 1 then throw .valueError
  let mask ← maskCenters bipartite nRow nCol pos
  if nClusters > ((mask.filter id).length : Int) then throw .valueError
  match runs[idxMax]? with
  | none => throw .indexError
  | some (centers, labels) =>
    if !bipartite then
      return ⟨labels, none, none, centers, none, none⟩
    else
      let s := splitVars true nRow labels
      match pos with
      | .row => return ⟨s.labels, s.labelsRow, s.labelsCol, centers, some centers, none⟩
      | .col => return ⟨s.labels, s.labelsRow, s.labelsCol, centers, none, some (centers.map fun (c : Nat) => (c : Int) - nRow)⟩
      | _ =>
        let cr := centers.filter (· < nRow)
        let cc := (centers.filter fun c => !cr.contains c).map fun (c : Nat) => (c : Int) - nRow
        return ⟨s.labels, s.labelsRow, s.labelsCol, centers, some cr, some cc⟩

/-- `np.equal(prev_centers, centers).all()` with `prev_centers = None` before the first round
    (element-wise comparison with `None` is false everywhere; `.all()` of an empty array is true) -/
def centersEqual (prev : Option (List Nat)) (centers : List Nat) : Bool :=
  match prev with
  | none => centers.isEmpty
  | some p => p == centers

/-- One restart of `KCenters.fit`: the loop
      `while not np.equal(prev_centers, centers).all() and (n_iter < self.max_iter)`
    whose body assigns `labels = pagerank_clf.fit_predict(adjacency, labels_center)`, sets
    `prev_centers = centers.copy()`, computes `new_centers` (never stored back) and increments `n_iter`.
    `classify centers` stands for the assignment.  Returns the last labels (`None` if the body never ran) and
    `n_iter`; `none` = fuel exhausted. -/
def kcentersAssign (classify : List Nat → List Nat) (maxIter : Int) (centers : List Nat) :
    Nat → Option (List Nat) → Option (List Nat) → Nat → Option (Option (List Nat) × Nat)
  | 0, _, _, _ => none
  | fuel+1, prev, labels, nIter =>
    if !centersEqual prev centers && decide ((nIter : Int) < maxIter) then
      kcentersAssign classify maxIter centers fuel (some centers) (some (classify centers)) (nIter + 1)
    else some (labels, nIter)

/-- the checks at the head of `KCenters.fit`; returns the mask of admissible centres -/
def kcentersChecks (nClusters nInit : Int) (bipartite : Bool) (nRow nCol : Nat) (pos : CenterPos) :
    Except PyErr (List Bool) :=
  if nClusters < 2 then .error .valueError
  else if nInit < 1 then .error .valueError
  else match maskCenters bipartite nRow nCol pos with
    | .error e => .error e
    | .ok mask => if nClusters > ((mask.filter id).length : Int) then .error .valueError else .ok mask

/-- one restart: its centres, and what the assignment loop returned -/
abbrev Attempt := List Nat × Option (Option (List Nat) × Nat)

/-- the body of `for i in range(self.n_init)` up to the assignment loop, for every restart -/
def kcentersAttempts (maxIter : Int) (mask : List Bool) (nClusters nInit : Nat)
    (chooseOf : Nat → Nat → List Nat → Nat) (classify : Nat → List Nat → List Nat) : List Attempt :=
  (List.range nInit).map fun i =>
    (initCenters (chooseOf i) mask nClusters,
     kcentersAssign (classify i) maxIter (initCenters (chooseOf i) mask nClusters) 3 none none 0)

/-- `labels is None` after the loop: `get_modularity(adjacency, None)` raises a TypeError -/
def attemptFailed (a : Attempt) : Bool :=
  match a.2 with
  | some (some _, _) => false
  | _ => true

def attemptRun (a : Attempt) : List Nat × List Nat :=
  (a.1, match a.2 with | some (some l, _) => l | _ => [])

def attemptCalls (a : Attempt) : Nat :=
  match a.2 with
  | some (_, n) => n
  | none => 0

/-- `KCenters.fit` with its restarts: `chooseOf i` are the random choices of restart `i`, `classify i` its
    assignment, `idxMax` the restart of highest modularity.  Also returns the number of assignments performed. -/
def kcentersFitFull (nClusters nInit maxIter : Int) (bipartite : Bool) (nRow nCol : Nat) (pos : CenterPos)
    (chooseOf : Nat → Nat → List Nat → Nat) (classify : Nat → List Nat → List Nat) (idxMax : Nat) :
    Except PyErr (KFitted × Nat) :=
  match kcentersChecks nClusters nInit bipartite nRow nCol pos with
  | .error e => .error e
  | .ok mask =>
    let attempts := kcentersAttempts maxIter mask nClusters.toNat nInit.toNat chooseOf classify
    if attempts.any attemptFailed then .error .typeError
    else
      match kcentersFit nClusters nInit bipartite nRow nCol pos (attempts.map attemptRun) idxMax with
      | .error e => .error e
      | .ok k => .ok (k, (attempts.map attemptCalls).foldl (· + ·) 0)

/-! ### the assignment of `KCenters`: the read-out of `PageRankClassifier` (`RankClassifier.fit`) -/

/-- `np.argmax(row)`: the first position of the maximum (0 for an empty row) -/
def argmaxFirst : List Rat → Nat
  | [] => 0
  | x :: xs =>
    let rec go (best : Rat) (bestIdx idx : Nat) : List Rat → Nat
      | [] => bestIdx
      | y :: ys => if best < y then go y idx (idx + 1) ys else go best bestIdx (idx + 1) ys
    go x 0 1 xs

/-- the classes `check_labels` finds for the seeds `{center: label for label, center in enumerate(centers)}`:
    a later occurrence of a centre overwrites the label of an earlier one; `np.unique` sorts them -/
def seedLabels (centers : List Nat) : List Nat :=
  (List.range centers.length).filter fun t => !((centers.drop (t + 1)).contains (centers.getD t 0))

/-- `RankClassifier.fit(...).labels_` from the matrix of scores (one row per node, one column per class):
    `labels_unique[np.argmax(scores, axis=1)]`; fewer than two classes are refused by `check_labels` (ValueError);
    an arg-max beyond the classes (a score row wider than `labels_unique`) is numpy's IndexError -/
def rankReadout (centers : List Nat) (scores : List (List Rat)) : Except PyErr (List Nat) :=
  if (seedLabels centers).length < 2 then .error .valueError
  else if scores.any (fun row => decide ((seedLabels centers).length ≤ argmaxFirst row)) then .error .indexError
  else .ok (scores.map fun row => (seedLabels centers).getD (argmaxFirst row) 0)

/-- the error of a read-out, if any -/
def readoutError (centers : List Nat) (scores : List (List Rat)) : Option PyErr :=
  match rankReadout centers scores with
  | .error e => some e
  | .ok _ => none

/-- the labels of one assignment, `[]` standing for the refusal (handled by `kcentersFitScores`) -/
def classifyOf (scores : Nat → List Nat → List (List Rat)) (i : Nat) (centers : List Nat) : List Nat :=
  match rankReadout centers (scores i centers) with
  | .ok l => l
  | .error _ => []

/-- `KCenters.fit` with the assignment modelled: `scores i centers` stands for the (normalised) PageRank scores of
    restart `i`, an `n × n_clusters` matrix; the labels are read out of it as `PageRankClassifier` does. -/
def kcentersFitScores (nClusters nInit maxIter : Int) (bipartite : Bool) (nRow nCol : Nat) (pos : CenterPos)
    (chooseOf : Nat → Nat → List Nat → Nat) (scores : Nat → List Nat → List (List Rat)) (idxMax : Nat) :
    Except PyErr (KFitted × Nat) :=
  match kcentersChecks nClusters nInit bipartite nRow nCol pos with
  | .error e => .error e
  | .ok mask =>
    -- the first restart whose assignment raises ends the fit with that error (the loop body runs iff max_iter ≥ 1)
    match (if 1 ≤ maxIter then (List.range nInit.toNat).findSome? (fun i =>
        readoutError (initCenters (chooseOf i) mask nClusters.toNat)
          (scores i (initCenters (chooseOf i) mask nClusters.toNat))) else none) with
    | some e => .error e
    | none => kcentersFitFull nClusters nInit maxIter bipartite nRow nCol pos chooseOf (classifyOf scores) idxMax

/-- `KCenters.fit(input_matrix, force_bipartite)` from the shape of the input: `directed=True` symmetrises the input
    first (`input_matrix + input_matrix.T`: a ValueError unless square), then `get_adjacency` routes it. -/
def kcentersEstimator (nClusters nInit maxIter : Int) (directed forceBipartite : Bool) (nRow nCol nnz : Nat)
    (pos : CenterPos) (chooseOf : Nat → Nat → List Nat → Nat) (scores : Nat → List Nat → List (List Rat))
    (idxMax : Nat) : Except PyErr (KFitted × Nat) :=
  if nClusters < 2 then .error .valueError
  else if nInit < 1 then .error .valueError
  else if directed && nRow != nCol then .error .valueError
  else
    match routeInput nRow nCol nnz forceBipartite with
    | .error e => .error e
    | .ok (bip, _) => kcentersFitScores nClusters nInit maxIter bip nRow nCol pos chooseOf scores idxMax

end SkNet.Clustering
