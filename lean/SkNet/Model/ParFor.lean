/-
Parallel loops (property C16; used by C04 / C11 for their `prange` kernels).

Two layers, both import-free and executable:

* the *semantics*: a parallel loop is a family of iterations `prog t : List Ev`; an event is an atomic
  `load` of a location into the iteration's private registers or an atomic `store` of a function of the
  private registers.  A C statement `a[j] += x` is a **load followed by a store** (two events), which is
  what the OpenMP code compiled from a Cython `prange` does.  A schedule is a list of iteration numbers:
  `run prog c s` lets iteration `t` take its next step for every `t` in `s`; all interleavings that respect
  the program order inside an iteration are exactly all lists `s` (`step` is a no-op on a finished one).

* the *descriptor* of a `prange` loop as the translator `tools/translate/prange.py` extracts it from the
  `.pyx` source with Cython's own parser: the static access sites of the loop body (array, index class,
  load/store), the scalar variables with the role Cython gives them (private / reduction), calls of methods
  of shared C++ containers, calls of functions.  `Loop.raceFree` is the decidable syntactic check;
  `SkNet.C16.desc_raceFree_sound` proves that it implies semantic race freedom of *every* concrete loop
  that conforms to the descriptor (any number of iterations, any contents of the index arrays), and
  `SkNet.C16.raceFree_sound` that a race-free loop ends in the same memory under every schedule.
-/
import SkNet.Model.Basic

namespace SkNet.ParFor

/-- a memory location: (array name, element index) -/
abbrev Loc := String × Nat
abbrev Val := Int
abbrev Mem := Loc → Val

inductive Ev where
  | load (l : Loc)
  | store (l : Loc) (f : List Val → Val)

def Ev.loc : Ev → Loc
  | .load l => l
  | .store l _ => l

def Ev.isStore : Ev → Bool
  | .load _ => false
  | .store _ _ => true

structure Cfg where
  mem : Mem
  pc : Nat → Nat
  regs : Nat → List Val

def upd {ι α} [DecidableEq ι] (f : ι → α) (i : ι) (v : α) : ι → α := fun j => if j = i then v else f j

/-- one event of iteration-local execution against a memory -/
def execEv (e : Ev) (m : Mem) (r : List Val) : Mem × List Val :=
  match e with
  | .load l => (m, r ++ [m l])
  | .store l f => (upd m l (f r), r)

/-- iteration `t` takes one step (no-op if it has finished) -/
def step (prog : Nat → List Ev) (c : Cfg) (t : Nat) : Cfg :=
  match (prog t)[c.pc t]? with
  | none => c
  | some e =>
    let (m', r') := execEv e c.mem (c.regs t)
    { mem := m', pc := upd c.pc t (c.pc t + 1), regs := upd c.regs t r' }

def run (prog : Nat → List Ev) (c : Cfg) (s : List Nat) : Cfg := s.foldl (step prog) c

def Cfg.init (m0 : Mem) : Cfg := { mem := m0, pc := fun _ => 0, regs := fun _ => [] }

/-- iteration alone, first `k` events, from `m0` -/
def solo (es : List Ev) (m0 : Mem) : Nat → Mem × List Val
  | 0 => (m0, [])
  | k+1 =>
    let (m, r) := solo es m0 k
    match es[k]? with
    | none => (m, r)
    | some e => execEv e m r

/-- the sequential schedule of `n` iterations: iteration 0 to completion, then 1, … -/
def seqSched (prog : Nat → List Ev) (n : Nat) : List Nat :=
  (List.range n).flatMap fun t => List.replicate (prog t).length t

/-- a schedule is complete for `n` iterations when every iteration `< n` has run to its end -/
def Complete (prog : Nat → List Ev) (n : Nat) (c : Cfg) : Prop :=
  ∀ t, t < n → c.pc t = (prog t).length

def writes (es : List Ev) (l : Loc) : Prop := ∃ e ∈ es, e.isStore = true ∧ e.loc = l
def touches (es : List Ev) (l : Loc) : Prop := ∃ e ∈ es, e.loc = l

/-- No location stored by one iteration is loaded or stored by another one. -/
def RaceFree (prog : Nat → List Ev) : Prop :=
  ∀ t u l, t ≠ u → writes (prog t) l → ¬ touches (prog u) l

/-- executable form of `RaceFree` for the first `n` iterations -/
def raceFreeB (prog : Nat → List Ev) (n : Nat) : Bool :=
  (List.range n).all fun t => (List.range n).all fun u =>
    t == u || (prog t).all fun e => !e.isStore || (prog u).all fun e' => e'.loc != e.loc

/-! ### descriptors of `prange` loops (generated from the `.pyx` sources) -/

/-- how the index of an array access depends on the iteration -/
inductive Idx where
  /-- the loop variable plus a constant -/
  | own (off : Nat)
  /-- an expression built from variables that the loop body never assigns: the same element in every iteration -/
  | fixed (expr : String)
  /-- anything else (depends on values loaded from memory or on private variables) -/
  | indirect (expr : String)
deriving DecidableEq, Repr

/-- one static site of the loop body -/
inductive Acc where
  | load (arr : String) (idx : Idx)
  | store (arr : String) (idx : Idx)
  /-- scalar assigned in the body: Cython makes it thread-private (lastprivate) -/
  | priv (v : String)
  /-- scalar updated with an in-place operator: Cython makes it an OpenMP reduction; `exact` = integer C type -/
  | reduction (v : String) (op : String) (exact : Bool)
  /-- method call on an object that is shared by the iterations (e.g. `worklist.push`); `mutating = false`
      only for the listed read-only methods (`size`, `empty`, `front`, …) -/
  | method (obj : String) (meth : String) (mutating : Bool)
  /-- call of a function; `pure` = a `cdef` function of the same module (or a listed C math function) whose body
      stores to none of its array arguments, touches no global and calls only pure functions -/
  | call (f : String) (pure : Bool)
  /-- something the translator could not classify (makes the check fail) -/
  | unknown (what : String)
deriving DecidableEq, Repr

structure Loop where
  name : String        -- "<file>:<function>#<k>"
  var : String
  schedule : String
  accs : List Acc
deriving Repr, DecidableEq

def Acc.arr? : Acc → Option (String × Idx)
  | .load a i => some (a, i)
  | .store a i => some (a, i)
  | _ => none

/-- arrays with at least one store site -/
def Loop.storedArrays (l : Loop) : List String :=
  l.accs.filterMap fun a => match a with | .store arr _ => some arr | _ => none

/-- the offset of the `own` store sites of an array (first one) -/
def Loop.storeOff (l : Loop) (arr : String) : Option Nat :=
  l.accs.findSome? fun a => match a with
    | .store arr' (.own k) => if arr' = arr then some k else none
    | _ => none

/-- the site is harmless: every access to an array that the loop stores to is at `loop variable + k`
    for one and the same `k`; no mutating method of a shared object; no impure call; nothing unknown -/
def Loop.siteOk (l : Loop) : Acc → Bool
  | .load arr i => !(l.storedArrays.contains arr) ||
      (match l.storeOff arr with | some k => i == .own k | none => false)
  | .store arr i => (match l.storeOff arr with | some k => i == .own k | none => false)
  | .priv _ => true
  | .reduction _ _ _ => true
  | .method _ _ mutating => !mutating
  | .call _ pure => pure
  | .unknown _ => false

/-- the decidable race-freedom check on a descriptor -/
def Loop.raceFree (l : Loop) : Bool := l.accs.all l.siteOk

/-- the reduction variables of a loop whose C type is not exact (float): their final value depends on the order in
    which OpenMP combines the partial sums (rounding only) -/
def Loop.inexactReductions (l : Loop) : List String :=
  l.accs.filterMap fun a => match a with | .reduction v _ false => some v | _ => none

/-- the generated obligation of a loop: race free *and* no reduction on a float type (OpenMP combines the partial
    results in an order that depends on the number of threads: the rounding differs) -/
def Loop.deterministic (l : Loop) : Bool := l.raceFree && l.inexactReductions.isEmpty

/-- first offending site, for the report -/
def Loop.firstBad (l : Loop) : Option Acc := l.accs.find? fun a => !l.siteOk a

def Idx.show : Idx → String
  | .own 0 => "own"
  | .own k => s!"own+{k}"
  | .fixed e => s!"fixed({e})"
  | .indirect e => s!"indirect({e})"

def Acc.show : Acc → String
  | .load a i => s!"load:{a}[{i.show}]"
  | .store a i => s!"store:{a}[{i.show}]"
  | .priv v => s!"private:{v}"
  | .reduction v op ex => s!"reduction:{v}{op}{if ex then "" else "(float)"}"
  | .method o m mu => s!"method:{o}.{m}{if mu then "!" else ""}"
  | .call f p => s!"call:{f}{if p then "" else "!"}"
  | .unknown w => s!"unknown:{w}"

/-- an event of iteration `i` is an instance of a static site; `fx` gives the element that a `fixed` index
    expression denotes during this execution of the loop -/
def Conforms (fx : String → Nat) (i : Nat) (a : Acc) (e : Ev) : Prop :=
  match a, e with
  | .load arr (.own k), .load l => l = (arr, i + k)
  | .load arr (.fixed x), .load l => l = (arr, fx x)
  | .load arr (.indirect _), .load l => l.1 = arr
  | .store arr (.own k), .store l _ => l = (arr, i + k)
  | .store arr (.fixed x), .store l _ => l = (arr, fx x)
  | .store arr (.indirect _), .store l _ => l.1 = arr
  | _, _ => False

/-- a concrete loop conforms to a descriptor: every event of every iteration is an instance of a site -/
def ConformsTo (l : Loop) (fx : String → Nat) (prog : Nat → List Ev) : Prop :=
  ∀ i e, e ∈ prog i → ∃ a ∈ l.accs, Conforms fx i a e

/-! ### concretisation, for executable tests of the theorems (small loops, all schedules) -/

/-- all interleavings of the iterations `0 … n-1` (each `t` occurring `len t` times) -/
def allScheds : (fuel : Nat) → (remaining : List (Nat × Nat)) → List (List Nat)
  | 0, _ => [[]]
  | fuel+1, rem =>
    let live := rem.filter fun p => p.2 > 0
    if live.isEmpty then [[]]
    else live.flatMap fun p =>
      (allScheds fuel (rem.map fun q => if q.1 == p.1 then (q.1, q.2 - 1) else q)).map (p.1 :: ·)

def schedulesOf (prog : Nat → List Ev) (n : Nat) : List (List Nat) :=
  let rem := (List.range n).map fun t => (t, (prog t).length)
  allScheds (rem.foldl (fun s p => s + p.2) 0) rem

/-- final values of the listed locations under every schedule, duplicates removed -/
def outcomes (prog : Nat → List Ev) (n : Nat) (m0 : Mem) (locs : List Loc) : List (List Val) :=
  ((schedulesOf prog n).map fun s => locs.map (run prog (Cfg.init m0) s).mem).eraseDups

/-- `a[idx] += x`, where `x` was loaded before: last register plus the constant `x` -/
def addF (x : Val) : List Val → Val := fun r => r.getLastD 0 + x

/-- D-iteration's inner statement `fluid[j] += tmp * data[jj]` executed by two iterations on the same `j` -/
def lostUpdateProg : Nat → List Ev := fun t =>
  if t < 2 then [.load ("fluid", 0), .store ("fluid", 0) (addF 1)] else []


/-! ### the descriptors generated on the pinned tree (the instance theorems of `Properties/C16.lean` are about these;
    the driver reports whether the descriptors generated from the working tree still coincide with them) -/

/-- the first `prange` loop of `push_pagerank` as generated on the pinned tree (each vertex accumulates into its own
    `residuals[vertex]`) -/
def pushInitLoop : Loop :=
  { name := "linalg/push.pyx:push_pagerank#0", var := "vertex", schedule := "static-default",
    accs := [.load "rev_indptr" (.own 0), .load "rev_indptr" (.own 1), .call "range" true,
             .load "rev_indices" (.indirect "j"), .load "degrees" (.indirect "neighbor"),
             .load "residuals" (.own 0), .store "residuals" (.own 0), .load "seeds" (.own 0),
             .load "residuals" (.own 0), .store "residuals" (.own 0),
             .priv "j", .priv "j1", .priv "j2", .priv "neighbor"] }

/-- the `prange` loop of `count_triangles_from_dag` as generated on the pinned tree: no store at all, one exact
    reduction -/
def trianglesLoop : Loop :=
  { name := "topology/triangles.pyx:count_triangles_from_dag#0", var := "node", schedule := "static-default",
    accs := [.load "indptr" (.indirect "argument of count_local_triangles_from_dag"),
             .load "indices" (.indirect "argument of count_local_triangles_from_dag"),
             .call "count_local_triangles_from_dag" true, .reduction "n_triangles" "+" true] }

/-- D-iteration's sweep as generated on the pinned tree -/
def diterationLoop : Loop :=
  { name := "linalg/diteration.pyx:diffusion#0", var := "i", schedule := "guided",
    accs := [.load "fluid" (.own 0), .load "scores" (.own 0), .store "scores" (.own 0), .store "fluid" (.own 0),
             .load "indptr" (.own 0), .load "indptr" (.own 1), .call "range" true,
             .load "indices" (.indirect "jj"), .load "data" (.indirect "jj"),
             .load "fluid" (.indirect "j"), .store "fluid" (.indirect "j"),
             .priv "j", .priv "j1", .priv "j2", .priv "jj", .priv "removed", .priv "sent", .priv "tmp",
             .reduction "residu" "-" false] }

/-- the second `prange` loop of `push_pagerank` as generated on the pinned tree -/
def pushNeighborLoop : Loop :=
  { name := "linalg/push.pyx:push_pagerank#1", var := "j", schedule := "static-default",
    accs := [.load "indices" (.own 0), .load "residuals" (.indirect "neighbor"), .load "residuals" (.fixed "vertex"),
             .load "degrees" (.fixed "vertex"), .load "residuals" (.indirect "neighbor"),
             .store "residuals" (.indirect "neighbor"), .load "residuals" (.indirect "neighbor"),
             .method "worklist" "push" true, .priv "neighbor", .priv "tmp"] }

def pinnedLoops : List Loop := [pushInitLoop, diterationLoop, pushNeighborLoop, trianglesLoop]

/-! ### the first `prange` loop of `push_pagerank`, event for event

```
for vertex in prange(n, nogil=True):
    j1 = rev_indptr[vertex]; j2 = rev_indptr[vertex + 1]
    for j in range(j1, j2):
        neighbor = rev_indices[j]
        residuals[vertex] += 1 / degrees[neighbor]
    residuals[vertex] *= (1 - damping_factor) * damping_factor * (1 + seeds[vertex])
```
The arithmetic is abstracted by the two store functions (any functions of the values loaded so far). -/

def pushInitIter (revIndptr revIndices : List Nat) (acc scale : List Val → Val) (v : Nat) : List Ev :=
  let j1 := revIndptr.getD v 0
  let j2 := revIndptr.getD (v + 1) 0
  [.load ("rev_indptr", v), .load ("rev_indptr", v + 1)] ++
  ((List.range (j2 - j1)).flatMap fun k =>
    [.load ("rev_indices", j1 + k), .load ("degrees", revIndices.getD (j1 + k) 0),
     .load ("residuals", v), .store ("residuals", v) acc]) ++
  [.load ("seeds", v), .load ("residuals", v), .store ("residuals", v) scale]

def pushInitProg (n : Nat) (revIndptr revIndices : List Nat) (acc scale : List Val → Val) : Nat → List Ev :=
  fun v => if v < n then pushInitIter revIndptr revIndices acc scale v else []

end SkNet.ParFor
