/-
Model of `Paris.fit` (sknetwork/hierarchy/paris.pyx, property C07) from the construction of the
`AggregateGraph` on: `similarity`, the nearest-neighbour chain with its tie rule (`min` index), the
bookkeeping of connected components, their joining at infinite height, the optional reordering.
The height of a merge is clamped from below by the heights of the two clusters it merges (repaired code).

Generic in the scalar: `Rat` for the theorems, `Float` with `round32 x = x.toFloat32.toFloat` for the runs — the
(repaired, F20) C code keeps only `sim` and `max_sim` in `float` variables; `a`, `b`, `den` and the total weight are
doubles like the values of the dicts.

What comes before (format checks, `get_probs`, symmetrisation, the unit diagonal for nodes of zero weight)
is done by the harness with the library's own helpers; the model receives the CSR rows of the final matrix,
the node weights and the total weight.
-/
import SkNet.Model.AggGraph

namespace SkNet.Paris
open SkNet SkNet.Dendro SkNet.Agg

/-- heights with `+inf` -/
inductive HInf (α : Type)
  | fin (x : α)
  | inf
deriving Repr

instance [LT α] : LT (HInf α) :=
  ⟨fun a b => match a, b with | .fin x, .fin y => x < y | .fin _, .inf => True | .inf, _ => False⟩

instance [LT α] [DecidableLT α] : DecidableLT (HInf α) := fun a b =>
  match a, b with
  | .fin x, .fin y => inferInstanceAs (Decidable (x < y))
  | .fin _, .inf => isTrue trivial
  | .inf, _ => isFalse (fun h => h)

section
variable {α : Type} [Add α] [Mul α] [Div α] [OfNat α 0] [OfNat α 1] [OfNat α 2] [LT α] [DecidableLT α] [BEq α]

def wOf (d : Dict α) (k : Nat) : α := (d.get? k).getD 0

/-- `AggregateGraph.similarity`; `none` = `-inf`.  `a`, `b`, `den` are C doubles (repaired code: they were floats and
    under / overflowed on weights of wide dynamic range), the result is stored in a float -/
def similarity (round32 : α → α) (g : AggGraph α) (node1 node2 : Nat) : Option α :=
  let a := wOf g.outW node1 * wOf g.inW node2
  let b := wOf g.outW node2 * wOf g.inW node1
  let den := a + b
  -- `den = 0` with a positive edge weight (the products of node weights underflow): `+inf` (repaired code, F26: it was
  -- `-inf`, which broke the nearest-neighbour chain — KeyError); in `Float` the quotient by `0` *is* `+inf`
  if (0 : α) < den then some (round32 (2 * getEntry g.nb node1 node2 / den))
  else if (0 : α) < getEntry g.nb node1 node2 then some (round32 (2 * getEntry g.nb node1 node2 / den))
  else none

/-- `sim > max_sim` with `none` = `-inf` -/
def simGt : Option α → Option α → Bool
  | some x, some y => decide (y < x)
  | some _, none => true
  | none, _ => false

def simEq : Option α → Option α → Bool
  | some x, some y => x == y
  | none, none => true
  | _, _ => false

/-- one neighbour of the scan: `if sim > max_sim: … elif sim == max_sim: nearest_neighbor = min(…)` -/
def scanStep (round32 : α → α) (g : AggGraph α) (node : Nat) (st : Nat × Option α) (neighbor : Nat) :
    Nat × Option α :=
  let sim := similarity round32 g node neighbor
  if simGt sim st.2 then (neighbor, sim)
  else if simEq sim st.2 then (min neighbor st.1, st.2)
  else st

/-- the loop over the neighbours: `(nearest_neighbor, max_sim)`.  The first neighbour initialises
    `nearest_neighbor` (repaired code: it was read uninitialised when every similarity was `-inf`) -/
def nearest (round32 : α → α) (g : AggGraph α) (node : Nat) (k : Nat) (ks : List Nat) : Nat × Option α :=
  ks.foldl (scanStep round32 g node) (k, similarity round32 g node k)

/-- Python's `max(a, b)` on heights -/
def maxH (a b : HInf α) : HInf α := if a < b then b else a

/-- height of cluster `c` in the rows written so far (`dendrogram[c - n][2]`), for a merged cluster -/
def heightOf (n : Nat) (rows : List (Row (HInf α))) (c : Nat) (dflt : HInf α) : HInf α :=
  if c ≥ n then ((rows[c - n]?).map (·.h)).getD dflt else dflt

/-- `1. / max_sim if max_sim > 0 else inf` (repaired code: a similarity `0` or `-inf` — null weights — was a
    ZeroDivisionError or the height `-0.0`) -/
def invSim (ms : Option α) : HInf α :=
  match ms with
  | some x => if (0 : α) < x then .fin (1 / x) else .inf
  | none => .inf

/-- `height = 1 / max_sim`, then `height = max(height, dendrogram[cluster - n][2])` for the two merged clusters:
    a merge is never written below the merges it contains -/
def clampHeight (n : Nat) (rows : List (Row (HInf α))) (h0 : HInf α) (node nn : Nat) : HInf α :=
  maxH (maxH h0 (heightOf n rows node h0)) (heightOf n rows nn (maxH h0 (heightOf n rows node h0)))

structure PState (α : Type) where
  g : AggGraph α
  chain : List Nat                  -- top of the stack first
  rows : List (Row (HInf α))
  comps : List (Nat × Nat)          -- connected_components, in push order

/-- one iteration of the two nested `while` loops; `.ok none` = both loops are over -/
def chainStep (round32 : α → α) (n : Nat) (st : PState α) : Except PyErr (Option (PState α)) :=
  match st.chain with
  | [] =>
    -- while len(aggregate_graph.cluster_sizes): for node in cluster_sizes: break
    match st.g.sizes with
    | [] => .ok none
    | (node, _) :: _ => .ok (some { st with chain := [node] })
  | node :: rest =>
    -- aggregate_graph.neighbors[node]: a KeyError if the node was merged away
    match st.g.nb.get? node with
    | none => .error .keyError
    | some rowNode =>
      match rowNode.keys.filter (· != node) with
      | [] =>
        match st.g.sizes.get? node with
        | none => .error .keyError
        | some sz =>
          .ok (some { st with chain := rest, comps := st.comps ++ [(node, sz)],
                              g := { st.g with sizes := st.g.sizes.erase node } })
      | k :: ks =>
        let nn := (nearest round32 st.g node k ks).1
        let ms := (nearest round32 st.g node k ks).2
        match rest with
        | last :: rest' =>
          if last == nn then
            match st.g.sizes.get? node, st.g.sizes.get? nn with
            | some s1, some s2 =>
              .ok (some { st with chain := rest',
                                  rows := st.rows ++ [{ i := node, j := nn, h := clampHeight n st.rows (invSim ms) node nn,
                                                         s := s1 + s2 }],
                                  g := st.g.merge node nn })
            | _, _ => .error .keyError
          else .ok (some { st with chain := nn :: node :: last :: rest' })
        | [] => .ok (some { st with chain := [nn, node] })

/-- both `while` loops; `none` = out of fuel -/
def chainLoop (round32 : α → α) (n : Nat) : Nat → PState α → Except PyErr (Option (PState α))
  | 0, _ => .ok none
  | fuel + 1, st =>
    match chainStep round32 n st with
    | .error e => .error e
    | .ok none => .ok (some st)
    | .ok (some st1) => chainLoop round32 n fuel st1

/-- body of `for next_node, next_cluster_size in connected_components`; the accumulator is
    `(dendrogram, node, cluster_size, next_cluster)` -/
def joinStep (acc : List (Row (HInf α)) × Nat × Nat × Nat) (p : Nat × Nat) :
    List (Row (HInf α)) × Nat × Nat × Nat :=
  (acc.1 ++ [{ i := acc.2.1, j := p.1, h := .inf, s := acc.2.2.1 + p.2 }], acc.2.2.2, acc.2.2.1 + p.2, acc.2.2.2 + 1)

/-- the joining of the connected components at infinite height -/
def joinComponents (next : Nat) (comps : List (Nat × Nat)) (rows : List (Row (HInf α))) :
    Except PyErr (List (Row (HInf α))) :=
  match comps.reverse with
  | [] => .error .indexError
  | (node0, size0) :: restRev => .ok (restRev.reverse.foldl joinStep (rows, node0, size0, next)).1

/-- `Paris.fit` from the aggregate graph on, before the optional reordering; `none` = out of fuel -/
def fitRows (round32 : α → α) (fuel : Nat) (g : AggGraph α) : Except PyErr (Option (List (Row (HInf α)))) := do
  match ← chainLoop round32 g.next fuel { g := g, chain := [], rows := [], comps := [] } with
  | none => pure none
  | some st =>
    let rows ← joinComponents st.g.next st.comps st.rows
    pure (some rows)

def fit (round32 : α → α) (fuel : Nat) (g : AggGraph α) (reorder : Bool) :
    Except PyErr (Option (Dendro (HInf α))) := do
  match ← fitRows round32 fuel g with
  | none => pure none
  | some rows => if reorder then (reorderDendrogram rows).map some else pure (some rows)

end

end SkNet.Paris
