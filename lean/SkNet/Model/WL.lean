/-
Model of sknetwork/topology/weisfeiler_lehman_core.pyx (`weisfeiler_lehman_coloring`) and
weisfeiler_lehman.py (`color_weisfeiler_lehman`, `are_isomorphic`), property C02.

The kernel is written once over an abstract hash domain `H`:
  * `hashOf  : List Nat → H`     the hash of the colours of the neighbours, in storage order
                                 (code: `hash_ref += powers[labels[j]]` over the CSR row)
  * `lt      : H → H → Bool`     `a2 < b2` of `is_lower`
  * `apart   : H → H → Bool`     `abs(hash_new - hash_ref) > epsilon`
The driver instantiates `H := Float` with the very `powers` array numpy computed (bit patterns), summed in
storage order; the theorems instantiate `H` with any linear order in which `hashOf` identifies exactly the
lists that are permutations of each other (exact arithmetic, injective hash).
`std::sort` is not stable: ties are elements with equal (colour, hash), which receive the same new colour
whatever their order, so a stable insertion sort stands for it.
-/
import SkNet.Model.Basic

namespace SkNet.WL

structure HashOps (H : Type) where
  hashOf : List Nat → H
  lt : H → H → Bool
  apart : H → H → Bool

/-- `(labels[i], hash, i)` -/
structure Triple (H : Type) where
  label : Nat
  hash : H
  node : Nat

/-- `is_lower` -/
def isLower (ops : HashOps H) (a b : Triple H) : Bool :=
  if a.label == b.label then ops.lt a.hash b.hash else decide (a.label < b.label)

/-- insert into a list sorted by `is_lower`, after the elements that are not greater (stable) -/
def insertT (ops : HashOps H) (t : Triple H) : List (Triple H) → List (Triple H)
  | [] => [t]
  | x :: xs => if isLower ops t x then t :: x :: xs else x :: insertT ops t xs

def sortT (ops : HashOps H) (l : List (Triple H)) : List (Triple H) :=
  l.foldr (insertT ops) []

/-- first loop of a round: one triple per node -/
def triples (ops : HashOps H) (adj : List (List Nat)) (labels : List Nat) : List (Triple H) :=
  tab adj.length fun i =>
    ⟨labels.getD i 0, ops.hashOf ((adj.getD i []).map fun j => labels.getD j 0), i⟩

/-- second loop: walk the sorted triples, bump the colour when (hash apart or old colour differs).
    Returns the list of (node, new colour). -/
def assign (ops : HashOps H) : Triple H → Nat → List (Triple H) → List (Nat × Nat)
  | _, _, [] => []
  | prev, label, t :: ts =>
    let label' := if ops.apart t.hash prev.hash || t.label != prev.label then label + 1 else label
    (t.node, label') :: assign ops t label' ts

/-- new colours of one round, as an assignment list (node, colour) in sorted order -/
def roundAssign (ops : HashOps H) (adj : List (List Nat)) (labels : List Nat) : List (Nat × Nat) :=
  match sortT ops (triples ops adj labels) with
  | [] => []
  | t :: ts => (t.node, 0) :: assign ops t 0 ts

def lookup (asg : List (Nat × Nat)) (i : Nat) : Nat :=
  match asg.find? (fun p => p.1 == i) with
  | some p => p.2
  | none => 0

/-- one iteration of the `while`: new labels and `has_changed` -/
def round (ops : HashOps H) (adj : List (List Nat)) (labels : List Nat) : List Nat × Bool :=
  let asg := roundAssign ops adj labels
  let new := tab adj.length (lookup asg)
  -- `has_changed` is only ever set in the loop `for j in range(1, n)`: the first sorted node is not compared
  let changed := (asg.drop 1).any fun p => labels.getD p.1 0 != p.2
  (new, changed)

/-- `weisfeiler_lehman_coloring(indptr, indices, labels, powers, max_iter)` -/
def coloring (ops : HashOps H) (adj : List (List Nat)) : Nat → List Nat → Bool → List Nat × Bool
  | 0, labels, ch => (labels, ch)
  | k+1, labels, ch =>
    if ch then
      let (l', c') := round ops adj labels
      coloring ops adj k l' c'
    else (labels, ch)

/-- `color_weisfeiler_lehman(adjacency, max_iter)`; a negative `max_iter` is `none` -/
def colorWL (ops : HashOps H) (adj : List (List Nat)) (maxIter : Option Nat) : List Nat :=
  let n := adj.length
  let k := match maxIter with
    | none => n
    | some m => if m > n then n else m
  (coloring ops adj k (tab n fun _ => 0) true).1

/-- `np.unique(labels, return_counts=True)[1]`: counts of the colours present, by increasing colour -/
def counts (labels : List Nat) : List Nat :=
  let m := labels.foldl max 0
  ((List.range (m+1)).map fun c => (labels.filter (· == c)).length).filter (· != 0)

/-- the `while` loop of `are_isomorphic` after the shape / nnz test.
    `none` = numpy's ValueError: `counts1 != counts2` on arrays of different lengths does not broadcast —
    unless one of them has length 1: then numpy broadcasts, and since both histograms sum to `n` the single
    count `n` differs from every entry of the longer one, so `.any()` is true and the answer is `False`. -/
def isoLoop (ops : HashOps H) (adj1 adj2 : List (List Nat)) :
    Nat → List Nat → List Nat → Bool → Bool → Option Bool
  | 0, _, _, _, _ => some true
  | k+1, l1, l2, c1, c2 =>
    if c1 || c2 then
      let (l1', c1') := coloring ops adj1 1 l1 true
      let (l2', c2') := coloring ops adj2 1 l2 true
      if (counts l1').length != (counts l2').length then
        (if (counts l1').length == 1 || (counts l2').length == 1 then some false else none)
      else if counts l1' != counts l2' then some false
      else isoLoop ops adj1 adj2 k l1' l2' c1' c2'
    else some true

def nnz (adj : List (List Nat)) : Nat := (adj.map List.length).foldl (· + ·) 0

/-- `are_isomorphic(adjacency1, adjacency2, max_iter)`; `none` = ValueError (a matrix without stored entries is
    refused by `check_format`, which is called without `allow_empty` here, unlike in `color_weisfeiler_lehman`) -/
def areIsomorphic (ops : HashOps H) (adj1 adj2 : List (List Nat)) (maxIter : Option Nat) : Option Bool :=
  if nnz adj1 == 0 || nnz adj2 == 0 then none
  else if adj1.length != adj2.length || nnz adj1 != nnz adj2 then some false
  else
    let n := adj1.length
    let k := match maxIter with
      | none => n
      | some m => if m > n then n else m
    isoLoop ops adj1 adj2 k (tab n fun _ => 0) (tab n fun _ => 0) true true

/-! ### the instance executed by the driver: float64 sums of the `powers` array -/

def floatOps (powers : Array Float) : HashOps Float where
  hashOf l := l.foldl (fun acc c => acc + powers.getD c 0.0) 0.0
  lt a b := a < b
  apart a b := Float.abs (a - b) > 1e-10

/-! ### an exact instance (used by the `spec` lines): the hash is the sorted list of neighbour colours -/

def insertNat (x : Nat) : List Nat → List Nat
  | [] => [x]
  | y :: ys => if x ≤ y then x :: y :: ys else y :: insertNat x ys

def sortNat (l : List Nat) : List Nat := l.foldr insertNat []

def ltList : List Nat → List Nat → Bool
  | [], [] => false
  | [], _ :: _ => true
  | _ :: _, [] => false
  | a :: as, b :: bs => if a < b then true else if b < a then false else ltList as bs

def exactOps : HashOps (List Nat) where
  hashOf l := sortNat l
  lt := ltList
  apart a b := a != b

end SkNet.WL
