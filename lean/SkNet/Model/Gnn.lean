/-
Model of sknetwork/gnn (property C19): layer.py (`Convolution.forward`), utils/check.py (`add_self_loops`),
linalg/normalizer.py (`diagonal_pseudo_inverse`), activation.py, loss.py, base.py (`predict_proba`),
gnn_classifier.py (`forward`, `_compute_predictions`), neighbor_sampler.py (`UniformNeighborSampler.__call__`).

Scalar-generic: the driver runs it at `Float` (float64, as numpy), the property file instantiates it at `ℝ`.
A matrix is its shape and its rows; every matrix the code creates is a `Mat.mk'` (a `tab` of `tab`s).
Where numpy/scipy raise (dimension mismatch of a product, label out of range, arg-max of an empty row, a container
`check_format` refuses) the model returns the error.
-/
import SkNet.Model.Basic

namespace SkNet.Gnn

inductive PyErr
  | valueError | indexError | typeError
deriving DecidableEq, Repr

def PyErr.show : PyErr → String
  | .valueError => "ValueError" | .indexError => "IndexError" | .typeError => "TypeError"

/-- The scalars of the GNN code: float64 when executed, `ℝ` in the theorems. -/
class Num (α : Type) extends Zero α, One α, Add α, Sub α, Mul α, Div α, Neg α where
  exp : α → α
  log : α → α
  sqrt : α → α
  /-- `a < b` as numpy decides it -/
  lt : α → α → Bool
  /-- `a == b` as numpy decides it -/
  eqb : α → α → Bool
  /-- the literal `p / q` (used for `0.5`, `1e-10`, `1e-15`) -/
  frac : Nat → Nat → α
  /-- an integer as a scalar (`len(labels)`, a label) -/
  nat : Nat → α

open Num

variable {α : Type} [Num α]

/-- `Σ_{j<n} f j` -/
def sumTo (n : Nat) (f : Nat → α) : α := ((List.range n).map f).sum

/-- A dense matrix with its shape (numpy `ndarray` of dimension 2, or the denotation of a scipy matrix). -/
structure Mat (α : Type) where
  r : Nat
  c : Nat
  d : List (List α)
deriving Repr

namespace Mat

/-- entry `(i, j)`; zero outside the stored rows -/
def get (M : Mat α) (i j : Nat) : α := (M.d.getD i []).getD j 0

/-- the `r × c` matrix with entries `f i j` -/
def mk' (r c : Nat) (f : Nat → Nat → α) : Mat α := ⟨r, c, tab r fun i => tab c fun j => f i j⟩

/-- row `i` as a list of length `c` -/
def row (M : Mat α) (i : Nat) : List α := tab M.c fun j => M.get i j

/-- a matrix from its rows (all of length `c`) -/
def ofRows (c : Nat) (rows : List (List α)) : Mat α := ⟨rows.length, c, rows⟩

end Mat

/-- denotation of a scipy CSR matrix: duplicates are summed -/
def csrToMat (m : Csr α) : Mat α :=
  Mat.mk' m.nRow m.nCol fun i j =>
    ((m.rowRange i).map fun p => if m.indices.getD p 0 == j then m.data.getD p 0 else 0).sum

/-! ### containers (`utils/check.py: check_format`) -/

/-- the type of the object handed in as a matrix: `check_format` accepts exactly `csr_matrix`, `csc_matrix`,
`coo_matrix`, `lil_matrix` and `np.ndarray` (tested with `type(x) in formats`); everything else (`csr_array`,
`np.matrix`, `dok_matrix`, `bsr_matrix`, `dia_matrix`, a list, …) is `other` -/
inductive Container | csrMatrix | cscMatrix | cooMatrix | lilMatrix | ndarray | other
deriving DecidableEq, Repr

/-- `check_format(input_matrix, allow_empty=True)`: a `TypeError` for a refused container, otherwise the CSR matrix
of the same entries (the denotation is what the rest of the model works on) -/
def checkFormat : Container → Except PyErr Unit
  | .other => .error .typeError
  | _ => .ok ()

/-! ### `Convolution.forward` -/

inductive Norm | left | right | both | none
deriving DecidableEq, Repr

inductive Act | identity | relu | sigmoid | softmax
deriving DecidableEq, Repr

/-- `adjacency.dot(np.ones(n_col))` -/
def rowSums (A : Mat α) : List α := tab A.r fun i => sumTo A.c fun j => A.get i j

/-- entry of `diagonal_pseudo_inverse(w)`: `sparse.diags(w)` stores the non-zero weights, `1 / data` inverts them -/
def pinv (x : α) : α := if eqb x 0 then 0 else 1 / x

/-- `diagonal_pseudo_inverse(weights)` -/
def pinvDiag (w : List α) : Mat α :=
  Mat.mk' w.length w.length fun i j => if i = j then pinv (w.getD i 0) else 0

/-- `a.dot(b)`; a dimension mismatch is scipy's / numpy's `ValueError` -/
def matmul (A B : Mat α) : Except PyErr (Mat α) :=
  if A.c ≠ B.r then .error .valueError
  else .ok (Mat.mk' A.r B.c fun i k => sumTo A.c fun j => A.get i j * B.get j k)

/-- `add_self_loops(adjacency)`: `diags(ones) + adjacency` when square, `adjacency += eye(n_row).resize(n_row, n_col)`
    otherwise -/
def addSelfLoops (A : Mat α) : Mat α :=
  Mat.mk' A.r A.c fun i j => if i = j then 1 + A.get i j else A.get i j

/-- the three normalisations of `Convolution.forward` (any other string: no normalisation) -/
def normalize (norm : Norm) (A : Mat α) : Except PyErr (Mat α) :=
  let w := rowSums A
  match norm with
  | .left => matmul (pinvDiag w) A
  | .right => matmul A (pinvDiag w)
  | .both => do
      let dinv := pinvDiag (w.map sqrt)
      let t ← matmul dinv A
      matmul t dinv
  | .none => .ok A

/-- `embedding += self.bias` (bias of shape `(1, out_channels)`, as `_initialize_weights` creates it; numpy would also
    broadcast a bias of length 1 — not modelled, unreachable through the public API) -/
def addBias (E : Mat α) (b : List α) : Except PyErr (Mat α) :=
  if b.length ≠ E.c then .error .valueError
  else .ok (Mat.mk' E.r E.c fun i k => E.get i k + b.getD k 0)

/-! ### activations (activation.py) -/

/-- `np.maximum(x, 0)` -/
def relu (x : α) : α := if lt x 0 then 0 else x

/-- `special.expit(x)` -/
def sigmoid (x : α) : α := 1 / (1 + exp (-x))

/-- maximum of a row (first element as start) -/
def rowMax (l : List α) : α :=
  match l with
  | [] => 0
  | x :: xs => xs.foldl (fun m y => if lt m y then y else m) x

/-- `special.softmax` on one row: shifted by the row maximum -/
def softmaxRow (l : List α) : List α :=
  let m := rowMax l
  let e := l.map fun x => exp (x - m)
  let s := e.sum
  e.map fun x => x / s

/-- `activation.output(signal)` -/
def actOutput (a : Act) (S : Mat α) : Mat α :=
  match a with
  | .identity => S
  | .relu => Mat.mk' S.r S.c fun i j => relu (S.get i j)
  | .sigmoid => Mat.mk' S.r S.c fun i j => sigmoid (S.get i j)
  | .softmax => Mat.mk' S.r S.c fun i j => (softmaxRow (S.row i)).getD j 0

/-- `activation.gradient(signal, direction)` for a direction of the signal's shape (numpy would also broadcast a
    `(1, c)` or `(n, 1)` direction — not modelled; `backward` always passes the signal's shape) -/
def actGradient (a : Act) (S D : Mat α) : Except PyErr (Mat α) :=
  if S.r ≠ D.r ∨ S.c ≠ D.c then .error .valueError
  else
    match a with
    | .identity => .ok D
    | .relu => .ok (Mat.mk' S.r S.c fun i j => D.get i j * (if lt 0 (S.get i j) then 1 else 0))
    | .sigmoid => .ok (Mat.mk' S.r S.c fun i j =>
        let o := sigmoid (S.get i j)
        o * (1 - o) * D.get i j)
    | .softmax => .ok (Mat.mk' S.r S.c fun i j =>
        let o := softmaxRow (S.row i)
        o.getD j 0 * (D.get i j - sumTo S.c fun l => o.getD l 0 * D.get i l))

structure LayerCfg where
  norm : Norm
  selfEmb : Bool
  act : Act
deriving Repr

/-- `Convolution.forward(adjacency, features)` with the layer's weight and (optional) bias -/
def forward (cfg : LayerCfg) (A X W : Mat α) (b : Option (List α)) : Except PyErr (Mat α) := do
  let A1 ← normalize cfg.norm A
  let A2 := if cfg.selfEmb then addSelfLoops A1 else A1
  let message ← matmul A2 X
  let embedding ← matmul message W
  let embedding ← match b with
    | some b => addBias embedding b
    | none => pure embedding
  pure (actOutput cfg.act embedding)

/-- `Convolution.forward` on an adjacency handed in as container `k`: `check_format` first -/
def forwardIn (k : Container) (cfg : LayerCfg) (A X W : Mat α) (b : Option (List α)) : Except PyErr (Mat α) := do
  checkFormat k
  forward cfg A X W b

/-- one layer with its trained parameters -/
structure Layer (α : Type) where
  cfg : LayerCfg
  W : Mat α
  b : Option (List α)

/-- `GNNClassifier.forward(adjacencies, features)`: one (sampled) adjacency per layer -/
def gnnForward : List (Layer α × Mat α) → Mat α → Except PyErr (Mat α)
  | [], h => .ok h
  | (l, A) :: rest, h => do
      let h' ← forward l.cfg A h l.W l.b
      gnnForward rest h'

/-! ### losses (loss.py) -/

/-- `np.clip(x, lo, hi)` = `minimum(maximum(x, lo), hi)` -/
def clip (x lo hi : α) : α :=
  let y := if lt x lo then lo else x
  if lt hi y then hi else y

def eps10 : α := frac 1 10000000000
def eps15 : α := frac 1 1000000000000000

/-- the labels index the columns: `probs[np.arange(n), labels]` -/
def labelsOk (S : Mat α) (labels : List Nat) : Except PyErr Unit :=
  if labels.length > S.r then .error .indexError
  else if labels.all (· < S.c) then .ok () else .error .indexError

/-- `Σ_{i<n} f i (labels[i])` -/
def sumLab (labels : List Nat) (f : Nat → Nat → α) : α :=
  sumTo labels.length fun i => f i (labels.getD i 0)

/-- `CrossEntropy.loss(signal, labels)` -/
def ceLoss (S : Mat α) (labels : List Nat) : Except PyErr α := do
  labelsOk S labels
  let P := actOutput .softmax S
  let value := - sumLab labels fun i y => log (clip (P.get i y) eps10 (1 - eps10))
  pure (value / nat labels.length)

/-- `(i, k)` is one of the positions `(np.arange(n), labels)` -/
def isLabel (labels : List Nat) (i k : Nat) : Bool := decide (i < labels.length) && labels.getD i 0 == k

/-- `one_hot_encoding[np.arange(n), labels] = 1` -/
def oneHot (labels : List Nat) (i k : Nat) : α := if isLabel labels i k then 1 else 0

/-- `CrossEntropy.loss_gradient(signal, labels)` -/
def ceLossGradient (S : Mat α) (labels : List Nat) : Except PyErr (Mat α) := do
  labelsOk S labels
  let P := actOutput .softmax S
  pure (Mat.mk' S.r S.c fun i k => P.get i k - oneHot labels i k)

/-- `BinaryCrossEntropy.loss(signal, labels)`: one channel = binary labels (`> 0` / `== 0`), several channels =
    one-versus-rest -/
def bceLoss (S : Mat α) (labels : List Nat) : Except PyErr α := do
  let P := actOutput .sigmoid S
  let p := fun i k => clip (P.get i k) eps15 (1 - eps15)
  let n : α := nat labels.length
  if S.c = 1 then
    if labels.length ≠ S.r then throw .indexError
    let pos := sumTo S.r fun i => if labels.getD i 0 > 0 then log (p i 0) else 0
    let neg := sumTo S.r fun i => if labels.getD i 0 = 0 then log (1 - p i 0) else 0
    pure ((- pos - neg) / n)
  else
    labelsOk S labels
    let value := sumTo S.r fun i => sumTo S.c fun k =>
      if isLabel labels i k then - log (p i k) else - log (1 - p i k)
    pure (value / n)

/-- `BinaryCrossEntropy.loss_gradient` as on the pinned tree (before the repair of F14):
    `(probs.T - labels).T` for any number of channels (labels of the signal's length) -/
def bceLossGradientPinned (S : Mat α) (labels : List Nat) : Except PyErr (Mat α) :=
  if labels.length ≠ S.r then .error .valueError
  else
    let P := actOutput .sigmoid S
    .ok (Mat.mk' S.r S.c fun i k => P.get i k - nat (labels.getD i 0))

/-- `BinaryCrossEntropy.loss_gradient` with one channel, `(probs.T - labels).T`, with numpy's broadcasting of a
`(1, n)` row against `m` labels: the usual case `m = n`; one label is subtracted from every sample; one sample against
`m` labels gives an `m × 1` matrix; anything else is numpy's `ValueError` -/
def bceGradOneChannel (S : Mat α) (labels : List Nat) : Except PyErr (Mat α) :=
  let P := actOutput .sigmoid S
  if labels.length = S.r then .ok (Mat.mk' S.r 1 fun i k => P.get i k - nat (labels.getD i 0))
  else if labels.length = 1 then .ok (Mat.mk' S.r 1 fun i k => P.get i k - nat (labels.getD 0 0))
  else if S.r = 1 then .ok (Mat.mk' labels.length 1 fun i _ => P.get 0 0 - nat (labels.getD i 0))
  else .error .valueError

/-- `BinaryCrossEntropy.loss_gradient(signal, labels)` (repaired): the label itself with one channel,
    its one-hot encoding with several channels -/
def bceLossGradient (S : Mat α) (labels : List Nat) : Except PyErr (Mat α) :=
  if S.c = 1 then bceGradOneChannel S labels
  else do
    labelsOk S labels
    let P := actOutput .sigmoid S
    pure (Mat.mk' S.r S.c fun i k => P.get i k - oneHot labels i k)

/-! ### predictions (gnn_classifier.py, base.py) -/

/-- one step of the scan for the first maximum: state = (best position, next position, best value) -/
def argStep (st : Nat × Nat × α) (y : α) : Nat × Nat × α :=
  if lt st.2.2 y then (st.2.1, st.2.1 + 1, y) else (st.1, st.2.1 + 1, st.2.2)

/-- `row.argmax()`: first position of the maximum -/
def argmax (l : List α) : Nat :=
  match l with
  | [] => 0
  | x :: xs => (xs.foldl argStep (0, 1, x)).1

/-- `GNNClassifier._compute_predictions(output)` -/
def computePredictions (O : Mat α) : Except PyErr (List Nat) :=
  if O.c = 1 then .ok (tab O.r fun i => if lt (frac 1 2) (O.get i 0) then 1 else 0)
  else if O.c = 0 then .error .valueError
  else .ok (tab O.r fun i => argmax (O.row i))

inductive LossKind | crossEntropy | binaryCrossEntropy
deriving DecidableEq, Repr

/-- `BaseGNN.predict_proba()` (repaired): two columns for one channel, normalised one-versus-rest scores for
    several sigmoid channels, the soft-max output otherwise -/
def predictProba (loss : LossKind) (O : Mat α) : Mat α :=
  if O.c = 1 then Mat.mk' O.r 2 fun i k => if k = 0 then 1 - O.get i 0 else O.get i 0
  else match loss with
    | .crossEntropy => O
    | .binaryCrossEntropy => Mat.mk' O.r O.c fun i k => O.get i k / sumTo O.c fun l => O.get i l

/-! ### configuration (layer.py `get_layer`, base_layer.py `BaseLayer.__init__`, activation.py `get_activation`,
loss.py `get_loss`, utils.py `check_loss`, `check_output`) -/

/-- `'x' in s` -/
def hasSub (s sub : String) : Bool := (s.splitOn sub).length > 1

/-- `get_activation(name)` for a string -/
def getActivation (name : String) : Except PyErr Act :=
  let a := name.toLower
  if a == "identity" || a == "" then .ok .identity
  else if a == "relu" then .ok .relu
  else if a == "sigmoid" then .ok .sigmoid
  else if a == "softmax" then .ok .softmax
  else .error .valueError

/-- `get_loss(name)` for a string -/
def getLoss (name : String) : Except PyErr LossKind :=
  let l := name.toLower.replace " " ""
  if l == "crossentropy" || l == "ce" then .ok .crossEntropy
  else if l == "binarycrossentropy" || l == "bce" then .ok .binaryCrossEntropy
  else .error .valueError

/-- the activation a loss applies to the signal (`CrossEntropy(BaseLoss, Softmax)`, `BinaryCrossEntropy(BaseLoss, Sigmoid)`) -/
def lossAct : LossKind → Act
  | .crossEntropy => .softmax
  | .binaryCrossEntropy => .sigmoid

/-- `self.normalization = normalization.lower()` (`None` stays `None`, repaired); `forward` knows 'left', 'right',
'both' — `None` and any other string mean "no normalisation" on a bare layer -/
def getNorm (name : Option String) : Norm :=
  match name with
  | none => .none
  | some name =>
    let n := name.toLower
    if n == "left" then .left else if n == "right" then .right else if n == "both" then .both else .none

/-- `check_normalizations` of `GNNClassifier` (one entry per given value): a string must be 'left', 'right' or 'both'
in any case; `None` (documented: no normalisation) passes (repaired) -/
def checkNormalizations (names : List (Option String)) : Except PyErr Unit :=
  if names.all (fun nm => match nm with
      | none => true
      | some s => let n := s.toLower; n == "left" || n == "right" || n == "both") then .ok ()
  else .error .valueError

/-- The decisions of `get_layer` + `BaseLayer.__init__` + `check_loss` on the parsed arguments: `isSage` / `isConv` =
'sage' / 'conv' occurs in the lower-cased layer name, `act` / `loss` = what `get_activation` / `get_loss` answered.
A GraphSAGE layer forces left normalisation and the self-embedding; a loss replaces the activation; cross-entropy on
one output channel becomes binary cross-entropy. -/
def resolveParsed (isSage isConv : Bool) (act : Except PyErr Act) (loss : Option (Except PyErr LossKind)) (norm : Norm)
    (selfEmb : Bool) (outChannels : Nat) : Except PyErr (LayerCfg × Option LossKind) := do
  let (norm, se) ←
    if isSage then pure (Norm.left, true)
    else if isConv then pure (norm, selfEmb)
    else throw PyErr.valueError
  match loss with
  | none =>
    let a ← act
    pure ({ norm := norm, selfEmb := se, act := a }, none)
  | some l =>
    let k ← l
    let k := if k == .crossEntropy && outChannels == 1 then LossKind.binaryCrossEntropy else k
    pure ({ norm := norm, selfEmb := se, act := lossAct k }, some k)

/-- `get_layer(layer, activation=…, normalization=…, self_embeddings=…, loss=…)` for a string `layer`, followed by
`check_loss` when it carries a loss.  Returns the configuration of the layer and the loss it carries (if any). -/
def resolveLayer (layer activation : String) (loss : Option String) (normalization : Option String) (selfEmb : Bool)
    (outChannels : Nat) : Except PyErr (LayerCfg × Option LossKind) :=
  let name := layer.toLower
  resolveParsed (hasSub name "sage") (hasSub name "conv") (getActivation activation) (loss.map getLoss)
    (getNorm normalization) selfEmb outChannels

/-- `check_output(n_channels, labels)`: more than two distinct labels need as many channels -/
def checkOutput (nChannels : Nat) (labels : List Nat) : Except PyErr Unit :=
  let nLabels := labels.eraseDups.length
  if nLabels > 2 && nLabels > nChannels then .error .valueError else .ok ()

/-! ### `UniformNeighborSampler.__call__` -/

/-- entry `j` of a stored CSR row of (column, value) pairs: duplicates are summed -/
def entrySum (row : List (Nat × α)) (j : Nat) : α := (row.map fun e => if e.1 == j then e.2 else 0).sum

/-- The neighbours of a node as the sampler sees them (repaired): `sum_duplicates()` then `eliminate_zeros()` on the CSR
row — the columns `j < nCol`, in increasing order, whose summed stored value is not zero. -/
def neighbours (nCol : Nat) (row : List (Nat × α)) : List Nat :=
  (List.range nCol).filter fun j => !(eqb (entrySum row j) 0)

/-- One row of the sampled adjacency: the neighbours are positions `0 … deg-1`, their data are zeroed, the chosen
positions `ch` are set to 1 and `eliminate_zeros()` drops the rest.  Returns the column indices kept (all data are 1: the
weights are not kept).  `ch` is what `np.random.choice(deg, min(deg, sample_size), replace=False)` returned. -/
def sampleRow (nCol : Nat) (row : List (Nat × α)) (ch : List Nat) : List Nat :=
  let nb := neighbours nCol row
  ((List.range nb.length).filter fun p => ch.contains p).map fun p => nb.getD p 0

/-- `UniformNeighborSampler.__call__` on the CSR rows of the adjacency (any container is converted to CSR first) -/
def sampleRows (nCol : Nat) (rows : List (List (Nat × α))) (choice : List (List Nat)) : List (List Nat) :=
  tab rows.length fun i => sampleRow nCol (rows.getD i []) (choice.getD i [])

/-- `GNNClassifier._sample_nodes` samples the adjacency of a layer whose type contains 'sage' in any case (repaired: the
test was `== 'sage'`, so the documented spelling `Convolution('Sage', …)` was not sampled); other layers get the graph -/
def isSageType (layerType : String) : Bool := hasSub layerType.toLower "sage"

/-- `np.random.choice(size, size=min(size, sample_size), replace=False)` returned a legal sample -/
def choiceOk (deg sampleSize : Nat) (ch : List Nat) : Bool :=
  ch.length == min deg sampleSize && ch.all (· < deg) && decide ch.Nodup

/-! ### float64 instance (what the driver executes) -/

instance : Num Float where
  exp := Float.exp
  log := Float.log
  sqrt := Float.sqrt
  lt a b := a < b
  eqb a b := a == b
  frac p q := Float.ofNat p / Float.ofNat q
  nat := Float.ofNat

end SkNet.Gnn
