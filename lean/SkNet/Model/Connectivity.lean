/-
Model of sknetwork/topology/structure.py (property C12):
  get_connected_components, is_connected, get_largest_connected_component, is_bipartite
together with the helpers they go through (utils/check.py: check_format, is_symmetric, is_square;
utils/format.py: get_adjacency, bipartite2undirected).

A matrix enters as the code reads it (`Mat`): its shape, for every row the *stored column indices in
storage order* (`adjacency.indices[indptr[i]:indptr[i+1]]`, the order matters for every search of the
file) and the dense value of every entry (`adjacency[i, j]`, `adjacency.diagonal()`).

scipy's `sparse.csgraph.connected_components` is external: it is the parameter `cc` (adjacency and
connection mode to labels); its contract is `SkNet.Connectivity.IsLabelling` (Spec/Connectivity.lean),
checked on what scipy returned by a `contract` line on every run.
-/
import SkNet.Model.Basic

namespace SkNet.Connectivity

inductive PyErr
  | valueError | indexError | typeError
deriving DecidableEq, Repr

def PyErr.show : PyErr → String
  | .valueError => "ValueError" | .indexError => "IndexError" | .typeError => "TypeError"

/-- A sparse matrix as the code reads it. -/
structure Mat where
  nRow : Nat
  nCol : Nat
  /-- stored column indices of row `i`, in storage order -/
  adj : Nat → List Nat
  /-- value of the entry `(i, j)` (0 when nothing is stored) -/
  val : Nat → Nat → Rat

namespace Mat

/-- `input_matrix.nnz` = `len(input_matrix.data)`: number of stored entries -/
def nnz (m : Mat) : Nat := ((List.range m.nRow).map fun i => (m.adj i).length).sum

/-- `is_square` -/
def isSquare (m : Mat) : Bool := m.nRow == m.nCol

/-- `is_symmetric`: `csr_matrix(A - A.T).nnz == 0` (scipy drops the zero results of a subtraction);
    on a non-square matrix the subtraction raises ValueError -/
def isSymmetric (m : Mat) : Except PyErr Bool :=
  if m.nRow != m.nCol then .error .valueError
  else .ok ((List.range m.nRow).all fun i => (List.range m.nRow).all fun j => m.val i j == m.val j i)

/-- `bipartite2undirected`: `[[0, B], [Bᵀ, 0]]` (rows first) -/
def block (m : Mat) : Mat where
  nRow := m.nRow + m.nCol
  nCol := m.nRow + m.nCol
  adj := fun i =>
    if i < m.nRow then (m.adj i).map (· + m.nRow)
    else (List.range m.nRow).filter fun r => (m.adj r).contains (i - m.nRow)
  val := fun i j =>
    if i < m.nRow then (if j < m.nRow then 0 else m.val i (j - m.nRow))
    else (if j < m.nRow then m.val j (i - m.nRow) else 0)

end Mat

/-- `check_format(input_matrix)` with `allow_empty=False`: a matrix without stored entry is refused -/
def checkFormat (m : Mat) : Except PyErr Unit :=
  if m.nnz == 0 then .error .valueError else .ok ()

/-- `get_adjacency(input_matrix, force_bipartite=…)` (allow_directed=True, force_directed=False) -/
def getAdjacency (m : Mat) (forceBipartite : Bool) : Except PyErr (Mat × Bool) :=
  match checkFormat m with
  | .error e => .error e
  | .ok () =>
    let bipartite := forceBipartite || !m.isSquare
    if bipartite then .ok (m.block, true) else .ok (m, false)

/-! ### numpy helpers on label vectors -/

def maxOf : List Nat → Nat
  | [] => 0
  | a :: l => max a (maxOf l)

/-- `np.unique(labels)` for non-negative integer labels: the sorted distinct values -/
def npUnique (labels : List Nat) : List Nat :=
  (List.range (maxOf labels + 1)).filter fun v => labels.contains v

/-- `np.argmax(counts)`: the first position holding the maximum -/
def argmax (l : List Nat) : Nat := l.idxOf (maxOf l)

/-- `np.argwhere(labels == v).ravel()` -/
def argwhereEq (labels : List Nat) (v : Nat) : List Nat :=
  (List.range labels.length).filter fun i => labels.getD i 0 == v

/-! ### get_connected_components, is_connected -/

/-- External labelling: `sparse.csgraph.connected_components(adjacency, connection=…, return_labels=True)[1]`;
    `strong = true` is `connection='strong'`. -/
abbrev CC := Mat → Bool → List Nat

/-- `get_connected_components(input_matrix, connection, force_bipartite)` -/
def getConnectedComponents (cc : CC) (m : Mat) (strong : Bool) (forceBipartite : Bool) :
    Except PyErr (List Nat) :=
  match checkFormat m with                        -- check_format, then `len(input_matrix.data) == 0`
  | .error e => .error e
  | .ok () =>
    match getAdjacency m forceBipartite with
    | .error e => .error e
    | .ok (adjacency, _) => .ok (cc adjacency strong)

/-- `is_connected`: `len(set(labels)) == 1` -/
def isConnected (cc : CC) (m : Mat) (strong : Bool) (forceBipartite : Bool) : Except PyErr Bool :=
  match getConnectedComponents cc m strong forceBipartite with
  | .error e => .error e
  | .ok labels => .ok ((npUnique labels).length == 1)

/-! ### get_largest_connected_component -/

/-- `input_matrix[index_row, :]` then `.tocsc()[:, index_col]`: rows first, then columns (dense values) -/
def subMatrix (m : Mat) (indexRow indexCol : List Nat) : List (List Rat) :=
  let rowsSel : List (Nat → Rat) := indexRow.map fun i => m.val i        -- input_matrix[index_row, :]
  rowsSel.map fun r => indexCol.map fun j => r j                         -- [:, index_col]

structure Largest where
  matrix : List (List Rat)
  index : List Nat
  /-- number of leading entries of `index` that are rows (bipartite case; all of them otherwise) -/
  nIndexRow : Nat
deriving Repr

/-- `get_largest_connected_component(input_matrix, connection, force_bipartite, return_index=True)` -/
def getLargestConnectedComponent (cc : CC) (m : Mat) (strong : Bool) (forceBipartite : Bool) :
    Except PyErr Largest :=
  match getAdjacency m forceBipartite with        -- (check_format first: the same refusal)
  | .error e => .error e
  | .ok (adjacency, bipartite) =>
    match getConnectedComponents cc adjacency strong false with
    | .error e => .error e
    | .ok labels =>
      let uniqueLabels := npUnique labels
      let counts := uniqueLabels.map fun v => labels.count v
      let largest := uniqueLabels.getD (argmax counts) 0
      if bipartite then
        let indexRow := argwhereEq (labels.take m.nRow) largest
        let indexCol := argwhereEq (labels.drop m.nRow) largest
        .ok ⟨subMatrix m indexRow indexCol, indexRow ++ indexCol, indexRow.length⟩
      else
        let index := argwhereEq labels largest
        .ok ⟨subMatrix m index index, index, index.length⟩

/-! ### is_bipartite -/

/-- state of the search: `coloring` (-1 = not coloured), `next_nodes` (head = top of the Python list),
    `exists_remaining` -/
structure BipState where
  coloring : List Int
  stack : List Nat
  remaining : Int
deriving Repr

/-- `for neighbor in adjacency.indices[indptr[node]:indptr[node+1]]`; `.error ()` is the early `return False` -/
def forNeighbors (node : Nat) : List Nat → BipState → Except Unit BipState
  | [], s => .ok s
  | nb :: rest, s =>
    if s.coloring.getD nb (-1) == -1 then
      forNeighbors node rest
        { coloring := s.coloring.set nb (1 - s.coloring.getD node (-1)),
          stack := nb :: s.stack,
          remaining := s.remaining - 1 }
    else if s.coloring.getD nb (-1) == s.coloring.getD node (-1) then .error ()
    else forNeighbors node rest s

/-- `while next_nodes:`; `none` = out of fuel -/
def innerLoop (adj : Nat → List Nat) : Nat → BipState → Option (Except Unit BipState)
  | 0, _ => none
  | fuel+1, s =>
    match s.stack with
    | [] => some (.ok s)
    | node :: rest =>
      match forNeighbors node (adj node) { s with stack := rest } with
      | .error () => some (.error ())
      | .ok s' => innerLoop adj fuel s'

/-- `np.argwhere(coloring == -1)[0, 0]` (IndexError when every node is coloured) -/
def firstUncoloured (coloring : List Int) : Option Nat :=
  (List.range coloring.length).find? fun i => coloring.getD i 0 == -1

inductive BipResult
  | fuel                      -- a loop ran out of fuel (never: `Properties.C12`)
  | raised (e : PyErr)
  | no                        -- `return False`
  | yes (coloring : List Int)
deriving Repr

/-- `while exists_remaining:` -/
def outerLoop (adj : Nat → List Nat) (innerFuel : Nat) : Nat → BipState → BipResult
  | 0, _ => .fuel
  | fuel+1, s =>
    if s.remaining == 0 then .yes s.coloring
    else
      match firstUncoloured s.coloring with
      | none => .raised .indexError
      | some src =>
        match innerLoop adj innerFuel
            { coloring := s.coloring.set src 0, stack := [src], remaining := s.remaining - 1 } with
        | none => .fuel
        | some (.error ()) => .no
        | some (.ok s') => outerLoop adj innerFuel fuel s'

/-- the two-colouring search of `is_bipartite` on `n` nodes -/
def colourSearch (n : Nat) (adj : Nat → List Nat) : BipResult :=
  outerLoop adj (2 * n + 2) (n + 1) { coloring := List.replicate n (-1), stack := [], remaining := n }

inductive BipOut
  | fuel
  | raised (e : PyErr)
  | no
  | yes (biadjacency : List (List Rat)) (rows cols : List Nat)
deriving Repr

/-- `is_bipartite(adjacency, return_biadjacency=True)` -/
def isBipartite (m : Mat) : BipOut :=
  match m.isSymmetric with
  | .error e => .raised e
  | .ok false => .raised .valueError
  | .ok true =>
    if (List.range m.nRow).any (fun i => m.val i i != 0) then .no       -- adjacency.diagonal().any()
    else
      match colourSearch m.nRow m.adj with
      | .fuel => .fuel
      | .raised e => .raised e
      | .no => .no
      | .yes coloring =>
        let rows := (List.range coloring.length).filter fun i => coloring.getD i (-1) == 0
        let cols := (List.range coloring.length).filter fun i => coloring.getD i (-1) == 1
        .yes (subMatrix m rows cols) rows cols

end SkNet.Connectivity
